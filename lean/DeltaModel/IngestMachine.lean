import DeltaModel.Machine
import DeltaModel.IngestLine
import DeltaModel.Generated.Ingest
import DeltaModel.Generated.IngestMachine
/-!
## The line state machine fed by the ingest model (C01, session 4, T4)

`StateMachine::consume` (`/repo/src/delta.rs`) calls `ingest_line` on every input line before any
handler runs; the handlers read `self.line` / `self.raw_line` only. `Machine.run` takes these two
strings as *inputs* (`L.text`, `L.raw`). Here they are *computed* from the input line:

* the CR step and the `--max-line-length` truncation are `Line.crStep` / `Line.truncate` of
  `DeltaModel/Sgr.lean` (the character-level model of `truncate_str_impl`, C09), applied under the
  guard that is regenerated from the source (`Generated.truncGuard`, C04's extractor);
* `self.line = strip_ansi_codes(&self.raw_line)` is `textOf`: the text items of the same item list;
* the result, together with the per-line facts the machine model takes from the implementation
  (regex matches, segmentation of the ingested line), is the `L` that `Machine.step` consumes.

As everywhere (DESIGN.md 3) Unicode enters pre-segmented: an input line comes with the partition of
its CR-processed form into text (grapheme clusters with display widths) and escape sequences
(`RawLine.items`; `RawLine.wf` says it is a partition of that line) and with the result of the CR
test. What the handlers make the row text from, that nothing between `ingest_line` and the handlers
rewrites the line, and the truncation symbol are regenerated from the source
(`Generated.IngestMachine`, `tools/extractors/ingestmachine.py`) and compared with the form modelled
here (`sourcesAsModelled`). Core Lean only.
-/
namespace IngestMachine
open Line Machine Headers

/-- `str::len()`: length in bytes (UTF-8). -/
def utf8Len (s : Str) : Nat := (s.map Char.utf8Size).sum

/-- a byte-string literal of the source (ASCII) as characters -/
def litChars (p : List UInt8) : Str := p.map fun b => Char.ofNat b.toNat

/-- The guard of the `truncate_str` call in `ingest_line_utf8`, on the CR-processed line `r1`. -/
def truncates (maxLen : Nat) (r1 : Str) : Bool :=
  Generated.truncGuard maxLen (utf8Len r1) (fun p => startsWith r1 (litChars p))

/-- the grapheme clusters of the text items, in order -/
def gsOf : List Item → List G
  | [] => []
  | .text gs :: rest => gs ++ gsOf rest
  | .esc _ :: rest => gsOf rest

def gChars (gs : List G) : Str := gs.flatMap fun g => g.s
def gWidth (gs : List G) : Nat := (gs.map fun g => g.w).sum

/-- `strip_ansi_codes` of an item list: the text items only. -/
def textOf (items : List Item) : Str := gChars (gsOf items)

/-- An input line as `ingest_line_utf8` receives it (valid UTF-8, or lossily converted), with what the
implementation's Unicode tables say about it and the per-line facts of the machine model. -/
structure RawLine where
  /-- the input line, newline removed -/
  chars : Str
  /-- `measure_text_width(&raw_line[cr_index + 1..]) == 0` (irrelevant when the line has no `\r`) -/
  tailZeroWidth : Bool
  /-- the CR-processed line as text (clusters, widths) and escape sequences -/
  items : List Item
  /-- regex facts / segmentation of the ingested line (`raw` and `text` of this record are not used) -/
  facts : L

/-- the line after the CR step -/
def RawLine.r1 (r : RawLine) : Str := crStep r.tailZeroWidth r.chars

/-- the items are a partition of the CR-processed line -/
def RawLine.wf (r : RawLine) : Bool := flatten r.items == r.r1

structure ICfg where
  /-- `Config::max_line_length` (unified view: the option `--max-line-length`; 0 = no limit) -/
  maxLen : Nat
  /-- `Config::truncation_symbol` as items -/
  sym : List Item

/-- `Config::truncation_symbol`, from the generated parts; `w` = the display width of its text. -/
def symItems (w : Nat) : List Item :=
  Generated.IngestMachine.truncationSymbol.map fun p =>
    if p.1 then Item.esc p.2.toList else Item.text [⟨p.2.toList, w⟩]

/-- `ingest_line_utf8` on items: the item list of `raw_line`. `none` = the `debug_assert!` of
`truncate_str_impl` on a cluster wider than 2 columns (dev profile). -/
def ingestItems (ic : ICfg) (r : RawLine) : Option (List Item) :=
  if truncates ic.maxLen r.r1 then truncate ic.maxLen ic.sym (some ' ') r.items else some r.items

/-- `(raw_line, line)` after `ingest_line_utf8`. -/
def ingest (ic : ICfg) (r : RawLine) : Option (Str × Str) :=
  (ingestItems ic r).map fun o => (flatten o, textOf o)

/-- the line the handlers see -/
def toL (ic : ICfg) (r : RawLine) : Option L :=
  (ingestItems ic r).map fun o => { r.facts with raw := flatten o, text := textOf o }

def ingestAll (ic : ICfg) : List RawLine → Option (List L)
  | [] => some []
  | r :: rs =>
    match toL ic r with
    | none => none
    | some l =>
      match ingestAll ic rs with
      | none => none
      | some ls => some (l :: ls)

/-- `delta()` on raw input lines: every line is ingested, then consumed by the state machine. -/
def runRaw (ic : ICfg) (cfg : Cfg) (rs : List RawLine) : Except String M :=
  match ingestAll ic rs with
  | none => .error "debug_assert: strange grapheme width (truncate_str_impl)"
  | some ls => run cfg ls

/-! ### The source as modelled -/

/-- The input loop: ingest first, then the source detection; then the handler chain. -/
def modelledLoopHead : List String :=
  ["self.ingest_line(raw_line_bytes)",
   "if self.source == Source::Unknown { self.source = detect_source(&self.line); if self.source == Source::DiffUnified { self.minus_line_counter = AmbiguousDiffMinusCounter::prepare_to_count(); } }"]

/-- The only rewrite of the line outside `ingest_line_utf8`: the grep handler expands tabs in its own
lines (it stands after the hunk handler in the chain and claims grep lines only; C16). -/
def modelledLineWrites : List String :=
  ["src/handlers/grep.rs: self.raw_line = tabs::expand(&self.raw_line, &self.config.tab_cfg);",
   "src/handlers/grep.rs: self.raw_line = tabs::expand(&self.raw_line, &self.config.tab_cfg);"]

/-- `Machine.hunkLinePush`: removed / added / unchanged lines are `prepare cfg n l` — of `l.text` —,
the `_` arm is `Text.expand cfg.tab l.raw`; `Machine.newLineState` classifies `l.text`. -/
def modelledHunkLineSources : List (String × String × String) :=
  [("HunkMinus", "prepare", "&self.line"), ("HunkPlus", "prepare", "&self.line"),
   ("HunkZero", "prepare", "&self.line"), ("_", "tabs::expand", "&self.raw_line")]

def sourcesAsModelled : Bool :=
  Generated.IngestMachine.consumeLoopHead == modelledLoopHead &&
  Generated.IngestMachine.lineWritesOutsideIngest == modelledLineWrites &&
  Generated.IngestMachine.newLineStateArgs.take 2 == ["&self.line", "&self.raw_line"] &&
  Generated.IngestMachine.hunkLineSources == modelledHunkLineSources &&
  Generated.IngestMachine.conflictLineSource == ("prepare", "&self.line") &&
  Generated.IngestMachine.unifiedMaxLineLength == "opt.max_line_length"

end IngestMachine
