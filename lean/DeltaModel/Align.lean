import DeltaModel.Generated.AlignCosts
/-!
Model of /repo/src/align.rs.

* The cost constants, the `candidates` array (order, parent, operation, cost kind), the border
  initialisation and the penalty rule are *generated* from the source on every run
  (`Generated.Align`); this file consumes them.
* The table is a list of columns: column `i` holds the cells `(i, 0) … (i, |y|)`; cell `(i, j)`
  is Rust's `table[j * dim[1] + i]`. Rust fills `for x_i { for y_j { … } }`, i.e. column by
  column, each cell from `up = (i+1, j)`, `left = (i, j+1)`, `diag = (i, j)`.
* A cell's `parent` is the coordinate pair of the parent cell instead of Rust's flat index
  (`parent == 0` ⇔ `parent = (0, 0)`, because `i < dim[1]`).
* `usize::MAX` (cost of the NoOp candidate for unequal tokens) is modelled as "candidate
  absent": equivalent as long as real costs stay below 2^64 − 1 (lines shorter than 2^61 tokens).
* Tokens are any type with decidable equality (the driver uses the token text).
-/
namespace Align
open Generated.Align

abbrev Op := Oper

structure Cell where
  parent : Nat × Nat
  op : Op
  cost : Nat
deriving DecidableEq, Repr

/-- `table[0]`. -/
def origin : Cell := ⟨(0, 0), originOp, 0⟩

/-- `Alignment::mismatch_cost`. -/
def mismatchCost (parent : Cell) (basic : Nat) : Nat :=
  parent.cost + basic + (if parent.op = penaltyAfter then initialMismatchPenalty else 0)

/-- `Iterator::min_by_key(|c| c.cost)`: the *first* element of minimal cost. -/
def minByCost : List Cell → Option Cell
  | [] => none
  | c :: cs =>
    match minByCost cs with
    | none => some c
    | some m => if c.cost ≤ m.cost then some c else some m

/-- A neighbouring cell together with its coordinates. -/
structure Nbr where
  cell : Cell
  pos : Nat × Nat

/-- One entry of the generated `candidates` array, instantiated at a table position. -/
def candidate (up left diag : Nbr) (eq : Bool) (c : Parent × Oper × CostKind) : Option Cell :=
  let p := match c.1 with
    | .up => up
    | .left => left
    | .diag => diag
  match c.2.2 with
  | .mismatch basic => some ⟨p.pos, c.2.1, mismatchCost p.cell basic⟩
  | .parentCostIfEqualElseMax => if eq then some ⟨p.pos, c.2.1, p.cell.cost⟩ else none

/-- The new cell: first candidate of minimal cost, candidates in source order. -/
def choose (up left diag : Nbr) (eq : Bool) : Option Cell :=
  minByCost (candidates.filterMap (candidate up left diag eq))

/-- Cells `(0, j+1), (0, j+2), …` (`n` of them). -/
def firstColFrom : Nat → Nat → List Cell
  | _, 0 => []
  | j, n + 1 => ⟨(0, 0), firstColOp, (j + 1) * firstColStep + firstColExtra⟩ :: firstColFrom (j + 1) n

/-- Column 0: `table[0]` and the `for j in 1..dim[0]` initialisation. -/
def firstCol (ny : Nat) : List Cell := origin :: firstColFrom 0 ny

/-- Cell `(i, 0)` for `i ≥ 1`: the `for i in 1..dim[1]` initialisation. -/
def colTop (i : Nat) : Cell := ⟨(0, 0), firstRowOp, i * firstRowStep + firstRowExtra⟩

/-- Cells `(i+1, j+1), (i+1, j+2), …` given `up` = cell `(i+1, j)`, `prev` = cells
`(i, j), (i, j+1), …` of the previous column and `ys = y[j..]`. `none`: a table index out of
range or an empty candidate list (neither can happen, see `Proofs/AlignRefine`). -/
def fillColAux {α} [DecidableEq α] (i : Nat) (xi : α) :
    Nat → Cell → List Cell → List α → Option (List Cell)
  | _, _, _, [] => some []
  | j, up, diag :: left :: prev, yj :: ys =>
    match choose ⟨up, (i + 1, j)⟩ ⟨left, (i, j + 1)⟩ ⟨diag, (i, j)⟩ (decide (xi = yj)) with
    | none => none
    | some c =>
      match fillColAux i xi (j + 1) c (left :: prev) ys with
      | none => none
      | some rest => some (c :: rest)
  | _, _, _, _ :: _ => none

/-- Column `i+1` from column `i`. -/
def nextCol {α} [DecidableEq α] (i : Nat) (xi : α) (prev : List Cell) (y : List α) : Option (List Cell) :=
  match fillColAux i xi 0 (colTop (i + 1)) prev y with
  | none => none
  | some rest => some (colTop (i + 1) :: rest)

/-- Columns `i+1, i+2, …` for `xs = x[i..]`, given column `i`. -/
def fillCols {α} [DecidableEq α] : Nat → List Cell → List α → List α → Option (List (List Cell))
  | _, _, [], _ => some []
  | i, prev, xi :: xs, y =>
    match nextCol i xi prev y with
    | none => none
    | some col =>
      match fillCols (i + 1) col xs y with
      | none => none
      | some cols => some (col :: cols)

/-- `Alignment::new` + `fill`: the whole table. -/
def fill {α} [DecidableEq α] (x y : List α) : Option (List (List Cell)) :=
  match fillCols 0 (firstCol y.length) x y with
  | none => none
  | some cols => some (firstCol y.length :: cols)

def lookup (t : List (List Cell)) (pos : Nat × Nat) : Option Cell :=
  match t[pos.1]? with
  | none => none
  | some col => col[pos.2]?

/-- The loop of `Alignment::operations`. `acc` is the `VecDeque` (front first). -/
def readBack (t : List (List Cell)) : Nat → Cell → List Op → Except String (List Op)
  | 0, _, _ => .error "read-back did not terminate"
  | fuel + 1, cell, acc =>
    let acc := cell.op :: acc
    if cell.parent = (0, 0) then .ok acc
    else
      match lookup t cell.parent with
      | none => .error "table index out of range"
      | some c => readBack t fuel c acc

/-- `Alignment::new(x, y).operations()` together with the cost of the final cell. -/
def operationsAndCost {α} [DecidableEq α] (x y : List α) : Except String (List Op × Nat) :=
  match fill x y with
  | none => .error "table fill failed"
  | some t =>
    match lookup t (x.length, y.length) with
    | none => .error "table index out of range"
    | some c =>
      match readBack t (x.length + y.length + 1) c [] with
      | .error e => .error e
      | .ok ops => .ok (ops, c.cost)

def operations {α} [DecidableEq α] (x y : List α) : Except String (List Op) :=
  match operationsAndCost x y with
  | .error e => .error e
  | .ok r => .ok r.1

/-- `run_length_encode`, the loop state being the current element and its count (`j - i`). -/
def rleAux {β} [DecidableEq β] (curr : β) (count : Nat) : List β → List (β × Nat)
  | [] => [(curr, count)]
  | a :: rest => if a = curr then rleAux curr (count + 1) rest else (curr, count) :: rleAux a 1 rest

def runLengthEncode {β} [DecidableEq β] : List β → List (β × Nat)
  | [] => []
  | a :: rest => rleAux a 1 rest

/-- `Alignment::coalesced_operations`. -/
def coalescedOperations {α} [DecidableEq α] (x y : List α) : Except String (List (Op × Nat)) :=
  match operations x y with
  | .error e => .error e
  | .ok ops => .ok (runLengthEncode ops)

end Align
