import DeltaModel.Caller
import DeltaModel.Generated.CallerDescribe
/-
Model of the *computation* of the background thread of the calling-process protocol
(/repo/src/utils/process.rs, property C20): `determine_calling_process()` =
`calling_process_cmdline(ProcInfo::new(), describe_calling_process)`.

`DeltaModel/Caller.lean` models the CALLER mutex/condvar protocol and treats the background
thread's first statement (`compute`) as a step that always completes. That is an assumption about
the scan: if the callback `describe_calling_process` panics on the command line of some process of
the table, the spawned closure unwinds *before* it takes the CALLER mutex — nothing is stored,
nothing is notified, the mutex is not even poisoned — and the first query waits for ever.
This file makes the assumption a theorem:

* `describeWith sh argv`: the callback as a function of an ARBITRARY argument slice (`[]` included),
  interpreting the shape `sh` that `tools/extractors/callerdescribe.py` reads off the source
  (`Generated/CallerDescribe.lean`): how element 0 and the remaining arguments are taken from the slice
  (iterator = total; `args[n]`, `args[n..]`, `unwrap` = an explicit error branch), the arm for an empty
  slice, the arms over the file stem, the git subcommand table, the grep tools;
* `scan sh t`: `calling_process_cmdline` over an arbitrary process table (ancestors nearest first, the
  process with pid-1, the processes in the pid range), propagating a panic of the callback;
* `stepBgScan`: the background thread of `Caller` with `compute` spelled out: the scan returns, or
  panics and the thread is gone (`done`) without having touched the cell.

Command lines are `List (List Char)` (sysinfo hands out valid UTF-8 strings). Core Lean only.
-/
namespace CallerScan
open Caller

abbrev Arg := List Char
abbrev Argv := List Arg

/-- Results are compared in the `example`s and `decide`d theorems of Props/C20.lean. -/
instance instDecEqExcept {ε α : Type} [DecidableEq ε] [DecidableEq α] : DecidableEq (Except ε α)
  | .ok a, .ok b => if h : a = b then isTrue (by rw [h]) else isFalse (fun h' => by cases h'; exact h rfl)
  | .error a, .error b => if h : a = b then isTrue (by rw [h]) else isFalse (fun h' => by cases h'; exact h rfl)
  | .ok _, .error _ => isFalse (fun h => by cases h)
  | .error _, .ok _ => isFalse (fun h => by cases h)

/-! ### `std::path` on Unix, as far as `file_name` / `file_stem` need it -/

/-- Split at every `sep` (at least one piece). -/
def splitOn (sep : Char) : List Char → List (List Char)
  | [] => [[]]
  | c :: cs =>
    if c = sep then [] :: splitOn sep cs
    else match splitOn sep cs with
      | [] => [[c]]
      | p :: ps => (c :: p) :: ps

/-- `Path::file_name`: the last component if it is a normal one. Empty components (repeated or
trailing `/`) and `.` components do not count (a lone leading `.` is `CurDir`, not a name); `..` is
`ParentDir`. `""`, `"/"`, `"."`, `".."`, `"a/.."` have no file name. -/
def fileName (p : List Char) : Option (List Char) :=
  match ((splitOn '/' p).filter (· ≠ [])).reverse.dropWhile (· = ['.']) with
  | [] => none
  | c :: _ => if c = ['.', '.'] then none else some c

/-- `rsplit_file_at_dot`: the part before the last `.`, unless there is none or it is empty. -/
def stemOfName (name : List Char) : List Char :=
  match name.reverse.dropWhile (· ≠ '.') with
  | [] => name                          -- no dot
  | _ :: beforeRev => if beforeRev = [] then name else beforeRev.reverse

/-- `Path::file_stem`. -/
def fileStem (p : List Char) : Option (List Char) := (fileName p).map stemOfName

/-- `str::eq_ignore_ascii_case`. -/
def eqIgnoreAsciiCase (a b : List Char) : Bool := a.map Char.toLower == b.map Char.toLower

/-- `is_git_binary`: the file stem (of the stem handed in) equals `git`, ASCII case ignored. -/
def isGitBinary (s : List Char) : Bool :=
  match fileStem s with
  | some t => eqIgnoreAsciiCase t "git".toList
  | none => false

/-- Steps of `is_git_binary` as modelled (compared with the extracted ones). -/
def isGitBinaryShape : List String :=
  ["path", "file_stem", "to_str", "eq_ignore_ascii_case(git)", "default(false)"]

/-! ### `parse_command_line` -/

/-- `CommandLine`: the two option sets (here: in insertion order, duplicates kept) and the last
non-option argument. -/
structure CommandLine where
  long : List Arg
  short : List Arg
  last : Option Arg
  deriving DecidableEq, Repr

/-- One iteration of the loop of `parse_command_line` (state: command line, `after_double_dash`). -/
def parseArg (st : CommandLine × Bool) (s : Arg) : CommandLine × Bool :=
  if st.2 then ({ st.1 with last := some s }, true)
  else if s = ['-', '-'] then (st.1, true)
  else if ['-', '-'].isPrefixOf s then
    -- `s.split('=').next().unwrap()`: the piece before the first `=`; `split` always yields one
    ({ st.1 with long := st.1.long ++ [s.takeWhile (· ≠ '=')] }, false)
  else match s with
    | '-' :: suffix => ({ st.1 with short := st.1.short ++ suffix.map (fun c => ['-', c]) }, false)
    | _ => ({ st.1 with last := some s }, false)

def parseCommandLine (args : Argv) : CommandLine :=
  (args.foldl parseArg (⟨[], [], none⟩, false)).1

/-- Branch order of the loop as modelled by `parseArg` (compared with the extracted one). -/
def parseShape : List String :=
  ["after_double_dash:last_arg", "double_dash:set_after_double_dash", "long:before_first_eq",
   "short:each_char", "else:last_arg"]

/-- `git show <rev>:<path>`: `last_arg.split_once(':')` then `Path::file_name` of the part behind. -/
def fileAfterColon (cl : CommandLine) : Option Arg :=
  match cl.last with
  | none => none
  | some l =>
    match l.dropWhile (· ≠ ':') with
    | [] => none                        -- no colon: `split_once` gives `None`
    | _ :: path => fileName path

/-! ### Results -/

/-- `CallingProcess` as far as the callback can produce it. -/
inductive Called where
  | git (variant : String) (cl : CommandLine) (file : Option Arg)
  | otherGrep
  deriving DecidableEq, Repr

/-- `ProcessArgs<CallingProcess>`. -/
inductive Outcome where
  | args (c : Called)
  | argError
  | otherProcess
  deriving DecidableEq, Repr

/-! ### The extracted shape, decoded -/

/-- How element 0 of the slice is taken. -/
inductive CmdAccess where
  | next                -- Option-valued access matched against `Some`: `None` on an empty slice
  | index (n : Nat)     -- `args[n]`: panics when `len ≤ n`
  | unwrap (n : Nat)    -- Option-valued access followed by `unwrap`/`expect`
  | unknown
  deriving DecidableEq, Repr

/-- How the remaining arguments are taken. -/
inductive RestAccess where
  | drop (n : Nat)        -- iterator after `n` `next()` calls / `skip(n)`: total
  | sliceFrom (n : Nat)   -- `args[n..]`: panics when `len < n`
  | unknown
  deriving DecidableEq, Repr

inductive ArmPat where
  | git | anyOf | some_ | none_ | any | unknown
  deriving DecidableEq, Repr

inductive ArmRes where
  | subcommands
  | result (o : Outcome)
  | unknown
  deriving DecidableEq, Repr

structure Shape where
  cmd : CmdAccess
  rest : RestAccess
  emptyArm : Option Outcome
  arms : List (ArmPat × ArmRes)
  grepTools : List Arg
  skipUntil : List Arg
  /-- word, variant, whether the arm also computes the file name behind the colon -/
  subcommands : List (Arg × String × Bool)
  /-- every subcommand arm is one of the two recognised forms -/
  subcommandsKnown : Bool
  gitOther : Option Outcome
  deriving Repr

def decodeResult (s : String) : Option Outcome :=
  if s = "OtherProcess" then some .otherProcess
  else if s = "ArgError" then some .argError
  else if s = "Args(OtherGrep)" then some (.args .otherGrep)
  else none

def decodeCmd (a : String × Nat) : CmdAccess :=
  if a.1 = "next" then .next
  else if a.1 = "index" then .index a.2
  else if a.1 = "unwrap" then .unwrap a.2
  else .unknown

def decodeRest (a : String × Nat) : RestAccess :=
  if a.1 = "iter" then .drop a.2
  else if a.1 = "skip" then .drop a.2
  else if a.1 = "slice_from" then .sliceFrom a.2
  else .unknown

def decodePat (s : String) : ArmPat :=
  if s = "git" then .git else if s = "any_of" then .anyOf else if s = "some" then .some_
  else if s = "none" then .none_ else if s = "any" then .any else .unknown

def decodeRes (s : String) : ArmRes :=
  if s = "subcommands" then .subcommands
  else match decodeResult s with
    | some o => .result o
    | none => .unknown

/-- `GitShow+file_after_colon` → (`GitShow`, true); a plain variant → (v, false). -/
def decodeVariant (s : String) : Option (String × Bool) :=
  if s = "GitShow+file_after_colon" then some ("GitShow", true)
  else if s ∈ ["GitDiff", "GitShow", "GitLog", "GitReflog", "GitGrep", "GitBlame"] then some (s, false)
  else none

/-- The shape of `describe_calling_process` as extracted from the source on this run. -/
def theShape : Shape :=
  { cmd := decodeCmd Generated.CallerDescribe.commandAccess
    rest := decodeRest Generated.CallerDescribe.restAccess
    emptyArm := decodeResult Generated.CallerDescribe.emptyArm
    arms := Generated.CallerDescribe.stemArms.map fun a => (decodePat a.1, decodeRes a.2)
    grepTools := Generated.CallerDescribe.grepTools.map String.toList
    skipUntil := Generated.CallerDescribe.skipUntil.map String.toList
    subcommands := Generated.CallerDescribe.subcommands.filterMap fun a =>
      (decodeVariant a.2).map fun v => (a.1.toList, v.1, v.2)
    subcommandsKnown := Generated.CallerDescribe.subcommands.all fun a => (decodeVariant a.2).isSome
    gitOther := decodeResult Generated.CallerDescribe.gitOtherArm }

/-! ### The callback -/

def getCommand : CmdAccess → Argv → Except String (Option Arg)
  | .next, argv => .ok argv.head?
  | .index n, argv =>
    match argv[n]? with
    | some a => .ok (some a)
    | none => .error "index out of bounds"
  | .unwrap n, argv =>
    match argv[n]? with
    | some a => .ok (some a)
    | none => .error "called `Option::unwrap()` on a `None` value"
  | .unknown, _ => .error "access to the command not modelled"

def getRest : RestAccess → Argv → Except String Argv
  | .drop n, argv => .ok (argv.drop n)
  | .sliceFrom n, argv =>
    if n ≤ argv.length then .ok (argv.drop n) else .error "range start index out of range for slice"
  | .unknown, _ => .error "access to the remaining arguments not modelled"

def armMatches (sh : Shape) (stem : Option Arg) : ArmPat → Bool
  | .git => match stem with | some s => isGitBinary s | none => false
  | .anyOf => match stem with | some s => sh.grepTools.any (eqIgnoreAsciiCase · s) | none => false
  | .some_ => stem.isSome
  | .none_ => stem.isNone
  | .any => true
  | .unknown => false

/-- The git arm: skip to the first subcommand word, build the variant from the arguments behind it. -/
def gitArm (sh : Shape) (rest : Argv) : Except String Outcome :=
  match rest.dropWhile (fun s => !sh.skipUntil.contains s) with
  | [] => match sh.gitOther with
    | some o => .ok o
    | none => .error "result of the default git arm not modelled"
  | w :: more =>
    match sh.subcommands.find? (·.1 = w) with
    | some (_, variant, withFile) =>
      let cl := parseCommandLine more
      .ok (.args (.git variant cl (if withFile then fileAfterColon cl else none)))
    | none => match sh.gitOther with
      | some o => .ok o
      | none => .error "result of the default git arm not modelled"

def armResult (sh : Shape) (rest : Argv) : ArmRes → Except String Outcome
  | .subcommands => if sh.subcommandsKnown then gitArm sh rest else .error "git subcommand arm not modelled"
  | .result o => .ok o
  | .unknown => .error "arm result not modelled"

def evalArms (sh : Shape) (stem : Option Arg) (rest : Argv) : List (ArmPat × ArmRes) → Except String Outcome
  | [] => .error "no arm matches"
  | a :: more => if armMatches sh stem a.1 then armResult sh rest a.2 else evalArms sh stem rest more

/-- `describe_calling_process(argv)` for a function of shape `sh`. `.error` = the function panics. -/
def describeWith (sh : Shape) (argv : Argv) : Except String Outcome :=
  match getCommand sh.cmd argv with
  | .error e => .error e
  | .ok cmd =>
    match getRest sh.rest argv with
    | .error e => .error e
    | .ok rest =>
      match cmd with
      | none => match sh.emptyArm with
        | some o => .ok o
        | none => .error "no arm for an empty argument slice"
      | some c => evalArms sh (fileStem c) rest sh.arms

/-- The callback of the pinned source. -/
def describe (argv : Argv) : Except String Outcome := describeWith theShape argv

/-! ### Totality of a shape -/

def CmdAccess.total : CmdAccess → Bool
  | .next => true
  | _ => false

def RestAccess.total : RestAccess → Bool
  | .drop _ => true
  | _ => false

def ArmPat.known : ArmPat → Bool
  | .unknown => false
  | _ => true

def ArmRes.known : ArmRes → Bool
  | .unknown => false
  | _ => true

def hasPat (arms : List (ArmPat × ArmRes)) (p : ArmPat) : Bool := arms.any (·.1 = p)

/-- What makes a shape total: the slice is only accessed through Option-valued / iterator accesses,
there is an arm for the empty slice, the stem arms are all recognised and exhaustive (a catch-all,
or both `Some(_)` and `None`), all results are recognised. Decidable: evaluated on the extracted shape. -/
def Shape.total (sh : Shape) : Bool :=
  sh.cmd.total && sh.rest.total && sh.emptyArm.isSome && sh.gitOther.isSome && sh.subcommandsKnown
    && sh.arms.all (fun a => a.2.known)
    && (hasPat sh.arms .any || (hasPat sh.arms .some_ && hasPat sh.arms .none_))

/-! ### The scan: `calling_process_cmdline` over a process table -/

/-- The process table as the scan sees it: command lines of delta's ancestors (nearest first), of the
process with pid-1 (if any), and of the processes in the pid range that started within 3 s, nearest in
the process tree first. -/
structure Table where
  ancestors : List Argv
  sibling : Option Argv
  neighbours : List Argv
  deriving Repr

/-- Parent loop. `some g` = the loop returned `g`; `none` = fell through to the sibling search. -/
def scanParents (sh : Shape) (sib : Option Argv) : Nat → List Argv → Except String (Option (Option Called))
  | _, [] => .ok none                                  -- `None => break`
  | depth, p :: ps =>
    match describeWith sh p with
    | .error e => .error e
    | .ok (.args c) => .ok (some (some c))
    | .ok .argError => .ok (some none)
    | .ok .otherProcess =>
      if depth = 1 then
        match sib with
        | none => scanParents sh sib (depth + 1) ps
        | some s =>
          match describeWith sh s with
          | .error e => .error e
          | .ok (.args c) => .ok (some (some c))
          | .ok _ => scanParents sh sib (depth + 1) ps
      else scanParents sh sib (depth + 1) ps

/-- `find_sibling_in_refreshed_processes`: the callback is applied to every candidate (a panic
propagates); the nearest one that is recognised wins. -/
def scanNeighbours (sh : Shape) : List Argv → Except String (Option Called)
  | [] => .ok none
  | p :: ps =>
    match describeWith sh p with
    | .error e => .error e
    | .ok r =>
      match scanNeighbours sh ps with
      | .error e => .error e
      | .ok later =>
        match r with
        | .args c => .ok (some c)
        | _ => .ok later

/-- Depths of the parent loop as modelled. -/
def parentDepthsShape : List Nat := [1, 2, 3]

/-- What each callback result does in the parent loop, as modelled by `scanParents`. -/
def parentArmsShape : List (String × String) :=
  [("Args", "return_some"), ("ArgError", "return_none"),
   ("OtherProcess if depth == 1", "sibling_then_continue"), ("OtherProcess", "continue")]

/-- `determine_calling_process` (result `none` = `CallingProcess::None`). -/
def scan (sh : Shape) (t : Table) : Except String (Option Called) :=
  match scanParents sh t.sibling 1 (t.ancestors.take parentDepthsShape.length) with
  | .error e => .error e
  | .ok (some g) => .ok g
  | .ok none => scanNeighbours sh t.neighbours

/-- Does the scan return (rather than panic) on this table? -/
def scanReturns (sh : Shape) (t : Table) : Bool :=
  match scan sh t with
  | .ok _ => true
  | .error _ => false

/-- Kinds of panic points that cannot fire: `str::split` yields at least one piece; the pid of a
running process is at least 1; a difference of two `i64`s converted from start times; `lock()` fails
only if a thread panicked while holding the mutex (the critical sections of the protocol contain
assignments, an atomic store and `notify_all` only). -/
def totalKinds : List String :=
  ["first_piece_of_split", "pid_minus_one", "i64_difference", "lock_result"]

/-! ### The background thread with its computation spelled out -/

/-- `stepBg` where `compute` is the scan: if it returns the thread goes on to `lock`; if it panics
the closure unwinds — the thread is finished and has touched neither the cell nor the condvar. -/
def stepBgScan (cfg : Cfg) (returns : Bool) (s : State) : Option State :=
  match s.bpc with
  | .compute => if returns then some { s with bpc := .lock } else some { s with bpc := .done }
  | _ => stepBg cfg s

def stepScan (cfg : Cfg) (returns : Bool) (s : State) : Choice → Option State
  | .bg => stepBgScan cfg returns s
  | .main => stepMain cfg s
  | .spurious => stepSpurious s

def runScan (cfg : Cfg) (returns : Bool) (s : State) : List Choice → Option State
  | [] => some s
  | c :: cs =>
    match stepScan cfg returns s c with
    | some s' => runScan cfg returns s' cs
    | none => none

/-! ### Variant: the flattened callback (NOT what the code does)

`let command = Path::new(&args[0]).file_stem()…; let args = args[1..].iter()…; match command { … }`:
same arms, but the command and the remaining arguments are taken by indexing and slicing and the arm
for an empty slice is gone. -/
def flattenedShape : Shape :=
  { theShape with cmd := .index 0, rest := .sliceFrom 1, emptyArm := none }

end CallerScan
