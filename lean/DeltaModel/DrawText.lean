import DeltaModel.Generated.DrawText
import DeltaModel.Sgr
/-!
# With which style the text of a decorated header is painted (`src/handlers/draw.rs`)

`Generated.DrawText.drawFns` is a small data-flow reading of every function and closure of `draw.rs`
(regenerated from the source on every run): parameters, `let`s, assignments, calls of the other
functions of the file, and every `<receiver>.paint(<argument>)`.

`DrawText.paintsOf f` runs that reading symbolically from an entry function `f` (one of the functions
`get_draw_function` returns): the seven arguments of a `DrawFunction` are the symbolic values
`writer`, `text`, `raw_text`, `addendum`, `width`, `text_style`, `decoration_style`; a `let` binds its
names to the (substituted) right-hand side, an assignment makes its root identifier opaque, a call
binds the callee's parameters to the (substituted) arguments, and every `paint` reached is reported
with the symbolic value of its receiver and of its argument. Both branches of every `if` / `match`
are followed (the reading is flow-insensitive but respects source order).

What C12 needs (`Proofs/DrawText.lean`): the only receivers are the unmodified `text_style` (painting
`text`, or `text (addendum)`) and the unmodified `decoration_style` (painting box-drawing material
that contains nothing of the text).
-/
namespace DrawText
open Generated.DrawText

/-- A token of a symbolic value: an argument of the entry function, or a source token. -/
inductive Tok where
  | param (name : String)
  | tok (s : String)
  deriving DecidableEq, Repr

abbrev Val := List Tok
abbrev Env := List (String × Val)

def lookup (env : Env) (k : String) : Option Val :=
  match env with
  | [] => none
  | (k', v) :: rest => if k' = k then some v else lookup rest k

/-- Substitute the bound identifiers of an expression. -/
def value (env : Env) (e : List String) : Val :=
  e.flatMap fun t => match lookup env t with
    | some v => v
    | none => [.tok t]

def findFn (fns : List Fn) (name : String) : Option Fn :=
  match fns with
  | [] => none
  | f :: rest => if f.name = name then some f else findFn rest name

/-- One `paint` reached: in which function, the receiver and the argument as symbolic values. -/
structure Paint where
  inFn : String
  recv : Val
  arg : Val
  deriving DecidableEq, Repr

def zipEnv : List String → List Val → Env
  | p :: ps, v :: vs => (p, v) :: zipEnv ps vs
  | _, _ => []

/-- Symbolic run of a list of events (`fuel` bounds the number of events processed, calls included;
running out of fuel is reported as a paint by an unknown receiver, so that no statement about the
receivers can hold by accident). A closure sees the environment of its caller (it has no other). -/
def evalEvents (fns : List Fn) : Nat → String → Env → List Ev → List Paint
  | _, _, _, [] => []
  | 0, fname, _, _ :: _ => [⟨fname, [.tok "<out of fuel>"], []⟩]
  | fuel + 1, fname, env, ev :: rest =>
    match ev with
    | .bind names rhs =>
      let v := value env rhs
      let env' := match names with
        | [n] => (n, v) :: env
        | ns => ns.map (fun n => (n, .tok "<component>" :: .tok n :: v)) ++ env
      evalEvents fns fuel fname env' rest
    | .mutate root stmt =>
      evalEvents fns fuel fname ((root, .tok "<assigned>" :: value env stmt) :: env) rest
    | .closure _ _ => evalEvents fns fuel fname env rest
    | .paint recv arg => ⟨fname, value env recv, value env arg⟩ :: evalEvents fns fuel fname env rest
    | .call callee args =>
      let inner := match findFn fns callee with
        | none => [⟨fname, [.tok "<unknown callee>", .tok callee], []⟩]
        | some g =>
          let genv := zipEnv g.params (args.map (value env)) ++ (if g.closureOf = "" then [] else env)
          if g.params.length = args.length ∧ g.mutParams = [] then evalEvents fns fuel g.name genv g.events
          else [⟨fname, [.tok "<arity or mut parameter>", .tok callee], []⟩]
      inner ++ evalEvents fns fuel fname env rest

/-- The seven arguments of a `DrawFunction`, by position. -/
def entryArgs : List Val :=
  [[.param "writer"], [.param "text"], [.param "raw_text"], [.param "addendum"], [.param "width"],
   [.param "text_style"], [.param "decoration_style"]]

/-- Every `paint` a drawing function reaches, as symbolic values of the `DrawFunction` arguments. -/
def paintsOf (fns : List Fn) (f : String) : List Paint :=
  match findFn fns f with
  | none => [⟨f, [.tok "<unknown function>"], []⟩]
  | some g =>
    if g.params.length = entryArgs.length ∧ g.mutParams = [] then
      evalEvents fns 400 g.name (zipEnv g.params entryArgs) g.events
    else [⟨f, [.tok "<arity or mut parameter>"], []⟩]

def textStyle : Val := [.param "text_style"]
def decoStyle : Val := [.param "decoration_style"]
def plainText : Val := [.param "text"]
/-- `text.to_string() + " (" + addendum + ")"` -/
def textWithAddendum : Val :=
  [.param "text", .tok ".", .tok "to_string", .tok "(", .tok ")", .tok "+", .tok "\" (\"", .tok "+",
   .param "addendum", .tok "+", .tok "\")\""]

def isMutate : Ev → Bool
  | .mutate _ _ => true
  | _ => false

/-- `ansi::measure_text_width(text)`: the display width of the text (a number). -/
def measuredWidth : Val :=
  [.tok "ansi", .tok "::", .tok "measure_text_width", .tok "(", .param "text", .tok ")"]

/-- Drop every occurrence of `ansi::measure_text_width(text)` from a value. -/
def dropMeasured : Val → Val
  | [] => []
  | t :: rest =>
    if measuredWidth.isPrefixOf (t :: rest) then dropMeasured (rest.drop 5) else t :: dropMeasured rest
termination_by v => v.length
decreasing_by all_goals simp_wf <;> omega

/-- Nothing of the header text (nor the text style) occurs in a value, except as the measured width of the text
(the rules and boxes are as wide as the text). -/
def textFree (v : Val) : Bool :=
  (dropMeasured v).all fun t =>
    t ≠ .param "text" ∧ t ≠ .param "raw_text" ∧ t ≠ .param "addendum" ∧ t ≠ .param "text_style"

/-- **The text is painted with the given text style, unmodified, and with nothing else**:
every `paint` has as receiver the function's own `text_style` argument or its own `decoration_style`
argument; `text_style` paints `text` or `text (addendum)` — both forms occur — and
`decoration_style` paints material in which nothing of the text occurs. -/
def TextPaintedWithGivenStyle (ps : List Paint) : Prop :=
  (∀ p ∈ ps, (p.recv = textStyle ∧ (p.arg = plainText ∨ p.arg = textWithAddendum)) ∨
             (p.recv = decoStyle ∧ textFree p.arg = true)) ∧
  (∃ p ∈ ps, p.recv = textStyle ∧ p.arg = plainText) ∧
  (∃ p ∈ ps, p.recv = textStyle ∧ p.arg = textWithAddendum)

instance (ps : List Paint) : Decidable (TextPaintedWithGivenStyle ps) := by
  unfold TextPaintedWithGivenStyle; infer_instance

/-! ### The piece of text in the `Draw` model (what `paint_text` paints) -/

/-- `text`, or `text (addendum)`. -/
def fullText (a : Draw.Args) : List Char :=
  if a.addendum = [] then a.text else a.text ++ " (".toList ++ a.addendum ++ ")".toList

end DrawText
