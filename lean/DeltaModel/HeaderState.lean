import DeltaModel.Generated.HeaderState
import DeltaModel.Generated.Markers
import DeltaModel.Headers
/-!
Which statements of the line state machine assign `self.state`, read from /repo/src
(`Generated.HeaderState.assignSites`, `handlerLiterals`; `tools/extractors/headerstate.py`), and a decision
procedure over that table for the question C01 needs answered about combined diffs:

  can a header line of a `diff --cc` / `diff --combined` file section (the lines git writes between the `diff`
  line and the first `@@@` hunk header) reach an assignment that changes the section's diff type?

The hunk handler takes the number of marker columns of every hunk line from the state the header lines leave
behind (`handle_hunk_header_line`: `DiffHeader(Combined(Unknown, No))` → `Combined(Number(#@ − 1))`), so a header-line
handler that overwrites it with `DiffHeader(Unified)` makes every hunk line of the section lose one column only.

`keepsCombined sites`: for every prefix a combined section's header lines start with and every site of the table —
unless the site's function is one whose assignment is guarded by a test no header state passes (`stateGuarded`: what
`Machine.step` does for those is proved in `Proofs/Machine/CombinedSection.lean`), or all its marker literals are
incompatible with the prefix, or one of its conditions is excluded for git input — the right-hand side is one that
leaves a header state as it is (`Effect.keep`).

`modelledSites` / `modelledLiterals`: the same tables as `DeltaModel/Machine.lean` implements them (each entry names
the model function); `Props/C01.lean` proves the generated tables equal them.
-/
namespace HeaderState
open Headers Generated

abbrev Site := String × List Str × List String × String

def Site.fn (s : Site) : String := s.1
def Site.lits (s : Site) : List Str := s.2.1
def Site.conds (s : Site) : List String := s.2.2.1
def Site.rhs (s : Site) : String := s.2.2.2

/-- first characters of the lines git writes between `diff --cc <path>` and the hunks of a combined-diff file section
(combine-diff.c `show_combined_header`, and `Binary files differ`) -/
def combinedSectionPrefixes : List Str :=
  [['i', 'n', 'd', 'e', 'x', ' '],
   ['m', 'o', 'd', 'e', ' '],
   ['n', 'e', 'w', ' ', 'f', 'i', 'l', 'e', ' ', 'm', 'o', 'd', 'e', ' '],
   ['d', 'e', 'l', 'e', 't', 'e', 'd', ' ', 'f', 'i', 'l', 'e', ' ', 'm', 'o', 'd', 'e', ' '],
   ['-', '-', '-', ' '],
   ['+', '+', '+', ' '],
   ['B', 'i', 'n', 'a', 'r', 'y', ' ', 'f', 'i', 'l', 'e', 's', ' ']]

/-- can a line starting with `p` pass a `starts_with(lit)` test? (`p` fixes only the first characters of the line) -/
def compatible (p lit : Str) : Bool := p.isPrefixOf lit || lit.isPrefixOf p

/-- what a right-hand side does to a header state -/
inductive Effect
  | keep          -- `match self.state { DiffHeader(_) => self.state.clone(), … }`
  | unified       -- `State::DiffHeader(DiffType::Unified)`
  | other         -- anything else: the state is no longer the header state it was
  deriving DecidableEq, Repr

def effectOf (rhs : String) : Effect :=
  if rhs = "matchself.state{State::DiffHeader(_)=>self.state.clone(),_=>State::DiffHeader(DiffType::Unified),}" then .keep
  else if rhs = "State::DiffHeader(DiffType::Unified)" then .unified
  else .other

/-- functions whose assignment no header line of a git diff reaches in a header state, for a reason that is not a
marker literal: the commit regex (`commitRe = false` is a hypothesis of the step theorem), a test of the current state
that only hunk / conflict / blame / grep / unknown states pass, or the assignment hands on a parameter
(`handle_additional_cases`: its callers are sites of their own). -/
def stateGuarded : List String :=
  ["handle_additional_cases", "handle_commit_meta_header_line", "paint_buffered_merge_conflict_lines",
   "handle_hunk_line", "handle_git_show_file_line", "handle_blame_line", "handle_grep_line"]

/-- conditions that never hold for git input -/
def excludedConds : List String := ["ifself.source==Source::DiffUnified"]

def reaches (p : Str) (s : Site) : Bool :=
  !stateGuarded.contains s.fn && (s.lits.isEmpty || s.lits.any (compatible p)) &&
    !s.conds.any (fun c => excludedConds.contains c)

def keepsCombined (sites : List Site) : Bool :=
  combinedSectionPrefixes.all fun p => sites.all fun s => !reaches p s || effectOf s.rhs == .keep

/-- the sites that would break it: (prefix, function, literals, right-hand side) -/
def offending (sites : List Site) : List (Str × String × List Str × String) :=
  combinedSectionPrefixes.flatMap fun p =>
    (sites.filter fun s => reaches p s && effectOf s.rhs != .keep).map fun s => (p, s.fn, s.lits, s.rhs)

/-- the state assignments as `DeltaModel/Machine.lean` implements them -/
def modelledSites : List Site :=
  [-- `Machine.handleAdditionalCases`: `st := to`
   ("handle_additional_cases", [], [], "to_state"),
   -- `Machine.handleCommitMeta`: `st := .commitMeta`
   ("handle_commit_meta_header_line", [], [], "State::CommitMeta"),
   -- `Machine.diffLineState`
   ("handle_diff_header_diff_line", [Markers.diffLine], [],
    "ifself.line.starts_with(\"diff --cc \")||self.line.starts_with(\"diff --combined \"){State::DiffHeader(DiffType::Combined(MergeParents::Unknown,InMergeConflict::No,))}else{State::DiffHeader(DiffType::Unified)}"),
   -- `Machine.handleModeLine`: both branches `st := .diffHeader .unified`
   ("handle_diff_header_mode_line", [Markers.oldMode], [], "State::DiffHeader(DiffType::Unified)"),
   ("handle_diff_header_mode_line", [Markers.newMode], [], "State::DiffHeader(DiffType::Unified)"),
   -- `Machine.handleMinusLine`: `st := if m.source = .diffUnified then .diffHeader .unified else m.st`
   ("handle_diff_header_minus_line", Markers.minusLine, ["ifself.source==Source::DiffUnified"], "State::DiffHeader(DiffType::Unified)"),
   -- `Machine.handleHunkHeader`: `st := .hunkHeader (hunkHeaderDiffType m l) hh l.text l.raw m.n` when the header parses
   ("handle_hunk_header_line", [Markers.hunkHeader], ["ifletSome(parsed_hunk_header)=parse_hunk_header(&self.line)"],
    "HunkHeader(diff_type,parsed_hunk_header,self.line.clone(),self.raw_line.clone(),)"),
   -- `Machine.handleMisc`: `handleAdditionalCases cfg m l (if isDiffHeader m.st then m.st else .diffHeader .unified)`
   ("handle_diff_header_misc_line", [Markers.onlyIn, Markers.binaryFiles], [],
    "matchself.state{State::DiffHeader(_)=>self.state.clone(),_=>State::DiffHeader(DiffType::Unified),}"),
   -- `Machine.handleSubmoduleLog`
   ("handle_submodule_log_line", [Markers.submoduleLog], [], "State::SubmoduleLog"),
   -- `Machine.handleSubmoduleShort`: `.hunkHeader .. => st := .submoduleShort commit`
   ("handle_submodule_short_line", [Markers.submoduleShortMinus, Markers.submoduleShortPlus],
    ["ifletSome(commit)=get_submodule_short_commit(&self.line)", "ifletState::HunkHeader(_,_,_,_)=self.state"],
    "State::SubmoduleShort(commit.to_owned())"),
   -- `Machine.handleMergeConflict` / `enterAncestral` / `enterTheirs`
   ("enter_merge_conflict", [Markers.mcBegin], [], "MergeConflict(merge_parents.clone(),Ours)"),
   ("enter_ancestral", [Markers.mcAncestral], [], "MergeConflict(merge_parents.clone(),Ancestral)"),
   ("enter_theirs", [Markers.mcTheirs], [], "MergeConflict(merge_parents.clone(),Theirs)"),
   -- `Machine.paintMergeConflict`: `st := .hunkZero (.combined mp false)`
   ("paint_buffered_merge_conflict_lines", [], [], "HunkZero(Combined(merge_parents.clone(),InMergeConflict::No),None)")]

/-- the functions of `modelledSites`' last entries are long expressions: the table records them cut, with a hash. What
the model needs of them is only which function they stand in (all `stateGuarded`). -/
def modelledGuardedTail : List String :=
  ["handle_hunk_line", "handle_git_show_file_line", "handle_blame_line", "handle_grep_line"]

/-- the generated table is the modelled one: the listed sites literally, then one site in each of the state-guarded
tail functions (their right-hand sides are not interpreted) -/
def sitesAsModelled (sites : List Site) : Bool :=
  sites.take modelledSites.length == modelledSites &&
    (sites.drop modelledSites.length).map Site.fn == modelledGuardedTail

/-- the marker literals of every handler of the chain, as the model uses them (`Generated.Markers`) -/
def modelledLiterals : List (String × List Str) :=
  [("handle_commit_meta_header_line", []),
   ("handle_diff_stat_line", [Markers.diffStat]),
   ("handle_diff_header_diff_line", Markers.diffLine :: Markers.combinedDiffLine),
   ("handle_diff_header_file_operation_line", Markers.fileOperationLine),
   ("handle_diff_header_minus_line", Markers.minusLine),
   ("handle_diff_header_plus_line", Markers.plusLine),
   ("handle_hunk_header_line", [Markers.hunkHeader]),
   ("handle_diff_header_mode_line", [Markers.oldMode, Markers.newMode]),
   ("handle_diff_header_misc_line", [Markers.onlyIn, Markers.binaryFiles]),
   ("handle_submodule_log_line", [Markers.submoduleLog]),
   ("handle_submodule_short_line", [Markers.submoduleShortMinus, Markers.submoduleShortPlus]),
   ("handle_merge_conflict_line", []),
   ("handle_hunk_line", []),
   ("handle_git_show_file_line", []),
   ("handle_blame_line", []),
   ("handle_grep_line", []),
   ("should_skip_line", []),
   ("emit_line_unchanged", [])]

end HeaderState
