import DeltaModel.Generated.Handlers
import DeltaModel.Generated.Markers
import DeltaModel.Headers
import DeltaModel.Text
/-!
Model of the line state machine: /repo/src/delta.rs (`consume`), every `handle_*` in
/repo/src/handlers/, and the `Painter` buffers of /repo/src/paint.rs (unified view).

What is modelled: the state transitions, which rows are produced, in which order they reach
the writer (`out`), what is held back (`minus`, `plus`, `buf`, merge-conflict buffers), and
the visible text of every row. What is not: colours, edit inference, syntax highlighting,
line-number gutters, side-by-side layout (other models), hyperlinks, `relative-paths`,
`--word-diff` input, raw (`inspect-raw-lines`) hunk lines, blame/grep row layout.

Regex-based facts about a line that the model does not recompute come in with the line
(`L.commitRe`, `L.blame`, `L.grep`, `L.submodule`, grapheme segmentation): they are obtained from
the implementation by the harness. Everything else (`starts_with` tests over the generated
marker literals, hunk-header parsing, path extraction, descriptions) is computed here.

Ghost fields: `Row.src` (index of the input line a row derives from), `M.orderOk` (no row
has reached the writer while earlier rows were still held back).
-/
namespace Machine
open Headers Generated

inductive MergeParents
  | number (n : Nat)
  | pre (p : Str)
  | unknown
  deriving DecidableEq, Repr

inductive DiffType
  | unified
  | combined (mp : MergeParents) (inConflict : Bool)
  deriving DecidableEq, Repr

inductive MCCommit | ours | ancestral | theirs
  deriving DecidableEq, Repr

inductive State
  | commitMeta
  | diffHeader (dt : DiffType)
  | hunkHeader (dt : DiffType) (hh : HunkHeader) (line raw : Str) (src : Nat)
  | hunkZero (dt : DiffType)
  | hunkMinus (dt : DiffType)
  | hunkPlus (dt : DiffType)
  | mergeConflict (mp : MergeParents) (c : MCCommit)
  | submoduleLog
  | submoduleShort (commit : Str)
  | blame
  | gitShowFile
  | grep
  | unknown
  deriving DecidableEq, Repr

inductive Source | gitDiff | diffUnified | unknown
  deriving DecidableEq, Repr

inductive Deco | none | box | boxUl | ul | ol | ulol
  deriving DecidableEq, Repr

structure ElemStyle where
  isRaw : Bool := false
  isOmitted : Bool := false
  deco : Deco := .none
  deriving DecidableEq, Repr

structure Cfg where
  colorOnly : Bool := false
  commitStyle : ElemStyle := {}
  fileStyle : ElemStyle := {}
  hunkHeaderStyle : ElemStyle := {}
  zeroStyle : ElemStyle := {}
  minusStyle : ElemStyle := {}
  plusStyle : ElemStyle := {}
  grepHeaderStyle : ElemStyle := {}
  keepMarkers : Bool := false
  tab : Nat := 8
  bufSize : Nat := 32
  mergeConflicts : Bool := true
  labels : Labels := {}
  hunkLabel : Str := []
  hhFile : Bool := false
  hhLineNumber : Bool := true
  hhFragment : Bool := true
  hhFileStylePlain : Bool := false   -- hunk-header-file-style paints nothing (style `normal`)
  mcBeginSymbol : Str := ['▼']
  mcEndSymbol : Str := ['▲']
  deriving Repr

/-- One input line after `ingest_line`, with the facts the harness obtains from the code. -/
structure L where
  raw : Str                      -- `raw_line`
  text : Str                     -- `line` (escape sequences stripped)
  graphemes : List Str           -- extended grapheme clusters of `text`
  commitRe : Bool                -- `config.commit_regex.is_match(line)`
  blame : Bool                   -- `parse_git_blame_line(line)` is `Some`
  grep : Nat                     -- 0: not a grep line; 1: grep hit; 2: `LineType::Ignore`
  submodule : Option Str         -- capture 1 of SUBMODULE_SHORT_LINE_REGEX
  deriving Repr

inductive RowKind
  | raw | commit | file | hunkHeader | minus | plus | zero | other | blank | deco
  | mcBar | mcHeader | submodule | blame | grep
  deriving DecidableEq, Repr

structure Row where
  kind : RowKind
  text : Str
  src : Nat
  deriving DecidableEq, Repr

/-- A buffered hunk line: prepared text (prefix removed, tabs expanded, no newline). -/
structure HLine where
  kind : RowKind
  pre : Str          -- the prefix that `painted_prefix` re-inserts ([] if none)
  text : Str
  src : Nat
  deriving DecidableEq, Repr

structure M where
  st : State := .unknown
  source : Source := .unknown
  minusFile : Str := []
  plusFile : Str := []
  minusEvent : FileEvent := .noEvent
  plusEvent : FileEvent := .noEvent
  diffLine : Str := []
  diffLineG : List Str := []
  modeInfo : Str := []
  currentPair : Option (Str × Str) := none
  handledPair : Option (Str × Str) := none
  counter : Int := -4096
  minus : List HLine := []
  plus : List HLine := []
  buf : List Row := []
  out : List Row := []
  mcOurs : List HLine := []
  mcAnc : List HLine := []
  mcTheirs : List HLine := []
  mcNameOurs : Option Str := none
  mcNameAnc : Option Str := none
  mcNameTheirs : Option Str := none
  n : Nat := 0
  orderOk : Bool := true
  deriving Repr

-- ---------------------------------------------------------------- painter primitives

def HLine.row (h : HLine) : Row := { kind := h.kind, text := h.pre ++ h.text, src := h.src }

/-- `Painter::emit` -/
def emit (m : M) : M := { m with out := m.out ++ m.buf, buf := [] }

/-- A write straight to the writer (`writeln!(painter.writer, …)`, `draw_fn(painter.writer, …)`).
Ghost: it is in order only if nothing earlier is still held back. -/
def direct (m : M) (rows : List Row) : M :=
  if rows = [] then m
  else { m with out := m.out ++ rows,
                orderOk := m.orderOk && m.buf.isEmpty && m.minus.isEmpty && m.plus.isEmpty }

/-- `Painter::paint_buffered_minus_and_plus_lines` (unified view: minus rows then plus rows). -/
def flushMP (m : M) : M :=
  if m.minus = [] ∧ m.plus = [] then m
  else { m with buf := m.buf ++ m.minus.map HLine.row ++ m.plus.map HLine.row, minus := [], plus := [] }

/-- rows written by a `draw_fn` for one header text -/
def drawRows (style : ElemStyle) (kind : RowKind) (text raw addendum : Str) (src : Nat) : List Row :=
  let pad : Str := match style.deco with
    | .box | .boxUl => [' ']
    | _ => []
  let body : Row :=
    if style.isRaw then { kind := .raw, text := raw ++ pad, src := src }
    else { kind := kind,
           text := if addendum = [] then text ++ pad
                   else text ++ pad ++ [' ', '('] ++ addendum ++ [')'],
           src := src }
  let d : Row := { kind := .deco, text := [], src := src }
  match style.deco with
  | .none => [body]
  | .box | .boxUl => [d, body, d]
  | .ul => [body, d]
  | .ol => [d, body]
  | .ulol => [d, body, d]

def isDiffHeader : State → Bool
  | .diffHeader _ => true
  | _ => false

/-- `Config::try_get_style` -/
def getStyle (cfg : Cfg) : State → Option ElemStyle
  | .hunkMinus _ => some cfg.minusStyle
  | .hunkZero _ => some cfg.zeroStyle
  | .hunkPlus _ => some cfg.plusStyle
  | .commitMeta => some cfg.commitStyle
  | .diffHeader _ => some cfg.fileStyle
  | .grep => some cfg.grepHeaderStyle
  | .hunkHeader .. => some cfg.hunkHeaderStyle
  | .submoduleLog => some cfg.fileStyle
  | _ => none

/-- `StateMachine::should_handle`: states without a style of their own are handled -/
def shouldHandle (cfg : Cfg) (m : M) : Bool :=
  match getStyle cfg m.st with
  | some s => !(s.isRaw && s.deco = .none)
  | none => true

/-- `StateMachine::should_skip_line` -/
def shouldSkipLine (cfg : Cfg) (m : M) : Bool :=
  isDiffHeader m.st && shouldHandle cfg m && !cfg.colorOnly

/-- `StateMachine::emit_line_unchanged` -/
def emitLineUnchanged (m : M) (l : L) : M :=
  direct (emit (flushMP m)) [{ kind := .raw, text := l.raw, src := m.n }]

/-- `write_generic_diff_header_header_line` -/
def writeGeneric (cfg : Cfg) (m : M) (text raw : Str) : M :=
  -- the early return: nothing is written; the mode information belongs to this file and is dropped with its header
  if cfg.fileStyle.isOmitted ∧ ¬ cfg.colorOnly then { m with modeInfo := [] }
  else
    let blank : List Row := if cfg.colorOnly then [] else [{ kind := .blank, text := [], src := m.n }]
    let m1 := direct m (blank ++ drawRows cfg.fileStyle .file text raw m.modeInfo m.n)
    { m1 with modeInfo := [] }

/-- `_handle_diff_header_header_line` -/
def handleHeaderLine (cfg : Cfg) (m : M) (comparing : Bool) : M :=
  let line := fileChangeDescription cfg.labels m.minusFile m.plusFile comparing m.minusEvent
  writeGeneric cfg m line line

def pendingTest (m : M) : Bool := isDiffHeader m.st || m.source = .diffUnified

/-- `handle_pending_line_with_diff_name` -/
def pendingDiffName (cfg : Cfg) (m : M) : M :=
  if !pendingTest m then m
  else if m.modeInfo ≠ [] then
    let line := formatLabel cfg.labels.modified ++ (repeatedFilePath m.diffLine m.diffLineG).getD []
    let m1 := writeGeneric cfg (emit m) line line
    { m1 with handledPair := m1.currentPair }
  else if cfg.colorOnly then m
  else if shouldHandle cfg m ∧ m.handledPair ≠ m.currentPair then
    let m1 := handleHeaderLine cfg (emit m) (m.source = .diffUnified)
    { m1 with handledPair := m1.currentPair }
  else m

-- ---------------------------------------------------------------- handlers
-- Each returns (handled, new machine); errors are the Rust panics / `fatal` exits.

abbrev Handler := Cfg → M → L → Except String (Bool × M)

def handleCommitMeta : Handler := fun cfg m l =>
  if !l.commitRe then .ok (false, m)
  else if shouldHandle cfg { pendingDiffName cfg (flushMP m) with st := .commitMeta } then
    if cfg.commitStyle.isOmitted ∧ ¬ cfg.colorOnly then
      .ok (true, emit { pendingDiffName cfg (flushMP m) with st := .commitMeta })
    else
      .ok (true, direct (emit { pendingDiffName cfg (flushMP m) with st := .commitMeta })
        (drawRows cfg.commitStyle .commit l.text l.raw [] m.n))
  else .ok (false, { pendingDiffName cfg (flushMP m) with st := .commitMeta })

/-- `relative-paths` is off in the model, so the diff-stat handler never claims a line. -/
def handleDiffStat : Handler := fun _ m _ => .ok (false, m)

def diffLineGraphemes (l : L) : List Str :=
  if startsWith l.text Markers.diffGit then l.graphemes.drop Markers.diffGit.length else []

/-- the state a `diff ` line puts the machine in -/
def diffLineState (l : L) : State :=
  if startsWithAny l.text Markers.combinedDiffLine
  then .diffHeader (.combined .unknown false) else .diffHeader .unified

/-- the per-file fields a `diff ` line (re)sets -/
def diffLineFields (m2 : M) (l : L) : M :=
  let nm := (repeatedFilePath l.text (diffLineGraphemes l)).getD []
  { m2 with handledPair := none, diffLine := l.text, diffLineG := diffLineGraphemes l,
            minusFile := nm, plusFile := nm, minusEvent := .change, plusEvent := .change,
            currentPair := some (nm, nm) }

def handleDiffHeaderDiff : Handler := fun cfg m l =>
  if !startsWith l.text Markers.diffLine then .ok (false, m)
  else if shouldSkipLine cfg (diffLineFields (pendingDiffName cfg { flushMP m with st := diffLineState l }) l) then
    .ok (true, diffLineFields (pendingDiffName cfg { flushMP m with st := diffLineState l }) l)
  else
    .ok (true, emitLineUnchanged (diffLineFields (pendingDiffName cfg { flushMP m with st := diffLineState l }) l) l)

/-- `should_write_generic_diff_header_header_line` -/
def shouldWriteGeneric (cfg : Cfg) (m : M) (l : L) : Bool × M :=
  if cfg.colorOnly then (true, writeGeneric cfg (emit (flushMP m)) l.text l.raw) else (false, m)

def headerLineTest (m : M) : Bool := isDiffHeader m.st || m.source = .diffUnified

/-- the file-name bookkeeping of `handle_diff_header_file_operation_line` -/
def fileOpUpdate (m : M) (ev : FileEvent) (nm : Str) : M :=
  match ev with
  | .removed => { m with minusFile := nm, plusFile := Markers.devNull, minusEvent := .change,
                         plusEvent := .change, currentPair := some (nm, Markers.devNull) }
  | .added => { m with minusFile := Markers.devNull, plusFile := nm, minusEvent := .change,
                       plusEvent := .change, currentPair := some (Markers.devNull, nm) }
  | _ => m

def fileOpFinish (cfg : Cfg) (m1 : M) (l : L) : Bool × M :=
  if (shouldWriteGeneric cfg m1 l).1 then (true, (shouldWriteGeneric cfg m1 l).2)
  else (shouldHandle cfg m1 && m1.handledPair ≠ m1.currentPair, m1)

def handleFileOperation : Handler := fun cfg m l =>
  if !(headerLineTest m && startsWithAny l.text Markers.fileOperationLine) then .ok (false, m) else
    .ok (fileOpFinish cfg
      (fileOpUpdate m (parseDiffHeaderLine l.text (m.source = .gitDiff)).2
        ((repeatedFilePath m.diffLine m.diffLineG).getD [])) l)

/-- `AmbiguousDiffMinusCounter::three_dashes_expected` -/
def threeDashesExpected (c : Int) : Bool := if c > -4096 then c ≤ 0 else true

def minusLineTest (m : M) (l : L) : Bool :=
  headerLineTest m &&
    ((startsWith l.text (Markers.minusLine.getD 0 []) && threeDashesExpected m.counter)
      || startsWithAny l.text (Markers.minusLine.drop 1))

def handleMinusLine : Handler := fun cfg m l =>
  if !minusLineTest m l then .ok (false, m) else
    let pe := parseDiffHeaderLine l.text (m.source = .gitDiff)
    let m1 := { m with minusFile := pe.1, minusEvent := pe.2,
                       st := if m.source = .diffUnified then .diffHeader .unified else m.st,
                       handledPair := if m.source = .diffUnified then none else m.handledPair }
    .ok (shouldWriteGeneric cfg (flushMP m1) l)

def plusLineTest (m : M) (l : L) : Bool :=
  isDiffHeader m.st && startsWithAny l.text Markers.plusLine

def plusLineFinish (cfg : Cfg) (m1 : M) (l : L) : Bool × M :=
  if (shouldWriteGeneric cfg m1 l).1 then (true, (shouldWriteGeneric cfg m1 l).2)
  else if shouldHandle cfg m1 ∧ m1.handledPair ≠ m1.currentPair then
    let m3 := handleHeaderLine cfg (emit m1) (m1.source = .diffUnified)
    (false, { m3 with handledPair := m3.currentPair })
  else (false, m1)

def handlePlusLine : Handler := fun cfg m l =>
  if !plusLineTest m l then .ok (false, m) else
    let pe := parseDiffHeaderLine l.text (m.source = .gitDiff)
    .ok (plusLineFinish cfg
      (flushMP { m with plusFile := pe.1, plusEvent := pe.2, currentPair := some (m.minusFile, pe.1) }) l)

def isMergeConflict : State → Bool
  | .mergeConflict .. => true
  | _ => false

/-- `AmbiguousDiffMinusCounter::count_from` (isize conversion of a usize) -/
def countFrom (lines : Nat) : Int := if lines < 2 ^ 63 then (lines : Int) else -4096

def hunkHeaderDiffType (m : M) (l : L) : DiffType :=
  match m.st with
  | .diffHeader (.combined .unknown false) =>
    .combined (.number ((l.text.takeWhile (· = '@')).length - 1)) false
  | .diffHeader dt | .hunkMinus dt | .hunkZero dt | .hunkPlus dt => dt
  | _ => .unified

def hunkHeaderCounter (m : M) (hh : HunkHeader) : Int :=
  if m.counter > -4096 then
    match hh.coords with
    | (_, ml) :: _ :: _ => countFrom ml
    | _ => m.counter
  else m.counter

def handleHunkHeader : Handler := fun _ m l =>
  if !(startsWith l.text Markers.hunkHeader && !isMergeConflict m.st) then .ok (false, m) else
    match parseHunkHeader l.text with
    | none => .ok (false, m)
    | some hh =>
      .ok (true, { m with counter := hunkHeaderCounter m hh,
                          st := .hunkHeader (hunkHeaderDiffType m l) hh l.text l.raw m.n })

def modeInfoText (cfg : Cfg) (oldMode suf : Str) : Str :=
  if oldMode = "100644".toList ∧ suf = "100755".toList then "mode +x".toList
  else if oldMode = "100755".toList ∧ suf = "100644".toList then "mode -x".toList
  else "mode ".toList ++ oldMode ++ [' '] ++ cfg.labels.rightArrow ++ [' '] ++ suf

def handleModeLine : Handler := fun cfg m l =>
  match stripPrefix l.text Markers.oldMode with
  | some suf =>
    if shouldHandle cfg { m with st := .diffHeader .unified } ∧ ¬ cfg.colorOnly then
      .ok (true, { m with st := .diffHeader .unified, modeInfo := suf })
    else .ok (false, { m with st := .diffHeader .unified })
  | none =>
    match stripPrefix l.text Markers.newMode with
    | some suf =>
      if shouldHandle cfg { m with st := .diffHeader .unified } ∧ ¬ cfg.colorOnly ∧ m.modeInfo ≠ [] then
        .ok (true, { m with st := .diffHeader .unified, modeInfo := modeInfoText cfg m.modeInfo suf })
      else .ok (false, { m with st := .diffHeader .unified })
    | none => .ok (false, m)

/-- `handle_additional_cases` -/
def handleAdditionalCases (cfg : Cfg) (m : M) (l : L) (to : State) : Except String (Bool × M) :=
  if shouldHandle cfg { flushMP m with st := to } then
    .ok (true, writeGeneric cfg (emit { flushMP m with st := to }) l.text l.raw)
  else .ok (false, { flushMP m with st := to })

def binarySuffix : Str := " (binary file)".toList

def handleMisc : Handler := fun cfg m l =>
  let missing := m.source = .diffUnified && startsWith l.text Markers.onlyIn
  let binary := startsWith l.text Markers.binaryFiles
  if !missing && !binary then .ok (false, m)
  else if ¬ cfg.colorOnly ∧ binary then
    if m.minusFile = [] ∧ m.plusFile = [] then
      let m1 := emitLineUnchanged m l
      .ok (true, { m1 with handledPair := m1.currentPair })
    else
      let mf := if m.minusFile ≠ Markers.devNull then m.minusFile ++ binarySuffix else m.minusFile
      let pf := if m.plusFile ≠ Markers.devNull then m.plusFile ++ binarySuffix else m.plusFile
      .ok (true, { m with minusFile := mf, plusFile := pf })
  else
    handleAdditionalCases cfg m l (if isDiffHeader m.st then m.st else .diffHeader .unified)

/-- `handle_submodule_log_line`: the file section before the log may still wait for its header (mode-only
change, empty or binary file): `paint_buffered_minus_and_plus_lines(); handle_pending_line_with_diff_name()?`
come first, in the state the line is met in, as at the top of `handle_diff_header_diff_line`. -/
def handleSubmoduleLog : Handler := fun cfg m l =>
  if !startsWith l.text Markers.submoduleLog then .ok (false, m)
  else handleAdditionalCases cfg (pendingDiffName cfg (flushMP m)) l .submoduleLog

def isHunkHeader : State → Bool
  | .hunkHeader .. => true
  | _ => false

/-- `ParsedHunkHeader::new_side_is_empty`: the hunk has no lines on the side of the new file -/
def newSideEmpty (hh : HunkHeader) : Bool :=
  match hh.coords.getLast? with
  | some (_, 0) => true
  | _ => false

/-- a pending hunk header whose hunk has lines on the new side (a removed submodule has none: its
`-Subproject commit` line has no `+` line to be paired with) -/
def pairableHunkHeader : State → Bool
  | .hunkHeader _ hh _ _ _ => !newSideEmpty hh
  | _ => false

def submoduleShortTest (m : M) (l : L) : Bool :=
  (pairableHunkHeader m.st && startsWith l.text Markers.submoduleShortMinus)
    || (match m.st with
        | .submoduleShort _ => startsWith l.text Markers.submoduleShortPlus
        | _ => false)

def handleSubmoduleShort : Handler := fun cfg m l =>
  if !submoduleShortTest m l || cfg.colorOnly then .ok (false, m)
  else
    match l.submodule with
    | none => .ok (false, m)
    | some commit =>
      match m.st with
      | .hunkHeader .. => .ok (true, { m with st := .submoduleShort commit })
      | .submoduleShort minusCommit =>
        .ok (true, direct (emit (flushMP m))
          [{ kind := .submodule, text := minusCommit.take 12 ++ ['.', '.'] ++ commit.take 12, src := m.n }])
      | _ => .ok (true, m)

def prefixBytes (p : Str) : Nat := p.foldl (fun a c => a + c.utf8Size) 0

/-- `DiffType::n_parents` -/
def nParents : DiffType → Except String Nat
  | .unified => .ok 1
  | .combined (.number n) _ => .ok n
  | .combined (.pre p) _ => .ok (prefixBytes p)
  | .combined .unknown _ => .error "Number of merge parents must be known."

/-- `paint::prepare` minus the trailing newline: drop the prefix columns, expand tabs.
(`remove_prefix_and_expand`: byte slice when the first `n` bytes are ASCII, otherwise skip
`n` grapheme clusters.) -/
def prepare (cfg : Cfg) (n : Nat) (l : L) : Str :=
  if l.text = [] then []
  else if n ≤ l.text.length ∧ (l.text.take n).all (fun c => c.toNat < 128) then
    Text.expand cfg.tab (l.text.drop n)
  else Text.expand cfg.tab (l.graphemes.drop n).flatten

/-- `&new_line[..floor_char_boundary(new_line, min(n, new_line.len()))]`: the longest prefix of
whole characters that fits in `n` bytes. -/
def bytePrefix : Nat → Str → Str
  | 0, _ => []
  | _, [] => []
  | n + 1, c :: cs => if c.utf8Size ≤ n + 1 then c :: bytePrefix (n + 1 - c.utf8Size) cs else []

inductive LineKind | minus | zero | plus
  deriving DecidableEq, Repr

/-- step 1 of `new_line_state`: the diff type of the new line, from the previous state (a string
prefix becomes its length); `none` = the `delta_unreachable` arm -/
def hunkDiffType : State → Option DiffType
  | .hunkMinus .unified | .hunkZero .unified | .hunkPlus .unified | .hunkHeader .unified .. => some .unified
  | .hunkHeader (.combined (.number n) false) .. => some (.combined (.number n) false)
  | .hunkHeader (.combined (.pre p) false) .. => some (.combined (.number (prefixBytes p)) false)
  | .hunkMinus (.combined (.pre p) c) | .hunkZero (.combined (.pre p) c)
  | .hunkPlus (.combined (.pre p) c) => some (.combined (.number (prefixBytes p)) c)
  | .hunkMinus (.combined (.number n) c) | .hunkZero (.combined (.number n) c)
  | .hunkPlus (.combined (.number n) c) => some (.combined (.number n) c)
  | _ => none

/-- steps 2–3 for a unified diff: the first character decides -/
def classifyUnified (l : L) : Option (LineKind × DiffType) :=
  match l.text.head? with
  | some '-' => some (.minus, .unified)
  | some ' ' => some (.zero, .unified)
  | some '+' => some (.plus, .unified)
  | _ => none

/-- steps 2–3 for a combined diff with `n` parents: the first `n` columns decide -/
def classifyCombined (n : Nat) (c : Bool) (l : L) : Option (LineKind × DiffType) :=
  let pre := bytePrefix n l.text
  let pc : Option Char :=
    match pre.find? (fun ch => ch = '-' ∨ ch = '+') with
    | some ch => some ch
    | none => if pre.all (· = ' ') then some ' ' else none
  match pc with
  | some '-' => some (.minus, .combined (.pre pre) c)
  | some ' ' => some (.zero, .combined (.pre pre) c)
  | some '+' => some (.plus, .combined (.pre pre) c)
  | _ => none

/-- `new_line_state`: the kind of the hunk line and its new diff type, or `none`. -/
def newLineState (st : State) (l : L) : Except String (Option (LineKind × DiffType)) :=
  match hunkDiffType st with
  | none => .error "Unexpected state in new_line_state"
  | some .unified => .ok (classifyUnified l)
  | some (.combined (.number n) c) => .ok (classifyCombined n c l)
  | some _ => .error "delta_unreachable (new_line_state)"

/-- `painted_prefix` (text only) -/
def paintedPrefix (cfg : Cfg) (k : LineKind) : DiffType → Str
  | .combined (.pre p) false => p
  | _ => if cfg.keepMarkers then
      (match k with | .minus => ['-'] | .zero => [' '] | .plus => ['+'])
    else []

/-- text of the hunk-header row for a given new-file line number; `none` when nothing is written -/
def hunkHeaderTextOf (cfg : Cfg) (m : M) (hh : HunkHeader) (line : Str) (plusLineNumber : Nat) : Option Str :=
  let body : Str :=
    if cfg.colorOnly then line
    else if cfg.hhFragment ∧ hh.fragment ≠ [] then hh.fragment ++ [' ']
    else []
  let file := if m.plusFile = Markers.devNull then m.minusFile else m.plusFile
  let showNumber := cfg.hhLineNumber ∧ ¬ cfg.hunkHeaderStyle.isRaw ∧ ¬ cfg.colorOnly
  let fwln : Str :=
    (if cfg.hhFile then file else []) ++
    (if showNumber then (if cfg.hhFile then [':'] else []) ++ (toString plusLineNumber).toList else [])
  -- the Rust test is on the *painted* string: a styled empty path still yields escape sequences
  let fwlnPainted : Bool := fwln ≠ [] || (cfg.hhFile && !cfg.hhFileStylePlain)
  if body = [] ∧ fwlnPainted = false then none
  else
    let label := if cfg.hunkLabel ≠ [] then cfg.hunkLabel ++ [' '] else []
    let loc := if fwlnPainted then fwln ++ [':'] ++ (if body = [] then [' '] else []) else []
    some (label ++ loc ++ Text.expand cfg.tab body)

/-- text of the hunk-header row (`write_line_of_code_with_optional_path_and_line_number`);
error when the coordinate list is empty (`line_numbers_and_hunk_lengths[len - 1]`). -/
def hunkHeaderText (cfg : Cfg) (m : M) (hh : HunkHeader) (line : Str) : Except String (Option Str) :=
  match hh.coords.getLast? with
  | none => .error "attempt to subtract with overflow (line_numbers_and_hunk_lengths.len() - 1)"
  | some (plusLineNumber, _) => .ok (hunkHeaderTextOf cfg m hh line plusLineNumber)

/-- rows of `emit_hunk_header_line` (written directly after flushing and emitting) -/
def hunkHeaderRows (cfg : Cfg) (m1 : M) (hh : HunkHeader) (line raw : Str) (src : Nat) :
    Except String (List Row) :=
  let st := cfg.hunkHeaderStyle
  if st.isRaw then
    .ok ((if st.deco ≠ .none then [{ kind := .blank, text := [], src := src }] else []) ++
          drawRows st .hunkHeader line raw [] src)
  else if st.isOmitted then .ok [{ kind := .blank, text := [], src := src }]
  else
    let blank : List Row := if cfg.colorOnly then [] else [{ kind := .blank, text := [], src := src }]
    match hunkHeaderText cfg m1 hh line with
    | .error e => .error e
    | .ok none => .ok blank
    | .ok (some t) => .ok (blank ++ drawRows { st with isRaw := false } .hunkHeader t t [] src)

/-- `emit_hunk_header_line` -/
def emitHunkHeader (cfg : Cfg) (m : M) (hh : HunkHeader) (line raw : Str) (src : Nat) :
    Except String M :=
  match hunkHeaderRows cfg (emit (flushMP m)) hh line raw src with
  | .error e => .error e
  | .ok rows => .ok (direct (emit (flushMP m)) rows)

def isHunkState : State → Bool
  | .hunkHeader .. | .hunkZero _ | .hunkMinus _ | .hunkPlus _ => true
  | _ => false

def isHunkPlus : State → Bool
  | .hunkPlus _ => true
  | _ => false

/-- first part of `handle_hunk_line`: bound the line buffers, write a pending hunk header -/
def hunkLinePre (cfg : Cfg) (m : M) : Except String M :=
  let m1 := if m.minus.length > cfg.bufSize ∨ m.plus.length > cfg.bufSize then flushMP m else m
  match m1.st with
  | .hunkHeader _ hh line raw src => emitHunkHeader cfg m1 hh line raw src
  | _ => .ok m1

/-- the kind of diff a hunk state belongs to (a line that is not a hunk line keeps it) -/
def stateDiffType : State → DiffType
  | .hunkHeader dt .. | .hunkMinus dt | .hunkZero dt | .hunkPlus dt => dt
  | _ => .unified

/-- second part: classify the line and buffer / paint it -/
def hunkLinePush (cfg : Cfg) (m2 : M) (l : L) : Except String M :=
  match newLineState m2.st l with
  | .error e => .error e
  | .ok (some (.minus, dt)) =>
    match nParents dt with
    | .error e => .error e
    | .ok n =>
      let m' := if isHunkPlus m2.st then flushMP m2 else m2
      .ok { m' with minus := m'.minus ++ [{ kind := .minus, pre := paintedPrefix cfg .minus dt,
                                            text := prepare cfg n l, src := m2.n }],
                    counter := m'.counter - 1, st := .hunkMinus dt }
  | .ok (some (.plus, dt)) =>
    match nParents dt with
    | .error e => .error e
    | .ok n =>
      .ok { m2 with plus := m2.plus ++ [{ kind := .plus, pre := paintedPrefix cfg .plus dt,
                                          text := prepare cfg n l, src := m2.n }],
                    st := .hunkPlus dt }
  | .ok (some (.zero, dt)) =>
    match nParents dt with
    | .error e => .error e
    | .ok n =>
      let m' := flushMP m2
      .ok { m' with buf := m'.buf ++ [{ kind := .zero, text := paintedPrefix cfg .zero dt ++ prepare cfg n l,
                                        src := m2.n }],
                    counter := m'.counter - 1, st := .hunkZero dt }
  | .ok none =>
    let m' := flushMP m2
    .ok { m' with buf := m'.buf ++ [{ kind := .other, text := Text.expand cfg.tab l.raw, src := m2.n }],
                  st := .hunkZero (stateDiffType m2.st) }

def handleHunkLine : Handler := fun cfg m l =>
  if !isHunkState m.st then .ok (false, m) else
    match hunkLinePre cfg m with
    | .error e => .error e
    | .ok m2 =>
      match hunkLinePush cfg m2 l with
      | .error e => .error e
      | .ok m3 => .ok (true, emit m3)

-- merge conflicts ------------------------------------------------------------

def trim (s : Str) : Str :=
  ((s.dropWhile Char.isWhitespace).reverse.dropWhile Char.isWhitespace).reverse

/-- `parse_merge_marker` -/
def parseMergeMarker (line marker : Str) : Option Str :=
  match stripPrefix line marker with
  | some suf => let t := trim suf; if t ≠ [] then some t else none
  | none => none

def mcHeaderRows (cfg : Cfg) (m : M) (derived : Option Str) (src : Nat) : List Row :=
  let name := derived.getD ['?']
  let text := match m.mcNameAnc with
    | some _ => "ancestor ".toList ++ cfg.labels.rightArrow ++ [' '] ++ name
    | none => name
  [{ kind := .deco, text := [], src := src }, { kind := .mcHeader, text := text, src := src },
   { kind := .deco, text := [], src := src }]

/-- one comparison (ancestor vs a derived commit) of `paint_buffered_merge_conflict_lines` -/
def mcPaintOne (cfg : Cfg) (m : M) (name : Option Str) (derived : List HLine) : M :=
  let m2 := emit (direct m (mcHeaderRows cfg m name m.n))
  emit { m2 with buf := m2.buf ++ m.mcAnc.map HLine.row ++ derived.map HLine.row }

/-- `paint_buffered_merge_conflict_lines` (default decoration: box) -/
def paintMergeConflict (cfg : Cfg) (m : M) (mp : MergeParents) : M :=
  let m1 := direct (emit m) [{ kind := .mcBar, text := cfg.mcBeginSymbol, src := m.n }]
  let m2 := mcPaintOne cfg m1 m1.mcNameOurs m1.mcOurs
  let m3 := mcPaintOne cfg m2 m2.mcNameTheirs m2.mcTheirs
  let m4 := direct m3 [{ kind := .mcBar, text := cfg.mcEndSymbol, src := m.n }]
  { m4 with mcOurs := [], mcAnc := [], mcTheirs := [], st := .hunkZero (.combined mp false) }

def storeLine (cfg : Cfg) (m : M) (l : L) (c : MCCommit) (mp : MergeParents) (k : RowKind) :
    Except String M :=
  match nParents (.combined mp true) with
  | .error e => .error e
  | .ok n =>
    let h : HLine := { kind := k, pre := if cfg.keepMarkers then (if k = .minus then ['-'] else ['+']) else [],
                       text := prepare cfg n l, src := m.n }
    match c with
    | .ours => .ok { m with mcOurs := m.mcOurs ++ [h] }
    | .ancestral => .ok { m with mcAnc := m.mcAnc ++ [h] }
    | .theirs => .ok { m with mcTheirs := m.mcTheirs ++ [h] }

def enterAncestral (m : M) (l : L) (mp : MergeParents) : Option M :=
  (parseMergeMarker l.text Markers.mcAncestral).map fun c =>
    { m with st := .mergeConflict mp .ancestral, mcNameAnc := some c }

def enterTheirs (m : M) (l : L) (mp : MergeParents) : Option M :=
  if startsWith l.text Markers.mcTheirs then some { m with st := .mergeConflict mp .theirs } else none

def exitMergeConflict (cfg : Cfg) (m : M) (l : L) (mp : MergeParents) : Option M :=
  (parseMergeMarker l.text Markers.mcEnd).map fun c =>
    paintMergeConflict cfg { m with mcNameTheirs := some c } mp

def storeOr (o : Option M) (alt : Except String M) : Except String (Bool × M) :=
  match o with
  | some m' => .ok (true, m')
  | none =>
    match alt with
    | .error e => .error e
    | .ok m' => .ok (true, m')

/-- the merge parents of a combined-diff hunk state outside a conflict region -/
def hunkCombinedParents : State → Option MergeParents
  | .hunkHeader (.combined mp false) .. | .hunkMinus (.combined mp false)
  | .hunkZero (.combined mp false) | .hunkPlus (.combined mp false) => some mp
  | _ => none

/-- `enter_merge_conflict`, first statement: a conflict region that is the first thing in a hunk
finds the hunk header still pending and writes it (as `handle_hunk_line` would have) -/
def mcPendingHeader (cfg : Cfg) (m : M) : Except String M :=
  match m.st with
  | .hunkHeader _ hh line raw src => emitHunkHeader cfg m hh line raw src
  | _ => .ok m

def handleMergeConflict : Handler := fun cfg m l =>
  if cfg.colorOnly ∨ ¬ cfg.mergeConflicts then .ok (false, m) else
  match hunkCombinedParents m.st with
  | some mp =>
    match parseMergeMarker l.text Markers.mcBegin with
    | some c =>
      match mcPendingHeader cfg m with
      | .error e => .error e
      | .ok m1 =>
        .ok (true, { flushMP m1 with st := .mergeConflict mp .ours, mcNameOurs := some c, mcNameAnc := none })
    | none => .ok (false, m)
  | none =>
    match m.st with
    | .mergeConflict mp .ours =>
      storeOr (enterAncestral m l mp <|> enterTheirs m l mp <|> exitMergeConflict cfg m l mp)
        (storeLine cfg m l .ours mp .plus)
    | .mergeConflict mp .ancestral =>
      storeOr (enterTheirs m l mp <|> exitMergeConflict cfg m l mp) (storeLine cfg m l .ancestral mp .minus)
    | .mergeConflict mp .theirs =>
      storeOr (exitMergeConflict cfg m l mp) (storeLine cfg m l .theirs mp .plus)
    | _ => .ok (false, m)

-- the tail of the chain -------------------------------------------------------

/-- `handle_git_show_file_line` with the calling process pinned to "none": only the emit. -/
def handleGitShowFile : Handler := fun _ m _ => .ok (false, emit m)

def handleBlame : Handler := fun _ m l =>
  let m1 := emit m
  if (m.st = .blame ∨ m.st = .unknown) ∧ l.blame then
    .ok (true, { direct m1 [{ kind := .blame, text := l.text, src := m.n }] with st := .blame })
  else .ok (false, m1)

def handleGrep : Handler := fun _ m l =>
  let m1 := emit m
  if (m.st = .grep ∨ m.st = .unknown) ∧ l.grep ≠ 0 then
    if l.grep = 2 then .ok (true, m1)
    else .ok (true, { direct m1 [{ kind := .grep, text := l.text, src := m.n }] with st := .grep })
  else .ok (false, m1)

def handleShouldSkip : Handler := fun cfg m _ => .ok (shouldSkipLine cfg m, m)

def handleEmitUnchanged : Handler := fun _ m l => .ok (true, emitLineUnchanged m l)

/-- handler name (as in `StateMachine::consume`) → model function -/
def handlerOf : String → Option Handler
  | "handle_commit_meta_header_line" => some handleCommitMeta
  | "handle_diff_stat_line" => some handleDiffStat
  | "handle_diff_header_diff_line" => some handleDiffHeaderDiff
  | "handle_diff_header_file_operation_line" => some handleFileOperation
  | "handle_diff_header_minus_line" => some handleMinusLine
  | "handle_diff_header_plus_line" => some handlePlusLine
  | "handle_hunk_header_line" => some handleHunkHeader
  | "handle_diff_header_mode_line" => some handleModeLine
  | "handle_diff_header_misc_line" => some handleMisc
  | "handle_submodule_log_line" => some handleSubmoduleLog
  | "handle_submodule_short_line" => some handleSubmoduleShort
  | "handle_merge_conflict_line" => some handleMergeConflict
  | "handle_hunk_line" => some handleHunkLine
  | "handle_git_show_file_line" => some handleGitShowFile
  | "handle_blame_line" => some handleBlame
  | "handle_grep_line" => some handleGrep
  | "should_skip_line" => some handleShouldSkip
  | "emit_line_unchanged" => some handleEmitUnchanged
  | _ => none

/-- `a()? || b()? || …` over a list of handler names -/
def chain (cfg : Cfg) (l : L) : List String → M → Except String M
  | [], m => .ok m
  | name :: rest, m =>
    match handlerOf name with
    | none => .error ("model has no handler named " ++ name)
    | some h =>
      match h cfg m l with
      | .error e => .error e
      | .ok (true, m') => .ok m'
      | .ok (false, m') => chain cfg l rest m'

/-- `detect_source` -/
def detectSource (line : Str) : Source :=
  if startsWithAny line (Generated.gitDiffPrefixes.map String.toList) then .gitDiff
  else if startsWithAny line (Generated.diffUnifiedPrefixes.map String.toList) then .diffUnified
  else .unknown

/-- arming of the plain-diff minus-line counter (see `Generated.Markers.prepareToCount`) -/
def armCounter (m : M) (l : L) : M :=
  match Markers.prepareToCount with
  | some lit => if startsWith l.text lit then { m with counter := 0 } else m
  | none => if m.source = .diffUnified then { m with counter := 0 } else m

/-- source detection at the top of the `consume` loop body -/
def stepInit (m : M) (l : L) : M :=
  if m.source = .unknown then armCounter { m with source := detectSource l.text } l else m

/-- one iteration of the `consume` loop -/
def step (cfg : Cfg) (m : M) (l : L) : Except String M :=
  match chain cfg l Generated.handlerOrder (stepInit m l) with
  | .error e => .error e
  | .ok m2 => .ok { m2 with n := m2.n + 1 }

/-- one statement of the tail of `consume`, by name -/
def tailOp (cfg : Cfg) (m : M) : String → Except String M
  | "painter.paint_buffered_minus_and_plus_lines" => .ok (flushMP m)
  | "handle_pending_line_with_diff_name" => .ok (pendingDiffName cfg m)
  | "painter.emit" => .ok (emit m)
  | other => .error ("model has no tail operation named " ++ other)

def tailOps (cfg : Cfg) : List String → M → Except String M
  | [], m => .ok m
  | op :: rest, m =>
    match tailOp cfg m op with
    | .error e => .error e
    | .ok m' => tailOps cfg rest m'

/-- the tail of `consume`: the generated statement order -/
def finish (cfg : Cfg) (m : M) : Except String M := tailOps cfg Markers.consumeTail m

def runFrom (cfg : Cfg) : M → List L → Except String M
  | m, [] => .ok m
  | m, l :: ls =>
    match step cfg m l with
    | .error e => .error e
    | .ok m' => runFrom cfg m' ls

def run (cfg : Cfg) (ls : List L) : Except String M :=
  match runFrom cfg {} ls with
  | .error e => .error e
  | .ok m => finish cfg m

end Machine
