import DeltaModel.WholeDiff
import DeltaModel.Generated.SbsDispatch
/-!
Whole diffs in the side-by-side view (property C05): many files, many hunks, one run of `delta -s`.

`DeltaModel/WholeDiff.lean` (`runWhole`) threads the *unified* line painter through a whole input. Here the
same run — `handle_hunk_header_line` parks the `@@` line, `handle_hunk_line` buffers removed / added lines and
calls `emit_hunk_header_line` for the first line of a hunk (flush of what is still buffered, then
`LineNumbersData::initialize_hunk`, then the header row), a file header and the end of input flush — with the
side-by-side block painters of `DeltaModel/LineNumbers.lean`: a flush hands the buffered lines as ONE subhunk to
`paint_minus_and_plus_lines_side_by_side` (`sbsBlock`, through `runBlocksSbs`: alignment walk, wrapped continuation
rows, the left-counter correction), an unchanged line goes to `paint_zero_lines_side_by_side` (`zeroSbs`).

What the painters are given that is not computed here (parameters, all universally quantified in the theorems):
* per line the number of display rows it wraps into (`SLine.rows`; `wrap_line`, property C07) and whether its
  state keeps the raw line (`SLine.raw`);
* the line alignment of a subhunk: `AlignOf`, an arbitrary function of the buffered removed and added lines
  (`get_diff_style_sections(&lines, config)` in the source — `Generated/SbsDispatch.alignmentSource`; property C06);
  `SLine.tag` stands for the text of the line.

Regenerated from the source and interpreted here: the statement order of `paint_buffered_minus_and_plus_lines`
(`bufferedOrder`), the view branch of `paint_minus_and_plus_lines` and of `paint_zero_line` (`minusPlusBranch`,
`zeroBranch`), and — shared with `runWhole` — `hunkLineOrder`, `emitHeaderOrder`, `initAssigns`, `initArgs`,
`headerLineOps` of `Generated/HunkInit.lean`.
-/
namespace LineNumbers.WholeSbs
open Generated.HunkInit Generated.SbsDispatch LineNumbers.Whole

/-- what the side-by-side painters are told about one hunk line -/
structure SLine where
  /-- display rows the line occupies in its panel (1 = it fits; `wrap_line`) -/
  rows : Nat
  /-- its `State` carries the raw line (`HunkMinus(_, Some(raw))`: coloured input, `raw` styles) -/
  raw : Bool
  /-- stands for the text of the line: all the alignment may depend on -/
  tag : Nat
  deriving DecidableEq, Repr

/-- the line alignment of a subhunk as a function of its buffered removed and added lines -/
abbrev AlignOf := List SLine → List SLine → Alignment

/-- a painted block: an unchanged line, or the buffered removed / added lines of one flush -/
inductive SBlock where
  | zero (l : SLine)
  | sub (ms ps : List SLine)

def SBlock.toBlock (al : AlignOf) : SBlock → Block
  | .zero l => .zero l.rows
  | .sub ms ps => .sub ms.length ps.length (al ms ps) (ms.map (·.rows)) (ps.map (·.rows)) (ms.map (·.raw)) (ps.map (·.raw))

/-- one row of the output -/
inductive SORow where
  /-- hunk-header row: path and line number -/
  | header (path : String) (number : Nat)
  /-- a display row of the two panels (`⟨none, none⟩`: a line written without gutters, e.g. `\ No newline at end
      of file`), painted while `hunk_max_line_number_width = width` and `LineNumbersData.plus_file = plusFile` -/
  | line (row : SbsRow) (width : Nat) (plusFile : String)
  deriving DecidableEq, Repr

/-- the painter / state-machine part `handle_hunk_line` threads through a hunk: counters, the buffered removed and
    added lines, "state is `HunkPlus`", display rows painted since the line-number data were last initialised -/
structure SU where
  c : Counters
  minusBuf : List SLine
  plusBuf : List SLine
  prevPlus : Bool
  out : List SbsRow

/-- the state of a whole run (as `Whole.WState`) -/
structure WS where
  u : SU := ⟨⟨0, 0⟩, [], [], false, []⟩
  width : Nat := 0
  lnPlusFile : String := ""
  minusFile : String := ""
  plusFile : String := ""
  pending : Option (List (Nat × Nat)) := none
  inHunk : Bool := false
  out : List SORow := []

def drainS (s : WS) : WS :=
  { s with out := s.out ++ s.u.out.map (fun r => SORow.line r s.width s.lnPlusFile), u := { s.u with out := [] } }

def liftS (f : SU → Except String SU) (s : WS) : Except String WS :=
  match f s.u with
  | .error e => .error e
  | .ok u => .ok { s with u := u }

/-- does the side-by-side branch of the source call the painter the model has for this kind of block? -/
def painterKnown : SBlock → Bool
  | .zero _ => decide (zeroBranch.1 = "self.config.side_by_side" ∧ zeroBranch.2.1 = "side_by_side::paint_zero_lines_side_by_side")
  | .sub _ _ => decide (minusPlusBranch.1 = "config.side_by_side" ∧
      minusPlusBranch.2.1 = "side_by_side::paint_minus_and_plus_lines_side_by_side")

/-- one block through the side-by-side painter the source dispatches to when `config.side_by_side` is on:
    `paint_minus_and_plus_lines` ends in `if config.side_by_side { paint_minus_and_plus_lines_side_by_side(…) }`,
    `paint_zero_line` in `if self.config.side_by_side { paint_zero_lines_side_by_side(…) }` (regenerated) -/
def paintBlockS (al : AlignOf) (u : SU) (b : SBlock) : Except String SU :=
  if painterKnown b then
    match runBlocksSbs u.c [b.toBlock al] with
    | .error e => .error e
    | .ok (c, rows) => .ok { u with c := c, out := u.out ++ rows }
  else .error "model does not know the painter the side-by-side branch calls"

/-- one statement of `paint_buffered_minus_and_plus_lines`, by name; `true`: return now -/
def flushOpS (al : AlignOf) (u : SU) : String → Except String (SU × Bool)
  | "return_if_both_empty" => .ok (u, u.minusBuf.isEmpty && u.plusBuf.isEmpty)
  | "paint_minus_and_plus_lines" =>
    match paintBlockS al u (.sub u.minusBuf u.plusBuf) with
    | .error e => .error e
    | .ok u1 => .ok (u1, false)
  | "clear_minus_lines" => .ok ({ u with minusBuf := [] }, false)
  | "clear_plus_lines" => .ok ({ u with plusBuf := [] }, false)
  | other => .error ("model has no paint_buffered_minus_and_plus_lines statement named " ++ other)

def flushOpsS (al : AlignOf) : List String → SU → Except String SU
  | [], u => .ok u
  | op :: rest, u =>
    match flushOpS al u op with
    | .error e => .error e
    | .ok (u1, stop) => if stop then .ok u1 else flushOpsS al rest u1

/-- `Painter::paint_buffered_minus_and_plus_lines`, side-by-side view: the generated statement order -/
def flushS (al : AlignOf) (u : SU) : Except String SU := flushOpsS al bufferedOrder u

/-- the buffer bound at the top of `handle_hunk_line` -/
def preFlushS (bufSize : Nat) (al : AlignOf) (u : SU) : Except String SU :=
  if overFull bufSize u.minusBuf.length || overFull bufSize u.plusBuf.length then flushS al u else .ok u

/-- the `match new_line_state(..)` of `handle_hunk_line` (arms as in `Whole.pushLine`): a removed line is buffered
    (after a flush when the previous line was an added one), an added line is buffered, an unchanged line flushes
    and is painted at once, any other line flushes and is written without gutters -/
def pushLineS (al : AlignOf) (u : SU) (l : SLine) : Option Kind → Except String SU
  | some .minus =>
    match (if u.prevPlus then flushS al u else .ok u) with
    | .error e => .error e
    | .ok u2 => .ok { u2 with minusBuf := u2.minusBuf ++ [l], prevPlus := false }
  | some .plus => .ok { u with plusBuf := u.plusBuf ++ [l], prevPlus := true }
  | some .ctx =>
    match flushS al u with
    | .error e => .error e
    | .ok u2 =>
      match paintBlockS al u2 (.zero l) with
      | .error e => .error e
      | .ok u3 => .ok { u3 with prevPlus := false }
  | none =>
    match flushS al u with
    | .error e => .error e
    | .ok u2 => .ok { u2 with out := u2.out ++ [⟨none, none⟩], prevPlus := false }

/-- `handle_hunk_line` inside a hunk whose header is written: bound, then the match -/
def stepLineS (bufSize : Nat) (al : AlignOf) (u : SU) (k : Option Kind) (l : SLine) : Except String SU :=
  match preFlushS bufSize al u with
  | .error e => .error e
  | .ok u1 => pushLineS al u1 l k

def stepLinesS (bufSize : Nat) (al : AlignOf) : SU → List (Kind × SLine) → Except String SU
  | u, [] => .ok u
  | u, (k, l) :: rest =>
    match stepLineS bufSize al u (some k) l with
    | .error e => .error e
    | .ok u1 => stepLinesS bufSize al u1 rest

def argFileS (s : WS) (arg : String) : Except String String :=
  if arg = "self.plus_file" then .ok s.plusFile
  else if arg = "self.minus_file" then .ok s.minusFile
  else .error ("model does not know the argument " ++ arg)

/-- `LineNumbersData::initialize_hunk` on the whole record (as `Whole.initializeHunkData`) -/
def initializeHunkDataS (s : WS) (pairs : List (Nat × Nat)) (plusFileArg : String) : Except String WS :=
  match initializeHunk pairs with
  | .error e => .error e
  | .ok (c, w) =>
    let s1 := drainS s
    .ok { s1 with
      u := { s1.u with c := if assigns "line_number" then c else s1.u.c },
      width := if assigns "hunk_max_line_number_width" then w else s1.width,
      lnPlusFile := if assigns "plus_file" then plusFileArg else s1.lnPlusFile }

/-- one statement of `emit_hunk_header_line`, by name -/
def emitHeaderOpS (al : AlignOf) (pairs : List (Nat × Nat)) (s : WS) : String → Except String WS
  | "paint_buffered_minus_and_plus_lines" => liftS (flushS al) s
  | "set_highlighter" => .ok s
  | "emit" => .ok s
  | "initialize_hunk" =>
    if initArgs.1 = "line_numbers_and_hunk_lengths" then
      match argFileS s initArgs.2 with
      | .error e => .error e
      | .ok f => initializeHunkDataS s pairs f
    else .error ("model does not know the argument " ++ initArgs.1)
  | "write_header" =>
    match headerNumber pairs with
    | .error e => .error e
    | .ok n => .ok { drainS s with out := (drainS s).out ++ [SORow.header (headerPath s.minusFile s.plusFile) n] }
  | other => .error ("model has no emit_hunk_header_line statement named " ++ other)

def emitHeaderOpsS (al : AlignOf) (pairs : List (Nat × Nat)) : List String → WS → Except String WS
  | [], s => .ok s
  | op :: rest, s =>
    match emitHeaderOpS al pairs s op with
    | .error e => .error e
    | .ok s' => emitHeaderOpsS al pairs rest s'

def emitHeaderS (al : AlignOf) (pairs : List (Nat × Nat)) (s : WS) : Except String WS :=
  emitHeaderOpsS al pairs emitHeaderOrder s

/-- one statement of `handle_hunk_line`, by name -/
def hunkLineOpS (bufSize : Nat) (al : AlignOf) (k : Option Kind) (l : SLine) (s : WS) : String → Except String WS
  | "test_hunk_line" => .ok s
  | "buffer_bound" => liftS (preFlushS bufSize al) s
  | "emit_hunk_header_line" =>
    match s.pending with
    | none => .ok s
    | some pairs => emitHeaderS al pairs s
  | "new_line_state" =>
    match pushLineS al s.u l k with
    | .error e => .error e
    | .ok u => .ok { s with u := u, pending := none }
  | "emit" => .ok s
  | other => .error ("model has no handle_hunk_line statement named " ++ other)

def hunkLineOpsS (bufSize : Nat) (al : AlignOf) (k : Option Kind) (l : SLine) : List String → WS → Except String WS
  | [], s => .ok s
  | op :: rest, s =>
    match hunkLineOpS bufSize al k l s op with
    | .error e => .error e
    | .ok s' => hunkLineOpsS bufSize al k l rest s'

def hunkLineS (bufSize : Nat) (al : AlignOf) (k : Option Kind) (l : SLine) (s : WS) : Except String WS :=
  if !s.inHunk then .ok s else hunkLineOpsS bufSize al k l hunkLineOrder s

/-- what reaches the machine (as `Whole.Item`; a line brings what the painters are told about it) -/
inductive SItem where
  | names (minusFile plusFile : String)
  | header (line : List Char)
  | line (k : Option Kind) (l : SLine)
  deriving DecidableEq, Repr

def headerLineS (bufSize : Nat) (al : AlignOf) (line : List Char) (s : WS) : Except String WS :=
  match parseHunkHeader line with
  | .error e => .error e
  | .ok none => hunkLineS bufSize al none ⟨1, false, 0⟩ s
  | .ok (some (_, pairs)) =>
    if headerLineOps = ["set_state_hunk_header"] then
      .ok { s with pending := some pairs, inHunk := true, u := { s.u with prevPlus := false } }
    else .error "model does not know what handle_hunk_header_line does"

def stepItemS (bufSize : Nat) (al : AlignOf) (s : WS) : SItem → Except String WS
  | .names mf pf =>
    match liftS (flushS al) s with
    | .error e => .error e
    | .ok s1 => .ok { s1 with minusFile := mf, plusFile := pf, pending := none, inHunk := false,
                              u := { s1.u with prevPlus := false } }
  | .header line => headerLineS bufSize al line s
  | .line k l => hunkLineS bufSize al k l s

def stepItemsS (bufSize : Nat) (al : AlignOf) : WS → List SItem → Except String WS
  | s, [] => .ok s
  | s, it :: rest =>
    match stepItemS bufSize al s it with
    | .error e => .error e
    | .ok s' => stepItemsS bufSize al s' rest

/-- the tail of `consume`: the buffered lines are painted; everything painted is in the output -/
def finS (al : AlignOf) (s : WS) : Except String (List SORow) :=
  match liftS (flushS al) s with
  | .error e => .error e
  | .ok s' => .ok (drainS s').out

/-- a whole run in the side-by-side view -/
def runWholeSbs (bufSize : Nat) (al : AlignOf) (items : List SItem) : Except String (List SORow) :=
  match stepItemsS bufSize al {} items with
  | .error e => .error e
  | .ok s => finS al s

end LineNumbers.WholeSbs
