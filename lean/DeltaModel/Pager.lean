import DeltaModel.Generated.PagerShape
/-!
Model for C18 — exit status and pager protocol.

Rust modelled: `src/main.rs` (`main`, `run_app`: result mapping and statement order),
`src/utils/bat/output.rs` (`OutputType::try_pager`, `_make_process_from_less_path`,
`_make_process_from_pager_path`, `impl Drop for OutputType`), `src/env.rs` (`pagers`).

Everything that is a literal, a match-arm order or a statement order in those functions
comes from `Generated.PagerShape` (re-extracted from the source on every check); the
functions below *interpret* that data, so an edit to the arms / the precedence / the
rewriting rule changes what these functions compute and the theorems in `Props/C18.lean`
are re-checked against it.

Return paths vs. `process::exit` paths: only a *return* from `run_app` drops `output_type` (whose
`Drop` waits for the pager); `fatal(..)` / `process::exit(..)` / `delta_unreachable(..)` end the
process on the spot. Every error exit of `run_app` outside the rendering is extracted as
(action, code) with action `return` | `fatal` | `exit` (`errExit`), and every call of one of the
three exit primitives that can be reached after `OutputType::from_mode` is listed in
`PagerShape.setupPhaseExits` / `renderPhaseExits` (modes `setupAbort` / `renderAbort`).

Not modelled (runtime behaviour, exercised by fault enumeration on the real binary only):
the kernel's pipe semantics (which `write` fails, EPIPE vs SIGPIPE), `wait`, signal
dispositions, process spawning, `shell_words` splitting (commands enter pre-split),
bat's `get_pager_executable` (its result is an input of `select`; `batExecutable` below is a
transcription used by the driver only, no theorem depends on it).
-/
namespace Pager
open Generated

/-! ## 1. `run_app`: result of a run -/

inductive FaultKind
  | brokenPipe
  | other
  deriving DecidableEq, Repr

/-- The write with index `pos` (0-based) fails with an error of kind `kind`. -/
structure Fault where
  pos : Nat
  kind : FaultKind
  deriving DecidableEq, Repr

inductive SubKind
  | git
  | gitDiff
  | diff
  | rg
  deriving DecidableEq, Repr

/-- Name as written in `SubCmdKind::…` (used against `PagerShape.failMsgKinds`). -/
def SubKind.name : SubKind → String
  | .git => "Git"
  | .gitDiff => "GitDiff"
  | .diff => "Diff"
  | .rg => "Rg"

inductive Mode
  /-- `delta < input`: render stdin. -/
  | stdin
  /-- stdin is a terminal: usage hint, `error_exit_code`. -/
  | stdinTty
  /-- `delta a b` with unparsable `--diff-args` (`PagerShape.diffArgsErrExit`: on the pinned tree
      `build_diff_cmd` returns `Err(code)` and `run_app` returns `Ok(code)`). -/
  | diffArgsError
  /-- `delta a b` (kinds `gitDiff`/`diff`) or `delta git …`/`delta rg …`: a child process whose
      stdout is rendered. `spawnOk`: the child could be started; `status`: its exit status
      (`none` = killed by a signal); `stderrLines`: lines it wrote to stderr. -/
  | sub (kind : SubKind) (spawnOk : Bool) (status : Option Int) (stderrLines : Nat)
  /-- the `--list-languages`/`--show-colors`/… family: an `io::Result` matched in `run_app`
      before any pager is started. -/
  | early
  /-- `--version`/`--help`/`--show-config`: write errors leave `run_app` through `?`. -/
  | oneshot
  /-- entry `i` of `PagerShape.setupPhaseExits` is executed: a `fatal`/`process::exit` in the
      statements of `run_app` after `from_mode` (or in a helper they call, e.g. `build_diff_cmd`),
      the rendering excluded. -/
  | setupAbort (i : Nat)
  /-- entry `i` of `PagerShape.renderPhaseExits` is executed while rendering (after `writes`
      successful writes). -/
  | renderAbort (i : Nat)
  deriving DecidableEq, Repr

structure Scenario where
  mode : Mode
  /-- `OutputType::from_mode` produced `OutputType::Pager(child)` -/
  pager : Bool
  /-- number of `write` calls the rendering performs when nothing fails -/
  writes : Nat
  fault : Option Fault
  deriving DecidableEq, Repr

inductive Event
  | spawnPager
  | spawnSub
  | writeOk
  | writeFail (k : FaultKind)
  | waitSub
  | message
  | closePager
  | waitPager
  | exit (code : Int)
  /-- the generated shape is not one this model understands -/
  | unknown
  deriving DecidableEq, Repr

structure Result where
  code : Int
  /-- nothing written to stderr -/
  silent : Bool
  deriving DecidableEq, Repr

/-- Value of an exit expression of `run_app` (`status` = the wrapped command's status). -/
def evalCode (tok : String) (status : Int) : Option Int :=
  if tok = "0" then some 0
  else if tok = "error_exit_code" then some PagerShape.errorExitCode
  else if tok = "subcmd_status" then some status
  else none

/-- Rust `match`: the first arm whose pattern covers the error kind. -/
def armFor (arms : List (String × Bool × String)) (k : FaultKind) : Option (Bool × String) :=
  match arms.find? (fun a => a.1 = "_" || (a.1 = "BrokenPipe" && k = .brokenPipe)) with
  | some a => some a.2
  | none => none

/-- What happens after the rendering returned `Err(kind)` at one of the three sites. -/
structure OnError where
  code : Int
  silent : Bool
  /-- `run_app` returns (locals are dropped); `false` = `fatal`: `process::exit` on the spot -/
  returns : Bool
  /-- the wrapped command is waited for first -/
  waitsSub : Bool
  deriving DecidableEq, Repr

def onError (site : String) (k : FaultKind) : Option OnError :=
  match PagerShape.errorArms.find? (fun s => s.1 = site) with
  | none => none
  | some (_, arms, follow, waitsSub) =>
    match armFor arms k with
    | none => none
    | some (prints, code) =>
      if code = "fatal" then some ⟨PagerShape.fatalExitCode, !prints, false, waitsSub⟩
      else if code = "fallthrough" then
        match evalCode follow 0 with
        | some c => some ⟨c, !prints, true, waitsSub⟩
        | none => none
      else
        match evalCode code 0 with
        | some c => some ⟨c, !prints, true, waitsSub⟩
        | none => none

/-- The fault, if it hits one of the writes that are actually made. -/
def effectiveFault (s : Scenario) : Option Fault :=
  match s.fault with
  | some f => if f.pos < s.writes then some f else none
  | none => none

/-- The write events of the rendering. -/
def renderEvents (s : Scenario) : List Event :=
  match effectiveFault s with
  | some f => List.replicate f.pos Event.writeOk ++ [Event.writeFail f.kind]
  | none => List.replicate s.writes Event.writeOk

def msg (silent : Bool) : List Event := if silent then [] else [Event.message]

/-- Body of `run_app` between the creation of `output_type` and the return. -/
structure Body where
  events : List Event
  code : Int
  silent : Bool
  returns : Bool
  deriving DecidableEq, Repr

/-- An error exit of `run_app` outside the rendering, as extracted: `("return", code)` is
    `return Ok(code)` (locals are dropped: the pager is waited for); `("fatal", _)` and
    `("exit", n)` are `process::exit` on the spot (no destructor runs). Always with a message. -/
def errExit (x : String × String) : Option Body :=
  if x.1 = "return" then
    match evalCode x.2 0 with
    | some c => some ⟨[Event.message], c, false, true⟩
    | none => none
  else if x.1 = "fatal" then some ⟨[Event.message], PagerShape.fatalExitCode, false, false⟩
  else if x.1 = "exit" then
    match evalCode x.2 0 with
    | some c => some ⟨[Event.message], c, false, false⟩
    | none =>
      match x.2.toInt? with
      | some c => some ⟨[Event.message], c, false, false⟩
      | none => none
  else none

/-- Failing to resolve and failing to start the wrapped command (`spawnOk = false` covers both):
    the two blocks must leave in the same way. -/
def spawnFailExit : Option (String × String) :=
  match PagerShape.spawnFailExits with
  | [(_, a1, c1), (_, a2, c2)] => if a1 = a2 ∧ c1 = c2 then some (a1, c1) else none
  | _ => none

/-- An exit primitive listed by the extractor is executed. `delta_unreachable` (kind
    `unreachable`) guards a state the code declares impossible: the model has no run for it
    (assumption: those guards are never reached). -/
def abortBody (kind : String) (pre : List Event) : Option Body :=
  if kind = "fatal" ∨ kind = "exit" then
    some ⟨pre ++ [Event.message], PagerShape.fatalExitCode, false, false⟩
  else none

/-- the "process failed with exit status" message -/
def failMsg (kind : SubKind) (st : Int) : Bool :=
  PagerShape.failMsgKinds.contains kind.name && decide (PagerShape.failMsgFrom ≤ st)

def body (s : Scenario) : Option Body :=
  match s.mode with
  | .stdin =>
    match effectiveFault s with
    | none =>
      match evalCode PagerShape.stdinTail 0 with
      | some c => some ⟨renderEvents s, c, true, true⟩
      | none => none
    | some f =>
      match onError "stdin" f.kind with
      | some r => some ⟨renderEvents s ++ msg r.silent, r.code, r.silent, r.returns⟩
      | none => none
  | .stdinTty => errExit PagerShape.stdinTtyExit
  | .diffArgsError => errExit PagerShape.diffArgsErrExit
  | .setupAbort i =>
    match PagerShape.setupPhaseExits[i]? with
    | some (_, kind, _) => abortBody kind []
    | none => none
  | .renderAbort i =>
    match PagerShape.renderPhaseExits[i]? with
    | some (_, kind) => abortBody kind (List.replicate s.writes Event.writeOk)
    | none => none
  | .sub kind spawnOk status stderrLines =>
    if !spawnOk then
      match spawnFailExit with
      | some x => errExit x
      | none => none
    else
      match effectiveFault s with
      | some f =>
        match onError "sub" f.kind with
        | some r =>
          some ⟨[Event.spawnSub] ++ renderEvents s ++ (if r.waitsSub then [Event.waitSub] else [])
                 ++ msg r.silent, r.code, r.silent, r.returns⟩
        | none => none
      | none =>
        if !PagerShape.subStatusFromCode then none else
        match status with
        | some st =>
          match evalCode PagerShape.subTail st with
          | some c =>
            let silent := stderrLines == 0 && !failMsg kind st
            some ⟨[Event.spawnSub] ++ renderEvents s ++ [Event.waitSub] ++ msg silent, c, silent, true⟩
          | none => none
        | none =>
          -- `.code()` is `None`: killed by a signal
          if PagerShape.subNoStatusIsErrorCode then
            match evalCode PagerShape.subTail PagerShape.errorExitCode with
            | some c =>
              let silent := !PagerShape.subNoStatusPrints && stderrLines == 0
                            && !failMsg kind PagerShape.errorExitCode
              some ⟨[Event.spawnSub] ++ renderEvents s ++ [Event.waitSub] ++ msg silent, c, silent, true⟩
            | none => none
          else none
  | .early =>
    match effectiveFault s with
    | none =>
      match onError "early" .brokenPipe with   -- success and the fall-through arm share `return Ok(..)`
      | some r => some ⟨renderEvents s, r.code, true, true⟩
      | none => none
    | some f =>
      match onError "early" f.kind with
      | some r => some ⟨renderEvents s ++ msg r.silent, r.code, r.silent, r.returns⟩
      | none => none
  | .oneshot =>
    match effectiveFault s with
    | none => some ⟨renderEvents s, 0, true, true⟩
    | some f =>
      if PagerShape.mainErrPolicy = "propagate" then
        -- `run_app(..)?` in `main`: Rust prints `Error: …` and exits with 1
        some ⟨renderEvents s ++ [Event.message], 1, false, true⟩
      else if PagerShape.mainErrPolicy = "brokenpipe-zero" then
        match f.kind with
        | .brokenPipe => some ⟨renderEvents s, 0, true, true⟩
        | .other => some ⟨renderEvents s ++ [Event.message], 1, false, true⟩
      else none

/-- Modes that run after `OutputType::from_mode` (a pager may have been started). -/
def usesOutputType : Mode → Bool
  | .early => false
  | .oneshot => false
  | _ => true

def idx (l : List String) (a : String) : Nat := l.idxOf a

/-- Statement-order facts the event order below relies on, from the generated anchors:
    the pager is started before anything is rendered or any child is spawned, the child is
    waited for after rendering, `process::exit` comes after `run_app`, nothing leaks
    `output_type`. -/
def shapeOk : Bool :=
  let o := PagerShape.runAppOrder
  decide (idx o "from_mode" < idx o "delta_stdin") &&
  decide (idx o "from_mode" < idx o "build_diff_cmd") &&
  decide (idx o "from_mode" < idx o "spawn_sub") &&
  decide (idx o "spawn_sub" < idx o "delta_sub") &&
  decide (idx o "delta_sub" < idx o "wait_sub") &&
  decide (idx o "wait_sub" < idx o "tail_sub") &&
  decide (idx o "tail_sub" < o.length) &&
  PagerShape.mainOrder == ["run_app", "process_exit"] &&
  PagerShape.runAppLeaks.isEmpty

/-- A pager process exists in this scenario. -/
def hasPager (s : Scenario) : Bool := s.pager && usesOutputType s.mode

/-- The event list of a whole run: `main` → `run_app` → drop of `output_type` → `process::exit`. -/
def run (s : Scenario) : List Event :=
  if !shapeOk then [Event.unknown] else
  match body s with
  | none => [Event.unknown]
  | some b =>
    (if hasPager s then [Event.spawnPager] else [])
    ++ b.events
    ++ (if hasPager s && b.returns && PagerShape.dropWaitsForPager
        then [Event.closePager, Event.waitPager] else [])
    ++ [Event.exit b.code]

/-- Exit code and stderr silence of a run. -/
def runResult (s : Scenario) : Option Result :=
  if !shapeOk then none else
  match body s with
  | none => none
  | some b => some ⟨b.code, b.silent⟩

/-! ## 2. Pager selection -/

/-- A command line after `shell_words::split`. -/
abbrev Cmd := List String

structure Env where
  /-- `--pager` / `delta.pager` -/
  config : Option Cmd
  /-- `DELTA_PAGER` -/
  deltaPager : Option Cmd
  /-- result of `bat::config::get_pager_executable(None)` (looks at `BAT_PAGER`, `PAGER`; trusted) -/
  bat : Option Cmd
  deriving DecidableEq, Repr

inductive Source
  | config
  | deltaPager
  | batEnv
  | default
  deriving DecidableEq, Repr

structure Selection where
  source : Source
  words : Cmd
  /-- `replace_arguments_to_less` -/
  replace : Bool
  deriving DecidableEq, Repr

def slotValue (e : Env) (slot : Nat) : Option (Source × Option Cmd) :=
  match PagerShape.envSlots[slot]? with
  | some "DELTA_PAGER" => some (.deltaPager, e.deltaPager)
  | some "bat" => some (.batEnv, e.bat)
  | _ => none

/-- `match env.pagers.clone() { … }`: the first arm whose slot is `Some`. -/
def fromEnvArms (e : Env) : List (Nat × Bool) → Option (Option (Source × Cmd × Bool))
  | [] => some none
  | (slot, repl) :: rest =>
    match slotValue e slot with
    | none => none                     -- unknown slot: shape not understood
    | some (src, some c) => some (some (src, c, repl))
    | some (_, none) => fromEnvArms e rest

def select (e : Env) : Option Selection :=
  match fromEnvArms e PagerShape.envArms with
  | none => none
  | some fromEnv =>
    let replace0 := match fromEnv with
      | some (_, _, r) => r
      | none => PagerShape.replaceInitially
    let replace := if e.config.isSome && PagerShape.configClearsReplace then false else replace0
    if PagerShape.sourceChain = ["config", "env"] then
      match e.config with
      | some c => some ⟨.config, c, replace⟩
      | none =>
        match fromEnv with
        | some (src, c, _) => some ⟨src, c, replace⟩
        | none => some ⟨.default, [PagerShape.defaultPager], replace⟩
    else if PagerShape.sourceChain = ["env", "config"] then
      match fromEnv with
      | some (src, c, _) => some ⟨src, c, replace⟩
      | none =>
        match e.config with
        | some c => some ⟨.config, c, replace⟩
        | none => some ⟨.default, [PagerShape.defaultPager], replace⟩
    else none

/-- Last element of a non-empty split, as chars. -/
def splitOnChar (c : Char) : List Char → List (List Char)
  | [] => [[]]
  | x :: xs =>
    match splitOnChar c xs with
    | [] => [[]]          -- unreachable: result is never empty
    | hd :: tl => if x = c then [] :: hd :: tl else (x :: hd) :: tl

/-- `Path::file_name`: last component that is not empty / `.`; `..` has no file name. -/
def fileName (p : String) : Option (List Char) :=
  let comps := (splitOnChar '/' p.toList).filter (fun c => c ≠ [] && c ≠ ['.'])
  match comps.getLast? with
  | none => none
  | some c => if c = ['.', '.'] then none else some c

/-- Position of the last `.` in a name. -/
def lastDot (l : List Char) : Option Nat :=
  let r := l.reverse
  if r.contains '.' then some (l.length - 1 - r.idxOf '.') else none

/-- `Path::file_stem`. -/
def fileStem (p : String) : Option String :=
  match fileName p with
  | none => none
  | some name =>
    match lastDot name with
    | none => some (String.ofList name)
    | some 0 => some (String.ofList name)      -- `.profile`
    | some i => some (String.ofList (name.take i))

def isLess (path : String) : Bool := fileStem path == some PagerShape.lessStem

/-- The arguments delta chooses for less. -/
def oursPiece (lessVersion : Option Nat) (quitIfOneScreen : Bool) (piece : String) : Option (List String) :=
  if piece = "always" then some PagerShape.oursAlways
  else if piece = "no-init" then
    match lessVersion with
    | none => some [PagerShape.noInitArg]
    | some v => if v < PagerShape.noInitBelow then some [PagerShape.noInitArg] else some []
  else if piece = "quit-if-one-screen" then
    some (if quitIfOneScreen then [PagerShape.quitIfOneScreenArg] else [])
  else none

def oursArgs (lessVersion : Option Nat) (quitIfOneScreen : Bool) : List String → Option (List String)
  | [] => some []
  | p :: ps =>
    match oursPiece lessVersion quitIfOneScreen p, oursArgs lessVersion quitIfOneScreen ps with
    | some a, some b => some (a ++ b)
    | _, _ => none

def condHolds (args : List String) (replace : Bool) (tok : String) : Option Bool :=
  if tok = "args.is_empty()" then some args.isEmpty
  else if tok = "replace_arguments_to_less" then some replace
  else none

def anyCond (args : List String) (replace : Bool) : List String → Option Bool
  | [] => some false
  | t :: ts =>
    match condHolds args replace t, anyCond args replace ts with
    | some a, some b => some (a || b)
    | _, _ => none

inductive Launch
  /-- empty command: no pager, output goes to stdout -/
  | stdout
  /-- `fatal`: the pager would be delta itself -/
  | refused
  | less (path : String) (argv : List String)
  | other (path : String) (argv : List String)
  | unknown
  deriving DecidableEq, Repr

/-- `try_pager` up to (not including) the spawn. -/
def launch (e : Env) (lessVersion : Option Nat) (quitIfOneScreen : Bool) : Launch :=
  match select e with
  | none => .unknown
  | some sel =>
    match sel.words with
    | [] => .stdout
    | path :: args =>
      if isLess path then
        match anyCond args sel.replace PagerShape.rewriteWhenAnyOf with
        | none => .unknown
        | some true =>
          match oursArgs lessVersion quitIfOneScreen PagerShape.oursOrder with
          | some a => .less path a
          | none => .unknown
        | some false => if PagerShape.elseKeepsUserArgs then .less path args else .unknown
      else if PagerShape.refusedStem ≠ "" && fileStem path == some PagerShape.refusedStem then .refused
      else .other path args

/-! ## 4. less set-up under `navigate`: the history-file copy and its panic points

`_make_process_from_less_path` calls `navigate::copy_less_hist_file_and_append_navigate_regex`
when `config.navigate`; that function unwraps `config.navigate_regex`. Whether this can panic is
decided by `Config::from`'s computation of `navigate_regex`, which the extractor evaluates over
navigate × show_themes × {option unset, `Some("")`, `Some(non-empty)}` (`navigateRegexTable`). -/

/-- `--navigate-regex` as given by the user (command line or gitconfig). -/
inductive RegexOpt
  | unset
  | empty
  | nonempty
  deriving DecidableEq, Repr

def RegexOpt.name : RegexOpt → String
  | .unset => "none"
  | .empty => "empty"
  | .nonempty => "nonempty"

/-- `Config.navigate_regex`. -/
inductive RegexVal
  | none
  | someEmpty
  | given
  | default
  deriving DecidableEq, Repr

def RegexVal.isSome : RegexVal → Bool
  | .none => false
  | _ => true

def parseRegexVal (s : String) : Option RegexVal :=
  if s = "none" then some .none
  else if s = "some-empty" then some .someEmpty
  else if s = "given" then some .given
  else if s = "default" then some .default
  else none

/-- What the user asked for: `opt.navigate` (flag, `DELTA_NAVIGATE`, gitconfig, feature),
    `opt.show_themes`, `opt.navigate_regex`. -/
structure NavOpt where
  navigate : Bool
  showThemes : Bool
  regex : RegexOpt
  deriving DecidableEq, Repr

/-- `Config::from`: the value of `navigate_regex`. -/
def configNavigateRegex (o : NavOpt) : Option RegexVal :=
  match PagerShape.navigateRegexTable.find?
      (fun r => r.1 == o.navigate && r.2.1 == o.showThemes && r.2.2.1 == o.regex.name) with
  | some r => parseRegexVal r.2.2.2
  | none => none

/-- The pager's view of the configuration (`PagerCfg::from(&Config)` after `Config::from(opt)`):
    `none` when the field plumbing is not the one this model understands. -/
structure PagerCfgM where
  navigate : Bool
  showThemes : Bool
  navigateRegex : RegexVal
  deriving DecidableEq, Repr

def pagerCfgOf (o : NavOpt) : Option PagerCfgM :=
  if PagerShape.pagerCfgFields.contains ("navigate", "navigate")
     && PagerShape.pagerCfgFields.contains ("show_themes", "show_themes")
     && PagerShape.pagerCfgFields.contains ("navigate_regex", "navigate_regex")
     && PagerShape.configNavigateFrom == "opt.navigate"
     && PagerShape.configShowThemesFrom == "opt.show_themes"
     && PagerShape.configNavigateRegexIsLocal then
    match configNavigateRegex o with
    | some v => some ⟨o.navigate, o.showThemes, v⟩
    | none => none
  else none

inductive Setup
  /-- less is started; `histFile`: `LESSHISTFILE` points at delta's copy; `extra`: extra argument -/
  | ok (histFile : Bool) (extra : List String)
  /-- `unwrap()` on a `None` field of the configuration -/
  | panic (field : String)
  | unknown
  deriving DecidableEq, Repr

/-- the set-up completed, and `LESSHISTFILE` is set iff `h` -/
def Setup.okWithHist (h : Bool) : Setup → Bool
  | .ok h' _ => h == h'
  | _ => false

def guardHolds (c : PagerCfgM) (g : String) : Option Bool :=
  if g = "navigate" then some c.navigate
  else if g = "show_themes" then some c.showThemes
  else none

def allGuards (c : PagerCfgM) : List String → Option Bool
  | [] => some true
  | g :: gs =>
    match guardHolds c g, allGuards c gs with
    | some a, some b => some (a && b)
    | _, _ => none

/-- First config field unwrapped while it is `None`. -/
def firstPanic (c : PagerCfgM) : List (String × String) → Option (Option String)
  | [] => some none
  | (_, field) :: rest =>
    if field = "navigate_regex" then
      if c.navigateRegex.isSome then firstPanic c rest else some (some field)
    else none     -- an unwrapped field this model knows no invariant for

/-- The history-file part of `_make_process_from_less_path` (hist file creation assumed to succeed). -/
def lessSetupCfg (c : PagerCfgM) : Setup :=
  if !PagerShape.lessSetupOtherUnwraps.isEmpty then .unknown else
  match allGuards c PagerShape.lessSetupGuards with
  | none => .unknown
  | some false => .ok false []
  | some true =>
    match firstPanic c PagerShape.lessSetupConfigUnwraps with
    | none => .unknown
    | some (some f) => .panic f
    | some none => .ok true (if c.showThemes && PagerShape.showThemesArg ≠ "" then [PagerShape.showThemesArg] else [])

def lessSetup (o : NavOpt) : Setup :=
  match pagerCfgOf o with
  | some c => lessSetupCfg c
  | none => .unknown

/-! ## 3. bat's filter — transcription for the driver (trusted dependency, no theorem uses it) -/

def batKind (bin self : String) : String :=
  let stem := fileStem bin
  if stem == some "less" then "Less"
  else if stem == some "more" then "More"
  else if stem == some "most" then "Most"
  else if stem.isSome && fileStem self == stem then "Bat"
  else "Unknown"

/-- `bat::config::get_pager_executable(None)`: `BAT_PAGER`, then `PAGER` (with `more`/`most`/
    self replaced by `less`), then `less`; only the binary is returned, arguments are dropped. -/
def batExecutable (batPager pager : Option Cmd) (self : String) : Option Cmd :=
  let rec go : List String → Option (String × Cmd)
    | [] => none
    | "config" :: rest => go rest
    | "BAT_PAGER" :: rest => match batPager with
      | some c => some ("EnvVarBatPager", c)
      | none => go rest
    | "PAGER" :: rest => match pager with
      | some c => some ("EnvVarPager", c)
      | none => go rest
    | "less" :: _ => some ("Default", ["less"])
    | _ :: rest => go rest
  match go PagerShape.batSources with
  | none => none
  | some (_, []) => none
  | some (src, bin :: _) =>
    if src = PagerShape.batFilterAppliesTo && PagerShape.batFilteredKinds.contains (batKind bin self)
    then some ["less"] else some [bin]

end Pager
