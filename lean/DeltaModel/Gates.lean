import DeltaModel.Generated.ClaimGates
/-!
Claim gates (property C04): when may one of the handlers that are not keyed on a literal marker —
`handle_diff_stat_line`, `handle_git_show_file_line`, `handle_blame_line`, `handle_grep_line` — take a
line away from `emit_line_unchanged`?

`Generated.ClaimGates` holds, per handler, the decision tree read from the Rust source on every run
(`tools/extractors/gates.py`): conditions on the machine state, the calling process, literal prefixes
of the line, configuration values (= option values), fixed regexes, and conditions the reader does not
understand. This file gives the trees their meaning:

* `claims e g` — the handler returns `Ok(true)` in the environment `e` (every condition decided);
* `may k g`    — it can return `Ok(true)` in SOME environment that agrees with the partial knowledge `k`
                 (conditions `k` says nothing about are taken both ways);
* `must k g`   — it returns `Ok(true)` in EVERY such environment.

`claims_may` / `must_claims` tie them together; the theorems of `Props/C04.lean` evaluate `may` on the
generated trees (finite) and conclude for all environments: all option values, all regex outcomes.
Core Lean only.
-/
namespace Gates
open Generated.ClaimGates

/-- everything a gate can ask -/
structure Env where
  state : String                      -- variant of `State`
  caller : String                     -- variant of `CallingProcess`
  startsWith : Src → String → Bool    -- prefix facts of `raw_line` / `line`
  option : String → Bool              -- which `Config` fields are set / true: ANY option values
  regex : String → Bool               -- which fixed regexes / parsers accept the line
  other : String → Bool               -- the conditions the reader could not interpret

def holds (e : Env) : Cond → Bool
  | .state ns => ns.contains e.state
  | .caller ns => ns.contains e.caller
  | .pfx s lit => e.startsWith s lit
  | .option f => e.option f
  | .regex n => e.regex n
  | .other t => e.other t

def claims (e : Env) : Gate → Bool
  | .never => false
  | .claim => true
  | .ite c y n => if holds e c then claims e y else claims e n
  | .orElse a b => claims e a || claims e b

/-- partial knowledge of the conditions -/
abbrev Know := Cond → Option Bool

def Sound (k : Know) (e : Env) : Prop := ∀ c b, k c = some b → holds e c = b

def may (k : Know) : Gate → Bool
  | .never => false
  | .claim => true
  | .ite c y n =>
    match k c with
    | some true => may k y
    | some false => may k n
    | none => may k y || may k n
  | .orElse a b => may k a || may k b

def must (k : Know) : Gate → Bool
  | .never => false
  | .claim => true
  | .ite c y n =>
    match k c with
    | some true => must k y
    | some false => must k n
    | none => must k y && must k n
  | .orElse a b => must k a || must k b

theorem claims_may {k : Know} {e : Env} (hs : Sound k e) : ∀ g : Gate, claims e g = true → may k g = true
  | .never, h => by simp [claims] at h
  | .claim, _ => rfl
  | .ite c y n, h => by
    unfold claims at h
    unfold may
    cases hk : k c with
    | none =>
      by_cases hc : holds e c = true
      · simp only [hc, if_true] at h; simp [claims_may hs y h]
      · simp only [hc] at h; simp [claims_may hs n h]
    | some b =>
      have := hs c b hk
      cases b with
      | true => simp only [this, if_true] at h; exact claims_may hs y h
      | false => simp only [this] at h; exact claims_may hs n h
  | .orElse a b, h => by
    unfold claims at h
    unfold may
    rcases Bool.or_eq_true _ _ ▸ h with h | h
    · simp [claims_may hs a h]
    · simp [claims_may hs b h]

theorem must_claims {k : Know} {e : Env} (hs : Sound k e) : ∀ g : Gate, must k g = true → claims e g = true
  | .never, h => by simp [must] at h
  | .claim, _ => rfl
  | .ite c y n, h => by
    unfold must at h
    unfold claims
    cases hk : k c with
    | none =>
      simp only [hk, Bool.and_eq_true] at h
      by_cases hc : holds e c = true
      · simp only [hc, if_true]; exact must_claims hs y h.1
      · simp only [hc]; exact must_claims hs n h.2
    | some b =>
      have := hs c b hk
      simp only [hk] at h
      cases b with
      | true => simp only [this, if_true]; exact must_claims hs y h
      | false => simp only [this]; exact must_claims hs n h
  | .orElse a b, h => by
    unfold must at h
    unfold claims
    rcases Bool.or_eq_true _ _ ▸ h with h | h
    · simp [must_claims hs a h]
    · simp [must_claims hs b h]

/-- Knowledge used by the theorems: possibly the state, possibly the calling process, and a list of
conditions known to be false. Nothing about options, other regexes, uninterpreted conditions. -/
def knowOf (st ca : Option String) (deny : List Cond) : Know := fun c =>
  if c ∈ deny then some false
  else match c, st, ca with
    | .state ns, some s, _ => some (ns.contains s)
    | .caller ns, _, some x => some (ns.contains x)
    | _, _, _ => none

theorem knowOf_sound (e : Env) (st ca : Option String) (deny : List Cond)
    (hs : ∀ s, st = some s → e.state = s) (hc : ∀ x, ca = some x → e.caller = x)
    (hd : ∀ c ∈ deny, holds e c = false) : Sound (knowOf st ca deny) e := by
  intro c b h
  unfold knowOf at h
  split at h
  · rename_i hm; cases h; exact hd c hm
  · split at h
    · rename_i ns s _; cases h; simp [holds, hs s rfl]
    · rename_i ns x _; cases h; simp [holds, hc x rfl]
    · cases h

/-- Knowledge used by the correspondence run: everything about one concrete line except the
conditions the reader could not interpret and the regexes / options that were not determined. -/
structure Facts where
  state : String
  caller : String
  raw : String
  line : String
  opts : List (String × Bool)
  regexes : List (String × Bool)

def Facts.know (f : Facts) : Know
  | .state ns => some (ns.contains f.state)
  | .caller ns => some (ns.contains f.caller)
  | .pfx .raw lit => some (lit.toList.isPrefixOf f.raw.toList)
  | .pfx .line lit => some (lit.toList.isPrefixOf f.line.toList)
  | .option n => f.opts.lookup n
  | .regex n => f.regexes.lookup n
  | .other _ => none

def gateOf : String → Option Gate
  | "handle_diff_stat_line" => some diffStat
  | "handle_git_show_file_line" => some gitShowFile
  | "handle_blame_line" => some blame
  | "handle_grep_line" => some grep
  | _ => none

end Gates
