import DeltaModel.Generated.GitParams
/-!
# GitParams — how delta reads `GIT_CONFIG_PARAMETERS` (property C13, task T11)

Rust modelled (src/git_config/mod.rs):

* `GIT_CONFIG_PARAMETERS_REGEX` — re-implemented by hand (`matchAt`) with the same leftmost-first / greedy
  behaviour; the pattern text is generated and pinned (`Props/C13.lean params_regex_pinned`), the literal
  prefix and the two bracket classes are read from the generated file. Both alternatives start with
  `'<prefix>[key class]+`; because neither `=` nor `'` is a key character and `'` is the one excluded value
  character (`params_classes_deterministic`), a greedy run that is followed by the wrong character cannot be
  repaired by backtracking: the hand-written matcher takes the maximal runs;
* `Regex::captures_iter` — successive non-overlapping matches, each search starting where the previous match
  ended (`scanAux`; a match is never empty);
* `parse_config_from_env_var_value` — the `match` over the four capture groups (`pairOf`, arms generated;
  `captures[i]` of a group that did not take part is a panic: `none`), collected into a map: a later pair
  replaces an earlier one with the same key (`toParams`: the list is reversed for the first-match `lookup`
  of `Options.GitCfg`, and the `delta.` that `get_option_value` prepends to the option name is removed).

Specification side (git, not delta): `sq` = `sq_quote_buf` of git's quote.c, `fmtNew` / `fmtOld` = what
`git_config_push_parameter` appends to the variable for one `-c key[=value]` since / before git 2.31.
-/
namespace GitParams
open Generated.GitParams

def inRanges (rs : List (Nat × Nat)) (c : Char) : Bool :=
  rs.any fun r => r.1 ≤ c.toNat && c.toNat ≤ r.2

/-- `[a-z-]` -/
def keyChar (c : Char) : Bool := inRanges keyClass c
/-- `[^']` -/
def valChar (c : Char) : Bool := !inRanges valueExcluded c

/-- `t` without the literal `p` in front, `none` when `t` does not start with it. -/
def stripPrefix : List Char → List Char → Option (List Char)
  | [], t => some t
  | _ :: _, [] => none
  | p :: ps, c :: cs => if p = c then stripPrefix ps cs else none

/-- One match of the pattern: the whole matched text and capture groups 1 … 4. -/
structure Match where
  whole : List Char
  groups : List (Option (List Char))
  deriving DecidableEq, Repr

/-- The value part shared by both alternatives: `([^']+)'` at the front of `t`. -/
def valueAt (t : List Char) : Option (List Char) :=
  let v := t.takeWhile valChar
  if v.isEmpty then none
  else match t.dropWhile valChar with
    | '\'' :: _ => some v
    | _ => none

/-- A match of `GIT_CONFIG_PARAMETERS_REGEX` starting at the first character of `t`. -/
def matchAt (t : List Char) : Option Match :=
  match t with
  | '\'' :: t1 =>
    match stripPrefix keyPrefix.toList t1 with
    | none => none
    | some t2 =>
      let k := t2.takeWhile keyChar
      if k.isEmpty then none
      else
        let key := keyPrefix.toList ++ k
        match t2.dropWhile keyChar with
        | '=' :: t4 =>                      -- 'key=value'   (git < 2.31)
          (match valueAt t4 with
           | some v => some ⟨'\'' :: key ++ '=' :: v ++ ['\''], [some key, some v, none, none]⟩
           | none => none)
        | '\'' :: '=' :: '\'' :: t4 =>      -- 'key'='value' (git ≥ 2.31)
          (match valueAt t4 with
           | some v => some ⟨'\'' :: key ++ '\'' :: '=' :: '\'' :: v ++ ['\''], [none, none, some key, some v]⟩
           | none => none)
        | _ => none
  | _ => none

/-- `captures.get(i)` / `captures[i]`: group 0 is the whole match. -/
def Match.group (m : Match) (i : Nat) : Option (List Char) :=
  match i with
  | 0 => some m.whole
  | i + 1 => (m.groups[i]?).join

/-- The closure of `parse_config_from_env_var_value`: the pair one match contributes; `none` = the
    `captures[i]` of a group that did not take part (a panic). -/
def pairOf (m : Match) : Option (List Char × List Char) :=
  match groupArms.find? (fun a => a.1 = m.groups.map Option.isSome) with
  | some (_, i, j) =>
    (match m.group i, m.group j with
     | some k, some v => some (k, v)
     | _, _ => none)
  | none => some ([], [])

/-- `captures_iter(s).map(…)`: scan from the left; after a match the next search starts behind it
    (`skip` = characters of the current match still to pass). -/
def scanAux : List Char → Nat → List (Option (List Char × List Char))
  | [], _ => []
  | _ :: cs, skip + 1 => scanAux cs skip
  | c :: cs, 0 =>
    match matchAt (c :: cs) with
    | some m => pairOf m :: scanAux cs (m.whole.length - 1)
    | none => scanAux cs 0

def scan (t : List Char) : List (Option (List Char × List Char)) := scanAux t 0

def allSome {α : Type} : List (Option α) → Option (List α)
  | [] => some []
  | none :: _ => none
  | some a :: t => (allSome t).map (a :: ·)

/-- The (key, value) pairs in the order they stand in the variable; `none` = panic. -/
def parsePairs (s : String) : Option (List (String × String)) :=
  (allSome (scan s.toList)).map fun l => l.map fun p => (String.ofList p.1, String.ofList p.2)

/-- The map as `Options.GitCfg.params` takes it: a later pair first (a map keeps the last value inserted for a
    key, `Options.lookup` takes the first), keys without the `delta.` of `format!("delta.{}", option_name)`;
    a key that does not start with it can never be asked for. -/
def toParams (pairs : List (String × String)) : List (String × String) :=
  pairs.reverse.filterMap fun p =>
    (stripPrefix "delta.".toList p.1.toList).map fun k => (String.ofList k, p.2)

/-- `parse_config_from_env_var`: the variable unset = the empty map. -/
def paramsOfEnv (v : Option String) : Option (List (String × String)) :=
  match v with
  | some s => (parsePairs s).map toParams
  | none => some []

/-! ## git's side: how `git -c key[=value]` reaches the variable -/

/-- The inside of `sq_quote_buf` (quote.c): `'` and `!` leave the quotes. -/
def sqBody : List Char → List Char
  | [] => []
  | c :: cs =>
    if c = '\'' ∨ c = '!' then '\'' :: '\\' :: c :: '\'' :: sqBody cs else c :: sqBody cs

def sq (s : List Char) : List Char := '\'' :: sqBody s ++ ['\'']

/-- One `-c key=value` (`value = none`: `-c key`, which git reads as the boolean `true`). -/
structure Entry where
  key : List Char
  value : Option (List Char)
  deriving DecidableEq, Repr

/-- git ≥ 2.31 (`git_config_push_split_parameter`): `'key'='value'`, `'key'=` without value. -/
def fmtNew (e : Entry) : List Char :=
  sq e.key ++ '=' :: (match e.value with | some v => sq v | none => [])

/-- git < 2.31 (`git_config_push_parameter`): the whole `key=value` text in one pair of quotes. -/
def fmtOld (e : Entry) : List Char :=
  match e.value with
  | some v => sq (e.key ++ '=' :: v)
  | none => sq e.key

def fmtE (p : Bool × Entry) : List Char := if p.1 then fmtNew p.2 else fmtOld p.2

/-- The variable after a sequence of `-c` (entries separated by one blank); the `Bool` says which format the
    git that appended the entry uses. -/
def fmtList : List (Bool × Entry) → List Char
  | [] => []
  | [e] => fmtE e
  | e :: e' :: es => fmtE e ++ ' ' :: fmtList (e' :: es)

/-! ## Which entries delta's reader can take -/

def noQuoteBang (s : List Char) : Bool := s.all fun c => c ≠ '\'' && c ≠ '!'

/-- A key of the main section in the spelling the pattern accepts: `delta.` + lower-case letters / `-`. -/
def deltaKey (key : List Char) : Bool :=
  match stripPrefix keyPrefix.toList key with
  | some k => !k.isEmpty && k.all keyChar
  | none => false

/-- An entry the reader takes as it stands: main-section key, a value that is not empty and contains neither
    `'` nor `!` (each leaves git's quotes: the pattern ends the value there). -/
def goodDelta (e : Entry) : Bool :=
  deltaKey e.key &&
  (match e.value with
   | some v => !v.isEmpty && noQuoteBang v
   | none => false)

/-- An entry of another section that the reader passes over: nothing that leaves git's quotes, no `=` in the
    key, and neither key nor value starts with `delta.` (see `params_foreign_value_injected`). -/
def inertForeign (e : Entry) : Bool :=
  noQuoteBang e.key && e.key.all (· ≠ '=') && !keyPrefix.toList.isPrefixOf e.key &&
  (match e.value with
   | some v => noQuoteBang v && !keyPrefix.toList.isPrefixOf v
   | none => true)

end GitParams
