/-
C16, session 4 / T23: from the input line to the hit the emission logic sees — the parse dispatch of
`handle_grep_line` (grep.rs): `parse_raw_grep_line` on the raw line when it begins with ESC (coloured
format; the code is then passed through `strip_ansi_codes`), otherwise / on failure `parse_grep_line`
on the line without escape sequences: `ripgrep_json::parse_line` when it begins with `{`, else — and, when
the source has the repair notes/fix-grep-brace-path.diff (regenerated flag
`Generated.Grep.jsonFailureFallsBackToRegexes`), also when the JSON reader answers `None` — the plain-text
regexes in order.

Trusted (parameters of the model): `strip` = `ansi::strip_ansi_codes` (the theorems only use that it
leaves ESC-free text alone), and the JSON text parser (a JSON line comes as its value, as in
`DeltaModel/RipGrepJson.lean`).
-/
import DeltaModel.Grep
import DeltaModel.RipGrepJson

namespace GrepInput

open Grep

/-- The digits are what `format!("{n}")` writes for the number they parse to (no leading zeros, not
beyond `usize`). -/
def canonical (ds : List Char) : Bool :=
  match numOfDigits ds with
  | some n => (Nat.repr n).toList == ds
  | none => false

/-- `Hit.prefixOk`: `get_code_style_sections` recomputes the length of the `path sep number sep` prefix
from the path and the parsed number, on the tab-expanded raw line. -/
def prefixOkOf (w : Nat) (p : Parsed) : Bool :=
  (match p.digits with | some ds => canonical ds | none => true) &&
    (!p.path.contains '\t' || decide (w ≤ 1))

/-- The hit for the captures `p` of a text line whose code (after `strip_ansi_codes` for the coloured
format) is `code`. -/
def hitOfParsed (w : Nat) (code : List Char) (p : Parsed) : Hit :=
  { gtype := .classic, kind := p.kind, path := p.path, num := p.num, prefixOk := prefixOkOf w p,
    code := RipGrepJson.bytesOfChars code, subs := none }

/-- One input line as `handle_grep_line` gets it. -/
inductive Input where
  /-- a line of text (the raw line, with its escape sequences) -/
  | text (raw : List Char)
  /-- a line that is JSON text for the value `v` (`raw`: its bytes) -/
  | json (v : RipGrepJson.JVal) (raw : Bytes)

/-- The text of a line given by its bytes (an input line is UTF-8: `ingest_line_utf8`). -/
def charsOfBytes (raw : Bytes) : Option (List Char) :=
  (String.fromUTF8? (ByteArray.mk raw.toArray)).map String.toList

/-- The plain-text regexes in order on the line `line` (without escape sequences) whose raw form is `raw`. -/
def plainLine (w : Nat) (raw : Bytes) (line : List Char) : Line :=
  match parsePlain line with
  | some p => .hit (hitOfParsed w p.code p)
  | none => .other raw

/-- The dispatch of `handle_grep_line` for a calling process that is a grep (`GitGrep`, `OtherGrep`), for either
shape of `parse_grep_line` (`fallback` = the regenerated `Generated.Grep.jsonFailureFallsBackToRegexes`):
a line beginning with `{` goes to the JSON reader first (a text that is JSON comes as `Input.json`; an `Input.text`
beginning with `{` is text the JSON reader answers `None` for). `fallback = false`: the JSON reader ONLY — what it
does not accept is not grep output. `fallback = true`: what it does not accept is tried by the plain-text regexes
like every other line. -/
def lineOfInputWith (fallback : Bool) (w : Nat) (strip : List Char → List Char) : Input → Line
  | .json v raw =>
    match RipGrepJson.parseLine v with
    | some _ => RipGrepJson.lineOf v raw
    | none =>
      if fallback then
        match charsOfBytes raw with
        | some line => plainLine w raw line
        | none => .other raw
      else .other raw
  | .text raw =>
    match (if raw.head? = some esc then parseColoured raw else none) with
    | some p => .hit (hitOfParsed w (strip p.code) p)
    | none =>
      if (strip raw).head? = some '{' ∧ fallback = false then .other (RipGrepJson.bytesOfChars raw)
      else plainLine w (RipGrepJson.bytesOfChars raw) (strip raw)

/-- The dispatch as the source has it (the shape of `parse_grep_line` is regenerated). -/
def lineOfInput (w : Nat) (strip : List Char → List Char) : Input → Line :=
  lineOfInputWith Generated.Grep.jsonFailureFallsBackToRegexes w strip

/-! ## What is written into delta (the domain of `grep_line_rendered_faithfully`) -/

/-- A grep result line as a tool writes it. -/
inductive Src where
  /-- `git grep --color=always` / `rg --color=always`: `fmtColoured p` -/
  | coloured (p : Parsed)
  /-- plain text: `fmtPlain p` -/
  | plain (p : Parsed)
  /-- `rg --json`: a line that is JSON text for `v` -/
  | json (v : RipGrepJson.JVal) (raw : Bytes)

def Src.input : Src → Input
  | .coloured p => .text (fmtColoured p)
  | .plain p => .text (fmtPlain p)
  | .json v raw => .json v raw

/-- The hypotheses of the parse theorems: `coloured_round_trip`; one of the four plain fragments, no ESC in the
line, the path does not begin with `{` — asked only while `parse_grep_line` hands `{` lines to the JSON reader only
(`jsonFailureFallsBackToRegexes = false`); a JSON value `parse_line` answers with a match / context / header line. -/
def Src.Admissible : Src → Prop
  | .coloured p =>
    textKinds.contains p.kind = true ∧ p.path.contains esc = false ∧
    (∀ ds, p.digits = some ds → digitsOk ds = true) ∧ codeOk p.code = true ∧
    (p.digits = none → ∀ s, p.kind.sep = [s] → colouredNum s p.code = none)
  | .plain p =>
    (fragNumbered p || fragUnnumbered p || fragUnnumberedExt p || fragNoExt p) = true ∧
    (fmtPlain p).contains esc = false ∧
    (Generated.Grep.jsonFailureFallsBackToRegexes = false → (fmtPlain p).head? ≠ some '{')
  | .json v _ => ∃ r, RipGrepJson.parseLine v = some r ∧ r.kind ≠ .ignore

/-- What the line says: kind, path, number, code (the coloured code without its escape sequences; the JSON
`lines.text` without its line terminator). -/
def Src.meaning (strip : List Char → List Char) : Src → Kind × List Char × Option Nat × List Char
  | .coloured p => (p.kind, p.path, p.num, strip p.code)
  | .plain p => (p.kind, p.path, p.num, p.code)
  | .json v _ =>
    match RipGrepJson.parseLine v with
    | some r => (r.kind, r.path, r.num, r.code)
    | none => (.ignore, [], none, [])

/-- The output style a source line asks for when `--grep-output-type` is not given. -/
def Src.gtype : Src → GrepType
  | .json _ _ => .ripgrep
  | _ => .classic

end GrepInput
