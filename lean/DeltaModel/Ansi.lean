import DeltaModel.Vte
import DeltaModel.Generated.AnsiSgr
import DeltaModel.Generated.RawLine
import DeltaModel.Generated.MapStyles
/-!
Model of `/repo/src/ansi/iterator.rs` (`AnsiElementIterator`, `ansi_term_style_from_sgr_parameters`)
and `/repo/src/ansi/mod.rs` (`strip_ansi_codes`, `measure_text_width`, `truncate_str_impl`,
`parse_style_sections`, `parse_first_style`, `string_starts_with_ansi_style_sequence`,
`ansi_preserving_slice`, `ansi_preserving_index`), `style.rs` (`ansi_term_style_equality`,
`is_applied_to`, `line_has_style_other_than`, `GIT_DEFAULT_*`), plus ansi_term's `write_prefix`
and a small terminal semantics of SGR parameters (`Rendition`, `applySgr`).

Strings are byte lists (`List UInt8`, UTF-8 as in a Rust `&str`). Every `&s[i..j]` is `slice`,
which fails exactly when Rust panics (range order, length, char boundaries). Unicode width and
grapheme segmentation are parameters (`Uni`), supplied by the implementation.
-/
namespace Ansi

abbrev Bytes := List UInt8

/-! ## Elements -/

inductive EKind where
  | sgr (params : List (List Nat))
  | csi
  | esc
  | osc
  | text
  deriving DecidableEq, Repr, Inhabited

structure Element where
  kind : EKind
  start : Nat
  stop : Nat
  deriving DecidableEq, Repr, Inhabited

def ofKind : Vte.Kind → EKind
  | .sgr ps => .sgr ps
  | .csi => .csi
  | .esc => .esc
  | .osc => .osc

def Element.isText (e : Element) : Bool := match e.kind with | .text => true | _ => false

/-- `AnsiElementIterator::next`, unrolled over the per-byte `Performer` results:
`tl` = `text_length`, `start`, `pos` as in the Rust struct. With `Generated.iteratorAbortedAsText`
(the repaired bookkeeping) a byte that yields text and no element makes everything since `start`
text, and trailing bytes are emitted as text even when none of them was counted. -/
def assemble (tl start pos : Nat) : List Vte.Perf → List Element
  | [] =>
    if (if Generated.iteratorAbortedAsText then pos > start else tl > 0) then [⟨.text, start, pos⟩] else []
  | e :: es =>
    match e.elem with
    | none =>
      assemble (if Generated.iteratorAbortedAsText && decide (e.text > 0) then pos + 1 - start else tl + e.text)
        start (pos + 1) es
    | some k =>
      (if tl + e.text > 0 then [⟨.text, start, start + (tl + e.text)⟩] else []) ++
        ⟨ofKind k, start + (tl + e.text), pos + 1⟩ :: assemble 0 (pos + 1) (pos + 1) es

/-- `AnsiElementIterator::new(s).collect()` -/
def elements (s : Bytes) : List Element :=
  assemble 0 0 0 (Vte.events Vte.Parser.init s)

/-! ## Slicing -/

/-- UTF-8 continuation byte (`0b10xxxxxx`). -/
def isCont (b : UInt8) : Bool := 0x80 ≤ b.toNat && b.toNat < 0xC0

/-- `str::is_char_boundary` -/
def isBoundary (s : Bytes) (i : Nat) : Bool :=
  if i = 0 then true
  else match s.drop i with
    | [] => i == s.length
    | b :: _ => !isCont b

/-- `&s[i..j]`; `.error` = Rust panic. -/
def slice (s : Bytes) (i j : Nat) : Except String Bytes :=
  if i ≤ j ∧ j ≤ s.length ∧ isBoundary s i = true ∧ isBoundary s j = true then
    .ok ((s.drop i).take (j - i))
  else .error "byte index is out of range or not a char boundary"

/-- `ansi_strings_iterator(s).collect()`: every element sliced, with its `is_ansi` flag. -/
def sliceAll (s : Bytes) : List Element → Except String (List (Bytes × Bool))
  | [] => .ok []
  | e :: es =>
    match slice s e.start e.stop with
    | .error m => .error m
    | .ok t =>
      match sliceAll s es with
      | .error m => .error m
      | .ok r => .ok ((t, !e.isText) :: r)

def items (s : Bytes) : Except String (List (Bytes × Bool)) := sliceAll s (elements s)

def joinTexts : List (Bytes × Bool) → Bytes
  | [] => []
  | (t, ansi) :: r => (if ansi then [] else t) ++ joinTexts r

/-- `strip_ansi_codes` -/
def strip (s : Bytes) : Except String Bytes :=
  match items s with
  | .error m => .error m
  | .ok its => .ok (joinTexts its)

/-! ## Width, truncation -/

/-- The Unicode oracles (trusted, supplied by the implementation). -/
structure Uni where
  /-- `UnicodeWidthStr::width` -/
  width : Bytes → Nat
  /-- `UnicodeSegmentation::graphemes(true)` -/
  graphemes : Bytes → List Bytes

def sumWidths (U : Uni) : List (Bytes × Bool) → Nat
  | [] => 0
  | (t, ansi) :: r => (if ansi then 0 else U.width t) + sumWidths U r

/-- `measure_text_width` -/
def measure (U : Uni) (s : Bytes) : Except String Nat :=
  match items s with
  | .error m => .error m
  | .ok its => .ok (sumWidths U its)

/-- `for _ in 0..n { result.push(fillchar) }` -/
def pushFill (c : Bytes) : Nat → Bytes → Bytes
  | 0, acc => acc
  | n + 1, acc => pushFill c n (acc ++ c)

/-- Inner `for g in t.graphemes(true)` loop of `truncate_str_impl`; returns (used, result, cut)
where `cut` = the loop ended with `break`. `fill` is `fill2w`. A grapheme wider than 2 columns that
does not fit: the fallback pushes the fill character `display_width.saturating_sub(used)` times
(`used` is not advanced) — since fix d6cf9d0; before it (`Generated.truncAssertsWideCluster`, read
from the source on every run) a `debug_assert!` stood in front of the fallback: `.error`. -/
def takeGraphemes (U : Uni) (dw : Nat) (fill : Option Bytes) :
    List Bytes → Nat → Bytes → Except String (Nat × Bytes × Bool)
  | [], used, acc => .ok (used, acc, false)
  | g :: gs, used, acc =>
    let w := U.width g
    if used + w > dw then
      match fill with
      | none => .ok (used, acc, true)
      | some c =>
        if w = 2 ∧ used < dw then .ok (used, acc ++ c, true)
        else if w > 2 then
          if Generated.truncAssertsWideCluster then .error "debug_assert: strange grapheme width"
          else .ok (used, pushFill c (dw - used) acc, true)
        else .ok (used, acc, true)
    else takeGraphemes U dw fill gs (used + w) (acc ++ g)

/-- Outer `for (t, is_ansi) in items` loop. On the unchanged tree the `break` leaves the inner
loop only, so text of later elements is still appended when it fits; with the proposed repair
(`Generated.truncStopsAfterCut`) later text is skipped once a grapheme did not fit. -/
def truncItems (U : Uni) (dw : Nat) (fill : Option Bytes) :
    List (Bytes × Bool) → Nat → Bytes → Bool → Except String Bytes
  | [], _, acc, _ => .ok acc
  | (t, ansi) :: r, used, acc, cut =>
    if ansi then truncItems U dw fill r used (acc ++ t) cut
    else if Generated.truncStopsAfterCut && cut then truncItems U dw fill r used acc cut
    else
      match takeGraphemes U dw fill (U.graphemes t) used acc with
      | .error m => .error m
      | .ok (used', acc', cut') => truncItems U dw fill r used' acc' cut'

/-- `truncate_str_impl(s, display_width, "", fill2w)` -/
def truncateNoTail (U : Uni) (s : Bytes) (dw : Nat) (fill : Option Bytes) : Except String Bytes :=
  match items s with
  | .error m => .error m
  | .ok its =>
    if U.width (joinTexts its) ≤ dw then .ok s
    else truncItems U dw fill its 0 [] false

/-- `truncate_str_impl(s, display_width, tail, fill2w)` -/
def truncate (U : Uni) (s : Bytes) (dw : Nat) (tail : Bytes) (fill : Option Bytes) :
    Except String Bytes :=
  match items s with
  | .error m => .error m
  | .ok its =>
    if U.width (joinTexts its) ≤ dw then .ok s
    else
      match (if tail.isEmpty then .ok [] else truncateNoTail U tail dw fill) with
      | .error m => .error m
      | .ok resultTail =>
        match measure U resultTail with
        | .error m => .error m
        | .ok used =>
          match truncItems U dw fill its used [] false with
          | .error m => .error m
          | .ok r => .ok (r ++ resultTail)

/-! ## SGR parameters → `ansi_term::Style` -/

inductive Color where
  | named (n : Nat)   -- Black .. White = 0 .. 7
  | fixed (n : Nat)
  | rgb (r g b : Nat)
  deriving DecidableEq, Repr, Inhabited

structure Style where
  bold : Bool := false
  dimmed : Bool := false
  italic : Bool := false
  underline : Bool := false
  blink : Bool := false
  reverse : Bool := false
  hidden : Bool := false
  strike : Bool := false
  fg : Option Color := none
  bg : Option Color := none
  deriving DecidableEq, Repr, Inhabited

/-- Set attribute field `i` (index into `Generated.sgrAttrFields`). -/
def Style.setAttr (s : Style) (i : Nat) : Style :=
  match i with
  | 0 => { s with bold := true }
  | 1 => { s with dimmed := true }
  | 2 => { s with italic := true }
  | 3 => { s with underline := true }
  | 4 => { s with blink := true }
  | 5 => { s with reverse := true }
  | 6 => { s with hidden := true }
  | 7 => { s with strike := true }
  | _ => s

def Style.getAttr (s : Style) (i : Nat) : Bool :=
  match i with
  | 0 => s.bold | 1 => s.dimmed | 2 => s.italic | 3 => s.underline
  | 4 => s.blink | 5 => s.reverse | 6 => s.hidden | 7 => s.strike
  | _ => false

/-- Assign a colour field (8 = foreground, 9 = background). -/
def Style.setColor (s : Style) (field : Nat) (c : Color) : Style :=
  if field = 8 then { s with fg := some c } else if field = 9 then { s with bg := some c } else s

def mkColor (tag n : Nat) : Color := if tag = 0 then .named n else .fixed n

/-- The match arm taken by a parameter `code :: subs`, if it is one of the plain arms. -/
def findArm (code : Nat) (hasSub : Bool) :
    List (Nat × Nat × Nat × Nat × Nat) → Option (Nat × Nat × Nat)
  | [] => none
  | (c, sub, f, t, n) :: rest =>
    if c = code ∧ (hasSub = false ∨ sub = 1) then some (f, t, n) else findArm code hasSub rest

def extField (code : Nat) : List (Nat × Nat) → Option Nat
  | [] => none
  | (c, f) :: rest => if c = code then some f else extField code rest

/-- Where the `while let Some(param) = params.next()` loop stands: in the main `match`, or inside
`parse_sgr_color` reading from the shared iterator (semicolon form `38;2;r;g;b` / `38;5;n`). -/
inductive Mode where
  | normal
  | sel (field : Nat)
  | rgb (field : Nat) (acc : List Nat)
  | fixed (field : Nat)
  deriving DecidableEq, Repr, Inhabited

/-- `parse_sgr_color` on an explicit list (colon form: `once(params[0]).chain(params[rgb_start..])`). -/
def parseSgrColor : List Nat → Option Color
  | sel :: rest =>
    if sel = Generated.sgrSelRgb then
      match rest with
      | r :: g :: b :: _ => if r ≤ 255 ∧ g ≤ 255 ∧ b ≤ 255 then some (.rgb r g b) else none
      | _ => none
    else if sel = Generated.sgrSelFixed then
      match rest with
      | n :: _ => if n ≤ 255 then some (.fixed n) else none
      | _ => none
    else none
  | [] => none

/-- One iteration of the parameter loop on the parameter `g` (its sub-parameter slice). -/
def sgrStep (acc : Style × Mode) (g : List Nat) : Style × Mode :=
  match g with
  | [] => acc  -- unreachable: `ParamsIter` yields non-empty slices
  | x :: subs =>
    match acc.2 with
    | .normal =>
      match extField x Generated.sgrExtArms with
      | some field =>
        match subs with
        | [] => (acc.1, .sel field)
        | s0 :: _ =>
          -- `[38, params @ ..]`
          let rgbStart := if subs.length > 4 then 2 else 1
          match parseSgrColor (s0 :: subs.drop rgbStart) with
          | some c => (acc.1.setColor field c, .normal)
          | none => (acc.1, .normal)
      | none =>
        match findArm x (!subs.isEmpty) Generated.sgrParseArms with
        | some (f, t, n) =>
          (if f < 8 then acc.1.setAttr f else acc.1.setColor f (mkColor t n), .normal)
        | none => (acc.1, .normal)
    | .sel field =>
      if x = Generated.sgrSelRgb then (acc.1, .rgb field [])
      else if x = Generated.sgrSelFixed then (acc.1, .fixed field)
      else (acc.1, .normal)
    | .rgb field cs =>
      if x > 255 then (acc.1, .normal)
      else
        match cs with
        | [r, g'] => (acc.1.setColor field (.rgb r g' x), .normal)
        | _ => (acc.1, .rgb field (cs ++ [x]))
    | .fixed field =>
      if x > 255 then (acc.1, .normal) else (acc.1.setColor field (.fixed x), .normal)

/-- `ansi_term_style_from_sgr_parameters` -/
def sgrToStyle (ps : List (List Nat)) : Style := (ps.foldl sgrStep ({}, .normal)).1

/-! ## Consumers of styled elements -/

/-- `parse_style_sections` -/
def styleSectionsGo (s : Bytes) : Style → List Element → Except String (List (Style × Bytes))
  | _, [] => .ok []
  | cur, e :: es =>
    match e.kind with
    | .text =>
      match slice s e.start e.stop with
      | .error m => .error m
      | .ok t =>
        match styleSectionsGo s cur es with
        | .error m => .error m
        | .ok r => .ok ((cur, t) :: r)
    | .sgr ps => styleSectionsGo s (sgrToStyle ps) es
    | _ => styleSectionsGo s cur es

def parseStyleSections (s : Bytes) : Except String (List (Style × Bytes)) :=
  styleSectionsGo s {} (elements s)

def firstStyleOf : List Element → Option Style
  | [] => none
  | e :: es => match e.kind with | .sgr ps => some (sgrToStyle ps) | _ => firstStyleOf es

/-- `parse_first_style` -/
def parseFirstStyle (s : Bytes) : Option Style := firstStyleOf (elements s)

/-- `string_starts_with_ansi_style_sequence` -/
def startsWithSgr (s : Bytes) : Bool :=
  match elements s with
  | e :: _ => (match e.kind with | .sgr _ => true | _ => false)
  | [] => false

/-- `ansi_term_16_color_equality(a, b)`: `a = Fixed(n)`, `b` = the named colour `n`. -/
def color16Eq (a b : Color) : Bool :=
  match a, b with
  | .fixed n, .named m => n == m && n < 8
  | _, _ => false

/-- `ansi_term_color_equality` -/
def colorEq (a b : Option Color) : Bool :=
  match a, b with
  | some x, some y => x == y || color16Eq x y || color16Eq y x
  | none, none => true
  | _, _ => false

/-- `ansi_term_style_equality` -/
def styleEq (a b : Style) : Bool :=
  if ({ a with fg := none, bg := none } : Style) ≠ { b with fg := none, bg := none } then false
  else colorEq a.fg b.fg && colorEq a.bg b.bg

/-- `Style::is_applied_to` -/
def isAppliedTo (st : Style) (s : Bytes) : Bool :=
  match parseFirstStyle s with
  | some p => styleEq p st
  | none => false

/-- `style::line_has_style_other_than` -/
def lineHasStyleOtherThan (s : Bytes) (styles : List Style) : Bool :=
  if !startsWithSgr s then false
  else !(styles.any fun st => isAppliedTo st s)

def gitDefaultMinus : Style :=
  { fg := some (mkColor Generated.gitDefaultMinusFg.1 Generated.gitDefaultMinusFg.2) }
def gitDefaultPlus : Style :=
  { fg := some (mkColor Generated.gitDefaultPlusFg.1 Generated.gitDefaultPlusFg.2) }

/-- `ansi_term_color_equality_key` (style.rs): named colour `n` and `Fixed(n)` share a key, a 24-bit
colour has its own. -/
def colorKey : Color → Nat × Nat × Nat × Nat
  | .named n => (n, 255, 255, 255)
  | .fixed n => (n, 255, 255, 255)
  | .rgb r g b => (r, g, b, 0)

/-- `ansi_term_style_equality_key`: the hash-map key of `--map-styles`. -/
abbrev StyleKey := List Bool × Option (Nat × Nat × Nat × Nat) × Option (Nat × Nat × Nat × Nat)

def styleKey (s : Style) : StyleKey :=
  ([s.bold, s.dimmed, s.italic, s.underline, s.blink, s.reverse, s.hidden, s.strike],
   s.fg.map colorKey, s.bg.map colorKey)

/-- A colour as `parse_style` yields it at a colour depth: with `trueColor = false` a 24-bit colour is
reduced to a 256-colour number (`quant` = the `ansi_colours` quantisation, a parameter). -/
def atDepth (quant : Nat → Nat → Nat → Nat) (trueColor : Bool) : Color → Color
  | .rgb r g b => if trueColor then .rgb r g b else .fixed (quant r g b)
  | c => c

def Style.atDepth (quant : Nat → Nat → Nat → Nat) (trueColor : Bool) (s : Style) : Style :=
  { s with fg := s.fg.map (Ansi.atDepth quant trueColor), bg := s.bg.map (Ansi.atDepth quant trueColor) }

/-- The `--map-styles` key under which the style written as `key` is stored when delta paints at the
depth `configured` (`parse_styles_map`; which depth the key side is parsed at is read from the source). -/
def mapStylesKey (quant : Nat → Nat → Nat → Nat) (configured : Bool) (key : Style) : StyleKey :=
  styleKey (key.atDepth quant (Generated.mapStylesKeyTrueColor configured))

/-- `maybe_raw_line(..).is_some()` (src/handlers/hunk.rs): is the hunk line kept with its input
colouring? The boolean combination is `Generated.emitRawLine`, read from the source on every run.
`styles` = the `non_raw_styles` of the caller: `[GIT_DEFAULT_MINUS_STYLE, config.git_minus_style]`
for removed lines, the PLUS pair for added lines, `[]` for unchanged lines. -/
def keepsRawLine (wordDiff inspect styleIsRaw : Bool) (raw : Bytes) (styles : List Style) : Bool :=
  Generated.emitRawLine wordDiff inspect (lineHasStyleOtherThan raw styles) styleIsRaw

/-- `while !s.is_char_boundary(cut) { cut -= 1 }` -/
def floorBoundary (s : Bytes) : Nat → Nat
  | 0 => 0
  | cut + 1 => if isBoundary s (cut + 1) then cut + 1 else floorBoundary s cut

/-- `ansi_preserving_slice` -/
def preservingSliceGo (s : Bytes) (start : Nat) : Nat → List Element → Except String Bytes
  | _, [] => .ok []
  | index, e :: es =>
    let piece : Except String Bytes × Nat :=
      if e.isText then
        let i := index
        let index' := index + (e.stop - e.start)
        if index' ≤ start then (.ok [], index')
        else if i > start then (slice s e.start e.stop, index')
        else
          let cut := e.start + start - i
          (slice s (if Generated.sliceFloorsCut then floorBoundary s cut else cut) e.stop, index')
      else (slice s e.start e.stop, index)
    match piece.1 with
    | .error m => .error m
    | .ok t =>
      match preservingSliceGo s start piece.2 es with
      | .error m => .error m
      | .ok r => .ok (t ++ r)

def preservingSlice (s : Bytes) (start : Nat) : Except String Bytes :=
  preservingSliceGo s start 0 (elements s)

/-- `ansi_preserving_index` -/
def preservingIndexGo (i : Nat) : Nat → List Element → Option Nat
  | _, [] => none
  | index, e :: es =>
    if e.isText then
      let index' := index + (e.stop - e.start)
      if index' > i then some (e.stop - (index' - i)) else preservingIndexGo i index' es
    else preservingIndexGo i index es

def preservingIndex (s : Bytes) (i : Nat) : Option Nat := preservingIndexGo i 0 (elements s)

/-! ## ansi_term `write_prefix` (re-emission of a parsed style) -/

def emitColor (named fixed rgb : List Nat) : Color → List (List Nat)
  | .named n => [[named.getD n 0]]
  | .fixed n => fixed.map (fun x => [x]) ++ [[n]]
  | .rgb r g b => rgb.map (fun x => [x]) ++ [[r], [g], [b]]

def emitAttrs (st : Style) : List (Nat × Nat) → List (List Nat)
  | [] => []
  | (f, code) :: rest => (if st.getAttr f then [[code]] else []) ++ emitAttrs st rest

/-- The parameters `write_prefix` writes between `ESC[` and `m` (`[]` = no sequence at all:
`is_plain`). -/
def emitParams (st : Style) : List (List Nat) :=
  if st = {} then []
  else
    let fgp := match st.fg with
      | some c => emitColor Generated.sgrEmitFgNamed Generated.sgrEmitFgFixed Generated.sgrEmitFgRgb c
      | none => []
    let bgp := match st.bg with
      | some c => emitColor Generated.sgrEmitBgNamed Generated.sgrEmitBgFixed Generated.sgrEmitBgRgb c
      | none => []
    emitAttrs st Generated.sgrEmitAttrs ++
      (if Generated.sgrEmitBgFirst then bgp ++ fgp else fgp ++ bgp)

def natDigits (n : Nat) : Bytes := (toString n).toUTF8.toList

def joinParams : List (List Nat) → Bytes
  | [] => []
  | [g] => (g.map natDigits).intersperse [0x3a] |>.flatten
  | g :: rest => ((g.map natDigits).intersperse [0x3a] |>.flatten) ++ 0x3b :: joinParams rest

/-- `Style::prefix().to_string()` -/
def emitPrefix (st : Style) : Bytes :=
  if st = {} then [] else [0x1b, 0x5b] ++ joinParams (emitParams st) ++ [0x6d]

/-- `style.paint(text).to_string()` -/
def paint (st : Style) (text : Bytes) : Bytes :=
  if st = {} then text else emitPrefix st ++ text ++ [0x1b, 0x5b, 0x30, 0x6d]

/-! ## Terminal meaning of SGR parameters (ECMA-48 / xterm), independent of delta's parser -/

inductive RColor where
  | default
  | palette (n : Nat)
  | rgb (r g b : Nat)
  deriving DecidableEq, Repr, Inhabited

/-- What a terminal shows: attributes and colours. Slow (5) and rapid (6) blink are one attribute. -/
structure Rendition where
  bold : Bool := false
  dim : Bool := false
  italic : Bool := false
  underline : Bool := false
  blink : Bool := false
  reverse : Bool := false
  hidden : Bool := false
  strike : Bool := false
  fg : RColor := .default
  bg : RColor := .default
  deriving DecidableEq, Repr, Inhabited

inductive RMode where
  | normal
  | sel (isFg : Bool)
  | rgb (isFg : Bool) (acc : List Nat)
  | idx (isFg : Bool)
  deriving DecidableEq, Repr, Inhabited

def Rendition.setColor (r : Rendition) (isFg : Bool) (c : RColor) : Rendition :=
  if isFg then { r with fg := c } else { r with bg := c }

/-- Colon form: `38:5:n`, `38:2:r:g:b`, `38:2:<colourspace>:r:g:b`. -/
def colonColor : List Nat → Option RColor
  | [5, n] => if n ≤ 255 then some (.palette n) else none
  | [2, r, g, b] => if r ≤ 255 ∧ g ≤ 255 ∧ b ≤ 255 then some (.rgb r g b) else none
  | [2, _, r, g, b] => if r ≤ 255 ∧ g ≤ 255 ∧ b ≤ 255 then some (.rgb r g b) else none
  | _ => none

def applyOne (acc : Rendition × RMode) (g : List Nat) : Rendition × RMode :=
  match g with
  | [] => acc
  | x :: subs =>
    let r := acc.1
    match acc.2 with
    | .sel isFg =>
      if x = 2 then (r, .rgb isFg []) else if x = 5 then (r, .idx isFg) else (r, .normal)
    | .rgb isFg cs =>
      if x > 255 then (r, .normal)
      else match cs with
        | [cr, cg] => (r.setColor isFg (.rgb cr cg x), .normal)
        | _ => (r, .rgb isFg (cs ++ [x]))
    | .idx isFg => if x > 255 then (r, .normal) else (r.setColor isFg (.palette x), .normal)
    | .normal =>
      if x = 0 then ({}, .normal)
      else if x = 1 then ({ r with bold := true }, .normal)
      else if x = 2 then ({ r with dim := true }, .normal)
      else if x = 3 then ({ r with italic := true }, .normal)
      else if x = 4 then
        (match subs with
         | [0] => { r with underline := false }
         | _ => { r with underline := true }, .normal)
      else if x = 5 ∨ x = 6 then ({ r with blink := true }, .normal)
      else if x = 7 then ({ r with reverse := true }, .normal)
      else if x = 8 then ({ r with hidden := true }, .normal)
      else if x = 9 then ({ r with strike := true }, .normal)
      else if x = 21 then ({ r with underline := true }, .normal)
      else if x = 22 then ({ r with bold := false, dim := false }, .normal)
      else if x = 23 then ({ r with italic := false }, .normal)
      else if x = 24 then ({ r with underline := false }, .normal)
      else if x = 25 then ({ r with blink := false }, .normal)
      else if x = 27 then ({ r with reverse := false }, .normal)
      else if x = 28 then ({ r with hidden := false }, .normal)
      else if x = 29 then ({ r with strike := false }, .normal)
      else if 30 ≤ x ∧ x ≤ 37 then ({ r with fg := .palette (x - 30) }, .normal)
      else if x = 38 ∨ x = 48 then
        if subs.isEmpty then (r, .sel (x = 38))
        else match colonColor subs with
          | some c => (r.setColor (x = 38) c, .normal)
          | none => (r, .normal)
      else if x = 39 then ({ r with fg := .default }, .normal)
      else if 40 ≤ x ∧ x ≤ 47 then ({ r with bg := .palette (x - 40) }, .normal)
      else if x = 49 then ({ r with bg := .default }, .normal)
      else if 90 ≤ x ∧ x ≤ 97 then ({ r with fg := .palette (x - 90 + 8) }, .normal)
      else if 100 ≤ x ∧ x ≤ 107 then ({ r with bg := .palette (x - 100 + 8) }, .normal)
      else (r, .normal)

/-- The rendition after one `ESC [ ps m` starting from `r`. -/
def applySgr (r : Rendition) (ps : List (List Nat)) : Rendition :=
  (ps.foldl applyOne (r, .normal)).1

/-- What the terminal shows for text painted with `st` by ansi_term (from the default state);
a plain style writes no sequence. -/
def renditionOfStyle (st : Style) : Rendition := applySgr {} (emitParams st)

/-! ## Specification vocabulary: characters, well-formed sequences, git colouring -/

/-- One UTF-8 encoded character (lead byte range + continuation bytes; a superset of valid
UTF-8, so theorems quantified over it cover every Rust `&str`). -/
inductive IsChar : Bytes → Prop
  | ascii (b : UInt8) : b.toNat < 0x80 → IsChar [b]
  | two (l x : UInt8) : 0xC2 ≤ l.toNat → l.toNat < 0xE0 → isCont x = true → IsChar [l, x]
  | three (l x y : UInt8) : 0xE0 ≤ l.toNat → l.toNat < 0xF0 → isCont x = true → isCont y = true →
      IsChar [l, x, y]
  | four (l x y z : UInt8) : 0xF0 ≤ l.toNat → l.toNat ≤ 0xF4 → isCont x = true → isCont y = true →
      isCont z = true → IsChar [l, x, y, z]

/-- Tokens of a *benign* line: characters, plain CSI sequences `ESC [ params final` (no private
marker, no intermediates, at most 32 parameters) — SGR when `final = m` —, and OSC strings
terminated by BEL or `ESC \`. This covers everything git and delta themselves emit. -/
inductive Tok where
  | chr (c : Bytes)
  | csi (body : Bytes) (fin : UInt8)
  | osc (payload : Bytes) (bel : Bool)
  deriving DecidableEq, Repr

def Tok.bytes : Tok → Bytes
  | .chr c => c
  | .csi body fin => 0x1b :: 0x5b :: (body ++ [fin])
  | .osc pl true => 0x1b :: 0x5d :: (pl ++ [0x07])
  | .osc pl false => 0x1b :: 0x5d :: (pl ++ [0x1b, 0x5c])

/-- Number of parameter separators (`;` and `:`) in a parameter string. -/
def seps : Bytes → Nat
  | [] => 0
  | b :: bs => (if 0x3a ≤ b.toNat then 1 else 0) + seps bs

def Tok.WF : Tok → Prop
  | .chr c => IsChar c ∧ c ≠ [0x1b]
  | .csi body fin =>
    (∀ b ∈ body, 0x30 ≤ b.toNat ∧ b.toNat ≤ 0x3b) ∧ seps body ≤ 31 ∧
      0x40 ≤ fin.toNat ∧ fin.toNat ≤ 0x7e
  | .osc pl _ => ∀ b ∈ pl, 0x20 ≤ b.toNat

def tokBytes : List Tok → Bytes
  | [] => []
  | t :: ts => t.bytes ++ tokBytes ts

/-- A line all of whose escape sequences are well formed. -/
def Benign (s : Bytes) : Prop := ∃ ts : List Tok, (∀ t ∈ ts, t.WF) ∧ tokBytes ts = s

/-- The visible text of a token list. -/
def plainOf : List Tok → Bytes
  | [] => []
  | .chr c :: ts => c ++ plainOf ts
  | _ :: ts => plainOf ts

/-- The parameter string of an SGR sequence as git writes it: decimal digits and `;`,
at most 32 parameters. -/
def SgrBody (body : Bytes) : Prop :=
  (∀ b ∈ body, (0x30 ≤ b.toNat ∧ b.toNat ≤ 0x39) ∨ b.toNat = 0x3b) ∧ seps body ≤ 31

/-- `coloured` is obtained from the ESC-free text `plain` by inserting SGR sequences
`ESC [ p(;p)* m` / `ESC [ m` between characters. -/
inductive GitColouring : Bytes → Bytes → Prop
  | nil : GitColouring [] []
  | chr {p q : Bytes} (c : Bytes) : IsChar c → c ≠ [0x1b] → GitColouring p q →
      GitColouring (c ++ p) (c ++ q)
  | sgr {p q : Bytes} (body : Bytes) : SgrBody body → GitColouring p q →
      GitColouring p (0x1b :: 0x5b :: (body ++ 0x6d :: q))

/-- The elements are contiguous, start at `pos`, end at the end of `s`, and every range end is a
char boundary (so every `&s[start..stop]` is a valid slice). -/
def contiguousFrom (s : Bytes) (pos : Nat) : List Element → Bool
  | [] => pos == s.length
  | e :: es =>
    e.start == pos && decide (e.start ≤ e.stop) && isBoundary s e.stop && contiguousFrom s e.stop es

/-- `vte_partition`: the element ranges partition the string. -/
def isPartition (s : Bytes) : Bool := contiguousFrom s 0 (elements s)

end Ansi
