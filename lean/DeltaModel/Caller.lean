/-
Model of the calling-process protocol of /repo/src/utils/process.rs (property C20).

  static CALLER : (Mutex<CallingProcess>, Condvar)   -- cell, initially `Pending`
  static CALLER_INFO_SOURCE : AtomicUsize            -- CALLER_GUESSED | CALLER_KNOWN

A labelled transition system, atomic at statement granularity.

* background thread (`start_determining_calling_process_in_thread`, the spawned closure):
    compute guess; lock; load source flag (inside the lock); if flag <= GUESSED then store
    guess; notify_all; unlock (guard dropped at the end of the closure)
* main thread: optionally `set_calling_process` (only for `delta git …` / `delta rg …`):
    lock; store value; store flag := KNOWN; notify_all; unlock
  then any number of `calling_process()` queries, one after the other:
    lock; wait_while(cell == Pending) = { check; if pending: wait (atomically unlock + join
    the wait set; woken by notify_all or spuriously; relock); check again … }; read; unlock
    (the guard is handed to the caller and dropped there).

A schedule is any list of `Choice`s (which thread moves next, or a spurious wake-up of the
waiting main thread); a choice that is not enabled makes `run` return `none`.

The statement order of the three pieces of code is *extracted* from process.rs on every check
(`Generated/CallerShape.lean`) and compared with `bgShape`/`pubShape`/`queryShape` below, which
are computed by walking the model's own program counters (see Props/C20.lean `shape_*`).
Core Lean only.
-/
namespace Caller

inductive Tid where
  | bg | main
  deriving DecidableEq, Repr

/-- Contents of `CALLER`: `Pending`, or a determined calling process (abstract value). -/
inductive Cell where
  | pending
  | val (v : Nat)
  deriving DecidableEq, Repr

/-- `CALLER_INFO_SOURCE`. -/
inductive Src where
  | guessed | known
  deriving DecidableEq, Repr

/-- Program counter of the background thread: the statement it executes next. -/
inductive BPc where
  | compute | lock | load | store | notify | unlock | done
  deriving DecidableEq, Repr

/-- Program counter of the main thread. -/
inductive MPc where
  | pubLock | pubStore | pubFlag | pubNotify | pubUnlock
  | qLock | qCheck | qSleep | asleep | qRelock | qRead | qUnlock
  | done
  deriving DecidableEq, Repr

/-- Scenario: the value the process-table scan yields, the value `set_calling_process`
publishes (`none`: delta did not launch the command itself), the number of queries. -/
structure Cfg where
  guess : Nat
  known : Option Nat
  queries : Nat
  deriving DecidableEq, Repr

structure State where
  owner : Option Tid      -- mutex
  cell : Cell             -- CALLER contents
  src : Src               -- CALLER_INFO_SOURCE
  waiters : List Tid      -- condvar wait set
  bpc : BPc
  bsrc : Src              -- background thread's local: the flag value it loaded
  mpc : MPc
  qleft : Nat             -- queries not yet completed
  results : List Cell     -- what the completed queries returned, oldest first
  deriving DecidableEq, Repr

inductive Choice where
  | bg | main | spurious
  deriving DecidableEq, Repr

/-- Where the main thread goes when it has `n` queries left to do. -/
def queryStart (n : Nat) : MPc := if n = 0 then .done else .qLock

def init (cfg : Cfg) : State :=
  { owner := none, cell := .pending, src := .guessed, waiters := [],
    bpc := .compute, bsrc := .guessed,
    mpc := if cfg.known.isSome then .pubLock else queryStart cfg.queries,
    qleft := cfg.queries, results := [] }

/-- `Condvar::notify_all`: empty the wait set; a waiting main thread must now relock. -/
def notifyAll (s : State) : State :=
  { s with waiters := [], mpc := if Tid.main ∈ s.waiters then .qRelock else s.mpc }

/-- One statement of the background thread. -/
def stepBg (cfg : Cfg) (s : State) : Option State :=
  match s.bpc with
  | .compute => some { s with bpc := .lock }
  | .lock => if s.owner = none then some { s with owner := some .bg, bpc := .load } else none
  | .load =>
      -- `if CALLER_INFO_SOURCE.load(..) <= CALLER_GUESSED { .. }`
      some { s with bsrc := s.src, bpc := if s.src = .guessed then .store else .notify }
  | .store => some { s with cell := .val cfg.guess, bpc := .notify }
  | .notify => some { notifyAll s with bpc := .unlock }
  | .unlock => some { s with owner := none, bpc := .done }
  | .done => none

/-- One statement of the main thread. -/
def stepMain (cfg : Cfg) (s : State) : Option State :=
  match s.mpc with
  | .pubLock => if s.owner = none then some { s with owner := some .main, mpc := .pubStore } else none
  | .pubStore =>
      match cfg.known with
      | some k => some { s with cell := .val k, mpc := .pubFlag }
      | none => none
  | .pubFlag => some { s with src := .known, mpc := .pubNotify }
  | .pubNotify => some { notifyAll s with mpc := .pubUnlock }
  | .pubUnlock => some { s with owner := none, mpc := queryStart s.qleft }
  | .qLock => if s.owner = none then some { s with owner := some .main, mpc := .qCheck } else none
  | .qCheck => some { s with mpc := if s.cell = .pending then .qSleep else .qRead }
  | .qSleep => some { s with owner := none, waiters := .main :: s.waiters, mpc := .asleep }
  | .asleep => none
  | .qRelock => if s.owner = none then some { s with owner := some .main, mpc := .qCheck } else none
  | .qRead => some { s with results := s.results ++ [s.cell], mpc := .qUnlock }
  | .qUnlock => some { s with owner := none, qleft := s.qleft - 1, mpc := queryStart (s.qleft - 1) }
  | .done => none

/-- A spurious wake-up of the main thread out of `Condvar::wait`. -/
def stepSpurious (s : State) : Option State :=
  if s.mpc = .asleep then
    some { s with waiters := s.waiters.erase .main, mpc := .qRelock }
  else none

def step (cfg : Cfg) (s : State) : Choice → Option State
  | .bg => stepBg cfg s
  | .main => stepMain cfg s
  | .spurious => stepSpurious s

/-- Execute a schedule; `none` as soon as a chosen step is not enabled. -/
def run (cfg : Cfg) (s : State) : List Choice → Option State
  | [] => some s
  | c :: cs =>
    match step cfg s c with
    | some s' => run cfg s' cs
    | none => none

def Reachable (cfg : Cfg) (s : State) : Prop := ∃ cs, run cfg (init cfg) cs = some s

/-- Both threads have run to completion. -/
def final (s : State) : Bool := s.bpc == .done && s.mpc == .done

/-! ### Termination measure -/

def brank : BPc → Nat
  | .compute => 6 | .lock => 5 | .load => 4 | .store => 3 | .notify => 2 | .unlock => 1 | .done => 0

/-- Remaining main-thread steps (upper bound), assuming no further spurious wake-up.
A query costs at most 8. -/
def mrank (s : State) : Nat :=
  let pend := decide (s.cell = .pending)
  match s.mpc with
  | .pubLock => 8 * s.qleft + 13
  | .pubStore => 8 * s.qleft + 12
  | .pubFlag => 8 * s.qleft + 11
  | .pubNotify => 8 * s.qleft + 10
  | .pubUnlock => 8 * s.qleft + 9
  | .qLock => 8 * s.qleft + 8
  | .qCheck => 8 * s.qleft + (if pend then 7 else 3)
  | .qSleep => 8 * s.qleft + 6
  | .asleep => 8 * s.qleft + 5
  | .qRelock => 8 * s.qleft + (if pend then 8 else 4)
  | .qRead => 8 * s.qleft + 2
  | .qUnlock => 8 * s.qleft + 1
  | .done => 0

def measure (s : State) : Nat := brank s.bpc + mrank s

def countSpurious : List Choice → Nat
  | [] => 0
  | .spurious :: cs => countSpurious cs + 1
  | _ :: cs => countSpurious cs

/-! ### Statement order of the model, for the shape check against the extracted source -/

/-- Name of the statement executed at a background pc (`none`: thread finished). -/
def BPc.stmt : BPc → Option String
  | .compute => some "compute" | .lock => some "lock" | .load => some "load_source"
  | .store => some "store_guess_if_source_guessed" | .notify => some "notify_all"
  | .unlock => some "unlock" | .done => none

/-- Successor in straight-line order (the conditional store is taken). -/
def BPc.next : BPc → BPc
  | .compute => .lock | .lock => .load | .load => .store | .store => .notify
  | .notify => .unlock | .unlock => .done | .done => .done

def bgWalk : Nat → BPc → List String
  | 0, _ => []
  | n + 1, pc => match pc.stmt with
    | some s => s :: bgWalk n pc.next
    | none => []

/-- Statement order of the background closure as the model executes it. -/
def bgShape : List String := bgWalk 10 .compute

def MPc.stmt : MPc → Option String
  | .pubLock => some "lock" | .pubStore => some "store_value" | .pubFlag => some "store_source_known"
  | .pubNotify => some "notify_all" | .pubUnlock => some "unlock"
  | .qLock => some "lock" | .qCheck => some "wait_while_pending" | .qRead => some "return_guard"
  | _ => none

def MPc.pubNext : MPc → MPc
  | .pubLock => .pubStore | .pubStore => .pubFlag | .pubFlag => .pubNotify
  | .pubNotify => .pubUnlock | _ => .done

def pubWalk : Nat → MPc → List String
  | 0, _ => []
  | n + 1, pc => match pc.stmt with
    | some s => s :: pubWalk n pc.pubNext
    | none => []

/-- Statement order of `set_calling_process`. -/
def pubShape : List String := pubWalk 10 .pubLock

/-- Statement order of `calling_process()`: the wait is a loop (`wait_while`), the guard is
returned (unlock happens in the caller). -/
def queryShape : List String :=
  [MPc.qLock, MPc.qCheck, MPc.qRead].filterMap MPc.stmt

/-- Start-up order of the main thread when delta launches the command itself, read off the
model: the background thread exists from the start; the main thread first publishes (its
initial pc is `pubLock`) and only after `pubUnlock` starts querying — this covers every query,
also the first one, made while the configuration is built. -/
def startupShape : List String :=
  let s0 := init ⟨0, some 0, 1⟩
  ["start_thread"]
    ++ (if s0.mpc = .pubLock then ["publish_known_command"] else ["queries"])
    ++ (match stepMain ⟨0, some 0, 1⟩ { s0 with mpc := .pubUnlock } with
        | some s1 => if s1.mpc = .qLock then ["queries"] else []
        | none => [])

/-! ### Ordering points (gates) of the hooked implementation

The hooked build of process.rs has a named gate *before* every protocol statement:
`b.compute b.lock b.load b.store b.notify b.unlock` (background), `m.lock m.store m.flag
m.notify m.unlock` (`set_calling_process`), `q<k>.lock q<k>.check` (k-th query; the check gate
is inside the `wait_while` closure, i.e. under the lock before each evaluation of the
condition). The remaining model steps of a query (`qSleep`, `qRelock`, `qRead`, `qUnlock`) have
no gate: the implementation executes them straight after the preceding gated step. A gate
schedule (global order of gate events) is executed on the model by `runGates`: each event is
one `stepBg`/`stepMain`, followed by the ungated main-thread steps that are enabled. -/

/-- 1-based index of the query the main thread is working on. -/
def queryIndex (cfg : Cfg) (s : State) : Nat := cfg.queries - s.qleft + 1

/-- The ordering points of the hooked implementation. -/
inductive Gate where
  | bCompute | bLock | bLoad | bStore | bNotify | bUnlock
  | mLock | mStore | mFlag | mNotify | mUnlock
  | qLock (k : Nat) | qCheck (k : Nat)
  deriving DecidableEq, Repr

def Gate.isBg : Gate → Bool
  | .bCompute | .bLock | .bLoad | .bStore | .bNotify | .bUnlock => true
  | _ => false

/-- The name the gate has in process.rs / `DELTA_VERIF_SCHEDULE`. -/
def Gate.name : Gate → String
  | .bCompute => "b.compute" | .bLock => "b.lock" | .bLoad => "b.load" | .bStore => "b.store"
  | .bNotify => "b.notify" | .bUnlock => "b.unlock"
  | .mLock => "m.lock" | .mStore => "m.store" | .mFlag => "m.flag" | .mNotify => "m.notify"
  | .mUnlock => "m.unlock"
  | .qLock k => "q" ++ toString k ++ ".lock"
  | .qCheck k => "q" ++ toString k ++ ".check"

def bgGate : BPc → Option Gate
  | .compute => some .bCompute | .lock => some .bLock | .load => some .bLoad
  | .store => some .bStore | .notify => some .bNotify | .unlock => some .bUnlock
  | .done => none

def mainGate (cfg : Cfg) (s : State) : Option Gate :=
  match s.mpc with
  | .pubLock => some .mLock | .pubStore => some .mStore | .pubFlag => some .mFlag
  | .pubNotify => some .mNotify | .pubUnlock => some .mUnlock
  | .qLock => some (.qLock (queryIndex cfg s))
  | .qCheck => some (.qCheck (queryIndex cfg s))
  | _ => none

def MPc.ungated : MPc → Bool
  | .qSleep | .qRelock | .qRead | .qUnlock => true
  | _ => false

/-- Run the ungated main-thread steps that are enabled (at most `fuel`; 2 are ever needed). -/
def settle (cfg : Cfg) : Nat → State → State × List Choice
  | 0, s => (s, [])
  | n + 1, s =>
    if s.mpc.ungated then
      match stepMain cfg s with
      | some s' => let r := settle cfg n s'; (r.1, Choice.main :: r.2)
      | none => (s, [])
    else (s, [])

structure GateRun where
  state : State
  choices : List Choice            -- the statement-level schedule executed so far
  checks : List (Nat × Cell)       -- (query index, cell value seen) at every check gate
  deriving Repr

inductive GateErr where
  | mismatch   -- the thread's next gate is a different one
  | blocked    -- the statement is not enabled (mutex held by the other thread)
  deriving Repr, DecidableEq

/-- One gate event. -/
def gateStep (cfg : Cfg) (r : GateRun) (e : Gate) : Except GateErr GateRun :=
  let s := r.state
  if e.isBg then
    if bgGate s.bpc = some e then
      match stepBg cfg s with
      | some s' =>
        let t := settle cfg 4 s'
        .ok { state := t.1, choices := r.choices ++ Choice.bg :: t.2, checks := r.checks }
      | none => .error .blocked
    else .error .mismatch
  else
    if mainGate cfg s = some e then
      match stepMain cfg s with
      | some s' =>
        let t := settle cfg 4 s'
        .ok { state := t.1, choices := r.choices ++ Choice.main :: t.2,
              checks := if s.mpc = .qCheck then r.checks ++ [(queryIndex cfg s, s.cell)] else r.checks }
      | none => .error .blocked
    else .error .mismatch

/-- Execute a gate schedule; on failure the index of the offending event, why it cannot
happen, and the run up to there. -/
def runGates (cfg : Cfg) (r : GateRun) : List Gate → Nat → Except (Nat × GateErr × GateRun) GateRun
  | [], _ => .ok r
  | e :: es, i =>
    match gateStep cfg r e with
    | .ok r' => runGates cfg r' es (i + 1)
    | .error err => .error (i, err, r)

def gateInit (cfg : Cfg) : GateRun := { state := init cfg, choices := [], checks := [] }

/-- Gate events enabled in a state, with the successor. -/
def gateOptions (cfg : Cfg) (r : GateRun) : List (Gate × GateRun) :=
  ([bgGate r.state.bpc, mainGate cfg r.state].filterMap id).filterMap fun e =>
    match gateStep cfg r e with
    | .ok r' => some (e, r')
    | .error _ => none

/-- All gate schedules from `r` until the main thread is done (the process then exits; the
detached background thread may be cut short). A stuck state is marked `"STUCK"`. -/
def enumGates (cfg : Cfg) : Nat → GateRun → List String → List (List String)
  | 0, _, acc => [(("FUEL" :: acc).reverse)]
  | n + 1, r, acc =>
    if r.state.mpc = .done then [acc.reverse]
    else
      match gateOptions cfg r with
      | [] => [(("STUCK" :: acc).reverse)]
      | opts => opts.flatMap fun (e, r') => enumGates cfg n r' (e.name :: acc)

/-! ### Variant: the atomic load hoisted out of the lock (NOT what the code does) -/

/-- Background thread with `load` before `lock`. -/
def stepBgHoisted (cfg : Cfg) (s : State) : Option State :=
  match s.bpc with
  | .compute => some { s with bpc := .load }
  | .load => some { s with bsrc := s.src, bpc := .lock }
  | .lock =>
      if s.owner = none then
        some { s with owner := some .bg, bpc := if s.bsrc = .guessed then .store else .notify }
      else none
  | .store => some { s with cell := .val cfg.guess, bpc := .notify }
  | .notify => some { notifyAll s with bpc := .unlock }
  | .unlock => some { s with owner := none, bpc := .done }
  | .done => none

def stepHoisted (cfg : Cfg) (s : State) : Choice → Option State
  | .bg => stepBgHoisted cfg s
  | .main => stepMain cfg s
  | .spurious => stepSpurious s

def runHoisted (cfg : Cfg) (s : State) : List Choice → Option State
  | [] => some s
  | c :: cs =>
    match stepHoisted cfg s c with
    | some s' => runHoisted cfg s' cs
    | none => none

/-! ### Variant: background thread does not notify (NOT what the code does) -/

def stepBgNoNotify (cfg : Cfg) (s : State) : Option State :=
  match s.bpc with
  | .notify => some { s with bpc := .unlock }
  | _ => stepBg cfg s

def stepNoNotify (cfg : Cfg) (s : State) : Choice → Option State
  | .bg => stepBgNoNotify cfg s
  | .main => stepMain cfg s
  | .spurious => stepSpurious s

def runNoNotify (cfg : Cfg) (s : State) : List Choice → Option State
  | [] => some s
  | c :: cs =>
    match stepNoNotify cfg s c with
    | some s' => runNoNotify cfg s' cs
    | none => none

/-! ### Variant: `if` instead of `while` around the wait (NOT what the code does) -/

/-- Main thread that reads straight after relocking, without re-checking the condition. -/
def stepMainIf (cfg : Cfg) (s : State) : Option State :=
  match s.mpc with
  | .qRelock => if s.owner = none then some { s with owner := some .main, mpc := .qRead } else none
  | _ => stepMain cfg s

def stepIf (cfg : Cfg) (s : State) : Choice → Option State
  | .bg => stepBg cfg s
  | .main => stepMainIf cfg s
  | .spurious => stepSpurious s

def runIf (cfg : Cfg) (s : State) : List Choice → Option State
  | [] => some s
  | c :: cs =>
    match stepIf cfg s c with
    | some s' => runIf cfg s' cs
    | none => none

/-! ### Variant: the known command is published only after the first query (NOT what the code does)

`run_app` with `set_calling_process` moved behind `Config::from`: the first query (made while
the configuration is built, its answer cached) precedes the publication. -/

def initLatePub (cfg : Cfg) : State := { init cfg with mpc := queryStart cfg.queries }

def stepMainLatePub (cfg : Cfg) (s : State) : Option State :=
  match s.mpc with
  | .qUnlock =>
      if s.src = .guessed ∧ cfg.known.isSome then
        some { s with owner := none, qleft := s.qleft - 1, mpc := .pubLock }
      else stepMain cfg s
  | _ => stepMain cfg s

def stepLatePub (cfg : Cfg) (s : State) : Choice → Option State
  | .bg => stepBg cfg s
  | .main => stepMainLatePub cfg s
  | .spurious => stepSpurious s

def runLatePub (cfg : Cfg) (s : State) : List Choice → Option State
  | [] => some s
  | c :: cs =>
    match stepLatePub cfg s c with
    | some s' => runLatePub cfg s' cs
    | none => none

end Caller
