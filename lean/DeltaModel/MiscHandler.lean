import DeltaModel.Machine
import DeltaModel.Generated.MiscHandler
/-!
`handle_diff_header_misc_line` (/repo/src/handlers/diff_header_misc.rs) executed *from its source*: an interpreter for
the statement tree that the extractor regenerates (`Generated.MiscHandler.body`, `tests`, `binaryFileSuffix`) over the
state of the machine model.

Every construct of the tree has one meaning here; a construct the interpreter does not know (a field it has no
counterpart for, an `unknown` statement or condition, a call other than `emit_line_unchanged`) makes the run `none`.
`C14.misc_handler_follows_source` (Props/C14.lean) states that the run over the generated tree is `Machine.handleMisc`
— the hand-written function the model driver executes and all whole-run theorems are about — for every configuration,
state and line. So a statement added to, dropped from or moved within the Rust function (a further write to
`current_file_pair`, `handled_diff_header_header_line_file_pair`, `mode_info`, the names; a changed guard) breaks that
theorem instead of silently leaving the model behind.
-/
namespace MiscHandler
open Headers Machine Generated Generated.MiscHandler

/-- the `String` fields of `StateMachine` the model has a counterpart for -/
def getStr (m : M) : String → Option Str
  | "minus_file" => some m.minusFile
  | "plus_file" => some m.plusFile
  | "mode_info" => some m.modeInfo
  | _ => none

def setStr (m : M) (v : Str) : String → Option M
  | "minus_file" => some { m with minusFile := v }
  | "plus_file" => some { m with plusFile := v }
  | "mode_info" => some { m with modeInfo := v }
  | _ => none

/-- the `Option<(String, String)>` fields -/
def getPair (m : M) : String → Option (Option (Str × Str))
  | "current_file_pair" => some m.currentPair
  | "handled_diff_header_header_line_file_pair" => some m.handledPair
  | _ => none

def setPair (m : M) (v : Option (Str × Str)) : String → Option M
  | "current_file_pair" => some { m with currentPair := v }
  | "handled_diff_header_header_line_file_pair" => some { m with handledPair := v }
  | _ => none

def constant : String → Option Str
  | "BINARY_FILE_SUFFIX" => some binaryFileSuffix
  | _ => none

def sourceOf : String → Option Source
  | "GitDiff" => some .gitDiff
  | "DiffUnified" => some .diffUnified
  | "Unknown" => some .unknown
  | _ => none

/-- `!x` when `neg` -/
def sign (neg b : Bool) : Bool := if neg then !b else b

/-- conjunction of conditions that may be unknown -/
def allOf : List (Option Bool) → Option Bool
  | [] => some true
  | none :: _ => none
  | some b :: rest => (allOf rest).map (b && ·)

/-- a conjunct that is not a call of a `test_*` predicate -/
def evalBasic (cfg : Cfg) (m : M) (l : L) : Atom → Option Bool
  | .colorOnly neg => some (sign neg cfg.colorOnly)
  | .isEmpty neg f => (getStr m f).map fun s => sign neg s.isEmpty
  | .neLit f lit => (getStr m f).map fun s => decide (s ≠ lit)
  | .eqLit f lit => (getStr m f).map fun s => decide (s = lit)
  | .sourceIs n => (sourceOf n).map fun s => decide (m.source = s)
  | .lineStartsWith lit => some (startsWith l.text lit)
  | .test .. => none
  | .unknown _ => none

def evalAtom (cfg : Cfg) (m : M) (l : L) : Atom → Option Bool
  | .test neg name =>
    match tests.lookup name with
    | some atoms => (allOf (atoms.map (evalBasic cfg m l))).map (sign neg)
    | none => none
  | a => evalBasic cfg m l a

def evalCond (cfg : Cfg) (m : M) (l : L) (c : List Atom) : Option Bool :=
  allOf (c.map (evalAtom cfg m l))

/-- where control is after a statement: in the function with a new state, or returned -/
inductive Flow
  | cont (m : M)
  | done (r : Except String (Bool × M))

def execSimple (cfg : Cfg) (l : L) (m : M) : Simple → Option Flow
  | .ret v => some (.done (.ok (v, m)))
  | .call "emit_line_unchanged" => some (.cont (emitLineUnchanged m l))
  | .call _ => none
  | .cloneFrom dst src =>
    match getPair m src with
    | some p => (setPair m p dst).map .cont
    | none => none
  | .pushStr f c =>
    match getStr m f, constant c with
    | some v, some k => (setStr m (v ++ k) f).map .cont
    | _, _ => none
  | .clear f => (setStr m [] f).map .cont
  | .assign f (.somePair a b) =>
    match getStr m a, getStr m b with
    | some x, some y => (setPair m (some (x, y)) f).map .cont
    | _, _ => none
  | .assign f .none => (setPair m none f).map .cont
  | .assign f (.fieldClone g) =>
    match getPair m g with
    | some p => (setPair m p f).map .cont
    | none =>
      match getStr m g with
      | some v => (setStr m v f).map .cont
      | none => none
  | .assign f .emptyString => (setStr m [] f).map .cont
  | .assign _ (.unknown _) => none
  | .tailAdditionalCases =>
    some (.done (handleAdditionalCases cfg m l (if isDiffHeader m.st then m.st else .diffHeader .unified)))
  | .unknown _ => none

def execSimples (cfg : Cfg) (l : L) : List Simple → M → Option Flow
  | [], m => some (.cont m)
  | s :: rest, m =>
    match execSimple cfg l m s with
    | some (.cont m') => execSimples cfg l rest m'
    | r => r

def execStmt1 (cfg : Cfg) (l : L) (m : M) : Stmt1 → Option Flow
  | .simple s => execSimple cfg l m s
  | .ifThen c body =>
    match evalCond cfg m l c with
    | none => none
    | some true => execSimples cfg l body m
    | some false => some (.cont m)

def execStmts1 (cfg : Cfg) (l : L) : List Stmt1 → M → Option Flow
  | [], m => some (.cont m)
  | s :: rest, m =>
    match execStmt1 cfg l m s with
    | some (.cont m') => execStmts1 cfg l rest m'
    | r => r

def execStmt2 (cfg : Cfg) (l : L) (m : M) : Stmt2 → Option Flow
  | .simple s => execSimple cfg l m s
  | .ifThen c body =>
    match evalCond cfg m l c with
    | none => none
    | some true => execStmts1 cfg l body m
    | some false => some (.cont m)

def execStmts2 (cfg : Cfg) (l : L) : List Stmt2 → M → Option Flow
  | [], m => some (.cont m)
  | s :: rest, m =>
    match execStmt2 cfg l m s with
    | some (.cont m') => execStmts2 cfg l rest m'
    | r => r

/-- the function body run to its `return` / tail expression; `none`: not understood, or no value returned -/
def run (cfg : Cfg) (m : M) (l : L) (body : List Stmt2) : Option (Except String (Bool × M)) :=
  match execStmts2 cfg l body m with
  | some (.done r) => some r
  | _ => none

/-- `handle_diff_header_misc_line` as the Rust source has it now -/
def handleMiscSrc (cfg : Cfg) (m : M) (l : L) : Option (Except String (Bool × M)) :=
  run cfg m l Generated.MiscHandler.body

end MiscHandler
