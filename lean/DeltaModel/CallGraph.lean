import DeltaModel.Caller
import DeltaModel.Generated.CallerQueries
/-!
C20 — who can ask for the calling process, and when: the call graph of the start-up phase.

`Generated/CallerQueries.lean` (regenerated from every `src/**/*.rs` on each run by
`tools/extractors/callerqueries.py`) is a name-based call graph of the crate: `callees[i]` = the
nodes (functions, lazy_static initialisers, macros) the body of node `i` can call, the query
primitives (`utils::process::calling_process` …), the lazy_static entries, and the statements of
`main` / `run_app` before and after the `set_calling_process(..)` call with what each can call.

This file: reachability over such a graph (`Reach`, the specification) and an executable closure on
bit sets (`closure`, `closed`: what the kernel and the driver evaluate); `Proofs/CallGraph.lean`
proves that a closed set containing the roots contains everything reachable. On top of it the
start-up order of the main thread as the GRAPH gives it (`graphStartup`: which statement of `run_app`
can query at all is computed, not listed by hand) and the process-lifetime cache of
`handlers::hunk::is_word_diff` (`CACHED_IS_WORD_DIFF`): `answers` says what a sequence of direct /
cached accesses returns given the answers of the queries actually made.
-/
namespace CallGraph

/-- A call graph: row `i` lists the nodes node `i` can call. -/
abbrev Graph := List (List Nat)

def calleesOf (g : Graph) (i : Nat) : List Nat :=
  match g[i]? with
  | some r => r
  | none => []

/-- `f` can be reached from one of `roots` along call edges (zero or more). -/
inductive Reach (g : Graph) (roots : List Nat) : Nat → Prop where
  | root {r : Nat} : r ∈ roots → Reach g roots r
  | call {i j : Nat} : Reach g roots i → j ∈ calleesOf g i → Reach g roots j

/-! ### Executable closure on bit sets (a set of nodes = a `Nat`, bit `i` = node `i`) -/

def mask : List Nat → Nat
  | [] => 0
  | j :: l => (1 <<< j) ||| mask l

def rowMasks (g : Graph) : List Nat := g.map mask

/-- One sweep over the rows, in node order: a node already in the set contributes its callees. -/
def pass : List Nat → Nat → Nat → Nat
  | [], _, S => S
  | r :: rs, i, S => pass rs (i + 1) (if S.testBit i then S ||| r else S)

def closureFuel (rows : List Nat) : Nat → Nat → Nat
  | 0, S => S
  | n + 1, S =>
    let S' := pass rows 0 S
    if S' == S then S else closureFuel rows n S'

/-- Sweeps until nothing changes (at most one sweep per node). Whether the result is closed is
CHECKED (`closed`), not assumed. -/
def closure (g : Graph) (roots : List Nat) : Nat :=
  closureFuel (rowMasks g) (g.length + 1) (mask roots)

def closedAux : List Nat → Nat → Nat → Bool
  | [], _, _ => true
  | r :: rs, i, S => (!S.testBit i || (S ||| r) == S) && closedAux rs (i + 1) S

/-- Every callee of a member is a member. -/
def closed (g : Graph) (S : Nat) : Bool := closedAux (rowMasks g) 0 S

/-- A closed set that contains the roots and none of `bad`. -/
def separates (g : Graph) (roots bad : List Nat) (S : Nat) : Bool :=
  closed g S && roots.all (fun r => S.testBit r) && bad.all (fun b => !S.testBit b)

/-- Can a call of one of `roots` end up in one of `targets`? (decided on the closure; `true` is an
over-approximation only in so far as the graph is.) -/
def canReach (g : Graph) (roots targets : List Nat) : Bool :=
  let S := closure g roots
  targets.any (fun t => S.testBit t)

/-! ### The graph of this source tree -/

open Generated.CallerQueries in
def G : Graph := Generated.CallerQueries.callees

def prims : List Nat := Generated.CallerQueries.queryPrimitives

/-- Node number of a function by name (`nodes.length` if there is none). -/
def idOf (name : String) : Nat := Generated.CallerQueries.nodes.idxOf name

/-- Everything the statements before the publication can call, plus the trait methods that run
without being named (`Drop::drop`, `Display::fmt`, …: they can run anywhere). -/
def preRoots : List Nat :=
  (Generated.CallerQueries.prePublication.map (·.2)).flatten ++ Generated.CallerQueries.implicitRoots

def preClosure : Nat := closure G preRoots

/-- Consecutive duplicates merged. -/
def dedup : List String → List String
  | a :: b :: l => if a = b then dedup (b :: l) else a :: dedup (b :: l)
  | l => l

/-- What a start-up statement is for the protocol: the thread start, or something that can query
(computed on the graph: its callees reach a query primitive), or neither. -/
def classify (st : String × List Nat) : List String :=
  if st.2.contains (idOf "utils::process::start_determining_calling_process_in_thread") then ["start_thread"]
  else if canReach G st.2 prims then ["queries"] else []

/-- The start-up order of the main thread in subcommand mode as the call graph gives it. -/
def graphStartup : List String :=
  dedup ((Generated.CallerQueries.prePublication.map classify).flatten
    ++ ["publish_known_command"]
    ++ (Generated.CallerQueries.postPublication.map classify).flatten)

/-! ### The process-lifetime cache (`lazy_static! { static ref CACHED_IS_WORD_DIFF … }`) -/

/-- How a piece of code asks: `calling_process()` itself, or through the lazy_static (the first
such access makes a query and stores the answer, every later one returns the stored answer). -/
inductive Access where
  | direct | cached
  deriving DecidableEq, Repr

/-- Number of protocol queries a sequence of accesses makes (`filled`: the cache holds a value). -/
def queriesMade : List Access → Bool → Nat
  | [], _ => 0
  | .direct :: l, f => queriesMade l f + 1
  | .cached :: l, true => queriesMade l true
  | .cached :: l, false => queriesMade l true + 1

/-- What the accesses return, given the answers of the protocol queries actually made (oldest
first) and the cache content. `none`: fewer answers than queries. -/
def answers : List Access → List Caller.Cell → Option Caller.Cell → Option (List Caller.Cell)
  | [], _, _ => some []
  | .cached :: l, rs, some v => (answers l rs (some v)).map (v :: ·)
  | .cached :: l, r :: rs, none => (answers l rs (some r)).map (r :: ·)
  | .direct :: l, r :: rs, c => (answers l rs c).map (r :: ·)
  | _ :: _, [], _ => none

end CallGraph
