import DeltaModel.Superimpose
/-!
## `Painter::set_syntax` together with the painter state it can see

`Superimpose.Lifetime.execStmt` gives `set_syntax(name)` the meaning "`self.syntax` := the language of
`name`" — a function of the argument alone. Whether the source still says so is **generated**
(`Generated/SuperimposeLifetime.lean`, `setSyntaxRhs`): the translator describes the right-hand side
that `set_syntax` stores in `self.syntax`

* `getSyntaxOfArgument` — `Painter::get_syntax(&self.config.syntax_set, filename, &self.config.default_language)`;
* `memoOrGetSyntax field key` — `*self.<field>.entry(<key>).or_insert_with(|| Painter::get_syntax(…))`
  (a cache in the painter; `key` = the argument itself or something derived from it);
* `stateDependent fields` — any other body that mentions painter fields besides `config` and the
  assigned `syntax`;

and this file interprets that description on a painter state that *has* such tables
(`PainterSyn.tables`: per field an association list from keys to syntaxes). `runP` is
`Lifetime.run` with every `set_syntax` going through `setSyntax`; `Proofs/SetSyntax.lean` shows that
the two agree exactly when `setSyntax` is *faithful* (stores the language of its argument whatever
the tables hold), which `C15.set_syntax_reads_only_its_argument` proves from the generated
description — and which is false for a memo keyed by anything coarser than the name
(`C15.memo_by_derived_key_is_not_faithful`).

Core Lean only.
-/
namespace Superimpose.Lifetime
open Generated.SuperimposeLifetime

/-- The `filename : Option<&str>` argument. -/
abbrev Name := Option (List Char)

/-- A memo table (`HashMap<key, &SyntaxReference>`) as an association list; at most one entry per
key is ever inserted, the first match is returned. -/
def memoFind {σ : Type} : List (Name × σ) → Name → Option σ
  | [], _ => none
  | (k, v) :: rest, q => if k = q then some v else memoFind rest q

/-- Everything `set_syntax` is given from outside the painter. -/
structure SetSyntaxEnv (σ : Type) where
  /-- `Painter::get_syntax` as a function of the file name (it has no other input: the syntax set and
  the default language are configuration, `getSyntaxGlobals = []`) -/
  lang : Name → σ
  /-- what a key expression that is not the argument itself (identified by its source text) makes
  of the argument — arbitrary -/
  keyOf : String → Name → Name
  /-- what a body the translator does not understand makes of the fields it reads, the stored
  syntax and the argument — arbitrary -/
  other : List String → (String → List (Name × σ)) → σ → Name → σ

/-- The part of the painter `set_syntax` can read or write besides the configuration. -/
structure PainterSyn (σ : Type) where
  /-- `self.syntax` -/
  syn : σ
  /-- every other field, as a table from keys to syntaxes -/
  tables : String → List (Name × σ)

def memoKey {σ : Type} (env : SetSyntaxEnv σ) : MemoKey → Name → Name
  | .argument, n => n
  | .derived e, n => env.keyOf e n

/-- `Painter::set_syntax(filename)` as described by `rhs`. -/
def setSyntax {σ : Type} (env : SetSyntaxEnv σ) (p : PainterSyn σ) (filename : Name) :
    SyntaxRhs → PainterSyn σ
  | .getSyntaxOfArgument => { p with syn := env.lang filename }
  | .memoOrGetSyntax field key =>
    let k := memoKey env key filename
    match memoFind (p.tables field) k with
    | some s => { p with syn := s }
    | none =>
      let s := env.lang filename
      { syn := s, tables := fun f => if f = field then (k, s) :: p.tables f else p.tables f }
  | .stateDependent fields => { p with syn := env.other fields p.tables p.syn filename }

/-- `set_syntax` stores the language of its argument, whatever the painter holds. -/
def Faithful {σ : Type} (env : SetSyntaxEnv σ) (rhs : SyntaxRhs) : Prop :=
  ∀ (p : PainterSyn σ) (filename : Name), (setSyntax env p filename rhs).syn = env.lang filename

/-- The lifetime state plus the painter's other tables. -/
structure PState (σ : Type) where
  st : State σ
  tables : String → List (Name × σ)

/-- The string handed to `set_syntax` by a handler statement. -/
def nameArg {σ : Type} (s : State σ) : Side → NameSource → Name
  | .minus, .parsedPath => s.minusName
  | .plus, .parsedPath => s.plusName
  | .minus, .markerLine => s.minusMarker
  | .plus, .markerLine => s.plusMarker

/-- `execStmt` with `set_syntax` interpreted from its generated description. -/
def execStmtP {σ : Type} (env : SetSyntaxEnv σ) (rhs : SyntaxRhs) (ps : PState σ) :
    Stmt → PState σ × List (Painted σ)
  | .setSyntax side src =>
    let r := setSyntax env ⟨ps.st.syn, ps.tables⟩ (nameArg ps.st side src) rhs
    (⟨{ ps.st with syn := r.syn }, r.tables⟩, [])
  | .paintBuffered =>
    (⟨(execStmt env.lang ps.st .paintBuffered).1, ps.tables⟩, (execStmt env.lang ps.st .paintBuffered).2)
  | .setHighlighter =>
    (⟨(execStmt env.lang ps.st .setHighlighter).1, ps.tables⟩, (execStmt env.lang ps.st .setHighlighter).2)
  | .paintFragment =>
    (⟨(execStmt env.lang ps.st .paintFragment).1, ps.tables⟩, (execStmt env.lang ps.st .paintFragment).2)

def execStmtsP {σ : Type} (env : SetSyntaxEnv σ) (rhs : SyntaxRhs) :
    PState σ → List (Guard × Stmt) → PState σ × List (Painted σ)
  | ps, [] => (ps, [])
  | ps, (g, st) :: rest =>
    if evalGuard ps.st g then
      let r := execStmtP env rhs ps st
      let r' := execStmtsP env rhs r.1 rest
      (r'.1, r.2 ++ r'.2)
    else execStmtsP env rhs ps rest

/-- `step`; the three handlers that call `set_syntax` run their generated statement lists through
`execStmtsP`, hunk lines and flushes do not touch the syntax. -/
def stepP {σ : Type} (env : SetSyntaxEnv σ) (rhs : SyntaxRhs) (ps : PState σ) :
    Event → PState σ × List (Painted σ)
  | .fileMinus n mk =>
    execStmtsP env rhs
      ⟨{ ps.st with minusName := n, minusMarker := mk, cur := env.lang n }, ps.tables⟩ minusHeaderStmts
  | .filePlus n mk =>
    execStmtsP env rhs
      ⟨{ ps.st with plusName := n, plusMarker := mk,
                    cur := if n.isSome then env.lang n else ps.st.cur }, ps.tables⟩ plusHeaderStmts
  | .hunkHeader => execStmtsP env rhs ⟨{ ps.st with lineNo := 0 }, ps.tables⟩ hunkHeaderStmts
  | .changedLine fl =>
    (⟨(step env.lang ps.st (.changedLine fl)).1, ps.tables⟩, (step env.lang ps.st (.changedLine fl)).2)
  | .contextLine =>
    (⟨(step env.lang ps.st .contextLine).1, ps.tables⟩, (step env.lang ps.st .contextLine).2)
  | .flush => (⟨(step env.lang ps.st .flush).1, ps.tables⟩, (step env.lang ps.st .flush).2)

def runP {σ : Type} (env : SetSyntaxEnv σ) (rhs : SyntaxRhs) :
    PState σ → List Event → PState σ × List (Painted σ)
  | ps, [] => (ps, [])
  | ps, e :: rest =>
    let r := stepP env rhs ps e
    let r' := runP env rhs r.1 rest
    (r'.1, r.2 ++ r'.2)

/-- `Painter::new`: no table has an entry. -/
def initialP {σ : Type} (env : SetSyntaxEnv σ) (unified : Bool) : PState σ :=
  ⟨initial env.lang unified, fun _ => []⟩

end Superimpose.Lifetime
