import DeltaModel.Superimpose
import DeltaModel.Generated.PainterFlush
/-!
## Which highlighter paints a line: `set_syntax` / flush / highlighter creation across a file boundary

`Superimpose.Lifetime` gives `paint_buffered_minus_and_plus_lines`, `paint_zero_line`, `set_highlighter` and the
fragment painter a hand-written meaning ("the buffered lines go through `self.highlighter` as it is", …) and
treats a hunk line as an event of its own. Here those meanings are **interpreted from the source**:

* `Generated/PainterFlush.lean`, `painterMethods`: every method of `impl Painter` that touches `self.syntax`,
  `self.highlighter` or another field holding a syntax / highlighter, translated statement by statement (new
  highlighter from …, paint the buffered lines with …, highlight one line with …, clear the buffers, remember a
  syntax in a field, `return`, conditions, calls inlined); what the translator does not understand is `unknown` /
  `other` and means an arbitrary function here (`FEnv`);
* `hunkLinePrelude`, `hunkLineMinus/Plus/Zero/Other`, `hunkLineEpilogue`: the ordered painter statements of
  `handle_hunk_line` with their guards;
* the three header handlers' statement lists of `Generated/SuperimposeLifetime.lean` (as before).

The machine `runF` runs the events the handlers generate (`FEvent`: `--- ` / `+++ ` lines, removed / added /
unchanged / other hunk lines with the conditions `handle_hunk_line` tests, lines that only flush) over a painter
state that also has the further syntax-holding fields (`FState.held`). `toEvents` maps each event to the
events of `Lifetime.run`; `Proofs/FlushOrder.lean` shows that both machines paint the same elements with the
same highlighters exactly when the generated method bodies are *plain* (the flush and the single-line painters
use the existing highlighter and never re-create it; `set_highlighter` creates it from the current syntax),
which `C15.flush_paints_with_the_existing_highlighter` … prove from the generated table.

What this is about: `handle_diff_header_minus_line` calls `set_syntax(<next file>)` BEFORE it flushes the
buffered lines of the previous file (generated order in `minusHeaderStmts`). That is harmless only because the
flush paints with the highlighter made at the last hunk header and does not look at `self.syntax`.

Core Lean only.
-/
namespace Superimpose.Flush
open Superimpose.Lifetime

/-- The painter as far as syntax and highlighter go: the lifetime state plus every further field that holds a
syntax (`held f` = what `self.f : Option<&SyntaxReference>` holds; none exists in the unchanged source). -/
structure FState (σ : Type) where
  st : Lifetime.State σ
  held : String → Option σ

/-- Everything that enters from outside, and the meaning of what the translator did not understand (arbitrary). -/
structure FEnv (σ : Type) where
  /-- `Painter::get_syntax` as a function of the file name -/
  lang : Option (List Char) → σ
  /-- conditions on the configuration / parameters -/
  external : String → Bool
  /-- conditions on the tracked state that are not understood -/
  cond : String → FState σ → Bool
  /-- a syntax expression that is not understood -/
  syn : String → FState σ → σ
  /-- a highlighter argument other than `self.highlighter` -/
  hl : String → FState σ → Option (Hl σ)
  /-- a statement that is not understood -/
  unknown : String → FState σ → FState σ

structure Res (σ : Type) where
  s : FState σ
  out : List (Painted σ)
  returned : Bool

variable {σ : Type} [DecidableEq σ]

def evalCond (env : FEnv σ) (s : FState σ) : Generated.PainterFlush.Cond → Bool
  | .themeConfigured => true      -- as in `Lifetime`: a syntax theme is configured
  | .buffersEmpty => s.st.buffered.isEmpty
  | .highlighterNone => s.st.hl.isNone
  | .highlighterSome => s.st.hl.isSome
  | .recordedDiffers f =>
    match s.held f with
    | some x => decide (x ≠ s.st.syn)
    | none => false
  | .external t => env.external t
  | .other t => env.cond t s

def synOf (env : FEnv σ) (s : FState σ) : Generated.PainterFlush.SynSrc → σ
  | .currentSyntax => s.st.syn
  | .recorded f => (s.held f).getD (env.syn ("unwrap of empty " ++ f) s)
  | .other t => env.syn t s

mutual
/-- One statement of a painter method. `one`: kind and expectation of the single line a `highlightOne`
paints (given by the caller). -/
def execStmt (env : FEnv σ) (one : Kind × Hl σ) : FState σ → Generated.PainterFlush.Stmt → Res σ
  | s, .newHighlighter src => ⟨{ s with st := { s.st with hl := some (synOf env s src, 0) } }, [], false⟩
  | s, .dropHighlighter => ⟨{ s with st := { s.st with hl := none } }, [], false⟩
  | s, .record f => ⟨{ s with held := fun g => if g = f then some s.st.syn else s.held g }, [], false⟩
  | s, .forget f => ⟨{ s with held := fun g => if g = f then none else s.held g }, [], false⟩
  | s, .paintBuffered .own =>
    ⟨{ s with st := { s.st with hl := (paintBuf s.st.hl s.st.buffered).1 } },
      (paintBuf s.st.hl s.st.buffered).2, false⟩
  | s, .paintBuffered (.other t) => ⟨s, (paintBuf (env.hl t s) s.st.buffered).2, false⟩
  | s, .highlightOne .own =>
    ⟨{ s with st := { s.st with hl := feed s.st.hl } }, [⟨one.1, s.st.hl, one.2⟩], false⟩
  | s, .highlightOne (.other t) => ⟨s, [⟨one.1, env.hl t s, one.2⟩], false⟩
  | s, .clearBuffers => ⟨{ s with st := { s.st with buffered := [] } }, [], false⟩
  | s, .unknown t => ⟨env.unknown t s, [], false⟩
  | s, .ret => ⟨s, [], true⟩
  | s, .ite c t e => if evalCond env s c then execStmts env one s t else execStmts env one s e
  | s, .inline _ b => ⟨(execStmts env one s b).s, (execStmts env one s b).out, false⟩
def execStmts (env : FEnv σ) (one : Kind × Hl σ) : FState σ → List Generated.PainterFlush.Stmt → Res σ
  | s, [] => ⟨s, [], false⟩
  | s, x :: rest =>
    if (execStmt env one s x).returned then execStmt env one s x
    else
      ⟨(execStmts env one (execStmt env one s x).s rest).s,
        (execStmt env one s x).out ++ (execStmts env one (execStmt env one s x).s rest).out,
        (execStmts env one (execStmt env one s x).s rest).returned⟩
end

mutual
/-- The statement (re)creates the highlighter (directly, in a branch, or through an inlined call). -/
def creates : Generated.PainterFlush.Stmt → Bool
  | .newHighlighter _ => true
  | .ite _ t e => createsL t || createsL e
  | .inline _ b => createsL b
  | _ => false
def createsL : List Generated.PainterFlush.Stmt → Bool
  | [] => false
  | x :: rest => creates x || createsL rest
end

/-- A table of translated methods. -/
abbrev Methods := List (String × List Generated.PainterFlush.Stmt)

def bodyOf (ms : Methods) (name : String) : List Generated.PainterFlush.Stmt :=
  match ms.lookup name with
  | some b => b
  | none => [.unknown ("no such method: " ++ name)]

/-- Call of a painter method. -/
def call (env : FEnv σ) (ms : Methods) (name : String) (one : Kind × Hl σ) (s : FState σ) :
    FState σ × List (Painted σ) :=
  ((execStmts env one s (bodyOf ms name)).s, (execStmts env one s (bodyOf ms name)).out)

/-- A painter statement of a header handler (`Generated.SuperimposeLifetime.Stmt`). -/
def execH (env : FEnv σ) (ms : Methods) (s : FState σ) :
    Generated.SuperimposeLifetime.Stmt → FState σ × List (Painted σ)
  | .setSyntax side src => ({ s with st := (Lifetime.execStmt env.lang s.st (.setSyntax side src)).1 }, [])
  | .paintBuffered => call env ms "paint_buffered_minus_and_plus_lines" (.line, (s.st.cur, 0)) s
  | .setHighlighter => call env ms "set_highlighter" (.line, (s.st.cur, 0)) s
  | .paintFragment => call env ms "syntax_highlight_and_paint_line" (.fragment, (s.st.cur, 0)) s

def execHs (env : FEnv σ) (ms : Methods) :
    FState σ → List (Generated.SuperimposeLifetime.Guard × Generated.SuperimposeLifetime.Stmt) →
      FState σ × List (Painted σ)
  | s, [] => (s, [])
  | s, (g, st) :: rest =>
    if evalGuard s.st g then
      ((execHs env ms (execH env ms s st).1 rest).1, (execH env ms s st).2 ++ (execHs env ms (execH env ms s st).1 rest).2)
    else execHs env ms s rest

/-- What `handle_hunk_line` tests before / while handling a line. -/
structure LineCtx where
  /-- more than `line_buffer_size` lines are buffered on one side -/
  over : Bool
  /-- the state is still `HunkHeader`: this is the first line of the hunk -/
  first : Bool
  /-- the previous line was an added line -/
  prevPlus : Bool
  /-- guards the translator did not understand -/
  other : String → Bool

def evalLineGuard (c : LineCtx) : Generated.PainterFlush.LineGuard → Bool
  | .always => true
  | .ifBufferOverLimit => c.over
  | .ifHunkHeaderPending => c.first
  | .ifPrevLineWasPlus => c.prevPlus
  | .other t => c.other t

/-- One painter statement of `handle_hunk_line`. -/
def execLine (env : FEnv σ) (ms : Methods) (s : FState σ) :
    Generated.PainterFlush.LineStmt → FState σ × List (Painted σ)
  | .flush => call env ms "paint_buffered_minus_and_plus_lines" (.line, (s.st.cur, 0)) s
  | .emitHunkHeader =>
    execHs env ms { s with st := { s.st with lineNo := 0 } } Generated.SuperimposeLifetime.hunkHeaderStmts
  | .bufferLine =>
    ({ s with st := { s.st with buffered := s.st.buffered ++ [(s.st.cur, s.st.lineNo)],
                                 lineNo := s.st.lineNo + 1 } }, [])
  | .paintZero =>
    let r := call env ms "paint_zero_line" (.line, (s.st.cur, s.st.lineNo)) s
    ({ r.1 with st := { r.1.st with lineNo := s.st.lineNo + 1 } }, r.2)
  | .writeRaw => (s, [])
  | .setHighlighter => call env ms "set_highlighter" (.line, (s.st.cur, 0)) s
  | .setSyntax => (env.unknown "set_syntax in handle_hunk_line" s, [])
  | .emitOutput => (s, [])

def execLines (env : FEnv σ) (ms : Methods) (c : LineCtx) :
    FState σ → List (Generated.PainterFlush.LineGuard × Generated.PainterFlush.LineStmt) →
      FState σ × List (Painted σ)
  | s, [] => (s, [])
  | s, (g, st) :: rest =>
    if evalLineGuard c g then
      ((execLines env ms c (execLine env ms s st).1 rest).1,
        (execLine env ms s st).2 ++ (execLines env ms c (execLine env ms s st).1 rest).2)
    else execLines env ms c s rest

/-- The events the handlers generate. -/
inductive FEvent where
  /-- `--- path`, `rename from`, `copy from` (parsed path; what the raw line cut at TAB / blanks gives) -/
  | fileMinus (name : Option (List Char)) (marker : Option (List Char))
  /-- `+++ path`, `rename to`, `copy to` -/
  | filePlus (name : Option (List Char)) (marker : Option (List Char))
  /-- a removed line of a hunk -/
  | minusLine (first over prevPlus : Bool)
  /-- an added line -/
  | plusLine (first over : Bool)
  /-- an unchanged line -/
  | zeroLine (first over : Bool)
  /-- any other line while in a hunk (`\ No newline at end of file`) -/
  | otherLine (first over : Bool)
  /-- a line of another handler that only flushes (`diff --git`, commit line, end of input …) -/
  | flush
  deriving Repr

open Generated.PainterFlush in
def stepF (env : FEnv σ) (ms : Methods) (s : FState σ) : FEvent → FState σ × List (Painted σ)
  | .fileMinus n mk =>
    execHs env ms { s with st := { s.st with minusName := n, minusMarker := mk, cur := env.lang n } }
      Generated.SuperimposeLifetime.minusHeaderStmts
  | .filePlus n mk =>
    execHs env ms { s with st := { s.st with plusName := n, plusMarker := mk,
                                              cur := if n.isSome then env.lang n else s.st.cur } }
      Generated.SuperimposeLifetime.plusHeaderStmts
  | .minusLine f o p =>
    execLines env ms ⟨o, f, p, fun _ => false⟩ s (hunkLinePrelude ++ hunkLineMinus ++ hunkLineEpilogue)
  | .plusLine f o =>
    execLines env ms ⟨o, f, false, fun _ => false⟩ s (hunkLinePrelude ++ hunkLinePlus ++ hunkLineEpilogue)
  | .zeroLine f o =>
    execLines env ms ⟨o, f, false, fun _ => false⟩ s (hunkLinePrelude ++ hunkLineZero ++ hunkLineEpilogue)
  | .otherLine f o =>
    execLines env ms ⟨o, f, false, fun _ => false⟩ s (hunkLinePrelude ++ hunkLineOther ++ hunkLineEpilogue)
  | .flush => call env ms "paint_buffered_minus_and_plus_lines" (.line, (s.st.cur, 0)) s

def runF (env : FEnv σ) (ms : Methods) : FState σ → List FEvent → FState σ × List (Painted σ)
  | s, [] => (s, [])
  | s, e :: rest => ((runF env ms (stepF env ms s e).1 rest).1, (stepF env ms s e).2 ++ (runF env ms (stepF env ms s e).1 rest).2)

/-- The same input as events of `Lifetime.run`: the overflow flush, then the hunk header when the line is the
first of its hunk, then (removed line after an added one) the flush of the finished sub-hunk, then the line. -/
def toEvents : FEvent → List Event
  | .fileMinus n mk => [.fileMinus n mk]
  | .filePlus n mk => [.filePlus n mk]
  | .minusLine f o p =>
    (if o then [.flush] else []) ++ ((if f then [.hunkHeader] else []) ++
      ((if p then [.flush] else []) ++ [.changedLine false]))
  | .plusLine f o => (if o then [.flush] else []) ++ ((if f then [.hunkHeader] else []) ++ [.changedLine false])
  | .zeroLine f o => (if o then [.flush] else []) ++ ((if f then [.hunkHeader] else []) ++ [.contextLine])
  | .otherLine f o => (if o then [.flush] else []) ++ ((if f then [.hunkHeader] else []) ++ [.flush])
  | .flush => [.flush]

def toEventsAll (evs : List FEvent) : List Event := evs.flatMap toEvents

/-- `Painter::new`: default syntax, no highlighter, nothing buffered, no syntax remembered anywhere. -/
def initialF (env : FEnv σ) (unified : Bool) : FState σ := ⟨initial env.lang unified, fun _ => none⟩

/-- An environment in which nothing but `get_syntax` matters. -/
def plainEnv (lang : Option (List Char) → σ) : FEnv σ :=
  { lang := lang, external := fun _ => false, cond := fun _ _ => false, syn := fun _ s => s.st.syn,
    hl := fun _ s => s.st.hl, unknown := fun _ s => s }

end Superimpose.Flush
