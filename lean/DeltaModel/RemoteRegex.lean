/-!
The regex class of `src/git_config/remote.rs` (C19, remote-derived commit links), re-implemented by hand.

Every `*_REMOTE_URL` pattern is an anchored (`^ … $`) *flat* sequence of
* single-character atoms — a literal, a class `[..]` / `[^..]`, or `.` — with a repetition
  (`one`, `?`, `+`, `*`, `+?`, `*?`), and
* groups `( … )`, `(?: … )`, optionally followed by `?`, whose alternatives are sequences of such atoms
  (no nesting).

The matcher is a backtracking matcher in the list monad: every function returns *all* the ways its part of
the pattern can match a prefix of the input, **in the priority order of a leftmost-first engine** (greedy: longest
first, lazy: shortest first, alternatives in source order, an optional group first tried present). The first
complete match in that order is the one whose capture groups `Regex::captures` reports (the regex crate
documents Perl-like leftmost-first semantics for captures). Core Lean only.

The pattern tables themselves are regenerated from the Rust source (`Generated/Remote.lean`); the model that
consumes them is `DeltaModel/Remote.lean`.
-/
namespace Remote

/-- Repetition of one atom. -/
inductive Quant where
  | one | opt | plus | star | plusLazy | starLazy
  deriving DecidableEq, Repr

/-- One character position of a pattern: the set `chars` (complemented when `neg`), repeated `q`.
`.` is `⟨true, ['\n'], _⟩`, a literal `c` is `⟨false, [c], .one⟩`. -/
structure Atom where
  neg : Bool
  chars : List Char
  q : Quant
  deriving DecidableEq, Repr

def Atom.accepts (a : Atom) (c : Char) : Bool := a.neg != a.chars.contains c

/-- A literal character. -/
def lit (c : Char) : Atom := ⟨false, [c], .one⟩

/-- `(take k s, drop k s)` for every `k` of `ks`, in that order. -/
def cuts (s : List Char) (ks : List Nat) : List (List Char × List Char) :=
  ks.map fun k => (s.take k, s.drop k)

/-- All the ways `a` matches a prefix of `s`: `(consumed, rest)`, in priority order. -/
def Atom.splits (a : Atom) (s : List Char) : List (List Char × List Char) :=
  let n := (s.takeWhile a.accepts).length
  match a.q with
  | .one => if 1 ≤ n then cuts s [1] else []
  | .opt => if 1 ≤ n then cuts s [1, 0] else cuts s [0]
  | .plus => cuts s (List.range' 1 n).reverse
  | .star => cuts s (List.range (n + 1)).reverse
  | .plusLazy => cuts s (List.range' 1 n)
  | .starLazy => cuts s (List.range (n + 1))

/-- A sequence of atoms. -/
def matchAtoms : List Atom → List Char → List (List Char × List Char)
  | [], s => [([], s)]
  | a :: as, s =>
    (a.splits s).flatMap fun cr => (matchAtoms as cr.2).map fun dr => (cr.1 ++ dr.1, dr.2)

/-- A group (or a run of bare atoms: one alternative, not optional, `cap = 0`).
`cap` = its capture group number (0: non-capturing). -/
structure Piece where
  cap : Nat
  optional : Bool
  alts : List (List Atom)
  deriving DecidableEq, Repr

/-- All the ways a piece matches a prefix of `s`: the text it consumed (`none`: the optional group did not
participate) and the rest. -/
def Piece.splits (p : Piece) (s : List Char) : List (Option (List Char) × List Char) :=
  (p.alts.flatMap fun alt => (matchAtoms alt s).map fun cr => (some cr.1, cr.2)) ++
    (if p.optional then [(none, s)] else [])

def matchPieces : List Piece → List Char → List (List (Option (List Char)) × List Char)
  | [], s => [([], s)]
  | p :: ps, s =>
    (p.splits s).flatMap fun cr => (matchPieces ps cr.2).map fun dr => (cr.1 :: dr.1, dr.2)

/-- A remote-URL pattern, split where the property needs it:
`^ pre host sep tail $` — the optional scheme / user prefix, the host, the `[:/]` separator, and the path part. -/
structure Pattern where
  name : List Char
  pre : Piece
  host : List Atom
  sep : Atom
  tail : List Piece
  deriving Repr

/-- One complete match: what each part consumed (`tail`: per piece). -/
structure Match where
  pre : Option (List Char)
  host : List Char
  sep : List Char
  tail : List (Option (List Char))
  deriving Repr

/-- All complete matches of the anchored pattern, in priority order. -/
def Pattern.matches (p : Pattern) (s : List Char) : List Match :=
  (p.pre.splits s).flatMap fun a =>
  (matchAtoms p.host a.2).flatMap fun b =>
  (p.sep.splits b.2).flatMap fun c =>
  ((matchPieces p.tail c.2).filter fun d => d.2.isEmpty).map fun d => ⟨a.1, b.1, c.1, d.1⟩

/-- `Regex::captures`. -/
def Pattern.captures (p : Pattern) (s : List Char) : Option Match := (p.matches s).head?

/-! ### Literal parts -/

def Atom.isLit (a : Atom) : Bool := a.neg == false && a.q == .one && a.chars.length == 1

def allLit (as : List Atom) : Bool := as.all Atom.isLit

/-- The text of a literal atom sequence. -/
def litText (as : List Atom) : List Char := as.flatMap (·.chars)

/-- The text of an all-literal atom sequence, if it is one: the only string it matches. -/
def hostLit (as : List Atom) : Option (List Char) := if allLit as then some (litText as) else none

/-! ### `GitRemoteRepo::from_str` and `format_commit_url` as tables -/

/-- One argument of the `format!` that builds the slug in an arm of `from_str`:
literal text of the format string, `caps.get(k).unwrap().as_str()`,
`caps.get(k).map(|x| x.as_str()).unwrap_or_default()`. -/
inductive SlugSeg where
  | lit (s : List Char)
  | cap (k : Nat)
  | capOpt (k : Nat)
  deriving DecidableEq, Repr

/-- `if let Some(caps) = <pattern>.captures(s) { Ok(Self::<variant> { slug: format!(…) }) }` -/
structure Arm where
  pattern : List Char
  variant : List Char
  slug : List SlugSeg
  deriving Repr

/-- A piece of the `format!` string of an arm of `format_commit_url`. -/
inductive UrlSeg where
  | lit (s : List Char)
  | slug
  | commit
  deriving DecidableEq, Repr

/-- `Self::<variant> { slug } => format!(<template>)` -/
structure FormatArm where
  variant : List Char
  template : List UrlSeg
  deriving Repr

end Remote
