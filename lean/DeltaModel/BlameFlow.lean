import DeltaModel.Blame
import DeltaModel.BlameFlowExpr
import DeltaModel.Generated.BlameFlow
/-!
`StateMachine::handle_blame_line` with the data flow of `is_repeat` inside the model.

`DeltaModel/Blame.lean` (`Blame.step`, `Blame.streamStep`) fixes `is_repeat := (previous key = key)` by
hand and knows nothing of the line numbers of a blame stream. Here the flag is what the *generated* table
`Generated.BlameFlow` says it is — separately for the three places that consume it:

* `blankFlag`  — the metadata column is replaced by blanks,
* `styleFlag`  — the `is_repeat` that `blame_metadata_style()` hands to `get_color()` (where `false` means
                 "the key differs from the previous one": with an equal key the collision arm is taken against
                 the line's own colour and the key is recoloured),
* `numberFlag` — the `is_repeat` of `format_blame_line_number()`,

plus the condition under which `self.state = State::Blame(key)` is executed and the updates of whatever
fields of `StateMachine` the handler keeps between lines (registers). The expressions see the line number,
author and commit of the line (`LineIn`), so a blame stream is a list of *numbered* lines: gaps (several
`-L` ranges), backward jumps, repeated numbers are all inputs of `runF` / `streamF`.

`drv_blame` executes `streamF` for `blame.stream`; `Proofs/BlameFlow.lean` relates `runF` to `Blame.run`
under `FlowOk` (a statement about the generated table proved in `Props/C17.lean`).
-/
namespace BlameFlow
open Blame (Key Colour KeyMap CState Panic getColor)

/-- The flags and register updates of one blame line, from the generated table. -/
structure Flags where
  blank : Bool
  style : Bool
  number : Bool
  /-- `self.state = State::Blame(key)` is executed -/
  update : Bool
  regs : List Nat
  sregs : List (Option Str)
  deriving DecidableEq, Repr

def mapM' {α β : Type} (f : α → Option β) : List α → Option (List β)
  | [] => some []
  | a :: rest =>
    match f a, mapM' f rest with
    | some b, some bs => some (b :: bs)
    | _, _ => none

/-- new values of the registers: entry `i` of the table updates register `i` -/
def nextRegs {α β : Type} (evalV : Env → β → Option α) (e : Env) : List α → List (List (BoolE × β)) → Option (List α)
  | [], _ => some []
  | old :: rest, [] =>
    match nextRegs evalV e rest [] with
    | some l => some (old :: l)
    | none => none
  | old :: rest, u :: us =>
    match evalUpd (evalV e) e old u, nextRegs evalV e rest us with
    | some v, some l => some (v :: l)
    | _, _ => none

/-- `none`: a panic point of the flag / register arithmetic (checked `usize` `+` / `-`) is hit. -/
def flags (e : Env) : Option Flags :=
  match mapM' (evalN e) Generated.BlameFlow.alwaysN, mapM' (evalB e) Generated.BlameFlow.alwaysB with
  | some _, some _ =>
    match evalB e Generated.BlameFlow.blankFlag, evalB e Generated.BlameFlow.styleFlag,
          evalB e Generated.BlameFlow.numberFlag, evalB e Generated.BlameFlow.stateGuard,
          nextRegs evalN e e.regs Generated.BlameFlow.numNext,
          nextRegs evalO e e.sregs Generated.BlameFlow.strNext with
    | some b, some s, some n, some u, some r, some sr => some ⟨b, s, n, u, r, sr⟩
    | _, _, _, _, _, _ => none
  | _, _ => none

inductive FPanic where
  /-- a panic point of `DeltaModel/Blame.lean` (`get_color`, palette index …) -/
  | base (p : Panic)
  /-- `usize` overflow / underflow in the flag or register arithmetic -/
  | arith
  deriving DecidableEq, Repr

/-- The part of `StateMachine` the blame handler reads and writes, registers included. -/
structure FState where
  c : CState := {}
  regs : List Nat := Generated.BlameFlow.numRegs.map (·.2)
  sregs : List (Option Str) := Generated.BlameFlow.strRegs.map fun _ => none
  deriving DecidableEq, Repr

/-- One parsed blame line as the flow expressions see it. `git`: the raw line carried its own style. -/
structure LineIn where
  key : Key
  git : Bool := false
  n : Nat
  author : Str := []
  commit : Str := []
  deriving DecidableEq, Repr

def envOf (s : FState) (l : LineIn) (opq : Nat → Bool) : Env :=
  ⟨s.c.prev, l.key, l.n, l.author, l.commit, s.regs, s.sregs, opq⟩

structure FPaint where
  colour : Option Colour
  /-- metadata column blanked -/
  blank : Bool
  /-- the flag `format_blame_line_number` got -/
  number : Bool
  /-- the flag `get_color` got -/
  style : Bool
  deriving DecidableEq, Repr

/-- `handle_blame_line` on a parsed line: flags from the generated table, then `blame_metadata_style`. -/
def stepF (pal : List Colour) (opq : Nat → Bool) (s : FState) (l : LineIn) : Except FPanic (FState × FPaint) :=
  match flags (envOf s l opq) with
  | none => .error .arith
  | some f =>
    let prev' := if f.update then some l.key else s.c.prev
    if l.git then .ok (⟨⟨s.c.map, prev'⟩, f.regs, f.sregs⟩, ⟨none, f.blank, f.number, f.style⟩)
    else
      match getColor pal s.c.map l.key s.c.prev f.style with
      | .error p => .error (.base p)
      | .ok c => .ok (⟨⟨Blame.insert s.c.map l.key c, prev'⟩, f.regs, f.sregs⟩, ⟨some c, f.blank, f.number, f.style⟩)

def runF (pal : List Colour) (opq : Nat → Bool) : FState → List LineIn → Except FPanic (FState × List FPaint)
  | s, [] => .ok (s, [])
  | s, l :: rest =>
    match stepF pal opq s l with
    | .error e => .error e
    | .ok (s', p) =>
      match runF pal opq s' rest with
      | .error e => .error e
      | .ok (s'', ps) => .ok (s'', p :: ps)

/-- The table contains no condition the translator could not read (only then is it executable). -/
def executable : Bool :=
  Generated.BlameFlow.opaqueText.isEmpty

/-- Colours of a stream of numbered lines from the initial state (`none`: a panic point was reached). -/
def coloursOf (pal : List Colour) (lines : List LineIn) : Option (List (Option Colour)) :=
  match runF pal (fun _ => false) {} lines with
  | .ok (_, ps) => some (ps.map (·.colour))
  | .error _ => none

/-- A numbered line with key `k`, not coloured by git. -/
def ln (k : Key) (n : Nat) : LineIn := { key := k, n := n }

/-! ## `handle_blame_line` over a stream of raw lines -/

open Blame (StreamCfg Row Out parseBlame formatMeta fmtLineNumber spaces strWidth)

def streamStepF (cfg : StreamCfg) (opq : Nat → Bool) (s : FState) (line : Str) (git : Bool) :
    Except FPanic (FState × Out) :=
  match parseBlame cfg.mode line with
  | none => .ok (s, .raw)
  | some r =>
    match formatMeta cfg.arith cfg.cw cfg.items (cfg.tsOut r.ts) r.author r.commit with
    | .error e => .error (.base e)
    | .ok key =>
      match stepF cfg.pal opq s ⟨key, git, r.lineNumber, r.author, r.commit⟩ with
      | .error e => .error e
      | .ok (s', paint) =>
        match fmtLineNumber cfg.sep r.lineNumber paint.number with
        | .error e => .error (.base e)
        | .ok (pre, num, suf) =>
          .ok (s', .row paint.colour paint.blank key
            ⟨if paint.blank then spaces (strWidth cfg.cw key) else key, pre, num, suf,
             Text.expand cfg.tab r.code⟩)

def streamF (cfg : StreamCfg) (opq : Nat → Bool) : FState → List (Str × Bool) → Except FPanic (List Out)
  | _, [] => .ok []
  | s, (l, g) :: rest =>
    match streamStepF cfg opq s l g with
    | .error e => .error e
    | .ok (s', o) =>
      match streamF cfg opq s' rest with
      | .error e => .error e
      | .ok os => .ok (o :: os)

end BlameFlow
