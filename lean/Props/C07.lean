import Proofs.WrapMain
import Proofs.WrapBlock2
import Proofs.WrapGeom
import Proofs.WrapSect6
import Proofs.MaxLineLength
import Proofs.SbsRow
import Proofs.SbsRowGutter
/-!
C07 — side-by-side view: correct panels, fixed geometry, lossless wrapping.

The theorems are about the model functions the driver `drv_wrap` executes
(`Wrap.wrapFull` / `Wrap.wrapLine`, `Wrap.step`, `Wrap.loop`, …); the correspondence check
ties those to `/repo/src/wrapping.rs` and `/repo/src/features/side_by_side.rs`.
-/
namespace C07
open Wrap

/-- The default `WrapConfig` (symbols, limit, threshold regenerated from `cli.rs`). -/
def defaultCfg : Cfg :=
  { leftSym := ⟨Generated.defaultWrapLeftSymbol, 1⟩, rightSym := ⟨Generated.defaultWrapRightSymbol, 1⟩,
    rightPrefixSym := ⟨Generated.defaultWrapRightPrefixSymbol, 1⟩,
    permille := Generated.defaultRightPermille, maxLines := Generated.defaultMaxLines }

/-! ## Lossless wrapping -/

/-- **wrap_lossless.** Removing the inserted sections (the wrap symbol closing each of the
first `nSym` rows; the padding and prefix symbol of a right-aligned row) and concatenating the
rows gives back the input — styles included — except for a tail of total display width 0 (in
practice the line's final newline), which is dropped only when it would start a row of its
own. -/
theorem wrap_lossless (cfg : Cfg) (line : List Sec) (lw fill : Nat) (hint : Option Nat) (o : Out)
    (hz : NlZero line) (h : wrapFull cfg line lw fill hint = .ok o) :
    ∃ tail, explode (unwrapOut o) ++ tail = explode line ∧ explodeWidth tail = 0 ∧
      (tail ≠ [] → o.rows.length = o.nSym) := by
  obtain ⟨st, stop, hl, hr, _, _, hd, hshape⟩ := wrapFull_spec (fx := currentFixes) hz h
  have htext := hl.text
  cases hshape with
  | plain h0 hs =>
    refine ⟨[], ?_, rfl, fun h => absurd rfl h⟩
    rw [← htext, hs]
    simp [unwrapOut, stripResult]
  | dropped h0 hs =>
    refine ⟨explode st.curr, ?_, ?_, fun _ => rfl⟩
    · rw [← htext, hs]
      simp [unwrapOut, stripResult, explode_append]
    · rw [explodeWidth_explode, hl.len, h0]
  | right r hres hne h0 hs hlw hpm hpad =>
    refine ⟨[], ?_, rfl, fun h => absurd rfl h⟩
    rw [← htext, hs, hres]
    simp [unwrapOut, stripResult, setLastText_dropLast]
  | limit hs =>
    have hc : st.curr = [] := by
      rcases (step_done_lineLimit hd).2 with hlim | ⟨_, _, _, _, _, hst⟩
      · exact (hl.fresh hlim).1
      · exact hst.2.2.1
    refine ⟨[], ?_, rfl, fun h => absurd rfl h⟩
    rw [← htext, hc]
    simp [unwrapOut, stripResult]

example : NlZero [(0, [⟨"a", 1⟩, ⟨"日", 2⟩]), (1, [⟨"b", 1⟩, ⟨"\n", 0⟩])] := by
  intro sec hsec g hg hs
  simp at hsec
  rcases hsec with rfl | rfl <;> simp at hg <;> rcases hg with rfl | rfl <;> simp_all

/-- **wrap_symbols_present.** Each of the first `nSym` rows ends with an inserted section in
the symbol style holding the left wrap symbol (or the right wrap symbol on the first row when
the second row is right-aligned): a continued line is visibly marked. -/
theorem wrap_symbols_present (cfg : Cfg) (line : List Sec) (lw fill : Nat) (hint : Option Nat) (o : Out)
    (hz : NlZero line) (hs1 : cfg.leftSym.w ≤ 1)
    (h : wrapFull cfg line lw fill hint = .ok o) :
    ∀ r ∈ o.rows.take o.nSym, ∃ init s, r = init ++ [(symStyleOf fill hint, [s])] ∧
      (s = cfg.leftSym ∨ s = cfg.rightSym) := by
  obtain ⟨st, stop, hl, hr, hw, hfs, hd, hshape⟩ := wrapFull_spec (fx := currentFixes) hz h
  have hrows := (hw hs1).rows
  cases hshape with
  | plain h0 hs =>
    intro r hr; simp at hr
    obtain ⟨⟨init, hi⟩, _⟩ := hrows r hr
    exact ⟨init, cfg.leftSym, hi, Or.inl rfl⟩
  | dropped h0 hs =>
    intro r hr; simp at hr
    obtain ⟨⟨init, hi⟩, _⟩ := hrows r hr
    exact ⟨init, cfg.leftSym, hi, Or.inl rfl⟩
  | right r0 hres hne h0 hs hlw hpm hpad =>
    intro r hr; simp at hr
    obtain ⟨⟨init, hi⟩, _⟩ := hrows r0 (by rw [hres]; simp)
    subst hr
    exact ⟨init, cfg.rightSym, by rw [hi, setLastText_concat], Or.inr rfl⟩
  | limit hs =>
    intro r hr; simp at hr
    obtain ⟨⟨init, hi⟩, _⟩ := hrows r hr
    exact ⟨init, cfg.leftSym, hi, Or.inl rfl⟩

/-! ## Row widths -/

/-- **wrap_row_width.** With wrap symbols of display width ≤ 1 (delta requires width 1):
every row that ends in a wrap symbol fits the line width; when the loop ended because the
input was used up, *every* row fits; only when wrapping was stopped — by the line limit, or
(repaired code, no limit) because a cluster cannot stand next to the wrap symbol at all — can
the last row (the unwrapped rest, cut later by `truncate_str`) be wider; and it is the row
right after the wrapped ones. -/
theorem wrap_row_width (cfg : Cfg) (line : List Sec) (lw fill : Nat) (hint : Option Nat) (o : Out)
    (hz : NlZero line) (hs1 : cfg.leftSym.w ≤ 1) (hs2 : cfg.rightSym.w ≤ cfg.leftSym.w)
    (h : wrapFull cfg line lw fill hint = .ok o) :
    (∀ r ∈ o.rows.take o.nSym, rowWidth r ≤ lw) ∧
    (o.stop = .stackEmpty → ∀ r ∈ o.rows, rowWidth r ≤ lw) ∧
    (o.stop = .lineLimit → o.nSym + 1 = o.rows.length ∧
      (0 < effMax cfg lw → o.rows.length = effMax cfg lw)) := by
  obtain ⟨st, stop, hl, hr, hw, hfs, hd, hshape⟩ := wrapFull_spec (fx := currentFixes) hz h
  have hW := hw hs1
  have hrows := hW.rows
  cases hshape with
  | plain h0 hs =>
    refine ⟨?_, ?_, fun h => by cases h⟩
    · intro r hr; simp at hr; exact (hrows r hr).2
    · intro _ r hr
      simp at hr
      cases hr with
      | inl h => exact (hrows r h).2
      | inr h => subst h; rw [hl.len]; exact hW.lenle
  | dropped h0 hs =>
    refine ⟨?_, ?_, fun h => by cases h⟩
    · intro r hr; simp at hr; exact (hrows r hr).2
    · intro _ r hr; exact (hrows r hr).2
  | right r0 hres hne h0 hs hlw hpm hpad =>
    obtain ⟨⟨init, hi⟩, hwd⟩ := hrows r0 (by rw [hres]; simp)
    have h1 : rowWidth (setLastText cfg.rightSym r0) ≤ lw := by
      rw [hi, setLastText_concat, rowWidth_append, rowWidth_sym]
      rw [hi, rowWidth_append, rowWidth_sym] at hwd
      omega
    refine ⟨?_, ?_, fun h => by cases h⟩
    · intro r hr; simp at hr; subst hr; exact h1
    · intro _ r hr
      simp at hr
      cases hr with
      | inl h => subst h; exact h1
      | inr h =>
        subst h
        rw [rowWidth_append, rowWidth_padSecs]
        simp only [rowWidth, gsWidth, hl.len]
        omega
  | limit hs =>
    refine ⟨?_, (fun h => by cases h), ?_⟩
    · intro r hr; simp at hr; exact (hrows r hr).2
    · intro _
      refine ⟨by simp, fun hpos => ?_⟩
      rcases (step_done_lineLimit hd).2 with hlim | ⟨_, _, _, _, _, hst⟩
      · have hcnt := hl.count hpos
        unfold limitReached at hlim
        simp at hlim ⊢
        omega
      · have := hst.2.1
        omega

example : defaultCfg.leftSym.w ≤ 1 ∧ defaultCfg.rightSym.w ≤ defaultCfg.leftSym.w := by decide

/-- **wrap_unlimited_not_cut.** Without a line limit (`--wrap-max-lines unlimited`, line width
at least 2) the loop can only stop because the whole line has been placed — on the repaired
code: provided every cluster leaves room for the wrap symbol. -/
theorem wrap_unlimited_not_cut (cfg : Cfg) (line : List Sec) (lw fill : Nat) (hint : Option Nat) (o : Out)
    (hz : NlZero line) (hu : effMax cfg lw = 0)
    (hfit : currentFixes.stuckStop = false ∨ Fits cfg lw line)
    (h : wrapFull cfg line lw fill hint = .ok o) :
    o.stop = .stackEmpty := by
  obtain ⟨st, stop, hl, hr, hw, hfs, hd, hshape⟩ := wrapFull_spec (fx := currentFixes) hz h
  cases hshape with
  | plain h0 hs => rfl
  | dropped h0 hs => rfl
  | right r0 hres hne h0 hs hlw hpm hpad => rfl
  | limit hs =>
    exfalso
    rcases (step_done_lineLimit hd).2 with hlim | ⟨hnl, style, gs, rest, hstack, hst⟩
    · rw [hu] at hlim
      simp [limitReached] at hlim
    · rcases hfit with hx | hf
      · have := hst.1; rw [hx] at this; cases this
      · obtain ⟨_, _, hc, hno⟩ := hst
        have h2 := lw_ge_two_of_not_limit hnl
        have hl0 : st.len = 0 := by rw [← hl.len, hc]; rfl
        -- the section on top of the stack has to be split, and its first cluster fits
        have hstep := hd
        unfold step at hstep
        rw [hstack] at hstep
        simp only [hnl, hl0, Nat.zero_add, Bool.false_eq_true, if_false] at hstep
        have hge : lw ≤ gsWidth gs := by
          by_cases hlt : gsWidth gs < lw
          · simp [hlt] at hstep
          · omega
        cases gs with
        | nil => simp [gsWidth] at hge; omega
        | cons g gs =>
          have hfs' : ∀ g' ∈ g :: gs, g'.w + cfg.leftSym.w ≤ lw :=
            hfs hf (style, g :: gs) (by rw [hstack]; simp)
          have := first_fits_of_fits hfs' hge h2
          rw [hl0] at hno
          simp only [firstW] at hno
          omega

/-- **wrap_unlimited_cut_only_when_stuck.** Without a line limit a line is cut (the loop stops
with text left) in exactly one situation: nothing has been placed on the current row and the
first cluster of what is left does not fit next to the wrap symbol (`line_width − symbol
width < its width`) — no lossless wrapping with a one-column symbol exists then. What is left
becomes the last row as it is (to be cut by `truncate_str` with the visible mark); everything
before it is on the wrapped rows (`wrap_lossless`). -/
theorem wrap_unlimited_cut_only_when_stuck (cfg : Cfg) (line : List Sec) (lw fill : Nat)
    (hint : Option Nat) (o : Out)
    (hz : NlZero line) (hu : effMax cfg lw = 0)
    (h : wrapFull cfg line lw fill hint = .ok o) (hcut : o.stop = .lineLimit) :
    ∃ style gs rest, o.rows = o.rows.take o.nSym ++ [(style, gs) :: rest] ∧
      lw ≤ gsWidth gs ∧ (lw - cfg.leftSym.w = 0 ∨ lw - cfg.leftSym.w < firstW gs) := by
  obtain ⟨st, stop, hl, hr, hw, hfs, hd, hshape⟩ := wrapFull_spec (fx := currentFixes) hz h
  cases hshape with
  | plain h0 hs => cases hcut
  | dropped h0 hs => cases hcut
  | right r0 hres hne h0 hs hlw hpm hpad => cases hcut
  | limit hs =>
    rcases (step_done_lineLimit hd).2 with hlim | ⟨hnl, style, gs, rest, hstack, hst⟩
    · rw [hu] at hlim
      simp [limitReached] at hlim
    · obtain ⟨_, _, hc, hno⟩ := hst
      have h2 := lw_ge_two_of_not_limit hnl
      have hl0 : st.len = 0 := by rw [← hl.len, hc]; rfl
      have hge : lw ≤ gsWidth gs := by
        have hstep := hd
        unfold step at hstep
        rw [hstack] at hstep
        simp only [hnl, hl0, Nat.zero_add, Bool.false_eq_true, if_false] at hstep
        by_cases hlt : gsWidth gs < lw
        · simp [hlt] at hstep
        · omega
      refine ⟨style, gs, rest, by simp [hstack], hge, ?_⟩
      rw [hl0] at hno
      unfold widthLeft at hno
      have : gsWidth gs - (0 + gsWidth gs - lw) = lw := by omega
      rw [this] at hno
      exact hno

/-- **wrap_symbols_validated.** The domain condition of the width and sectioning theorems —
wrap symbols of exactly one column (`ValidSymbols`) — is what the source enforces:
`ensure_display_width_1` (regenerated) accepts one grapheme of display width 1 only, for all
three symbols. If that validation is dropped this obligation breaks (and the binary oracle's
wide-symbol witness reports the panic with a concrete input). -/
theorem wrap_symbols_validated : symbolsValidated = true := rfl

example : ValidSymbols defaultCfg := ⟨rfl, rfl, rfl⟩

/-- **wrap_row_count.** A line limit bounds the number of rows. -/
theorem wrap_row_count (cfg : Cfg) (line : List Sec) (lw fill : Nat) (hint : Option Nat) (o : Out)
    (hz : NlZero line) (hpos : 0 < effMax cfg lw) (h : wrapFull cfg line lw fill hint = .ok o) :
    o.rows.length ≤ effMax cfg lw := by
  obtain ⟨st, stop, hl, hr, hw, hfs, hd, hshape⟩ := wrapFull_spec (fx := currentFixes) hz h
  have hcnt := hl.count hpos
  cases hshape with
  | plain h0 hs => simp; omega
  | dropped h0 hs => simp; omega
  | right r0 hres hne h0 hs hlw hpm hpad =>
    rw [hres] at hcnt; simp at hcnt ⊢; omega
  | limit hs => simp; omega

/-! ## Progress and termination -/

/-- **wrap_progress.** The exact condition for progress. At the start of a row (`len = 0`),
when the next section has to be split (wrap symbol narrower than the row) and the loop goes
on (always on the unrepaired code; on the repaired code unless it stops because it is stuck
with no line limit), the iteration consumes at least one cluster **iff** the first cluster
leaves room for the wrap symbol: `g.w + symbol width ≤ line_width`. -/
theorem wrap_progress (fx : Fixes)
    (cfg : Cfg) (sym lw : Nat) (st : St) (style : Nat) (g : G) (gs : List G)
    (rest : List Sec) (hs : st.stack = (style, g :: gs) :: rest) (h0 : st.len = 0)
    (hl : limitReached (effMax cfg lw) st.result.length = false)
    (hsym : cfg.leftSym.w < lw)
    (hge : lw ≤ gsWidth (g :: gs))
    (hnf : ¬ (gsWidth (g :: gs) = lw ∧ PerfectRest fx rest))
    (hns : ¬ StuckStop fx cfg lw st (g :: gs)) :
    ∃ st', step fx cfg sym lw st = .next st' ∧
      (clusterCount st'.stack < clusterCount st.stack ↔ g.w + cfg.leftSym.w ≤ lw) := by
  have hwl : widthLeft cfg lw 0 (g :: gs) = lw - cfg.leftSym.w := by
    unfold widthLeft; omega
  match hstep : step fx cfg sym lw st with
  | .done .stackEmpty => rw [step_done_stackEmpty hstep] at hs; cases hs
  | .done .lineLimit =>
    rcases (step_done_lineLimit hstep).2 with hlim | ⟨_, _, _, _, hs', hst⟩
    · rw [hl] at hlim; cases hlim
    · rw [hs] at hs'; cases hs'
      exact absurd hst hns
  | .next st' =>
    refine ⟨st', rfl, ?_⟩
    have hrel := step_next hstep
    cases hrel with
    | push style' gs' rest' hs' hl' hfit =>
      rw [hs] at hs'; cases hs'
      rw [h0] at hfit
      rcases hfit with h | ⟨h1, h2 | h3⟩
      · omega
      · exact absurd ⟨by omega, Or.inl h2⟩ hnf
      · exact absurd ⟨by omega, Or.inr (Or.inr h3.2)⟩ hnf
    | nl style' gs' rest' hs' hl' heq hnl =>
      rw [hs] at hs'; cases hs'
      rw [h0] at heq
      exact absurd ⟨by omega, Or.inr (Or.inl hnl)⟩ hnf
    | split0 style' gs' rest' hs' hl' hge' hnf' hns' hw =>
      rw [hs] at hs'; cases hs'
      have := hw.1
      rw [h0, hwl] at this
      omega
    | splitk style' gs' rest' hs' hl' hge' hnf' hns' hw =>
      rw [hs] at hs'; cases hs'
      simp only [hs, clusterCount, h0, hwl]
      by_cases hfit : g.w + cfg.leftSym.w ≤ lw
      · have := takeFit_progress (lw - cfg.leftSym.w) g gs (by omega)
        simp only [List.length_cons] at this ⊢
        constructor
        · intro _; exact hfit
        · intro _; omega
      · rw [takeFit_stuck _ g gs (by omega)]
        simp only [List.length_cons]
        constructor
        · intro h; omega
        · intro h; exact absurd h hfit

example : ¬ (gsWidth [⟨"日", 2⟩, ⟨"本", 2⟩] = 2 ∧ PerfectRest noFixes []) ∧
    ¬ StuckStop noFixes defaultCfg 2 (initSt [(0, [⟨"日", 2⟩, ⟨"本", 2⟩])]) [⟨"日", 2⟩, ⟨"本", 2⟩] := by
  refine ⟨?_, ?_⟩
  · intro ⟨h, _⟩
    simp [gsWidth] at h
  · intro ⟨h, _⟩
    cases h

/-- **wrap_progress_repaired.** With the progress repair (notes/fix-wrap-progress.diff) and no
line limit every iteration decreases the termination measure, whatever the widths. -/
theorem wrap_progress_repaired (fx : Fixes) (hfx : fx.stuckStop = true) (cfg : Cfg) (sym lw : Nat)
    (hu : effMax cfg lw = 0)
    (st st' : St) (h : step fx cfg sym lw st = .next st') : mu st' < mu st :=
  mu_step_fits (Or.inl ⟨hfx, hu⟩) (step_next h)

example : allFixes.stuckStop = true ∧ effMax { defaultCfg with maxLines := 0 } 5 = 0 := by decide

/-- **wrap_terminates.** The loop finishes within the fuel the executable model uses (so the
model — and the code it mirrors — terminates) whenever a line limit is in force, or every
cluster of the line leaves room for the wrap symbol on a row, or the progress repair is in
the source (then: always). -/
theorem wrap_terminates (cfg : Cfg) (line : List Sec) (lw fill : Nat) (hint : Option Nat)
    (h : 0 < effMax cfg lw ∨ Fits cfg lw line ∨ currentFixes.stuckStop = true) :
    ∃ o, wrapFull cfg line lw fill hint = .ok o := by
  apply wrapFull_ok_of_loop (fx := currentFixes)
  rcases h with hp | hf | hx
  · exact loop_terminates_limited _ cfg _ lw line hp
  · exact loop_terminates_fits _ cfg _ lw line hf
  · exact loop_terminates_repaired _ cfg _ lw line hx

example : Fits defaultCfg 3 [(0, [⟨"a", 1⟩, ⟨"日", 2⟩, ⟨"b", 1⟩])] := by
  intro sec hsec g hg
  simp at hsec; subst hsec
  simp at hg
  rcases hg with rfl | rfl | rfl <;> decide

/-- **wrap_never_panics.** `wrap_line` has no reachable panic point (the division by
`line_width`, the `unreachable!`, the `unwrap`): the only way the model fails is by not
terminating. -/
theorem wrap_never_panics (cfg : Cfg) (line : List Sec) (lw fill : Nat) (hint : Option Nat) (msg : String) :
    wrapFull cfg line lw fill hint ≠ .error (.panic msg) := by
  cases wrapFull_result currentFixes cfg line lw fill hint with
  | inl h => unfold wrapFull; rw [h]; intro h'; cases h'
  | inr h => obtain ⟨o, ho⟩ := h; unfold wrapFull; rw [ho]; intro h'; cases h'

/-- **wrap_no_progress (defect of the unrepaired code).** A state at the start of a row whose
next cluster is wider than `line_width − symbol width`, with no line limit, never leaves the
loop: each iteration emits a row holding only the wrap symbol and returns to the same stack. -/
theorem wrap_no_progress (fx : Fixes) (cfg : Cfg) (sym lw : Nat) (st : St) (h : Stuck fx cfg lw st) :
    ∀ fuel, loop fx cfg sym lw fuel st = none :=
  fun fuel => stuck_never_terminates fuel st h

/-- The concrete witness: two CJK characters (width 2 each), line width 2, default symbols,
`--wrap-max-lines unlimited`. -/
def hangCfg : Cfg := { defaultCfg with maxLines := 0 }
def hangLine : List Sec := [(0, [⟨"日", 2⟩, ⟨"本", 2⟩, ⟨"\n", 0⟩])]

theorem hang_stuck (fx : Fixes) (hfx : fx.stuckStop = false) : Stuck fx hangCfg 2 (initSt hangLine) := by
  refine ⟨hfx, by decide, rfl, rfl, 0, ⟨"日", 2⟩, [⟨"本", 2⟩, ⟨"\n", 0⟩], [], rfl, by decide, by decide, by decide, ?_⟩
  intro ⟨h, _⟩
  simp [gsWidth] at h

/-- **wrap_hang_witness.** As long as the progress repair is not in the source, `wrap_line`
does not terminate on the witness (the executable model answers `HANG`; confirmed on the real
binary by the check). -/
theorem wrap_hang_witness (hfx : currentFixes.stuckStop = false) :
    (∀ fuel, loop currentFixes hangCfg 0 2 fuel (initSt hangLine) = none) ∧
    wrapFull hangCfg hangLine 2 0 none = .error .hang := by
  have hstuck := hang_stuck currentFixes hfx
  refine ⟨fun fuel => stuck_never_terminates fuel _ hstuck, ?_⟩
  unfold wrapFull wrapFullF
  rw [stuck_never_terminates (fx := currentFixes) (cfg := hangCfg) (sym := symStyleOf 0 none) (lw := 2) _ _ hstuck]

example : noFixes.stuckStop = false := rfl

/-- With a line limit the same input terminates, but every row before the last holds nothing
but the wrap symbol (the rows the user sees in place of the text). -/
theorem wrap_junk_rows_witness :
    (wrapFullF noFixes { defaultCfg with maxLines := 3 } hangLine 2 0 none).map (·.rows) =
      .ok [[(0, []), (0, [⟨Generated.defaultWrapLeftSymbol, 1⟩])],
           [(0, []), (0, [⟨Generated.defaultWrapLeftSymbol, 1⟩])],
           [(0, [⟨"日", 2⟩, ⟨"本", 2⟩, ⟨"\n", 0⟩])]] := by
  rfl

/-- After the repair the witness terminates: wrapping stops at once, the line is shown as one
(over-long, later truncated) row. With a line limit nothing changes (delta's own test
`test_two_minus_lines_unicode_truncated` pins the rows that hold only the wrap symbol). -/
theorem wrap_hang_witness_repaired :
    (wrapFullF allFixes hangCfg hangLine 2 0 none).map (·.rows) =
      .ok [[(0, [⟨"日", 2⟩, ⟨"本", 2⟩, ⟨"\n", 0⟩])]] ∧
    (wrapFullF allFixes { defaultCfg with maxLines := 3 } hangLine 2 0 none).map (·.rows) =
      (wrapFullF noFixes { defaultCfg with maxLines := 3 } hangLine 2 0 none).map (·.rows) := by
  constructor <;> rfl

/-! ## Block level: which rows are lines, which are continuation rows -/

/-- **aligned_rows.** After `wrap_minusplus_block` (on the per-line row counts `mc`, `pc`):
the new alignment mentions every row index of each side exactly once and in order; the state
vectors are, line after line, one "real line" row followed by that line's continuation rows —
so every hunk line appears exactly once per side, in order, and continuation rows can never
be taken for lines (they carry no line number, C05). -/
theorem aligned_rows (al : Align) (mc pc : List Nat) (al' : Align) (ms ps : List Bool)
    (h : wrapBlock al mc pc = .ok (al', ms, ps)) :
    al'.filterMap (·.1) = List.range ms.length ∧
    al'.filterMap (·.2) = List.range ps.length ∧
    ms = (mc.take (al.filterMap (·.1)).length).flatMap lineStates ∧
    ps = (pc.take (al.filterMap (·.2)).length).flatMap lineStates :=
  block_rows h

example : wrapBlock [(some 0, some 0), (some 1, none)] [2, 1] [3] =
    .ok ([(some 0, some 0), (some 1, some 1), (none, some 2), (some 2, none)],
         [true, false, true], [true, false, false]) := by rfl

/-- **aligned_rows_paired.** Paired lines start on the same row: if the alignment pairs minus
line `m` with plus line `p`, the first row of `m` (row `Σ mc[..m]` of the left side) is paired
with the first row of `p`, and both are "real line" rows. -/
theorem aligned_rows_paired (al : Align) (mc pc : List Nat) (al' : Align) (ms ps : List Bool)
    (h : wrapBlock al mc pc = .ok (al', ms, ps))
    (pre post : Align) (m p : Nat) (hal : al = pre ++ (some m, some p) :: post) :
    ∃ cm cp, mc[m]? = some cm ∧ pc[p]? = some cp ∧
      (0 < cm → 0 < cp →
        (some (mc.take m).sum, some (pc.take p).sum) ∈ al' ∧
        ms[(mc.take m).sum]? = some true ∧ ps[(pc.take p).sum]? = some true) :=
  paired_start h hal

/-- **aligned_rows_no_panic.** On a well-formed alignment (every minus index once in order,
every plus index once in order, no empty entry — what `infer_edits` returns, C06) none of the
`assert_eq!` / `unwrap_or_else(panic)` / `unreachable!` of the walk fires. -/
theorem aligned_rows_no_panic (al : Align) (mc pc : List Nat)
    (hv : ValidAlign al mc.length pc.length) : ∃ r, wrapBlock al mc pc = .ok r :=
  wrapBlock_ok hv

example : ValidAlign [(some 0, some 0), (some 1, none), (none, some 1)] 2 2 :=
  ⟨by decide, by decide, by decide⟩

/-! ## Panel geometry and truncation -/

open SideBySide in
/-- **truncate_width.** `truncate_str` never returns more than `display_width` columns and
exactly that many when it had to cut — proved for the repaired code
(notes/fix-truncate-after-cut.diff) and, on the unrepaired code, for text without wide
clusters. -/
theorem truncate_width (s : List Item) (dw : Nat) (tail out : List Item)
    (hok : Generated.wrapTruncStopsAfterCut = true ∨ (NoWide s ∧ NoWide tail))
    (h : truncateStr s dw tail = .ok out) :
    measure out ≤ dw ∧ (dw < measure s → measure out = dw) :=
  truncateImplF_width _ s dw tail out hok h

open SideBySide in
example : NoWide [.ansi "\x1b[31m", .text [⟨"a", 1⟩, ⟨"b", 1⟩], .ansi "\x1b[0m"] :=
  ⟨by intro g hg; simp at hg; rcases hg with rfl | rfl <;> decide, trivial⟩

open SideBySide in
/-- **truncate_width is false on the unrepaired code** (defect): after the first cluster
that does not fit, `break` only leaves the inner loop; a later text run is still appended when
it fits the stale `used` counter. Witness: `ab日` `ESC[0m` `c` cut to 3 columns gives
`ab c` — 4 columns, and text from beyond the cut. -/
theorem truncate_width_false_witness :
    (truncateImplF false [.text [⟨"a", 1⟩, ⟨"b", 1⟩, ⟨"日", 2⟩], .ansi "\x1b[0m", .text [⟨"c", 1⟩]] 3 []
      (some Wrap.spaceG)).map measure = .ok 4 := by
  rfl

open SideBySide in
/-- **truncate_never_panics.** Since fix d6cf9d0 — the `debug_assert!(width_of_grapheme <= 2)` no longer stands
in front of the fallback of `truncate_str_impl`: `Generated.wrapTruncAssertsWideCluster = false`, read from
`src/ansi/mod.rs` on every run — `truncate_str` returns for every line, width and tail, whatever the widths of the
clusters (3 and more included); with `truncate_width`: what it returns is at most `display_width` columns wide and
exactly that when it had to cut — a cluster wider than two columns that does not fit is replaced by as many blanks
as columns are left. -/
theorem truncate_never_panics (hno : Generated.wrapTruncAssertsWideCluster = false) (s : List Item) (dw : Nat)
    (tail : List Item) : ∃ out, truncateStr s dw tail = .ok out :=
  truncateStr_total hno s dw tail

open SideBySide in
/-- a three-column cluster that does not fit in the two columns left of three: two blanks (the line the assertion
aborted on before the fix); next to a one-column tail: one blank -/
example : (if Generated.wrapTruncAssertsWideCluster then
      (truncateStr [.text [⟨"a", 1⟩, ⟨"👍🏽x", 3⟩, ⟨"b", 1⟩]] 3 []).toOption = none
    else
      (truncateStr [.text [⟨"a", 1⟩, ⟨"👍🏽x", 3⟩, ⟨"b", 1⟩]] 3 []).toOption =
        some [.text [⟨"a", 1⟩, Wrap.spaceG, Wrap.spaceG]] ∧
      (truncateStr [.text [⟨"a", 1⟩, ⟨"👍🏽x", 3⟩, ⟨"b", 1⟩]] 3 [.text [⟨"→", 1⟩]]).toOption =
        some [.text [⟨"a", 1⟩, Wrap.spaceG], .text [⟨"→", 1⟩]]) := by
  decide

open SideBySide in
/-- **truncate_keeps_escapes.** All escape sequences of the input survive a cut, in order,
followed by those of the tail (colours are closed properly; C09). -/
theorem truncate_keeps_escapes (s : List Item) (dw : Nat) (tail out : List Item)
    (h : truncateStr s dw tail = .ok out) :
    escapes out = escapes s ∨ escapes out = escapes s ++ escapes tail := by
  unfold truncateStr truncateImpl truncateImplF at h
  split at h
  · cases h; exact Or.inl rfl
  · simp only at h
    split at h
    · cases h
    · rename_i rt hrt
      have hrte : escapes rt = escapes tail := by
        split at hrt
        · rename_i ht; cases hrt; rw [ht]
        · split at hrt
          · cases hrt; rfl
          · exact truncItems_escapes _ _ _ _ _ _ _ hrt
      split at h
      · cases h
      · rename_i body hbody
        cases h
        right
        rw [escapes_append, truncItems_escapes _ _ _ _ _ _ _ hbody, hrte]

open SideBySide in
/-- **left_panel_exact.** The left panel (always filled with spaces) is exactly the panel
width wide on every row, so the right panel starts at the same column on every row; any panel
is at most the panel width wide. (Same proviso as `truncate_width`.) -/
theorem left_panel_exact (pw : Nat) (line tail out : List Item) (fill : Fill)
    (hok : Generated.wrapTruncStopsAfterCut = true ∨ (NoWide line ∧ NoWide tail))
    (h : padPanel pw line tail fill = .ok out) :
    measure out ≤ pw ∧ (fill = .spaces → measure out = pw) :=
  padPanel_width pw line tail out fill hok h

open SideBySide in
/-- **row_width_bound.** A row made of a left panel and a right panel, with the panel widths
derived from `--width w`, is at most `w` columns wide, and the right panel starts at column
`w / 2` — for even and odd `w`, with either fill method. -/
theorem row_width_bound (w : Nat) (ansi : Bool) (l r tail lo ro : List Item) (fill : Fill)
    (hok : Generated.wrapTruncStopsAfterCut = true ∨ (NoWide l ∧ NoWide r ∧ NoWide tail))
    (hl : padPanel (panelWidths w ansi).1 l tail .spaces = .ok lo)
    (hr : padPanel (panelWidths w ansi).2 r tail fill = .ok ro) :
    measure lo = w / 2 ∧ rowWidthOf lo ro ≤ w := by
  have h1 := padPanel_width _ l tail lo .spaces (by
    rcases hok with h | h
    · exact Or.inl h
    · exact Or.inr ⟨h.1, h.2.2⟩) hl
  have h2 := padPanel_width _ r tail ro fill (by
    rcases hok with h | h
    · exact Or.inl h
    · exact Or.inr h.2) hr
  have hp := panelWidths_spec w ansi
  unfold rowWidthOf
  have := h1.2 rfl
  omega

open SideBySide in
example : panelWidths 17 true = (8, 9) ∧ panelWidths 17 false = (8, 8) ∧ panelWidths 16 true = (8, 8) := by
  decide

/-! ## Sectioning independence

`wrap_line` is run twice on every long line — once with the syntax-highlighting sections,
once with the diff sections — and the two results are superimposed; this is only sound when
the row breaks do not depend on where section boundaries fall. -/

/-- **wrap_sectioning_independent.** Two sectionings of the same text (`flatG line1 = flatG
line2`; styles and section boundaries arbitrary, no empty sections) are wrapped into rows with
the same text, row by row — hence the same number of rows, the same stop reason: the
`assert_eq!` of `wrap_syntax_and_diff` cannot fire and `superimpose_style_sections` never meets
a mismatch. Proved
* for the repaired code (`zwShortcut` and `zwPerfectFit`, notes/fix-wrap-zero-width.diff) for
  all cluster widths, and
* for the code as pinned under the hypothesis that zero-width clusters occur only as the
  line's final newline (`ZeroOnlyFinalNl`);
in both cases for wrap symbols of width 1 and lines whose clusters leave room for the wrap
symbol (`FitsG`; otherwise the loop stops early or never, see `wrap_progress`). -/
theorem wrap_sectioning_independent (fx : Fixes) (cfg : Cfg) (line1 line2 : List Sec) (lw fill : Nat)
    (hint : Option Nat) (o1 o2 : Out)
    (hflat : flatG line1 = flatG line2)
    (hsym : cfg.leftSym.w = 1)
    (hreg : (fx.zwShortcut = true ∧ fx.zwPerfectFit = true) ∨ ZeroOnlyFinalNl (flatG line1))
    (hnl : NlZeroG (flatG line1)) (hfit : FitsG cfg lw (flatG line1))
    (hne1 : NoEmptySec line1) (hne2 : NoEmptySec line2)
    (h1 : wrapFullF fx cfg line1 lw fill hint = .ok o1)
    (h2 : wrapFullF fx cfg line2 lw fill hint = .ok o2) :
    rowContents o1 = rowContents o2 ∧ o1.nSym = o2.nSym ∧ o1.stop = o2.stop := by
  have H1 : SimHyp fx cfg lw (flatG line1) := simHyp_of hsym hreg hnl hfit
  have H2 : SimHyp fx cfg lw (flatG line2) := by rw [← hflat]; exact H1
  -- the finest sectioning terminates, since every cluster fits
  have hfine : ∃ o3, wrapFullF fx cfg (fine (flatG line1)) lw fill hint = .ok o3 := by
    apply wrapFull_ok_of_loop
    apply loop_terminates_fits
    apply fits_of_flat
    rw [flatG_fine]
    exact hfit
  obtain ⟨o3, h3⟩ := hfine
  obtain ⟨a1, b1, c1⟩ := wrap_vs_fine H1 (nlZero_of_flat hnl) hne1 h1 h3
  have h3' : wrapFullF fx cfg (fine (flatG line2)) lw fill hint = .ok o3 := by rw [← hflat]; exact h3
  obtain ⟨a2, b2, c2⟩ := wrap_vs_fine H2 (nlZero_of_flat (by rw [← hflat]; exact hnl)) hne2 h2 h3'
  exact ⟨by rw [a1, a2], by rw [b1, b2], by rw [c1, c2]⟩

/-- The same for the code as the source is now (`wrapFull`). -/
theorem wrap_sectioning_independent_current (cfg : Cfg) (line1 line2 : List Sec) (lw fill : Nat)
    (hint : Option Nat) (o1 o2 : Out)
    (hflat : flatG line1 = flatG line2)
    (hsym : cfg.leftSym.w = 1)
    (hreg : (currentFixes.zwShortcut = true ∧ currentFixes.zwPerfectFit = true) ∨
            ZeroOnlyFinalNl (flatG line1))
    (hnl : NlZeroG (flatG line1)) (hfit : FitsG cfg lw (flatG line1))
    (hne1 : NoEmptySec line1) (hne2 : NoEmptySec line2)
    (h1 : wrapFull cfg line1 lw fill hint = .ok o1)
    (h2 : wrapFull cfg line2 lw fill hint = .ok o2) :
    rowContents o1 = rowContents o2 ∧ o1.nSym = o2.nSym ∧ o1.stop = o2.stop :=
  wrap_sectioning_independent currentFixes cfg line1 line2 lw fill hint o1 o2 hflat hsym hreg hnl hfit
    hne1 hne2 h1 h2

example : ZeroOnlyFinalNl [⟨"a", 1⟩, ⟨"日", 2⟩, ⟨"\n", 0⟩] := by
  intro g r' hsuf hg0
  obtain ⟨pre, hpre⟩ := hsuf
  match pre, hpre with
  | [], h => simp at h; obtain ⟨rfl, _⟩ := h; simp at hg0
  | [_], h => simp at h; obtain ⟨_, rfl, _⟩ := h; simp at hg0
  | [_, _], h => simp at h; obtain ⟨_, _, rfl, rfl⟩ := h; exact ⟨rfl, rfl⟩
  | _ :: _ :: _ :: _, h =>
    have := congrArg List.length h
    simp at this

/-! ### The defect witnesses -/

def zw : G := ⟨"\u200b", 0⟩
def c (s : String) : G := ⟨s, 1⟩

/-- Row contents (clusters per row, inserted sections removed). -/
def contents (o : Out) : List (List String) :=
  (o.rows.take o.nSym).map (fun r => (r.dropLast.flatMap (·.2)).map (·.s)) ++
  (o.rows.drop o.nSym).map (fun r => ((r.drop o.nPad).flatMap (·.2)).map (·.s))

/-- **wrap_sectioning_independent is false on the unrepaired code** (defect #18): with a
zero-width cluster at a row break the `width_left == 0` shortcut sends it to the next row,
while a section that fits as a whole keeps it on the row. Same text `abcde​fg`, line width 6:
one section breaks after the zero-width space, two sections break before it. On the real
binary this is the panic "String mismatch encountered while superimposing style sections". -/
theorem wrap_sectioning_dependent_witness :
    (wrapFullF noFixes hangCfg [(0, [c "a", c "b", c "c", c "d", c "e", zw, c "f", c "g"])] 6 0 none).map contents
      = .ok [["a", "b", "c", "d", "e", "\u200b"], ["f", "g"]] ∧
    (wrapFullF noFixes hangCfg [(0, [c "a", c "b", c "c", c "d", c "e"]), (1, [zw, c "f", c "g"])] 6 0 none).map contents
      = .ok [["a", "b", "c", "d", "e"], ["\u200b", "f", "g"]] := by
  constructor <;> rfl

/-- Even the number of rows depends on the sectioning: `abcdef​` in one section is a perfect
fit (1 row); with the zero-width space in a section of its own it is split (2 rows) — on the
real binary the `assert_eq!` "syntax and diff wrapping differs". -/
theorem wrap_row_count_sectioning_dependent_witness :
    (wrapFullF noFixes hangCfg [(0, [c "a", c "b", c "c", c "d", c "e", c "f", zw])] 6 0 none).map contents
      = .ok [["a", "b", "c", "d", "e", "f", "\u200b"]] ∧
    (wrapFullF noFixes hangCfg [(0, [c "a", c "b", c "c", c "d", c "e", c "f"]), (1, [zw])] 6 0 none).map contents
      = .ok [["a", "b", "c", "d", "e"], ["f", "\u200b"]] := by
  constructor <;> rfl

/-- With the repair (notes/fix-wrap-zero-width.diff) the four sectionings agree pairwise. -/
theorem wrap_sectioning_witness_repaired :
    (wrapFullF allFixes hangCfg [(0, [c "a", c "b", c "c", c "d", c "e", zw, c "f", c "g"])] 6 0 none).map contents
      = (wrapFullF allFixes hangCfg [(0, [c "a", c "b", c "c", c "d", c "e"]), (1, [zw, c "f", c "g"])] 6 0 none).map contents ∧
    (wrapFullF allFixes hangCfg [(0, [c "a", c "b", c "c", c "d", c "e", c "f", zw])] 6 0 none).map contents
      = (wrapFullF allFixes hangCfg [(0, [c "a", c "b", c "c", c "d", c "e", c "f"]), (1, [zw])] 6 0 none).map contents := by
  constructor <;> rfl

/-- **A wrap symbol wider than one column** (accepted by `ensure_display_width_1`, which counts
clusters, not columns): a section that fits as a whole may use the column the symbol needs, so
the row breaks depend on the sectioning — `baz) s` with symbol `日`, line width 4: one section
breaks after `ba`, the sections `baz` + `) s` break after `baz` (a row of width 5). On the real
binary: the same superimpose panic. `wrap_sectioning_independent` therefore assumes symbol
width 1; the proposed repair (notes/fix-wrap-wide-symbol.diff) makes delta refuse such
symbols. -/
theorem wrap_sectioning_dependent_wide_symbol_witness :
    (wrapFullF noFixes { hangCfg with leftSym := ⟨"日", 2⟩ }
        [(0, [c "b", c "a", c "z", c ")", c " ", c "s"])] 4 0 none).map contents
      = .ok [["b", "a"], ["z", ")", " ", "s"]] ∧
    (wrapFullF noFixes { hangCfg with leftSym := ⟨"日", 2⟩ }
        [(0, [c "b", c "a", c "z"]), (1, [c ")", c " ", c "s"])] 4 0 none).map contents
      = .ok [["b", "a", "z"], [")", " ", "s"]] := by
  constructor <;> rfl

/-! ## The input line is not cut before it is wrapped

`StateMachine::ingest_line_utf8` truncates every input line to `Config::max_line_length` columns *before*
anything is wrapped. In side-by-side mode that value is not the `--max-line-length` option but
`WrapConfig::config_max_line_length(option, terminal width)`, whose `match` arms are translated from the
source (`Generated.configMaxLineLength`; the call in `Config::from`: `Generated.configMaxLen`; the reading
of `--wrap-max-lines`: `MaxLen.maxLinesOfArg`). "Joining the fragments gives back the line; only beyond
the configured number of wrapped rows is the rest cut" needs: unlimited rows ⇒ no truncation at all;
`N` rows ⇒ the text those rows can show is never cut before wrapping. -/

section MaxLineLength
open MaxLen SideBySide

/-- **max_line_length_exact.** `WrapConfig::config_max_line_length` for ALL values: `max_lines = 1`
(`--wrap-max-lines 0`, no wrapping) keeps the option; `max_lines = 0` (unlimited rows) or option 0 gives 0 =
"never truncate"; otherwise `max(option, F)` where `F` is `E = n panes + max(25 % of n panes, one pane)`,
pane = width / 2, or — where `E` exceeds `usize::MAX` and the source computes it with saturating arithmetic
(notes/fix-wrap-max-lines-overflow.diff) — `usize::MAX`: `min E usize::MAX ≤ F ≤ E`. One statement for both
shapes of the source (plain `+ *` as pinned: `F = E`); `max_line_length_exact_within_usize` and
`max_line_length_saturated` are its two halves. -/
theorem max_line_length_exact (n mll w : Nat) :
    ∃ F, min (w / 2 * n + max (w / 2 * n / 4) (w / 2)) Generated.Usize.usizeMax ≤ F ∧
      F ≤ w / 2 * n + max (w / 2 * n / 4) (w / 2) ∧
      Generated.configMaxLineLength n mll w =
        if n = 1 then mll
        else if n = 0 ∨ mll = 0 then 0
        else max mll F :=
  cml_spec n mll w

/-- **max_line_length_exact_within_usize.** Wherever the formula stays within `usize` (every width and line limit
anyone uses) the value is exactly `max(option, n panes + max(25 % of n panes, one pane))`. -/
theorem max_line_length_exact_within_usize (n mll w : Nat)
    (hU : w / 2 * n + max (w / 2 * n / 4) (w / 2) ≤ Generated.Usize.usizeMax) :
    Generated.configMaxLineLength n mll w =
      if n = 1 then mll
      else if n = 0 ∨ mll = 0 then 0
      else max mll (w / 2 * n + max (w / 2 * n / 4) (w / 2)) :=
  cml_exact n mll w hU

/-- **max_line_length_saturated.** Beyond it (`--wrap-max-lines` / `--width` of the order of `usize::MAX`) the value
is at least `usize::MAX`: longer than any line. -/
theorem max_line_length_saturated (n mll w : Nat) (hn : 2 ≤ n) (hm : 0 < mll)
    (hU : Generated.Usize.usizeMax ≤ w / 2 * n + max (w / 2 * n / 4) (w / 2)) :
    Generated.Usize.usizeMax ≤ Generated.configMaxLineLength n mll w := by
  have := (cml_rows n mll w hn hm).1
  omega

example : Generated.Usize.usizeMax ≤
    (9223372036854775807 : Nat) / 2 * 5 + max (9223372036854775807 / 2 * 5 / 4) (9223372036854775807 / 2) := by decide

example : Generated.configMaxLineLength 3 3000 80 = 3000 ∧ Generated.configMaxLineLength 3 20 80 = 160 ∧
    Generated.configMaxLineLength 6 100 80 = 300 ∧ Generated.configMaxLineLength 0 20 80 = 0 ∧
    Generated.configMaxLineLength 1 20 80 = 20 ∧ Generated.configMaxLineLength 7 0 80 = 0 := by decide

/-- **max_line_length_unlimited_wrap.** `--side-by-side --wrap-max-lines unlimited` (also `∞`, `inf…`):
`Config::max_line_length = 0` whatever `--max-line-length`, `--width` and the terminal width are. -/
theorem max_line_length_unlimited_wrap (mll T : Nat) (fw : Option Nat) : configMaxLen true none mll T fw = 0 := by
  simp [configMaxLen, Generated.configMaxLen, maxLinesOfArg, Generated.wrapMaxLinesUnlimited, cml_unlimited]

/-- **max_line_length_zero_iff.** In side-by-side mode the input is never truncated (`= 0`) exactly when
the rows are unlimited or the user asked for no truncation (`--max-line-length 0`). -/
theorem max_line_length_zero_iff (wml : Option Nat) (mll T : Nat) (fw : Option Nat) :
    configMaxLen true wml mll T fw = 0 ↔ wml = none ∨ mll = 0 := by
  cases wml with
  | none => simp [max_line_length_unlimited_wrap]
  | some k =>
    simp [configMaxLen, Generated.configMaxLen, cml_zero_iff, maxLinesOfArg_some_ne_zero]

/-- **max_line_length_no_wrap.** Without side-by-side, and with `--wrap-max-lines 0` (one row, no
wrapping), the option is used as it is. -/
theorem max_line_length_no_wrap (wml : Option Nat) (mll T : Nat) (fw : Option Nat) :
    configMaxLen false wml mll T fw = mll ∧ configMaxLen true (some 0) mll T fw = mll := by
  have h : maxLinesOfArg (some 0) = 1 := (maxLinesOfArg_some_eq_one 0).2 rfl
  simp [configMaxLen, Generated.configMaxLen, h, cml_one]

/-- **max_line_length_ge_requested.** Side-by-side mode never truncates *more* than requested: the value is
0 (no truncation) or at least the option. -/
theorem max_line_length_ge_requested (sbs : Bool) (wml : Option Nat) (mll T : Nat) (fw : Option Nat) :
    configMaxLen sbs wml mll T fw = 0 ∨ mll ≤ configMaxLen sbs wml mll T fw := by
  cases sbs with
  | false => right; simp [configMaxLen, Generated.configMaxLen]
  | true => simpa [configMaxLen, Generated.configMaxLen] using cml_ge_requested (maxLinesOfArg wml) mll _

/-- **max_line_length_enough_for_rows.** `--wrap-max-lines N` with `N ≥ 1` (`N + 1` rows) and a non-zero
option: the value is at least `N + 2` panes (one pane more than the rows can show), at least 125 % of
`N + 1` panes — or at least `usize::MAX` where those exceed it (saturating arithmetic) — and at least the
option. Pane = `formulaWidth / 2`, where `formulaWidth` is the width `Config::from` passes. For ALL `N`, widths,
options (both shapes of the source). -/
theorem max_line_length_enough_for_rows (N mll T : Nat) (fw : Option Nat) (hN : 1 ≤ N) (hm : 0 < mll) :
    min ((N + 2) * (formulaWidth T fw / 2)) Generated.Usize.usizeMax ≤ configMaxLen true (some N) mll T fw ∧
    min (formulaWidth T fw / 2 * (N + 1) + formulaWidth T fw / 2 * (N + 1) / 4) Generated.Usize.usizeMax
      ≤ configMaxLen true (some N) mll T fw ∧
    mll ≤ configMaxLen true (some N) mll T fw := by
  have := cml_enough_arg N mll (formulaWidth T fw) hN hm
  simpa [configMaxLen, Generated.configMaxLen, formulaWidth] using this

example : configMaxLen true (some 2) 20 80 (some 80) = 160 ∧ (2 + 2) * (formulaWidth 80 (some 80) / 2) = 160 := by decide

/-- **max_line_length_beyond_rows.** The text a side of the view can show in the permitted `N + 1` rows
(line width `lw` = panel of the view width `W` minus gutter and marker; every row but the last ends with the
one-column wrap symbol) plus the `+`/`-`/blank the raw line starts with is not more than
`Config::max_line_length` — provided the view is not wider than the width the formula uses
(`W ≤ formulaWidth`: on the code as pinned "`--width` is not larger than the terminal width", always so
without `--width`; see `max_line_length_view_width` for when this is automatic) and a pane has at least 2
columns. Stated for both panels, even and odd widths, both fill methods. (Or the value is 0: no truncation; or it
is `usize::MAX` or more — saturating arithmetic with `N` / the width of the order of `usize::MAX`: no line is
that long, see `line_that_fits_rows_not_truncated`.) -/
theorem max_line_length_beyond_rows (N mll T gutter : Nat) (fw : Option Nat) (ansi markers : Bool) (panel : Nat)
    (hN : 1 ≤ N) (hW : viewWidth T fw ≤ formulaWidth T fw) (hT : 2 ≤ formulaWidth T fw / 2)
    (hp : panel = (panelWidths (viewWidth T fw) ansi).1 ∨ panel = (panelWidths (viewWidth T fw) ansi).2) :
    configMaxLen true (some N) mll T fw = 0 ∨
      rowsCapacity (N + 1) (availableLineWidth panel gutter markers) + 1 ≤ configMaxLen true (some N) mll T fw ∨
      Generated.Usize.usizeMax ≤ configMaxLen true (some N) mll T fw := by
  by_cases hm : mll = 0
  · left; exact (max_line_length_zero_iff _ _ _ _).2 (Or.inr hm)
  · right
    have hs := panelWidths_spec (viewWidth T fw) ansi
    have hpan : panel ≤ formulaWidth T fw / 2 + 1 := by
      have : viewWidth T fw / 2 ≤ formulaWidth T fw / 2 := Nat.div_le_div_right hW
      rcases hp with h | h <;> omega
    have hlw : availableLineWidth panel gutter markers ≤ formulaWidth T fw / 2 + 1 := by
      unfold availableLineWidth; split <;> omega
    have h1 : rowsCapacity (N + 1) (availableLineWidth panel gutter markers) + 1 ≤ (N + 2) * (formulaWidth T fw / 2) :=
      capacity_lt (N + 1) _ (formulaWidth T fw / 2) hlw hT
    have h2 := (max_line_length_enough_for_rows N mll T fw hN (by omega)).1
    omega

example : rowsCapacity 3 (availableLineWidth (panelWidths (viewWidth 81 (some 81)) true).2 5 false) + 1 = 107 ∧
    configMaxLen true (some 2) 20 81 (some 81) = 160 ∧ viewWidth 81 (some 81) ≤ formulaWidth 81 (some 81) := by decide

/-- **max_line_length_view_width.** When is the view not wider than the width of the formula? Always, if
`Config::from` passes the width the panels are derived from (`Generated.maxLenUsesViewWidth`, read from the
source: false on the code as pinned, true with notes/fix-sbs-max-line-length-width.diff); on the code as
pinned: without `--width` (then `decorations_width = Fixed(terminal width)`), with `--width variable`, and
with `--width W` for `W ≤` terminal width. -/
theorem max_line_length_view_width (T : Nat) (fw : Option Nat)
    (h : Generated.maxLenUsesViewWidth = true ∨ fw = none ∨ ∃ W, fw = some W ∧ W ≤ T) :
    viewWidth T fw ≤ formulaWidth T fw := by
  rcases h with h | h | ⟨W, h, hW⟩
  · revert h
    unfold Generated.maxLenUsesViewWidth formulaWidth Generated.maxLenWidthArg viewWidth
    cases fw <;> simp
  · subst h
    unfold formulaWidth Generated.maxLenWidthArg viewWidth
    simp
  · subst h
    unfold formulaWidth Generated.maxLenWidthArg viewWidth
    first
      | exact hW
      | exact Nat.le_refl _

/-- **wrap_capacity.** What "a line fits in the permitted rows" means: when `wrap_line` places the whole
line (it stops with the stack empty), the text of the line is at most `rows · (line width − 1) + 1` columns
wide (`rowsCapacity`: every row but the last ends with the one-column wrap symbol) — so with
`wrap_row_count` (`rows ≤ N + 1`) the hypothesis `hfit` of `line_that_fits_rows_not_truncated` holds for
every line that `wrap_line` shows in full. -/
theorem wrap_capacity (cfg : Cfg) (line : List Sec) (lw fill : Nat) (hint : Option Nat) (o : Out)
    (hz : NlZero line) (hs1 : cfg.leftSym.w = 1)
    (h : wrapFull cfg line lw fill hint = .ok o) (hstop : o.stop = .stackEmpty) :
    explodeWidth (explode line) ≤ rowsCapacity o.rows.length lw := by
  obtain ⟨st, stop, hl, hr, hw, hfs, hd, hshape⟩ := wrapFull_spec (fx := currentFixes) hz h
  have hW := hw (by omega)
  have hres := rowWidth_stripResult_le _ _ lw st.result hW.rows
  rw [hs1] at hres
  have hlen := hW.lenle
  have hsplit : ∀ k, (k + 1) * (lw - 1) = k * (lw - 1) + (lw - 1) := fun k => by simp [Nat.succ_mul]
  unfold rowsCapacity
  cases hshape with
  | plain h0 hs =>
    have e : explodeWidth (explode line) = rowWidth (stripResult st.result) + st.len := by
      rw [← hl.text, hs, explodeWidth_explode]; simp [rowWidth_append, hl.len]
    have := hsplit st.result.length
    simp only [List.length_append, List.length_singleton]
    omega
  | dropped h0 hs =>
    have e : explodeWidth (explode line) = rowWidth (stripResult st.result) + st.len := by
      rw [← hl.text, hs, explodeWidth_explode]; simp [rowWidth_append, hl.len]
    simp only
    omega
  | right r hres' hne h0 hs hlw hpm hpad =>
    have e : explodeWidth (explode line) = rowWidth (stripResult st.result) + st.len := by
      rw [← hl.text, hs, explodeWidth_explode]; simp [rowWidth_append, hl.len]
    rw [hres'] at hres
    simp only [List.length_cons, List.length_nil] at hres ⊢
    rw [hres'] at e
    omega
  | limit hs => cases hstop

example : rowsCapacity 3 10 = 28 ∧ rowsCapacity 1 10 = 10 := by decide

/-- **unlimited_wrap_never_truncated.** With `--wrap-max-lines unlimited` the truncation step of
`ingest_line_utf8` leaves every line as it is, whatever its length and whatever `--max-line-length` says. -/
theorem unlimited_wrap_never_truncated (mll T len : Nat) (fw : Option Nat) (sw : List UInt8 → Bool)
    (raw tail : List Item) :
    ingestTrunc (configMaxLen true none mll T fw) len sw raw tail = .ok raw :=
  ingestTrunc_keeps _ _ _ _ _ (Or.inl (max_line_length_unlimited_wrap mll T fw))

example : ingestTrunc (configMaxLen true none 20 80 (some 120)) 3600 (fun _ => false)
    [.text (List.replicate 3600 ⟨"a", 1⟩)] [.text [⟨"→", 1⟩]] = .ok [.text (List.replicate 3600 ⟨"a", 1⟩)] :=
  unlimited_wrap_never_truncated _ _ _ _ _ _ _

/-- **requested_length_never_truncated.** Whatever the wrapping options are, a line the user did not ask
to truncate (not longer than `--max-line-length` in bytes or in columns, or `--max-line-length 0`) is not
truncated. -/
theorem requested_length_never_truncated (sbs : Bool) (wml : Option Nat) (mll T len : Nat) (fw : Option Nat)
    (sw : List UInt8 → Bool) (raw tail : List Item) (h : mll = 0 ∨ len ≤ mll ∨ measure raw ≤ mll) :
    ingestTrunc (configMaxLen sbs wml mll T fw) len sw raw tail = .ok raw := by
  apply ingestTrunc_keeps
  rcases max_line_length_ge_requested sbs wml mll T fw with h0 | hge
  · exact Or.inl h0
  · rcases h with h | h | h
    · left
      cases sbs with
      | false => simpa [configMaxLen, Generated.configMaxLen] using h
      | true => exact (max_line_length_zero_iff wml mll T fw).2 (Or.inr h)
    · right; left; omega
    · right; right; omega

/-- **line_that_fits_rows_not_truncated.** A hunk line whose text fits in the `N + 1` rows that
`--wrap-max-lines N` (`N ≥ 1`) permits on its side of the view is not cut before it is wrapped, whatever
`--max-line-length` says (same provisos as `max_line_length_beyond_rows`). `raw` = the raw line: one
prefix column and the text; `len` = its length in bytes, a `usize` (`hlen`: true of every Rust string — where the
limit saturates at `usize::MAX` it still exceeds every line). -/
theorem line_that_fits_rows_not_truncated (N mll T gutter len : Nat) (fw : Option Nat) (ansi markers : Bool)
    (panel : Nat) (sw : List UInt8 → Bool) (raw tail : List Item)
    (hN : 1 ≤ N) (hW : viewWidth T fw ≤ formulaWidth T fw) (hT : 2 ≤ formulaWidth T fw / 2)
    (hp : panel = (panelWidths (viewWidth T fw) ansi).1 ∨ panel = (panelWidths (viewWidth T fw) ansi).2)
    (hfit : measure raw ≤ rowsCapacity (N + 1) (availableLineWidth panel gutter markers) + 1)
    (hlen : len ≤ Generated.Usize.usizeMax) :
    ingestTrunc (configMaxLen true (some N) mll T fw) len sw raw tail = .ok raw := by
  apply ingestTrunc_keeps
  rcases max_line_length_beyond_rows N mll T gutter fw ansi markers panel hN hW hT hp with h | h | h
  · exact Or.inl h
  · right; right; omega
  · right; left; omega

example : measure [.text [⟨"+", 1⟩], .text (List.replicate 106 ⟨"x", 1⟩)] ≤
    rowsCapacity 3 (availableLineWidth (panelWidths (viewWidth 81 (some 81)) true).2 5 false) + 1 := by decide

/-- **line_shown_in_full_not_truncated.** The two halves together: a hunk line that `wrap_line` can place
entirely (stack empty) on at most `N + 1` rows of its side's text width is handed to `wrap_line` in full —
`ingest_line` has not cut it — whatever `--max-line-length` says. `raw` = prefix column + the line's text. -/
theorem line_shown_in_full_not_truncated (cfg : Cfg) (line : List Sec) (fill : Nat) (hint : Option Nat) (o : Out)
    (N mll T gutter len : Nat) (fw : Option Nat) (ansi markers : Bool) (panel : Nat)
    (sw : List UInt8 → Bool) (raw tail : List Item)
    (hz : NlZero line) (hs1 : cfg.leftSym.w = 1)
    (hwrap : wrapFull cfg line (availableLineWidth panel gutter markers) fill hint = .ok o)
    (hstop : o.stop = .stackEmpty) (hrows : o.rows.length ≤ N + 1)
    (hN : 1 ≤ N) (hW : viewWidth T fw ≤ formulaWidth T fw) (hT : 2 ≤ formulaWidth T fw / 2)
    (hp : panel = (panelWidths (viewWidth T fw) ansi).1 ∨ panel = (panelWidths (viewWidth T fw) ansi).2)
    (hraw : measure raw ≤ explodeWidth (explode line) + 1) (hlen : len ≤ Generated.Usize.usizeMax) :
    ingestTrunc (configMaxLen true (some N) mll T fw) len sw raw tail = .ok raw := by
  have h1 := wrap_capacity cfg line _ fill hint o hz hs1 hwrap hstop
  have h2 := rowsCapacity_mono _ _ (availableLineWidth panel gutter markers) hrows
  exact line_that_fits_rows_not_truncated N mll T gutter len fw ansi markers panel sw raw tail hN hW hT hp (by omega) hlen

/-- **max_line_length_short_when_view_wider_than_terminal_witness** (a defect of the code as pinned, see
notes/S3-strengthen-C07.md; conditional on the source still passing the terminal width): the pane in the
formula is half the *terminal* width, not half of `--width`. With `--width 400` on an 80-column terminal
(or a pipe), `--wrap-max-lines 5 --max-line-length 100`: the 6 rows of a 195-column text area show 1165
columns, the input is cut at 300 — the hypothesis `viewWidth ≤ formulaWidth` of
`max_line_length_beyond_rows` cannot be dropped there. -/
theorem max_line_length_short_when_view_wider_than_terminal_witness
    (h : Generated.maxLenUsesViewWidth = false) :
    configMaxLen true (some 5) 100 80 (some 400) = 300 ∧
    rowsCapacity 6 (availableLineWidth (panelWidths (viewWidth 80 (some 400)) true).1 5 false) = 1165 := by
  revert h
  decide

/-- On the repaired tree (fix 3831e3a) the width in the formula IS the width the panels are derived from — for every
terminal width and every `--width`: the hypothesis `viewWidth ≤ formulaWidth` of the theorems above always holds.
Proved by unfolding the regenerated `Generated.maxLenWidthArg`; with the terminal width passed instead (the code as
pinned) this does not build. -/
theorem view_width_is_formula_width (T : Nat) (fw : Option Nat) : viewWidth T fw ≤ formulaWidth T fw := by
  unfold viewWidth formulaWidth Generated.maxLenWidthArg
  cases fw <;> simp

/-- **line_that_fits_rows_not_truncated_any_view**: `line_that_fits_rows_not_truncated` without the proviso about the
view width — whatever `--width` and the terminal are, a hunk line that fits on the rows `--wrap-max-lines N` permits is
not cut at ingest. -/
theorem line_that_fits_rows_not_truncated_any_view (N mll T gutter len : Nat) (fw : Option Nat) (ansi markers : Bool)
    (panel : Nat) (sw : List UInt8 → Bool) (raw tail : List Item)
    (hN : 1 ≤ N) (hT : 2 ≤ formulaWidth T fw / 2)
    (hp : panel = (panelWidths (viewWidth T fw) ansi).1 ∨ panel = (panelWidths (viewWidth T fw) ansi).2)
    (hfit : measure raw ≤ rowsCapacity (N + 1) (availableLineWidth panel gutter markers) + 1)
    (hlen : len ≤ Generated.Usize.usizeMax) :
    ingestTrunc (configMaxLen true (some N) mll T fw) len sw raw tail = .ok raw :=
  line_that_fits_rows_not_truncated N mll T gutter len fw ansi markers panel sw raw tail hN
    (view_width_is_formula_width T fw) hT hp hfit hlen

-- `--width 400` on an 80-column terminal, `--wrap-max-lines 5 --max-line-length 100`: the limit now follows the view
example : configMaxLen true (some 5) 100 80 (some 400) = 1500 := by decide

/-! ### The `usize` arithmetic itself (session 4: `--wrap-max-lines` / `--width` of the order of `usize::MAX`)

`Generated.configMaxLineLength` reads `usize` as `Nat`. `Generated.configMaxLineLengthChecked` is the same syntax
tree with the arithmetic of a build with overflow checks (delta's dev profile): every plain `+ *` is `none` (the
panic `attempt to add / multiply with overflow`) when the result exceeds `usize::MAX`, saturating operations, `max`,
`/ 2`, `/ 4` always return; likewise `Generated.wrapMaxLinesOfNumberChecked` for `adapt_wrap_max_lines_argument`. -/

/-- **max_line_length_nat_model_faithful.** Whenever the overflow-checked evaluation of `config_max_line_length`
returns a value, it is the value of the `Nat` translation all theorems above are about — the proviso "no
intermediate value exceeds `usize::MAX`" as a theorem (both shapes of the source); the same for
`adapt_wrap_max_lines_argument`. -/
theorem max_line_length_nat_model_faithful (n mll w v : Nat) :
    (Generated.configMaxLineLengthChecked n mll w = some v → v = Generated.configMaxLineLength n mll w) ∧
    (Generated.wrapMaxLinesOfNumberChecked n = some v → v = maxLinesOfArg (some n)) :=
  ⟨cmlChecked_sound n mll w v, wmlChecked_sound n v⟩

example : Generated.configMaxLineLengthChecked 6 100 80 = some 300 ∧ Generated.wrapMaxLinesOfNumberChecked 5 = some 6 := by
  decide

/-- **max_line_length_total.** For ALL `max_lines`, `--max-line-length`, widths — no bound —
`config_max_line_length` returns a value in a build with overflow checks (no overflow panic: every operation is
saturating or cannot overflow), that value is the one of the `Nat` translation, and it is a `usize` again. `hfix`:
the corner `(usize::MAX, usize::MAX, usize::MAX)` evaluates without a panic — decided on the generated definition:
true once the source uses `saturating_mul` / `saturating_add` (notes/fix-wrap-max-lines-overflow.diff), false with
plain `* +` (`max_line_length_total_or_overflow_witness`). Proved by unfolding the generated definition. -/
theorem max_line_length_total
    (hfix : (Generated.configMaxLineLengthChecked Generated.Usize.usizeMax Generated.Usize.usizeMax
              Generated.Usize.usizeMax).isSome = true)
    (n mll w : Nat) :
    ∃ v, Generated.configMaxLineLengthChecked n mll w = some v ∧ v = Generated.configMaxLineLength n mll w ∧
      (mll ≤ Generated.Usize.usizeMax → v ≤ Generated.Usize.usizeMax) := by
  obtain ⟨v, hv⟩ := cmlChecked_total hfix n mll w
  have e := cmlChecked_sound n mll w v hv
  exact ⟨v, hv, e, fun hm => e ▸ cml_le_usizeMax hfix n mll w hm⟩

-- the hypothesis holds of the repaired arithmetic (written out here; on the repaired tree it is the generated term)
example : (Generated.Usize.ckMax (some Generated.Usize.usizeMax)
    ((Generated.Usize.ckSatMul (some (Generated.Usize.usizeMax / 2)) (some Generated.Usize.usizeMax)).bind fun x =>
      Generated.Usize.ckSatAdd (some x) (Generated.Usize.ckMax (Generated.Usize.ckDiv (some x) (some 4))
        (some (Generated.Usize.usizeMax / 2))))).isSome = true := by decide

/-- **wrap_max_lines_total.** The same for `adapt_wrap_max_lines_argument`: every number `--wrap-max-lines` can be
given yields a `usize` (`hfix`: `usize::MAX` itself does — true with `saturating_add(1)`, false with `+ 1`). -/
theorem wrap_max_lines_total (hfix : (Generated.wrapMaxLinesOfNumberChecked Generated.Usize.usizeMax).isSome = true)
    (n : Nat) :
    ∃ v, Generated.wrapMaxLinesOfNumberChecked n = some v ∧ v = maxLinesOfArg (some n) ∧ v ≤ Generated.Usize.usizeMax := by
  obtain ⟨v, hv, hle⟩ := wmlChecked_total hfix n
  exact ⟨v, hv, wmlChecked_sound n v hv, hle⟩

example : (Generated.Usize.ckSatAdd (some Generated.Usize.usizeMax) (some 1)).isSome = true := by decide

/-- **max_line_length_total_or_overflow_witness.** Unconditionally, of the source as it is now: either both
functions are total in a build with overflow checks (the repaired tree), or one of the three start-up panics found by
C03 is there — `--wrap-max-lines 18446744073709551615` (`+ 1`), `--side-by-side --wrap-max-lines 100000000000000000`,
`--side-by-side --width 9223372036854775807` (the multiplication) — or, at least, the corner
`(usize::MAX, usize::MAX, usize::MAX)` panics. -/
theorem max_line_length_total_or_overflow_witness :
    ((∀ n mll w, (Generated.configMaxLineLengthChecked n mll w).isSome = true) ∧
      (∀ n, (Generated.wrapMaxLinesOfNumberChecked n).isSome = true)) ∨
    Generated.wrapMaxLinesOfNumberChecked 18446744073709551615 = none ∨
    Generated.configMaxLineLengthChecked 100000000000000001 3000 80 = none ∨
    Generated.configMaxLineLengthChecked 3 3000 9223372036854775807 = none ∨
    Generated.configMaxLineLengthChecked Generated.Usize.usizeMax Generated.Usize.usizeMax Generated.Usize.usizeMax = none := by
  first
    | exact Or.inr (by decide)
    | refine Or.inl ⟨fun n mll w => ?_, fun n => ?_⟩
      · obtain ⟨v, hv, _⟩ := max_line_length_total (by decide) n mll w
        rw [hv]; rfl
      · obtain ⟨v, hv, _⟩ := wrap_max_lines_total (by decide) n
        rw [hv]; rfl

end MaxLineLength

/-! ## The composed side-by-side row: gutters + both panels (session 4, T3)

Model: `DeltaModel/SbsRow.lean` (`get_right_fill_style_for_panel`, `pad_panel_line_to_width`,
`Painter::paint_line`, `paint_minus_or_plus_panel_line`, the row loop of
`paint_minus_and_plus_lines_side_by_side`, `paint_zero_lines_side_by_side`, `formatted_width`,
`available_line_width`, `UseFullPanelWidth`), every `match` arm / guard / statement order read from
`Generated/SbsRow.lean`; gutter cells and gutter text are those of C05's `DeltaModel/LineNumbers.lean`;
truncation and padding those of `DeltaModel/SideBySide.lean`. Proved for ALL panel widths (also
narrower than the gutters), all format strings, all line contents (clusters of any width), both
fill methods, with and without `--keep-plus-minus-markers`. -/
section SbsRow
open SbsRow SideBySide LineNumbers

/-- The source has the modelled shape: the row loop writes left panel, right panel, newline; the
left function paints and pads with `Left`, the right one with `Right`; an unchanged line goes into
`[Left, Right]`; only the right format string gets the odd-width pad character. -/
theorem sbs_row_shape_of_source : SbsRow.shapeOk = true := rfl

/-- **sbs_left_panel_always_space_filled.** Which panel gets which fill: the left panel is filled
with spaces whatever the line, styles and options (an ANSI "erase to end of line" there would wipe
the right panel); the right panel is filled — by the method its caller asks for — exactly when the
row holds a line with sections whose fill style has a background colour and the width is not
`variable`; otherwise it is left ragged. -/
theorem sbs_left_panel_always_space_filled (cfg : SbsRow.Cfg) (e i b : Bool) (sf : Option FillM) :
    fillFor cfg .left e i b sf = some .spaces ∧
    fillFor cfg .right e i b sf = (if (!e && i && b && cfg.bgExtends) then sf else none) :=
  ⟨fillFor_left cfg e i b sf, fillFor_right cfg e i b sf⟩

/-- **sbs_pad_arms_match.** The `match bg_fill_mode` of `pad_panel_line_to_width` as the source has
it now (generated arms, truncation guard) is the padding function the earlier panel theorems
(`left_panel_exact`, `row_width_bound`) are about. -/
theorem sbs_pad_arms_match (cfg : SbsRow.Cfg) (pw : Nat) (line : List Item) (fill : Option FillM) :
    padPanelG cfg pw line fill = padPanel pw line cfg.tail (toFill cfg fill) :=
  padPanelG_eq cfg pw line fill

/-- **sbs_pad_subtraction_guarded.** `panel_width - text_width` (a checked `usize` subtraction) is
never evaluated with `text_width > panel_width`: padding can only fail inside `truncate_str`
(its `debug_assert!` on a cluster wider than 2 columns, removed by fix d6cf9d0: `sbs_pad_never_panics`). -/
theorem sbs_pad_subtraction_guarded (cfg : SbsRow.Cfg) (pw : Nat) (line : List Item) (fill : Option FillM) (e : Wrap.Err)
    (h : padPanelG cfg pw line fill = .error e) :
    pw < measure line ∧ truncateStr line pw cfg.tail = .error e :=
  padPanelG_error cfg pw line fill e h

/-- **sbs_pad_never_panics.** Since fix d6cf9d0 (`Generated.wrapTruncAssertsWideCluster = false`, read from the
source on every run) `pad_panel_line_to_width` has no reachable panic point at all: any panel width, any line
(clusters of any widths), any fill. -/
theorem sbs_pad_never_panics (hno : Generated.wrapTruncAssertsWideCluster = false) (cfg : SbsRow.Cfg) (pw : Nat)
    (line : List Item) (fill : Option FillM) : ∃ out, padPanelG cfg pw line fill = .ok out :=
  padPanelG_total hno cfg pw line fill

/-- **sbs_rows_geometry** (i + ii, changed lines). Every row of a painted subhunk — any alignment,
any wrapping, any line contents, any gutter — is `left panel ++ right panel` where the left panel
(gutter, marker column, text, padding) is exactly `pwL` columns wide and the right panel at most
`pwR`: the right panel starts at the same column on every row of the run.
Hypothesis: the truncate repair 2fafd9f is in the source (`truncate_width_false_witness` shows the
statement is false without it). -/
theorem sbs_rows_geometry (hok : Generated.wrapTruncStopsAfterCut = true) (cfg : SbsRow.Cfg) (c c' : Counters)
    (m p : Nat) (al : Alignment) (wl wr : List Nat) (rl rr : List Bool) (rowsL rowsR : List (List Item))
    (bgL bgR : List Bool) (rows : List SbsRow.Row)
    (h : blockRows cfg c m p al wl wr rl rr rowsL rowsR bgL bgR = .ok (c', rows)) :
    ∀ r ∈ rows, r.items = r.left ++ r.right ∧ measure r.left = cfg.pwL ∧ measure r.right ≤ cfg.pwR :=
  fun r hr => ⟨rfl, blockRows_ok hok cfg c c' m p al wl wr rl rr rowsL rowsR bgL bgR rows h r hr⟩

/-- **sbs_zero_rows_geometry** (i + ii + iii, unchanged lines). Every display row of an unchanged
line has the same geometry, and both panels are built from the *same* sections of that row (gutter
of the side, marker column, the sections), the left one then space-filled. -/
theorem sbs_zero_rows_geometry (hok : Generated.wrapTruncStopsAfterCut = true) (cfg : SbsRow.Cfg) (c c' : Counters)
    (rows : List (List Item)) (bg : Bool) (out : List SbsRow.Row) (h : zeroRows cfg c rows bg = .ok (c', out)) :
    ∀ r ∈ out, measure r.left = cfg.pwL ∧ measure r.right ≤ cfg.pwR :=
  zeroRows_ok hok cfg c c' rows bg out h

theorem sbs_zero_row_same_text_both_sides (hok : Generated.wrapTruncStopsAfterCut = true) (cfg : SbsRow.Cfg)
    (c c' : Counters) (st : LineNumbers.St) (secs : List Item) (bg : Bool) (row : SbsRow.Row)
    (h : zeroRow cfg c st secs bg = .ok (c', row)) :
    ∃ ll lr, panelLine cfg row.cells.l (zeroPrefixFor cfg) ⟨true, st, secs, bg⟩ = .ok ll ∧
      panelLine cfg row.cells.r (zeroPrefixFor cfg) ⟨true, st, secs, bg⟩ = .ok lr ∧
      padPanelG cfg cfg.pwL ll (some .spaces) = .ok row.left ∧
      padPanelG cfg cfg.pwR lr (fillFor cfg .right secs.isEmpty true bg (shouldFillOf cfg Generated.SbsRow.zeroShouldFill))
        = .ok row.right :=
  (zeroRow_ok hok cfg c c' st secs bg row h).2

/-- **sbs_row_within_width** (ii). With the panel widths `Config::from` derives from `--width w`
(fixed or `variable`, even or odd, either `--line-fill-method`), no row of a subhunk is wider than
`w`, and the right panel starts at column `w / 2`. -/
theorem sbs_row_within_width (hok : Generated.wrapTruncStopsAfterCut = true) (cfg : SbsRow.Cfg) (fixed : Bool) (w : Nat)
    (optFill : FillM) (hpw : (cfg.pwL, cfg.pwR) = panelWidthsV fixed w optFill) (c c' : Counters)
    (m p : Nat) (al : Alignment) (wl wr : List Nat) (rl rr : List Bool) (rowsL rowsR : List (List Item))
    (bgL bgR : List Bool) (rows : List SbsRow.Row)
    (h : blockRows cfg c m p al wl wr rl rr rowsL rowsR bgL bgR = .ok (c', rows)) :
    ∀ r ∈ rows, measure r.left = w / 2 ∧ measure r.items ≤ w := by
  intro r hr
  have hg := blockRows_ok hok cfg c c' m p al wl wr rl rr rowsL rowsR bgL bgR rows h r hr
  have hs := panelWidthsV_spec fixed w optFill
  have h1 : cfg.pwL = (panelWidthsV fixed w optFill).1 := congrArg Prod.fst hpw
  have h2 : cfg.pwR = (panelWidthsV fixed w optFill).2 := congrArg Prod.snd hpw
  unfold SbsRow.Row.items
  rw [SideBySide.measure_append]
  obtain ⟨g1, g2⟩ := hg
  omega

/-- **sbs_panel_is_gutter_text_fill** (i, layout of a panel). A panel whose line fits is the gutter,
then (with `--keep-plus-minus-markers`, and only if the line has a section) the marker column, then
the sections of the row, then the fill — nothing else, in this order; the left panel's fill is the
spaces up to the panel width. -/
theorem sbs_panel_is_gutter_text_fill (cfg : SbsRow.Cfg) (side : Panel) (cell : Option Cell) (pre : Option String)
    (st : LineNumbers.St) (bg idx : Bool) (secs : List Item) (sf : Option FillM) (hne : secs ≠ [])
    (hfit : measure (gItems cfg (renderCell cfg.fl cfg.fr cfg.minW cell)
              ++ preItems cfg pre ++ secs) ≤ cfg.pw side) :
    panel cfg side cell pre ⟨idx, st, secs, bg⟩ sf =
      .ok ((gItems cfg (renderCell cfg.fl cfg.fr cfg.minW cell)
            ++ preItems cfg pre ++ secs)
          ++ fillItems cfg (cfg.pw side)
              (measure (gItems cfg (renderCell cfg.fl cfg.fr cfg.minW cell)
                ++ preItems cfg pre ++ secs))
              (fillFor cfg side secs.isEmpty idx bg sf)) :=
  panel_fits cfg side cell pre _ sf _ (panelLine_text cfg cell pre st bg idx secs hne) hfit

/-- **sbs_sides** (iii). Row of an alignment entry: with `(Some i, None)` the left panel is built from
display row `i` of the removed side and the right panel from *no* sections; with `(None, Some j)` the
other way round; with `(Some i, Some j)` each side shows its own row. Removed text can only reach the
left panel, added text only the right one. -/
theorem sbs_sides (cfg : SbsRow.Cfg) (s : Sides) (c c' : Counters) (mi pi : Option Nat) (row : SbsRow.Row)
    (h : blockRow cfg s c mi pi = .ok (c', row)) :
    ∃ hl hr,
      panel cfg .left row.cells.l (prefixFor cfg .left hl.st) hl (shouldFillOf cfg Generated.SbsRow.blockShouldFill.1)
        = .ok row.left ∧
      panel cfg .right row.cells.r (prefixFor cfg .right hr.st) hr (shouldFillOf cfg Generated.SbsRow.blockShouldFill.2)
        = .ok row.right ∧
      (match mi with
       | some i => hl.hasIndex = true ∧ s.rowsL[i]? = some hl.secs ∧ s.sl[i]? = some hl.st
       | none => hl.hasIndex = false ∧ hl.secs = []) ∧
      (match pi with
       | some j => hr.hasIndex = true ∧ s.rowsR[j]? = some hr.secs ∧ s.sr[j]? = some hr.st
       | none => hr.hasIndex = false ∧ hr.secs = []) := by
  obtain ⟨hl, hr, h1, h2, h3, h4⟩ := blockRow_halves cfg s c c' mi pi row h
  refine ⟨hl, hr, h3, h4, ?_, ?_⟩
  · cases mi with
    | none => rw [halfOf_none] at h1; cases h1; exact ⟨rfl, rfl⟩
    | some i => exact halfOf_some _ _ _ _ i hl h1
  · cases pi with
    | none => rw [halfOf_none] at h2; cases h2; exact ⟨rfl, rfl⟩
    | some j => exact halfOf_some _ _ _ _ j hr h2

/-- **sbs_empty_half_blank** (iii). The half of a row that holds no line is blank: its panel line is
the gutter alone — no marker column, no text, no empty-line marker — whatever the options. -/
theorem sbs_empty_half_blank (cfg : SbsRow.Cfg) (cell : Option Cell) (pre : Option String) (st : LineNumbers.St) (bg : Bool) :
    panelLine cfg cell pre ⟨false, st, [], bg⟩ = .ok (gItems cfg (renderCell cfg.fl cfg.fr cfg.minW cell)) :=
  panelLine_blank cfg cell pre st bg

/-- **sbs_gutter_cells_are_c05** The gutter cells of the rows of a subhunk are exactly those of the C05
counter machine over the same alignment (so `sbs_numbers_true` etc. apply to the composed row). -/
theorem sbs_gutter_cells_are_c05 (cfg : SbsRow.Cfg) (s : Sides) (al : Alignment) (c c' : Counters) (rows : List SbsRow.Row)
    (h : blockRowsGo cfg s c al = .ok (c', rows)) :
    LineNumbers.sbsRows c s.sl s.sr s.rl s.rr al = .ok (c', rows.map (·.cells)) ∧ rows.length = al.length :=
  ⟨blockRowsGo_cells cfg s al c c' rows h, blockRowsGo_length cfg s al c c' rows h⟩

/-- **sbs_gutter_width_constant.** The rendered number gutter of a panel has exactly the width
`formatted_width()` computes from the format string and `hunk_max_line_number_width` — on every
row, whichever numbers are shown or blank — so that the text area (`available_line_width` = panel
width minus this, minus the marker column) starts at the same column on every row. Hypotheses:
`WfPH` (the shape `parse_line_number_format` produces; decidable; the `{nm}`/`{np}` restriction is
needed: `Placeholder::Str` is `unreachable!` here), and the numbers shown have at most
`hunk_max_line_number_width` digits (C05; a longer number widens its field: `pad_width`). -/
theorem sbs_gutter_width_constant (fd : List PH) (minW : Nat) (minus plus : Option Nat)
    (hwf : ∀ ph ∈ fd, WfPH ph) (hne : fd ≠ []) (hm : FitsW minW minus) (hp : FitsW minW plus) :
    (renderField fd minW minus plus).length = formattedWidth fd minW :=
  renderField_length fd minW minus plus hwf hne hm hp

/-- `panelWidthsV` is `new_sbs` + `sbs_odd_fix`: left = `w / 2`, right ≥ left, sum ≤ `w`; for a fixed
width it is the `panelWidths` of the earlier theorems. -/
theorem sbs_panel_widths (fixed : Bool) (w : Nat) (m : FillM) :
    (panelWidthsV fixed w m).1 = w / 2 ∧ (panelWidthsV fixed w m).1 ≤ (panelWidthsV fixed w m).2 ∧
    (panelWidthsV fixed w m).1 + (panelWidthsV fixed w m).2 ≤ w ∧
    (fixed = true → panelWidthsV fixed w m = panelWidths w (decide (m = .ansi))) :=
  panelWidthsV_spec fixed w m

/-! Concrete, non-trivial instances: `--width 41` (odd, ANSI fill option: panels 20 + 21), default
side-by-side formats, a subhunk `-ab` / `+日本` paired on one row, then an unmatched added line. -/

def exCfg : SbsRow.Cfg :=
  { pwL := 20, pwR := 21, lineFill := .ansi, keepMarkers := true, bgExtends := true,
    fl := (parseFormat "│{nm:^4}│".toList false).toOption.getD [],
    fr := (parseFormat "│{np:^4}│".toList true).toOption.getD [],
    minW := 2, cw := [], tail := [.text [⟨"→", 1⟩]], ansiSeq := "\x1b[0K" }

example : (exCfg.pwL, exCfg.pwR) = panelWidthsV true 41 .ansi := by decide

example : (∀ ph ∈ exCfg.fl, WfPH ph) ∧ exCfg.fl ≠ [] ∧ formattedWidth exCfg.fl 2 = 6 ∧ formattedWidth exCfg.fr 2 = 7 := by
  decide

example :
    (blockRows exCfg ⟨10, 10⟩ 1 2 [(some 0, some 0), (none, some 1)] [1] [1, 1] [] []
        [[.text [⟨"a", 1⟩, ⟨"b", 1⟩]]] [[.text [⟨"日", 2⟩, ⟨"本", 2⟩]], [.text [⟨"x", 1⟩]]] [true] [true, false]).toOption.map
      (fun r => r.2.map fun row => (measure row.left, measure row.right))
    = some [(20, 12), (20, 9)] := by
  decide

example : Generated.wrapTruncStopsAfterCut = true := rfl

end SbsRow

end C07
