import Proofs.WrapMain
/-!
C07 — side-by-side view: correct panels, fixed geometry, lossless wrapping.

The theorems are about the model functions the driver `drv_wrap` executes
(`Wrap.wrapFull` / `Wrap.wrapLine`, `Wrap.step`, `Wrap.loop`, …); the correspondence check
ties those to `/repo/src/wrapping.rs` and `/repo/src/features/side_by_side.rs`.
-/
namespace C07
open Wrap

/-- The default `WrapConfig` (symbols, limit, threshold regenerated from `cli.rs`). -/
def defaultCfg : Cfg :=
  { leftSym := ⟨Generated.defaultWrapLeftSymbol, 1⟩, rightSym := ⟨Generated.defaultWrapRightSymbol, 1⟩,
    rightPrefixSym := ⟨Generated.defaultWrapRightPrefixSymbol, 1⟩,
    permille := Generated.defaultRightPermille, maxLines := Generated.defaultMaxLines }

/-! ## Lossless wrapping -/

/-- **wrap_lossless.** Removing the inserted sections (the wrap symbol closing each of the
first `nSym` rows; the padding and prefix symbol of a right-aligned row) and concatenating the
rows gives back the input — styles included — except for a tail of total display width 0 (in
practice the line's final newline), which is dropped only when it would start a row of its
own. -/
theorem wrap_lossless (cfg : Cfg) (line : List Sec) (lw fill : Nat) (hint : Option Nat) (o : Out)
    (hz : NlZero line) (h : wrapFull cfg line lw fill hint = .ok o) :
    ∃ tail, explode (unwrapOut o) ++ tail = explode line ∧ explodeWidth tail = 0 ∧
      (tail ≠ [] → o.rows.length = o.nSym) := by
  obtain ⟨st, stop, hl, hr, _, hd, hshape⟩ := wrapFull_spec hz h
  have htext := hl.text
  cases hshape with
  | plain h0 hs =>
    refine ⟨[], ?_, rfl, fun h => absurd rfl h⟩
    rw [← htext, hs]
    simp [unwrapOut, stripResult]
  | dropped h0 hs =>
    refine ⟨explode st.curr, ?_, ?_, fun _ => rfl⟩
    · rw [← htext, hs]
      simp [unwrapOut, stripResult, explode_append]
    · rw [explodeWidth_explode, hl.len, h0]
  | right r hres hne h0 hs hlw hpm hpad =>
    refine ⟨[], ?_, rfl, fun h => absurd rfl h⟩
    rw [← htext, hs, hres]
    simp [unwrapOut, stripResult, setLastText_dropLast]
  | limit hs =>
    have hlim := (step_done_lineLimit hd).2
    obtain ⟨hc, _⟩ := hl.fresh hlim
    refine ⟨[], ?_, rfl, fun h => absurd rfl h⟩
    rw [← htext, hc]
    simp [unwrapOut, stripResult]

example : NlZero [(0, [⟨"a", 1⟩, ⟨"日", 2⟩]), (1, [⟨"b", 1⟩, ⟨"\n", 0⟩])] := by
  intro sec hsec g hg hs
  simp at hsec
  rcases hsec with rfl | rfl <;> simp at hg <;> rcases hg with rfl | rfl <;> simp_all

/-- **wrap_symbols_present.** Each of the first `nSym` rows ends with an inserted section in
the symbol style holding the left wrap symbol (or the right wrap symbol on the first row when
the second row is right-aligned): a continued line is visibly marked. -/
theorem wrap_symbols_present (cfg : Cfg) (line : List Sec) (lw fill : Nat) (hint : Option Nat) (o : Out)
    (hz : NlZero line) (hs1 : cfg.leftSym.w ≤ 1) (h : wrapFull cfg line lw fill hint = .ok o) :
    ∀ r ∈ o.rows.take o.nSym, ∃ init s, r = init ++ [(symStyleOf fill hint, [s])] ∧
      (s = cfg.leftSym ∨ s = cfg.rightSym) := by
  obtain ⟨st, stop, hl, hr, hw, hd, hshape⟩ := wrapFull_spec hz h
  have hrows := (hw hs1).rows
  cases hshape with
  | plain h0 hs =>
    intro r hr; simp at hr
    obtain ⟨⟨init, hi⟩, _⟩ := hrows r hr
    exact ⟨init, cfg.leftSym, hi, Or.inl rfl⟩
  | dropped h0 hs =>
    intro r hr; simp at hr
    obtain ⟨⟨init, hi⟩, _⟩ := hrows r hr
    exact ⟨init, cfg.leftSym, hi, Or.inl rfl⟩
  | right r0 hres hne h0 hs hlw hpm hpad =>
    intro r hr; simp at hr
    obtain ⟨⟨init, hi⟩, _⟩ := hrows r0 (by rw [hres]; simp)
    subst hr
    exact ⟨init, cfg.rightSym, by rw [hi, setLastText_concat], Or.inr rfl⟩
  | limit hs =>
    intro r hr; simp at hr
    obtain ⟨⟨init, hi⟩, _⟩ := hrows r hr
    exact ⟨init, cfg.leftSym, hi, Or.inl rfl⟩

/-! ## Row widths -/

/-- **wrap_row_width.** With wrap symbols of display width ≤ 1 (delta requires width 1):
every row that ends in a wrap symbol fits the line width; when the loop ended because the
input was used up, *every* row fits; only when the line limit stopped the wrapping can the
last row (the unwrapped rest, cut later by `truncate_str`) be wider — and then the number of
rows is exactly the limit. -/
theorem wrap_row_width (cfg : Cfg) (line : List Sec) (lw fill : Nat) (hint : Option Nat) (o : Out)
    (hz : NlZero line) (hs1 : cfg.leftSym.w ≤ 1) (hs2 : cfg.rightSym.w ≤ cfg.leftSym.w)
    (h : wrapFull cfg line lw fill hint = .ok o) :
    (∀ r ∈ o.rows.take o.nSym, rowWidth r ≤ lw) ∧
    (o.stop = .stackEmpty → ∀ r ∈ o.rows, rowWidth r ≤ lw) ∧
    (o.stop = .lineLimit → o.rows.length = effMax cfg lw ∧ o.nSym + 1 = o.rows.length) := by
  obtain ⟨st, stop, hl, hr, hw, hd, hshape⟩ := wrapFull_spec hz h
  have hW := hw hs1
  have hrows := hW.rows
  cases hshape with
  | plain h0 hs =>
    refine ⟨?_, ?_, fun h => by cases h⟩
    · intro r hr; simp at hr; exact (hrows r hr).2
    · intro _ r hr
      simp at hr
      cases hr with
      | inl h => exact (hrows r h).2
      | inr h => subst h; rw [hl.len]; exact hW.lenle
  | dropped h0 hs =>
    refine ⟨?_, ?_, fun h => by cases h⟩
    · intro r hr; simp at hr; exact (hrows r hr).2
    · intro _ r hr; exact (hrows r hr).2
  | right r0 hres hne h0 hs hlw hpm hpad =>
    obtain ⟨⟨init, hi⟩, hwd⟩ := hrows r0 (by rw [hres]; simp)
    have h1 : rowWidth (setLastText cfg.rightSym r0) ≤ lw := by
      rw [hi, setLastText_concat, rowWidth_append, rowWidth_sym]
      rw [hi, rowWidth_append, rowWidth_sym] at hwd
      omega
    refine ⟨?_, ?_, fun h => by cases h⟩
    · intro r hr; simp at hr; subst hr; exact h1
    · intro _ r hr
      simp at hr
      cases hr with
      | inl h => subst h; exact h1
      | inr h =>
        subst h
        rw [rowWidth_append, rowWidth_padSecs]
        simp only [rowWidth, gsWidth, hl.len]
        omega
  | limit hs =>
    have hlim := (step_done_lineLimit hd).2
    have hpos : 0 < effMax cfg lw := by
      unfold limitReached at hlim; simp at hlim; exact hlim.1
    have hcnt := hl.count hpos
    refine ⟨?_, (fun h => by cases h), ?_⟩
    · intro r hr; simp at hr; exact (hrows r hr).2
    · intro _
      unfold limitReached at hlim
      simp at hlim ⊢
      omega

example : defaultCfg.leftSym.w ≤ 1 ∧ defaultCfg.rightSym.w ≤ defaultCfg.leftSym.w := by decide

/-- **wrap_unlimited_not_cut.** Without a line limit (`--wrap-max-lines unlimited`, line width
at least 2) the loop can only stop because the whole line has been placed. -/
theorem wrap_unlimited_not_cut (cfg : Cfg) (line : List Sec) (lw fill : Nat) (hint : Option Nat) (o : Out)
    (hz : NlZero line) (hu : effMax cfg lw = 0) (h : wrapFull cfg line lw fill hint = .ok o) :
    o.stop = .stackEmpty := by
  obtain ⟨st, stop, hl, hr, hw, hd, hshape⟩ := wrapFull_spec hz h
  cases hshape with
  | plain h0 hs => rfl
  | dropped h0 hs => rfl
  | right r0 hres hne h0 hs hlw hpm hpad => rfl
  | limit hs =>
    have hlim := (step_done_lineLimit hd).2
    rw [hu] at hlim
    simp [limitReached] at hlim

/-- **wrap_row_count.** A line limit bounds the number of rows. -/
theorem wrap_row_count (cfg : Cfg) (line : List Sec) (lw fill : Nat) (hint : Option Nat) (o : Out)
    (hz : NlZero line) (hpos : 0 < effMax cfg lw) (h : wrapFull cfg line lw fill hint = .ok o) :
    o.rows.length ≤ effMax cfg lw := by
  obtain ⟨st, stop, hl, hr, hw, hd, hshape⟩ := wrapFull_spec hz h
  have hcnt := hl.count hpos
  cases hshape with
  | plain h0 hs => simp; omega
  | dropped h0 hs => simp; omega
  | right r0 hres hne h0 hs hlw hpm hpad =>
    rw [hres] at hcnt; simp at hcnt ⊢; omega
  | limit hs => simp; omega

/-! ## Progress and termination -/

/-- **wrap_progress.** The exact condition for progress. At the start of a row (`len = 0`),
when the next section has to be split (wrap symbol narrower than the row), the iteration
consumes at least one cluster **iff** the first cluster leaves room for the wrap symbol:
`g.w + symbol width ≤ line_width`. -/
theorem wrap_progress (cfg : Cfg) (sym lw : Nat) (st : St) (style : Nat) (g : G) (gs : List G)
    (rest : List Sec) (hs : st.stack = (style, g :: gs) :: rest) (h0 : st.len = 0)
    (hl : limitReached (effMax cfg lw) st.result.length = false)
    (hsym : cfg.leftSym.w < lw)
    (hge : lw ≤ gsWidth (g :: gs))
    (hnf : ¬ (gsWidth (g :: gs) = lw ∧ (rest = [] ∨ isLoneNl rest = true))) :
    ∃ st', step cfg sym lw st = .next st' ∧
      (clusterCount st'.stack < clusterCount st.stack ↔ g.w + cfg.leftSym.w ≤ lw) := by
  match hstep : step cfg sym lw st with
  | .done .stackEmpty => rw [step_done_stackEmpty hstep] at hs; cases hs
  | .done .lineLimit => have := (step_done_lineLimit hstep).2; rw [hl] at this; cases this
  | .next st' =>
    refine ⟨st', rfl, ?_⟩
    have hrel := step_next hstep
    cases hrel with
    | push style' gs' rest' hs' hl' hfit =>
      rw [hs] at hs'; cases hs'
      rw [h0] at hfit
      cases hfit with
      | inl h => omega
      | inr h => exact absurd ⟨by omega, Or.inl h.2⟩ hnf
    | nl style' gs' rest' hs' hl' heq hnl =>
      rw [hs] at hs'; cases hs'
      rw [h0] at heq
      exact absurd ⟨by omega, Or.inr hnl⟩ hnf
    | split0 style' gs' rest' hs' hl' hge' hnf' hw =>
      rw [hs] at hs'; cases hs'
      rw [h0] at hw
      omega
    | splitk style' gs' rest' hs' hl' hge' hnf' hw =>
      rw [hs] at hs'; cases hs'
      simp only [hs, clusterCount, h0, Nat.zero_add]
      by_cases hfit : g.w + cfg.leftSym.w ≤ lw
      · have := takeFit_progress ((gsWidth (g :: gs) - (gsWidth (g :: gs) - lw)) - cfg.leftSym.w) g gs (by omega)
        simp only [List.length_cons] at this ⊢
        constructor
        · intro _; exact hfit
        · intro _; omega
      · rw [takeFit_stuck _ g gs (by omega)]
        simp only [List.length_cons]
        constructor
        · intro h; omega
        · intro h; exact absurd h hfit

/-- **wrap_terminates.** The loop finishes within the fuel the executable model uses (so the
model — and the code it mirrors — terminates) whenever a line limit is in force, or every
cluster of the line leaves room for the wrap symbol on a row. -/
theorem wrap_terminates (cfg : Cfg) (line : List Sec) (lw fill : Nat) (hint : Option Nat)
    (h : 0 < effMax cfg lw ∨ Fits cfg lw line) :
    ∃ o, wrapFull cfg line lw fill hint = .ok o := by
  have hloop : ∃ r, loop cfg (symStyleOf fill hint) lw (fuelFor cfg lw line) (initSt line) = some r := by
    cases h with
    | inl hp => exact loop_terminates_limited cfg _ lw line hp
    | inr hf => exact loop_terminates_fits cfg _ lw line hf
  obtain ⟨r, hr⟩ := hloop
  cases wrapFull_result cfg line lw fill hint with
  | inl hh =>
    unfold wrapFull at hh
    rw [hr] at hh
    obtain ⟨o, ho⟩ := finish_no_panic (cfg := cfg) (fill := fill) (sym := symStyleOf fill hint) (lw := lw)
      (st := r.1) (stop := r.2)
      ((loop_inv (cfg := cfg) (sym := symStyleOf fill hint) (lw := lw) (fun st => InvR lw st)
        (fun s s' a hs => invR_step s s' a hs) _ _ r.1 r.2 (invR_init lw line) hr).1)
    simp only [ho] at hh
    cases hh
  | inr ho => exact ho

example : Fits defaultCfg 3 [(0, [⟨"a", 1⟩, ⟨"日", 2⟩, ⟨"b", 1⟩])] := by
  intro sec hsec g hg
  simp at hsec; subst hsec
  simp at hg
  rcases hg with rfl | rfl | rfl <;> decide

/-- **wrap_never_panics.** `wrap_line` has no reachable panic point (the division by
`line_width`, the `unreachable!`, the `unwrap`): the only way the model fails is by not
terminating. -/
theorem wrap_never_panics (cfg : Cfg) (line : List Sec) (lw fill : Nat) (hint : Option Nat) (msg : String) :
    wrapFull cfg line lw fill hint ≠ .error (.panic msg) := by
  cases wrapFull_result cfg line lw fill hint with
  | inl h => rw [h]; intro h'; cases h'
  | inr h => obtain ⟨o, ho⟩ := h; rw [ho]; intro h'; cases h'

/-- **wrap_no_progress (defect, unchanged tree).** A state at the start of a row whose next
cluster is wider than `line_width − symbol width`, with no line limit, never leaves the loop:
each iteration emits a row holding only the wrap symbol and returns to the same stack. -/
theorem wrap_no_progress (cfg : Cfg) (sym lw : Nat) (st : St) (h : Stuck cfg lw st) :
    ∀ fuel, loop cfg sym lw fuel st = none :=
  fun fuel => stuck_never_terminates fuel st h

/-- The concrete witness: one CJK character (width 2), line width 2, default symbols,
`--wrap-max-lines unlimited`. -/
def hangCfg : Cfg := { defaultCfg with maxLines := 0 }
def hangLine : List Sec := [(0, [⟨"日", 2⟩, ⟨"本", 2⟩, ⟨"\n", 0⟩])]

theorem wrap_hang_witness :
    (∀ fuel, loop hangCfg 0 2 fuel (initSt hangLine) = none) ∧
    wrapFull hangCfg hangLine 2 0 none = .error .hang := by
  have hstuck : Stuck hangCfg 2 (initSt hangLine) :=
    ⟨by decide, rfl, rfl, 0, ⟨"日", 2⟩, [⟨"本", 2⟩, ⟨"\n", 0⟩], [], rfl, by decide, by decide, by decide⟩
  refine ⟨fun fuel => stuck_never_terminates fuel _ hstuck, ?_⟩
  unfold wrapFull
  rw [stuck_never_terminates (cfg := hangCfg) (sym := symStyleOf 0 none) (lw := 2) _ _ hstuck]

/-- With a line limit the same input terminates, but every row before the last holds nothing
but the wrap symbol (the rows the user sees in place of the text). -/
theorem wrap_junk_rows_witness :
    wrapLine { defaultCfg with maxLines := 3 } hangLine 2 0 none =
      .ok [[(0, []), (0, [⟨Generated.defaultWrapLeftSymbol, 1⟩])],
           [(0, []), (0, [⟨Generated.defaultWrapLeftSymbol, 1⟩])],
           [(0, [⟨"日", 2⟩, ⟨"本", 2⟩, ⟨"\n", 0⟩])]] := by
  rfl

end C07
