import DeltaModel.Pager
import Proofs.Pager
import Proofs.PagerTail
/-!
C18 — exit status and pager protocol: all output delivered, quits are silent.

All theorems are about `Pager.runResult`, `Pager.run`, `Pager.select`, `Pager.launch` — the
functions the driver `drv_pager` executes — which interpret `Generated.PagerShape` (the match
arms, exit-code literals, statement order, precedence order and rewriting rule re-extracted
from `src/main.rs`, `src/utils/bat/output.rs`, `src/env.rs` on every check).

What is proved here is the *decision logic*. That the kernel reports a vanished reader as
`EPIPE` on a `write`, that `wait` blocks until the pager is gone, that `process::exit` ends the
process: runtime behaviour, exercised on the real binary by fault enumeration
(`vlib/props/c18.py`), not proved.
-/
namespace C18
open Pager Generated

/-! ### Rendering path cannot panic on a closed reader through `print!` -/

/-- No `print!`/`println!`/`dbg!` and no `write!(..).unwrap()` outside the one-shot subcommand
    files: every rendering write is fallible and its error reaches `run_app`. -/
theorem render_path_writes_fallible :
    PagerShape.renderPathPrints = [] ∧ PagerShape.renderPathWriteUnwraps = [] := by decide

/-! ### The reader goes away: status 0, nothing on stderr — for every fault position -/

/-- Modes in which delta renders (stdin, `delta a b`, `delta git/rg …`) plus the listing
    subcommands matched in `run_app`. -/
def rendering : Mode → Prop
  | .stdin => True
  | .sub _ spawnOk _ _ => spawnOk = true
  | .early => True
  | _ => False

theorem broken_pipe_silent_zero (m : Mode) (hm : rendering m) (pager : Bool) (writes pos : Nat)
    (h : pos < writes) :
    runResult ⟨m, pager, writes, some ⟨pos, .brokenPipe⟩⟩ = some ⟨0, true⟩ := by
  cases m with
  | stdin => simp [runResult, shapeOk_true, body, effectiveFault, h, onError_stdin_bp]
  | sub k ok st n =>
    simp [rendering] at hm; subst hm
    simp [runResult, shapeOk_true, body, effectiveFault, h, onError_sub_bp]
  | early => simp [runResult, shapeOk_true, body, effectiveFault, h, onError_early_bp]
  | stdinTty => simp [rendering] at hm
  | diffArgsError => simp [rendering] at hm
  | oneshot => simp [rendering] at hm
  | setupAbort i => simp [rendering] at hm
  | renderAbort i => simp [rendering] at hm

example : rendering (.sub .git true (some 128) 3) ∧ (41 : Nat) < 42 := by simp [rendering]

/-- `--version`, `--help`, `--show-config` leave `run_app` through `?`. What a closed reader
    gives there is decided by how `main` treats the `Err` — on the tree as extracted:
    `propagate`, i.e. the statement "status 0, silent" is FALSE for these three (Rust prints
    `Error: Os { code: 32, kind: BrokenPipe, .. }` and exits with 1). Confirmed on the binary
    (known finding `oneshot-broken-pipe`); with the proposed fix (`brokenpipe-zero`) the same
    theorem gives `⟨0, true⟩`. -/
theorem oneshot_broken_pipe_partial (pager : Bool) (writes pos : Nat) (h : pos < writes) :
    runResult ⟨.oneshot, pager, writes, some ⟨pos, .brokenPipe⟩⟩ =
      if PagerShape.mainErrPolicy = "brokenpipe-zero" then some ⟨0, true⟩ else some ⟨1, false⟩ := by
  simp only [runResult, shapeOk_true, body, effectiveFault, h]
  by_cases hp : PagerShape.mainErrPolicy = "propagate"
  · have : ¬ PagerShape.mainErrPolicy = "brokenpipe-zero" := by rw [hp]; decide
    simp [hp]
  · by_cases hq : PagerShape.mainErrPolicy = "brokenpipe-zero"
    · simp [hq]
    · exfalso
      revert hp hq
      decide

-- (hypothesis satisfiable; the concrete value is not fixed here because it is the one the fix changes:
--  `⟨1, false⟩` on the tree as pinned, `⟨0, true⟩` once `main` maps BrokenPipe to 0)
example : effectiveFault ⟨.oneshot, false, 12, some ⟨3, .brokenPipe⟩⟩ = some ⟨3, .brokenPipe⟩ := by decide

/-- Any other write error: message, `error_exit_code` (2). -/
theorem other_error_reported (m : Mode) (hm : m = .stdin ∨ ∃ k st n, m = .sub k true st n)
    (pager : Bool) (writes pos : Nat) (h : pos < writes) :
    runResult ⟨m, pager, writes, some ⟨pos, .other⟩⟩ = some ⟨2, false⟩ := by
  rcases hm with rfl | ⟨k, st, n, rfl⟩
  · simp [runResult, shapeOk_true, body, effectiveFault, h, onError_stdin_other]
  · simp [runResult, shapeOk_true, body, effectiveFault, h, onError_sub_other]

example : runResult ⟨.sub .rg true (some 0) 0, true, 20, some ⟨19, .other⟩⟩ = some ⟨2, false⟩ := by decide

/-! ### Exit status -/

/-- Reading from stdin, nothing failing: status 0, silent. -/
theorem stdin_mode_exit_zero (pager : Bool) (writes : Nat) (fault : Option Fault)
    (h : effectiveFault ⟨.stdin, pager, writes, fault⟩ = none) :
    runResult ⟨.stdin, pager, writes, fault⟩ = some ⟨0, true⟩ := by
  simp [runResult, shapeOk_true, body, h, stdinTail_zero]

example : effectiveFault ⟨.stdin, true, 9, none⟩ = none := by decide
example : effectiveFault ⟨.stdin, true, 9, some ⟨9, .other⟩⟩ = none := by decide

/-- Stdin mode, whatever happens: the status is 0 or 2, and 2 only with a message. -/
theorem stdin_mode_status_range (pager : Bool) (writes : Nat) (fault : Option Fault) :
    runResult ⟨.stdin, pager, writes, fault⟩ = some ⟨0, true⟩ ∨
    runResult ⟨.stdin, pager, writes, fault⟩ = some ⟨2, false⟩ := by
  cases hf : effectiveFault ⟨.stdin, pager, writes, fault⟩ with
  | none => left; simp [runResult, shapeOk_true, body, hf, stdinTail_zero]
  | some f =>
    obtain ⟨pos, k⟩ := f
    cases k
    · left; simp [runResult, shapeOk_true, body, hf, onError_stdin_bp]
    · right; simp [runResult, shapeOk_true, body, hf, onError_stdin_other]

/-- The whole event list of a run of a child process (differ or wrapped command) when no write
    fails: pager first, every write, then the child is waited for, the pager's stdin is closed,
    the pager is waited for, and delta exits with the child's status. -/
theorem sub_mode_run (k : SubKind) (st : Int) (n : Nat) (pager : Bool) (writes : Nat)
    (fault : Option Fault)
    (h : effectiveFault ⟨.sub k true (some st) n, pager, writes, fault⟩ = none) :
    run ⟨.sub k true (some st) n, pager, writes, fault⟩ =
      (if pager then [Event.spawnPager] else []) ++ [Event.spawnSub]
      ++ List.replicate writes Event.writeOk ++ [Event.waitSub]
      ++ msg (n == 0 && !failMsg k st)
      ++ (if pager then [Event.closePager, Event.waitPager] else []) ++ [Event.exit st] := by
  cases pager <;>
    simp [run, shapeOk_true, body, h, subStatusFromCode_true, subTail_status, hasPager,
      usesOutputType, renderEvents, dropWaits]

/-- `delta a b`: delta's status is the differ's (0 same, 1 different, ≥ 2 trouble), after the
    whole output has been rendered (`sub_mode_run`); silent unless the differ wrote to stderr
    or reported trouble. -/
theorem diff_mode_status (k : SubKind) (hk : k = .gitDiff ∨ k = .diff) (st : Int) (n : Nat)
    (pager : Bool) (writes : Nat) (fault : Option Fault)
    (h : effectiveFault ⟨.sub k true (some st) n, pager, writes, fault⟩ = none) :
    runResult ⟨.sub k true (some st) n, pager, writes, fault⟩
      = some ⟨st, n == 0 && decide (st < 2)⟩ := by
  have hfm : failMsg k st = decide (2 ≤ st) := by
    rcases hk with rfl | rfl <;>
      simp only [failMsg, PagerShape.failMsgKinds, SubKind.name, PagerShape.failMsgFrom] <;> rfl
  simp only [runResult, shapeOk_true, body, h, subStatusFromCode_true, subTail_status, hfm]
  have : (!decide (2 ≤ st)) = decide (st < 2) := by
    by_cases h2 : 2 ≤ st <;> simp [h2] <;> omega
  simp [this]

example : effectiveFault ⟨.sub .gitDiff true (some 1) 0, true, 41, none⟩ = none := by decide

/-- `delta git …` / `delta rg …` (and the differs): the child's status is delta's status. -/
theorem subcommand_status_passthrough (k : SubKind) (st : Int) (n : Nat) (pager : Bool)
    (writes : Nat) (fault : Option Fault)
    (h : effectiveFault ⟨.sub k true (some st) n, pager, writes, fault⟩ = none) :
    (runResult ⟨.sub k true (some st) n, pager, writes, fault⟩).map (·.code) = some st := by
  simp [runResult, shapeOk_true, body, h, subStatusFromCode_true, subTail_status]

example : effectiveFault ⟨.sub .rg true (some 129) 2, false, 7, some ⟨7, .brokenPipe⟩⟩ = none := by decide

/-- The early returns of the subcommand branch: the command cannot be started → 2 with a
    message; it was killed by a signal → 2 with a message; the reader went away → 0 silent
    (after waiting for the child); another write error → 2 with a message. -/
theorem subcommand_early_returns (k : SubKind) (st : Option Int) (n : Nat) (pager : Bool)
    (writes : Nat) :
    (∀ fault, runResult ⟨.sub k false st n, pager, writes, fault⟩ = some ⟨2, false⟩) ∧
    (∀ fault, effectiveFault ⟨.sub k true none n, pager, writes, fault⟩ = none →
       runResult ⟨.sub k true none n, pager, writes, fault⟩ = some ⟨2, false⟩) ∧
    (∀ pos, pos < writes →
       runResult ⟨.sub k true st n, pager, writes, some ⟨pos, .brokenPipe⟩⟩ = some ⟨0, true⟩ ∧
       Event.waitSub ∈ run ⟨.sub k true st n, pager, writes, some ⟨pos, .brokenPipe⟩⟩) ∧
    (∀ pos, pos < writes →
       runResult ⟨.sub k true st n, pager, writes, some ⟨pos, .other⟩⟩ = some ⟨2, false⟩) := by
  refine ⟨?_, ?_, ?_, ?_⟩
  · intro fault
    have hs := spawnFail_exit
    cases hx : spawnFailExit with
    | none => simp [hx] at hs
    | some x =>
      simp [hx] at hs
      simp [runResult, shapeOk_true, body, hx, hs]
  · intro fault h
    simp [runResult, shapeOk_true, body, h, subStatusFromCode_true, subNoStatus_true,
      subTail_status, subNoStatusPrints_true, errorExitCode_two]
  · intro pos h
    constructor
    · simp [runResult, shapeOk_true, body, effectiveFault, h, onError_sub_bp]
    · simp [run, shapeOk_true, body, effectiveFault, h, onError_sub_bp]
  · intro pos h
    simp [runResult, shapeOk_true, body, effectiveFault, h, onError_sub_other]

example : runResult ⟨.sub .git false none 0, true, 5, none⟩ = some ⟨2, false⟩ ∧
    runResult ⟨.sub .diff true none 0, false, 5, none⟩ = some ⟨2, false⟩ := by decide

/-! ### Pager selection -/

/-- `--pager`/`delta.pager`, then `DELTA_PAGER`, then what bat makes of `BAT_PAGER`/`PAGER`,
    then `less`. (The flag is `replace_arguments_to_less`.) -/
theorem pager_precedence (e : Env) :
    (∀ c, e.config = some c → ∃ r, select e = some ⟨.config, c, r⟩ ∧ r = false) ∧
    (e.config = none → ∀ d, e.deltaPager = some d → select e = some ⟨.deltaPager, d, false⟩) ∧
    (e.config = none → e.deltaPager = none → ∀ b, e.bat = some b →
       select e = some ⟨.batEnv, b, true⟩) ∧
    (e.config = none → e.deltaPager = none → e.bat = none →
       select e = some ⟨.default, ["less"], false⟩) := by
  obtain ⟨cfg, dp, bat⟩ := e
  refine ⟨?_, ?_, ?_, ?_⟩
  · intro c hc
    simp only at hc; subst hc
    cases dp <;> cases bat <;>
      simp [select, fromEnvArms, slotValue, PagerShape.envArms, PagerShape.envSlots,
        PagerShape.sourceChain, PagerShape.configClearsReplace]
  · intro hc d hd
    simp only at hc hd; subst hc; subst hd
    simp [select, fromEnvArms, slotValue, PagerShape.envArms, PagerShape.envSlots,
      PagerShape.sourceChain]
  · intro hc hd b hb
    simp only at hc hd hb; subst hc; subst hd; subst hb
    simp [select, fromEnvArms, slotValue, PagerShape.envArms, PagerShape.envSlots,
      PagerShape.sourceChain]
  · intro hc hd hb
    simp only at hc hd hb; subst hc; subst hd; subst hb
    simp [select, fromEnvArms, slotValue, PagerShape.envArms, PagerShape.envSlots,
      PagerShape.sourceChain, PagerShape.defaultPager, PagerShape.replaceInitially]

example : select ⟨some ["most", "-s"], some ["less", "-X"], some ["less"]⟩
    = some ⟨.config, ["most", "-s"], false⟩ := by decide
example : select ⟨none, some ["bat", "-p"], some ["less"]⟩
    = some ⟨.deltaPager, ["bat", "-p"], false⟩ := by decide

/-- The arguments are delta's to choose when the user gave none, or when the command comes from
    `PAGER`/`BAT_PAGER` (shared with other programs): less then gets `--RAW-CONTROL-CHARS`. -/
theorem less_gets_R_when_args_ours (e : Env) (ver : Option Nat) (q : Bool) (sel : Selection)
    (path : String) (args : List String)
    (hs : select e = some sel) (hw : sel.words = path :: args) (hl : isLess path = true)
    (ours : args = [] ∨ sel.source = .batEnv) :
    ∃ argv, launch e ver q = .less path argv ∧ "--RAW-CONTROL-CHARS" ∈ argv := by
  have hrep : args = [] ∨ sel.replace = true := by
    rcases ours with h | h
    · exact Or.inl h
    · right
      obtain ⟨cfg, dp, bat⟩ := e
      have hp := pager_precedence ⟨cfg, dp, bat⟩
      cases cfg with
      | some c =>
        obtain ⟨r, hr, _⟩ := hp.1 c rfl
        rw [hr] at hs; cases hs; simp at h
      | none =>
        cases dp with
        | some d =>
          have := hp.2.1 rfl d rfl
          rw [this] at hs; cases hs; simp at h
        | none =>
          cases bat with
          | some b =>
            have := hp.2.2.1 rfl rfl b rfl
            rw [this] at hs; cases hs; rfl
          | none =>
            have := hp.2.2.2 rfl rfl rfl
            rw [this] at hs; cases hs; simp at h
  have hany : anyCond args sel.replace PagerShape.rewriteWhenAnyOf = some true := by
    rcases hrep with h | h
    · subst h; simp [anyCond, condHolds, PagerShape.rewriteWhenAnyOf]
    · rw [h]; simp [anyCond, condHolds, PagerShape.rewriteWhenAnyOf]
  have hargs : ∃ a, oursArgs ver q PagerShape.oursOrder = some a ∧ "--RAW-CONTROL-CHARS" ∈ a := by
    cases ver with
    | none => cases q <;> simp [oursArgs, oursPiece, PagerShape.oursOrder, PagerShape.oursAlways]
    | some v =>
      by_cases hv : v < PagerShape.noInitBelow <;> cases q <;>
        simp [oursArgs, oursPiece, PagerShape.oursOrder, PagerShape.oursAlways, hv]
  obtain ⟨a, ha, hmem⟩ := hargs
  refine ⟨a, ?_, hmem⟩
  simp [launch, hs, hw, hl, hany, ha]

example : launch ⟨none, none, some ["less"]⟩ (some 590) true
    = .less "less" ["--RAW-CONTROL-CHARS", "--quit-if-one-screen"] := by decide
example : launch ⟨some ["/usr/bin/less"], none, none⟩ (some 487) false
    = .less "/usr/bin/less" ["--RAW-CONTROL-CHARS", "--no-init"] := by decide

/-- … and when the user chose the arguments (`--pager 'less -X'`, `DELTA_PAGER='less -X'`)
    they are passed on untouched. -/
theorem user_args_kept (e : Env) (ver : Option Nat) (q : Bool) (sel : Selection)
    (path : String) (a : String) (args : List String)
    (hs : select e = some sel) (hw : sel.words = path :: a :: args) (hl : isLess path = true)
    (theirs : sel.source = .config ∨ sel.source = .deltaPager) :
    launch e ver q = .less path (a :: args) := by
  have hrep : sel.replace = false := by
    obtain ⟨cfg, dp, bat⟩ := e
    have hp := pager_precedence ⟨cfg, dp, bat⟩
    cases cfg with
    | some c =>
      obtain ⟨r, hr, hr2⟩ := hp.1 c rfl
      rw [hr] at hs; cases hs; exact hr2
    | none =>
      cases dp with
      | some d =>
        have := hp.2.1 rfl d rfl
        rw [this] at hs; cases hs; rfl
      | none =>
        cases bat with
        | some b =>
          have := hp.2.2.1 rfl rfl b rfl
          rw [this] at hs; cases hs; simp at theirs
        | none =>
          have := hp.2.2.2 rfl rfl rfl
          rw [this] at hs; cases hs; simp at theirs
  have hany : anyCond (a :: args) sel.replace PagerShape.rewriteWhenAnyOf = some false := by
    rw [hrep]; simp [anyCond, condHolds, PagerShape.rewriteWhenAnyOf]
  simp [launch, hs, hw, hl, hany, PagerShape.elseKeepsUserArgs]

example : launch ⟨none, some ["less", "-X", "-F"], some ["less"]⟩ (some 590) true
    = .less "less" ["-X", "-F"] := by decide

/-! ### Starting less under `navigate` cannot panic -/

/-- The invariant `Config::from` must establish for the `unwrap()` in
    `copy_less_hist_file_and_append_navigate_regex`: navigate on (or `--show-themes`) ⇒
    `navigate_regex` is `Some`, whatever the user gave as `--navigate-regex` — unset, the empty
    string, or a regex. -/
theorem navigate_implies_regex (o : NavOpt) (h : o.navigate = true ∨ o.showThemes = true) :
    (configNavigateRegex o).any RegexVal.isSome = true := by
  obtain ⟨nav, st, rc⟩ := o
  cases nav <;> cases st <;> cases rc <;> simp at h <;> decide

example : (⟨true, false, .empty⟩ : NavOpt).navigate = true := rfl

/-- An unset or empty `--navigate-regex` means the default regex; a non-empty one is kept. -/
theorem navigate_regex_default (st : Bool) :
    configNavigateRegex ⟨true, st, .unset⟩ = some .default ∧
    configNavigateRegex ⟨true, st, .empty⟩ = some .default ∧
    configNavigateRegex ⟨true, st, .nonempty⟩ = some .given := by
  cases st <;> decide

/-- Every `unwrap()`/`expect()` on the less set-up path is on a configuration field whose being
    `Some` is established by `Config::from`: for every combination of navigate / show-themes /
    navigate-regex the set-up completes, with the history file iff navigate is on. -/
theorem less_setup_never_panics (o : NavOpt) :
    (lessSetup o).okWithHist o.navigate = true := by
  obtain ⟨nav, st, rc⟩ := o
  cases nav <;> cases st <;> cases rc <;> decide

example : lessSetup ⟨true, false, .empty⟩ = .ok true [] := by decide
example : lessSetup ⟨true, true, .unset⟩ = .ok true ["+n"] := by decide

/-! ### Event order -/

/-! #### Returns vs. `process::exit`

Only a *return* from `run_app` drops `output_type`, whose `Drop` waits for the pager;
`fatal(..)`, `process::exit(..)` and `delta_unreachable(..)` end the process on the spot. The
extractor lists every call of one of these three that can be reached once `run_app` has called
`OutputType::from_mode` (name-based call graph over the crate): `setupPhaseExits` (statements of
`run_app` other than the rendering call, and the helpers they call: `build_diff_cmd`, the
resolve / spawn / wait / stderr code) and `renderPhaseExits` (reachable only through `delta(..)`). -/

/-- Outside the rendering, nothing `run_app` does after the pager was started can end the process
    without running destructors: the unparsable `--diff-args` exit, the terminal-on-stdin exit and
    the two cannot-start-the-command exits are `return Ok(2)` with a message, and the only exit
    primitives in `run_app`'s own statements and in the helpers they reach are `delta_unreachable`
    guards of states declared impossible. -/
theorem error_exits_are_returns :
    errExit PagerShape.diffArgsErrExit = some ⟨[Event.message], 2, false, true⟩ ∧
    errExit PagerShape.stdinTtyExit = some ⟨[Event.message], 2, false, true⟩ ∧
    spawnFailExit.bind errExit = some ⟨[Event.message], 2, false, true⟩ ∧
    (∀ e ∈ PagerShape.setupPhaseExits, e.2.1 = "unreachable") := by
  refine ⟨diffArgs_exit, stdinTty_exit, spawnFail_exit, ?_⟩
  intro e he
  have := List.all_eq_true.mp setupExits_unreachable e he
  simpa using this

example : run ⟨.diffArgsError, true, 0, none⟩
    = [Event.spawnPager, Event.message, Event.closePager, Event.waitPager, Event.exit 2] := by decide

/-- Unparsable `--diff-args`, terminal on stdin, command that cannot be started: status 2 with a
    message (the `>= 2 trouble` of the property). -/
theorem setup_errors_status_two (pager : Bool) (writes : Nat) (fault : Option Fault) :
    runResult ⟨.diffArgsError, pager, writes, fault⟩ = some ⟨2, false⟩ ∧
    runResult ⟨.stdinTty, pager, writes, fault⟩ = some ⟨2, false⟩ := by
  simp [runResult, shapeOk_true, body, diffArgs_exit, stdinTty_exit]

example : runResult ⟨.diffArgsError, true, 0, none⟩ = some ⟨2, false⟩ := by decide

/-- On every path on which a pager was spawned, the run ends with: close the pager's stdin,
    wait for the pager, exit — and there is no exit event before that. For EVERY scenario
    (stdin, terminal on stdin, unparsable `--diff-args`, differ / wrapped command missing, killed,
    failing, every write fault, every entry of `setupPhaseExits`) except an exit primitive executed
    *inside the rendering call* (`renderAbort`, see `render_fatal_skips_wait_partial`).

    Full statement (no `hr`): FALSE on the pinned tree, see below. -/
theorem wait_before_exit (s : Scenario) (h : Event.spawnPager ∈ run s)
    (hr : s.mode.isRenderAbort = false) :
    ∃ pre c, run s = pre ++ [Event.closePager, Event.waitPager, Event.exit c] ∧
      (∀ c', Event.exit c' ∉ pre) ∧ Event.waitPager ∉ pre := by
  unfold run at h ⊢
  simp only [shapeOk_true, Bool.not_true] at h ⊢
  cases hb : body s with
  | none => simp [hb] at h
  | some b =>
    obtain ⟨hev, hret⟩ := body_spec s b hb
    simp only [hb] at h ⊢
    have hp : hasPager s = true := by
      cases hhp : hasPager s with
      | true => rfl
      | false =>
        exfalso
        simp only [hhp] at h
        have := not_mem_of_all_body hev Event.spawnPager rfl
        simp [this] at h
    have huse : usesOutputType s.mode = true := by
      simp [hasPager] at hp; exact hp.2
    have hr := hret huse hr
    refine ⟨[Event.spawnPager] ++ b.events, b.code, ?_, ?_, ?_⟩
    · simp [hp, hr, dropWaits]
    · intro c'
      have := not_mem_of_all_body hev (Event.exit c') rfl
      simp [this]
    · have := not_mem_of_all_body hev Event.waitPager rfl
      simp [this]

/-- … in particular every entry of `setupPhaseExits` (the helpers of `run_app`, `build_diff_cmd`
    included): there is no run in which one of them ends the process while a pager is running. -/
theorem no_exit_outside_rendering (i : Nat) (pager : Bool) (writes : Nat) (fault : Option Fault) :
    Event.spawnPager ∉ run ⟨.setupAbort i, pager, writes, fault⟩ := by
  simp [run, shapeOk_true, setupAbort_none]

/-- The exit primitives reachable through the rendering call: when entry `i` of
    `renderPhaseExits` is a `fatal(..)`, executing it ends delta with a message and status 2
    WITHOUT closing and waiting for the pager: "delta does not exit before the pager does" is
    FALSE on such a path. On the pinned tree the table has three `fatal` entries
    (`format.rs:parse_line_number_format` ×2: width / precision of a `{placeholder:…}` in
    `--line-numbers-left-format`, `--line-numbers-right-format`, `--blame-format` that does not
    fit a `usize`; `color.rs:parse_color`: an invalid colour in `--blame-palette`), each parsed
    only when the first hunk / blame line is rendered. Confirmed on the binary (known findings
    `exit-before-pager:fatal-while-rendering:*`); proposed fix: validate in `Config::from`. -/
theorem render_fatal_skips_wait_partial (i : Nat) (site : String) (pager : Bool) (writes : Nat)
    (fault : Option Fault) (h : PagerShape.renderPhaseExits[i]? = some (site, "fatal")) :
    run ⟨.renderAbort i, pager, writes, fault⟩ =
      (if pager then [Event.spawnPager] else []) ++ List.replicate writes Event.writeOk
      ++ [Event.message, Event.exit 2] := by
  cases pager <;>
    simp [run, shapeOk_true, body, h, abortBody, hasPager, usesOutputType, fatalExitCode_two]

-- (no entry number is fixed here: the table is what a fix changes; an index outside it has no run)
example : run ⟨.renderAbort 1000000, true, 3, none⟩ = [Event.unknown] := by decide

/-- Subcommands that start a pager of their own (`--show-themes`, `--show-syntax-themes`,
    `--show-colors`): the only exit primitive they execute after that pager was started, outside
    the rendering, is `process::exit(0)` in a `BrokenPipe` arm - status 0 and silent as the
    property asks when the reader goes away, but without waiting for a pager that closed its
    input and is still running (known finding `exit-before-pager:own-pager-reader-gone:*`). -/
theorem own_pager_exits_only_reader_gone :
    ∀ e ∈ PagerShape.ownPagerExits, e.2.1 = "exit" ∧ e.2.2.1 = "BrokenPipe" ∧ e.2.2.2 = "0" := by
  decide

example : Event.spawnPager ∈ run ⟨.sub .git true (some 1) 0, true, 3, some ⟨1, .brokenPipe⟩⟩ := by
  decide

/-- Every write delta makes goes to the pager before its stdin is closed: without a fault the
    run contains exactly `writes` successful writes, all before `closePager`. -/
theorem all_writes_before_close (pager : Bool) (writes : Nat) :
    run ⟨.stdin, pager, writes, none⟩ =
      (if pager then [Event.spawnPager] else []) ++ List.replicate writes Event.writeOk
      ++ (if pager then [Event.closePager, Event.waitPager] else []) ++ [Event.exit 0] := by
  cases pager <;>
    simp [run, shapeOk_true, body, effectiveFault, stdinTail_zero, hasPager, usesOutputType,
      renderEvents, dropWaits]

/-! ### After the last write: the destructor of `output_type` and the tail of `main` (T21)

`PagerTail.runFull s st` is `run s` with its suffix — "`Drop` waits for the pager, then
`process::exit`" — replaced by an interpretation of the *statements* of `impl Drop for OutputType::drop`
and of `main` after `run_app(..)` (`Generated.PagerTail.dropStmts`, `mainTail`: one row per effect,
with its guards), for an arbitrary way `st` the pager ended: exit code 0, exit code ≠ 0, killed by
a signal, `wait` failed. A write to stderr / stdout, an exit, or a statement that is not understood
counts as soon as its guards *may* hold for `st`; the wait counts only where it *must* happen. -/

open PagerTail in
/-- The interpreted suffix is the abstract one, for every scenario (every mode, fault, number of
    writes, child status) and every pager status: the destructor does nothing but wait for the pager
    (when there is one), `main` does nothing but `process::exit(exit_code)`. All theorems above about
    `run` therefore hold for `runFull`. No hypothesis. -/
theorem tail_statements_are_wait_then_exit (s : Scenario) (st : PagerStatus) :
    runFull s st = run s := runFull_eq_run s st

open PagerTail in
/-- **Nothing is written after the reader is gone.** In every rendering mode (stdin, `delta a b`,
    `delta git/rg …`, the listing subcommands), with or without a pager, for every number of writes
    and every position of the write that fails with EPIPE, and for every way the pager ends (any exit
    code, any signal, `wait` failing): after the failed write delta only reaps the wrapped command (if
    any), closes and waits for the pager (if any) and exits with status 0 — no message, no further
    write, no statement the model does not understand.
    Hypotheses: `hm` — other modes have no rendering write (their exits: `setup_errors_status_two`,
    `oneshot_broken_pipe_partial`); `h` — the faulty write is one delta actually makes (otherwise
    nothing fails: `normal_completion_quiet`). -/
theorem nothing_written_after_reader_gone (m : Mode) (hm : rendering m) (pager : Bool)
    (writes pos : Nat) (h : pos < writes) (st : PagerStatus) :
    ∃ pre, runFull ⟨m, pager, writes, some ⟨pos, .brokenPipe⟩⟩ st =
      pre ++ [Event.writeFail .brokenPipe]
        ++ quietTail (subMode m) (hasPager ⟨m, pager, writes, some ⟨pos, .brokenPipe⟩⟩) := by
  rw [runFull_eq_run]
  cases m with
  | stdin =>
    rw [run_broken_pipe_stdin pager writes pos h]
    exact ⟨(if pager then [Event.spawnPager] else []) ++ List.replicate pos Event.writeOk, by cases pager <;> rfl⟩
  | sub k ok cst n =>
    simp [rendering] at hm; subst hm
    rw [run_broken_pipe_sub k cst n pager writes pos h]
    exact ⟨(if pager then [Event.spawnPager] else []) ++ [Event.spawnSub] ++ List.replicate pos Event.writeOk,
      by cases pager <;> rfl⟩
  | early =>
    rw [run_broken_pipe_early pager writes pos h]
    exact ⟨List.replicate pos Event.writeOk, by cases pager <;> rfl⟩
  | stdinTty => simp [rendering] at hm
  | diffArgsError => simp [rendering] at hm
  | oneshot => simp [rendering] at hm
  | setupAbort i => simp [rendering] at hm
  | renderAbort i => simp [rendering] at hm

open PagerTail in
example : rendering (.sub .gitDiff true (some 1) 0) ∧ (7 : Nat) < 9 ∧
    hasPager ⟨.sub .gitDiff true (some 1) 0, true, 9, some ⟨7, .brokenPipe⟩⟩ = true ∧
    quietTail true true = [Event.waitSub, Event.closePager, Event.waitPager, Event.exit 0] := by
  simp [rendering, hasPager, usesOutputType, quietTail]

open PagerTail in
/-- … the quiet tail contains neither a message nor a write nor an unknown statement, and ends in
    `exit 0` after the wait for the pager. -/
theorem quiet_tail_is_quiet (sub pager : Bool) :
    Event.message ∉ quietTail sub pager ∧ Event.writeOk ∉ quietTail sub pager ∧
    Event.unknown ∉ quietTail sub pager ∧ Event.writeFail .brokenPipe ∉ quietTail sub pager ∧
    Event.writeFail .other ∉ quietTail sub pager ∧
    (quietTail sub pager).getLast? = some (Event.exit 0) ∧
    (pager = true → [Event.closePager, Event.waitPager, Event.exit 0] <:+ quietTail sub pager) := by
  cases sub <;> cases pager <;> decide

open PagerTail in
/-- Normal completion (stdin mode, nothing fails), for every pager status: after the last write
    delta closes and waits for the pager and exits 0; nothing else. -/
theorem normal_completion_quiet (pager : Bool) (writes : Nat) (st : PagerStatus) :
    runFull ⟨.stdin, pager, writes, none⟩ st =
      (if pager then [Event.spawnPager] else []) ++ List.replicate writes Event.writeOk
      ++ quietTail false pager := by
  rw [runFull_eq_run, all_writes_before_close]
  cases pager <;> simp [quietTail]

open PagerTail in
example : runFull ⟨.stdin, true, 2, none⟩ (.exited 3) =
    [Event.spawnPager, Event.writeOk, Event.writeOk, Event.closePager, Event.waitPager, Event.exit 0] := by
  rw [normal_completion_quiet]; rfl

/-! What the interpretation does with a destructor that reports the pager's status (the shape of a
    "usability" change to `Drop`): a message for exit codes ≠ 0, none for 0 or a signal — so
    `tail_statements_are_wait_then_exit` cannot be proved for such a `dropStmts`. -/
open PagerTail in
example :
    let rows : List Row := [(["is-pager"], "wait-child", ""), (["is-pager", "status:exit-nonzero"], "stderr", "")]
    interp true (.exited 3) 0 rows = [Event.closePager, Event.waitPager, Event.message] ∧
    interp true (.exited 0) 0 rows = [Event.closePager, Event.waitPager] ∧
    interp true (.signaled 13) 0 rows = [Event.closePager, Event.waitPager] ∧
    interp false (.exited 3) 0 rows = [] := by decide


end C18
