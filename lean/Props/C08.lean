import Proofs.AnsiRaw
import Proofs.AnsiSgr
import Proofs.RawLineCallers
import Proofs.Machine.RawIndependenceBytes
/-!
C08 — git's default colouring is ignored; moved-line and raw colours are preserved.

Model: `DeltaModel/Vte.lean` (anstyle-parse `advance` over the generated transition table),
`DeltaModel/Ansi.lean` (element iterator with its exact bookkeeping, strip / measure / truncate /
parse_style_sections, SGR parameters → style over the generated match arms, ansi_term's emit table,
`line_has_style_other_than`). The correspondence check runs these same definitions (driver
`drv_ansi`) against the implementation.
-/
namespace C08
open Ansi

/-! ### Stripping and measuring ignore git's colouring -/

/-- Whatever SGR sequences git inserts (any parameters, any positions between characters, `ESC[m`
or `ESC[0m`), stripping gives back exactly the uncoloured line — and does not panic. -/
theorem strip_git_colouring {plain coloured : Bytes} (h : GitColouring plain coloured) :
    strip coloured = .ok plain := by
  obtain ⟨ts, hwf, hb, hp⟩ := gitColouring_tokens h
  rw [← hb, ← hp]; exact strip_tokens ts hwf

/-- `+a` coloured as git does: `ESC[32m+ESC[m ESC[32maESC[m`-like. -/
example : GitColouring [0x2b, 0x61] [0x1b, 0x5b, 0x33, 0x32, 0x6d, 0x2b, 0x1b, 0x5b, 0x6d, 0x61] :=
  .sgr [0x33, 0x32] ⟨by decide, by decide⟩
    (.chr [0x2b] (.ascii _ (by decide)) (by decide)
      (.sgr [] ⟨by simp, by decide⟩
        (.chr [0x61] (.ascii _ (by decide)) (by decide) .nil)))

/-- The measured width is the width of the uncoloured line, for every width function that is
additive over concatenation (the harness checks this domain condition on its inputs). -/
theorem measure_git_colouring (U : Uni) (hU : Additive U) {plain coloured : Bytes}
    (h : GitColouring plain coloured) :
    measure U coloured = measure U plain ∧ measure U plain = .ok (U.width plain) := by
  obtain ⟨ts, hwf, hb, hp⟩ := gitColouring_tokens h
  obtain ⟨ts', hwf', hb', hp'⟩ := gitColouring_plain_tokens h
  have h1 := measure_tokens U hU ts hwf
  have h2 := measure_tokens U hU ts' hwf'
  rw [hb, hp] at h1
  rw [hb', hp'] at h2
  exact ⟨h1.trans h2.symm, h2⟩

example : Additive demoUni := by
  intro a b
  show demoWidth (a ++ b) = demoWidth a + demoWidth b
  induction a with
  | nil => simp [demoWidth]
  | cons x xs ih => simp [demoWidth, ih]; omega

/-! ### The element ranges -/

/-- The witness of defect #10: `ESC[!!m` (a CSI with two intermediates) + `aaaaaéaaaa` + `ESC[0m`,
as a list of UTF-8 characters. -/
def witness10 : List Bytes :=
  [[0x1b], [0x5b], [0x21], [0x21], [0x6d], [0x61], [0x61], [0x61], [0x61], [0x61], [0xc3, 0xa9],
   [0x61], [0x61], [0x61], [0x61], [0x1b], [0x5b], [0x30], [0x6d]]

theorem witness10_chars : ∀ c ∈ witness10, IsChar c := by
  intro c hc
  simp only [witness10, List.mem_cons, List.not_mem_nil, or_false] at hc
  rcases hc with h | h | h | h | h | h | h | h | h | h | h | h | h | h | h | h | h | h | h <;> subst h
  all_goals first
    | exact .ascii _ (by decide)
    | exact .two _ _ (by decide) (by decide) (by decide)

/-- `vte_partition` at full strength — "for every string the element ranges are contiguous, from
0 to the length, on char boundaries" — is **false on the unchanged tree** (`csiDropsIgnored`, read
from the source on every run): for a CSI sequence that the parser flags `ignore` or that has more
than one intermediate, the iterator drops the sequence's bytes from its bookkeeping; the following
text range is shifted left and ends inside `é`, and `strip_ansi_codes` panics. -/
theorem vte_partition_false : Generated.csiDropsIgnored = true →
    isPartition witness10.flatten = false ∧
      strip witness10.flatten = .error "byte index is out of range or not a char boundary" ∧
      elements witness10.flatten = [⟨.text, 0, 11⟩, ⟨.sgr [[0]], 11, 20⟩] := by
  decide

/-- With the proposed repair (notes/fix-ansi-iterator-ignored-csi.diff) the same line is
partitioned and stripped correctly. -/
theorem vte_partition_witness_after_fix : Generated.csiDropsIgnored = false →
    isPartition witness10.flatten = true ∧
      strip witness10.flatten = .ok [0x61, 0x61, 0x61, 0x61, 0x61, 0xc3, 0xa9, 0x61, 0x61, 0x61, 0x61] := by
  decide

/-- The same gap for sequences that end without dispatching an element: `é ESC[é LF LF LF ESC[m`
(C0 controls executed inside an unfinished CSI sequence count as text, its other bytes as nothing):
`Text(0,5)` ends inside the second `é`. Still so on the tree without
notes/fix-ansi-iterator-aborted-sequences.diff (`iteratorAbortedAsText`, read from the source). -/
def witnessAborted : Bytes := [0xc3, 0xa9, 0x1b, 0x5b, 0xc3, 0xa9, 0x0a, 0x0a, 0x0a, 0x1b, 0x5b, 0x6d]

theorem vte_partition_aborted_false : Generated.iteratorAbortedAsText = false →
    isPartition witnessAborted = false ∧
      strip witnessAborted = .error "byte index is out of range or not a char boundary" := by
  decide

/-- With that repair the unfinished sequence's bytes are accounted for as text and the line is
partitioned. -/
theorem vte_partition_aborted_after_fix : Generated.iteratorAbortedAsText = true →
    isPartition witnessAborted = true ∧ elements witnessAborted = [⟨.text, 0, 9⟩, ⟨.sgr [[0]], 9, 12⟩] := by
  decide

/-- The positive part: on every benign line — characters, plain CSI/SGR sequences with at most 32
parameters, OSC strings; everything git and delta emit — the element ranges are contiguous, start
at 0, end at the length of the string and lie on char boundaries. -/
theorem vte_partition {s : Bytes} (h : Benign s) : isPartition s = true := by
  obtain ⟨ts, hwf, hb⟩ := h
  rw [← hb]; exact partition_tokens ts hwf

/-- …and all escape sequences are removed by `strip`, which cannot panic there. -/
theorem strip_benign (ts : List Tok) (hwf : ∀ t ∈ ts, t.WF) : strip (tokBytes ts) = .ok (plainOf ts) :=
  strip_tokens ts hwf

/-- A git colouring is benign. -/
theorem gitColouring_benign {plain coloured : Bytes} (h : GitColouring plain coloured) : Benign coloured := by
  obtain ⟨ts, hwf, hb, _⟩ := gitColouring_tokens h
  exact ⟨ts, hwf, hb⟩

/-- A hyperlinked, coloured line is benign: `ESC[1m ESC]8;;u ESC\ é ESC]8;; ESC\ ESC[0m`. -/
example : Benign ([0x1b, 0x5b, 0x31, 0x6d] ++ [0x1b, 0x5d, 0x38, 0x3b, 0x3b, 0x75, 0x1b, 0x5c] ++
    [0xc3, 0xa9] ++ [0x1b, 0x5d, 0x38, 0x3b, 0x3b, 0x1b, 0x5c] ++ [0x1b, 0x5b, 0x30, 0x6d]) :=
  ⟨[.csi [0x31] 0x6d, .osc [0x38, 0x3b, 0x3b, 0x75] false, .chr [0xc3, 0xa9],
    .osc [0x38, 0x3b, 0x3b] false, .csi [0x30] 0x6d],
   by
     intro t ht
     simp only [List.mem_cons, List.not_mem_nil, or_false] at ht
     rcases ht with h | h | h | h | h <;> subst h
     · exact ⟨by decide, by decide, by decide, by decide⟩
     · exact (by decide : ∀ b ∈ ([0x38, 0x3b, 0x3b, 0x75] : Bytes), 0x20 ≤ b.toNat)
     · exact ⟨.two _ _ (by decide) (by decide) (by decide), by decide⟩
     · exact (by decide : ∀ b ∈ ([0x38, 0x3b, 0x3b] : Bytes), 0x20 ≤ b.toNat)
     · exact ⟨by decide, by decide, by decide, by decide⟩,
   by decide⟩

/-! ### When the raw line is consulted -/

/-- A removed line coloured with git's default `ESC[31m` is not taken for a specially styled line,
whatever follows and whatever `color.diff.old` is configured: delta then uses the stripped line only. -/
theorem git_default_minus_not_raw (rest : Bytes) (cfgGit : Style) :
    lineHasStyleOtherThan ([0x1b, 0x5b, 0x33, 0x31, 0x6d] ++ rest) [gitDefaultMinus, cfgGit] = false := by
  obtain ⟨ps, hk, h⟩ := lineHasStyleOtherThan_sgr_prefix [0x33, 0x31] ⟨by decide, by decide⟩ rest
    [gitDefaultMinus, cfgGit]
  have : csiKind [0x33, 0x31] 0x6d = .sgr [[31]] := by decide
  rw [this] at hk; cases hk
  have e : styleEq (sgrToStyle [[31]]) gitDefaultMinus = true := by decide
  simpa [e] using h

/-- Likewise for an added line coloured `ESC[32m`. -/
theorem git_default_plus_not_raw (rest : Bytes) (cfgGit : Style) :
    lineHasStyleOtherThan ([0x1b, 0x5b, 0x33, 0x32, 0x6d] ++ rest) [gitDefaultPlus, cfgGit] = false := by
  obtain ⟨ps, hk, h⟩ := lineHasStyleOtherThan_sgr_prefix [0x33, 0x32] ⟨by decide, by decide⟩ rest
    [gitDefaultPlus, cfgGit]
  have : csiKind [0x33, 0x32] 0x6d = .sgr [[32]] := by decide
  rw [this] at hk; cases hk
  have e : styleEq (sgrToStyle [[32]]) gitDefaultPlus = true := by decide
  simpa [e] using h

/-- An uncoloured line (it starts with a character) is never taken for a styled raw line. -/
theorem uncoloured_not_raw (c : Bytes) (hc : IsChar c) (hne : c ≠ [0x1b]) (rest : Bytes)
    (styles : List Style) : lineHasStyleOtherThan (c ++ rest) styles = false :=
  lineHasStyleOtherThan_char_prefix c hc hne rest styles

/-- A line that git starts with any other SGR sequence (moved-line colours) is recognised as such
exactly when the parsed style equals none of the default styles. -/
theorem moved_line_detected (body : Bytes) (hb : SgrBody body) (rest : Bytes) (styles : List Style) :
    ∃ ps, csiKind body 0x6d = .sgr ps ∧
      lineHasStyleOtherThan (0x1b :: 0x5b :: (body ++ 0x6d :: rest)) styles =
        !(styles.any fun st => styleEq (sgrToStyle ps) st) :=
  lineHasStyleOtherThan_sgr_prefix body hb rest styles

/-- `ESC[1;35m` (git's default `oldMoved`, bold magenta) on a removed line is detected. -/
example : lineHasStyleOtherThan [0x1b, 0x5b, 0x31, 0x3b, 0x33, 0x35, 0x6d, 0x2d, 0x78] [gitDefaultMinus, gitDefaultMinus] = true := by
  decide

/-! ### The decision `maybe_raw_line` takes (boolean shape read from the source) -/

/-- All 16 valuations: the raw line is kept iff the caller is a word-diff, or the line's style is
`raw`, or raw lines are inspected and the line carries a style other than git's default. -/
theorem emit_raw_line_table : ∀ w i o s : Bool,
    Generated.emitRawLine w i o s = (w || s || (i && o)) := by decide

/-- A line whose style is `raw` keeps its input colouring — whatever `--inspect-raw-lines` says,
whatever the line looks like. -/
theorem raw_style_keeps_raw_line (w i : Bool) (raw : Bytes) (styles : List Style) :
    keepsRawLine w i true raw styles = true := by
  simp [keepsRawLine, emit_raw_line_table]

/-- Under `git diff --word-diff` / `--color-words` every hunk line keeps its input colouring. -/
theorem word_diff_keeps_raw_line (i s : Bool) (raw : Bytes) (styles : List Style) :
    keepsRawLine true i s raw styles = true := by
  simp [keepsRawLine, emit_raw_line_table]

/-- Git's default colouring is ignored: a removed line that starts with `ESC[31m`, an added line
that starts with `ESC[32m`, and an uncoloured line are not kept raw (no raw style, no word-diff),
with or without inspection. -/
theorem git_default_colouring_ignored (i : Bool) (rest : Bytes) (cfgGit : Style) :
    keepsRawLine false i false ([0x1b, 0x5b, 0x33, 0x31, 0x6d] ++ rest) [gitDefaultMinus, cfgGit] = false ∧
    keepsRawLine false i false ([0x1b, 0x5b, 0x33, 0x32, 0x6d] ++ rest) [gitDefaultPlus, cfgGit] = false := by
  have h1 := git_default_minus_not_raw rest cfgGit
  have h2 := git_default_plus_not_raw rest cfgGit
  simp only [keepsRawLine, emit_raw_line_table, h1, h2]
  simp

theorem uncoloured_line_not_kept_raw (i : Bool) (c : Bytes) (hc : IsChar c) (hne : c ≠ [0x1b]) (rest : Bytes)
    (styles : List Style) : keepsRawLine false i false (c ++ rest) styles = false := by
  simp [keepsRawLine, emit_raw_line_table, uncoloured_not_raw c hc hne rest styles]

/-- Moved-line colours: with inspection on (the default), a line that starts with any other SGR
sequence is kept raw exactly when its parsed style equals none of the caller's default styles. -/
theorem moved_line_kept_raw (body : Bytes) (hb : SgrBody body) (rest : Bytes) (styles : List Style) :
    ∃ ps, csiKind body 0x6d = .sgr ps ∧
      keepsRawLine false true false (0x1b :: 0x5b :: (body ++ 0x6d :: rest)) styles =
        !(styles.any fun st => styleEq (sgrToStyle ps) st) := by
  obtain ⟨ps, h1, h2⟩ := moved_line_detected body hb rest styles
  exact ⟨ps, h1, by simp [keepsRawLine, emit_raw_line_table, h2]⟩

/-- `--inspect-raw-lines=false` switches off the detection of moved-line colours, and nothing else. -/
theorem inspection_off_only_disables_detection (w s : Bool) (raw : Bytes) (styles : List Style) :
    keepsRawLine w false s raw styles = (w || s) := by
  simp [keepsRawLine, emit_raw_line_table]

/-- `ESC[1;35m-x` (git's `oldMoved`) on a removed line: kept with inspection, dropped without;
kept in any case under `--minus-style raw`. -/
example :
    keepsRawLine false true false [0x1b, 0x5b, 0x31, 0x3b, 0x33, 0x35, 0x6d, 0x2d, 0x78] [gitDefaultMinus, gitDefaultMinus] = true ∧
    keepsRawLine false false false [0x1b, 0x5b, 0x31, 0x3b, 0x33, 0x35, 0x6d, 0x2d, 0x78] [gitDefaultMinus, gitDefaultMinus] = false ∧
    keepsRawLine false false true [0x1b, 0x5b, 0x31, 0x3b, 0x33, 0x35, 0x6d, 0x2d, 0x78] [gitDefaultMinus, gitDefaultMinus] = true := by
  decide

/-! ### Which styles the callers of `maybe_raw_line` treat as ordinary colouring

`Generated.rawArms`, `rawArmWordDiff`, `cfgGitMinusSource`, `cfgGitPlusSource` are read from
`new_line_state` (src/handlers/hunk.rs), src/config.rs and src/parse_styles.rs on every run: lists of any
length and order are taken as they are, the theorems say what they must contain. -/

open Generated (HunkKind GitDefaultRef RawStyleRef RawArm) in
/-- The arms of `new_line_state`, unified and combined diffs alike: a `-` line enters `HunkMinus` with
`config.minus_style.is_raw` and the ordinary styles {git's built-in minus style, `config.git_minus_style`};
a `+` line likewise with the plus styles; an unchanged line has no ordinary style (any colouring of it is
kept); a `\` line is no hunk line. Under `git diff --word-diff` every line takes the unchanged-line arm. -/
theorem raw_line_arms_table : ∀ combined : Bool,
    armOk (rawArmFor false '-' combined) .minus [.gitDefault .minus, .cfgGitMinus] = true ∧
    armOk (rawArmFor false '+' combined) .plus [.gitDefault .plus, .cfgGitPlus] = true ∧
    armOk (rawArmFor false ' ' combined) .zero [] = true ∧
    rawArmFor false '\\' combined = none ∧
    (∀ c : Char, armOk (rawArmFor true c combined) .zero [] = true) := by
  intro combined
  refine ⟨?_, ?_, ?_, ?_, ?_⟩
  · revert combined; decide
  · revert combined; decide
  · revert combined; decide
  · revert combined; decide
  · intro c
    have : rawArmFor true c combined = some Generated.rawArmWordDiff := rfl
    rw [this]; decide

/-- `config.git_minus_style` is `color.diff.old` of the gitconfig delta reads, or else git's built-in red;
`config.git_plus_style` is `color.diff.new`, or else the built-in green. -/
theorem config_git_styles_source (g : GitColors) :
    configGitMinusStyle g = (g.lookup "color.diff.old").getD gitDefaultMinus ∧
    configGitPlusStyle g = (g.lookup "color.diff.new").getD gitDefaultPlus := by
  have h1 : Generated.cfgGitMinusSource = ("color.diff.old", .minus) := by decide
  have h2 : Generated.cfgGitPlusSource = ("color.diff.new", .plus) := by decide
  simp only [configGitMinusStyle, configGitPlusStyle, cfgGitStyle, h1, h2]
  constructor
  · cases g.lookup "color.diff.old" <;> rfl
  · cases g.lookup "color.diff.new" <;> rfl

/-- `red bold` configured for removed lines, nothing for added lines. -/
example : configGitMinusStyle [("color.diff.old", { bold := true, fg := some (.named 1) })] =
      { bold := true, fg := some (.named 1) } ∧
    configGitPlusStyle [("color.diff.old", { bold := true, fg := some (.named 1) })] = gitDefaultPlus := by
  decide

/-- **Git's default colouring is ignored whatever the gitconfig says**: for every `color.diff.old/new`
(set or not), in unified and combined diffs, with or without inspection, a removed line that starts with
`ESC[31m` and an added line that starts with `ESC[32m` are not kept raw (default options: no raw style,
no word-diff). -/
theorem git_default_colouring_ignored_any_gitconfig (i : Bool) (isRaw : Generated.HunkKind → Bool)
    (hm : isRaw .minus = false) (hp : isRaw .plus = false) (g : GitColors) (combined : Bool) (rest : Bytes) :
    hunkLineKeepsRaw false i isRaw g '-' combined ([0x1b, 0x5b, 0x33, 0x31, 0x6d] ++ rest) = some false ∧
    hunkLineKeepsRaw false i isRaw g '+' combined ([0x1b, 0x5b, 0x33, 0x32, 0x6d] ++ rest) = some false := by
  obtain ⟨h1, h2, _⟩ := raw_line_arms_table combined
  rw [hunkLineKeepsRaw_of_armOk h1, hunkLineKeepsRaw_of_armOk h2, hm, hp]
  have := git_default_colouring_ignored i rest (configGitMinusStyle g)
  have := git_default_colouring_ignored i rest (configGitPlusStyle g)
  simp_all [resolveRawStyle, gitDefaultStyle]

/-- …and so is **the colouring git produces with the configured colours**: a removed line whose leading
SGR sequence parses to a style equal (`ansi_term_style_equality`) to the configured `color.diff.old` is
not kept raw. -/
theorem configured_minus_colouring_ignored (i : Bool) (isRaw : Generated.HunkKind → Bool)
    (hm : isRaw .minus = false) (g : GitColors) (combined : Bool) (body : Bytes) (hb : SgrBody body)
    (rest : Bytes) (ps : List (List Nat)) (hps : csiKind body 0x6d = .sgr ps) (st : Style)
    (hg : g.lookup "color.diff.old" = some st) (he : styleEq (sgrToStyle ps) st = true) :
    hunkLineKeepsRaw false i isRaw g '-' combined (0x1b :: 0x5b :: (body ++ 0x6d :: rest)) = some false := by
  obtain ⟨h1, _⟩ := raw_line_arms_table combined
  rw [hunkLineKeepsRaw_of_armOk h1, hm]
  obtain ⟨ps', hk, h⟩ := keepsRawLine_sgr_prefix i body hb rest
    ([Generated.RawStyleRef.gitDefault .minus, .cfgGitMinus].map (resolveRawStyle g))
  rw [hps] at hk; cases hk
  have hc : configGitMinusStyle g = st := by rw [(config_git_styles_source g).1, hg]; rfl
  rw [h]; simp [resolveRawStyle, hc, he]

/-- The same for an added line and `color.diff.new`. -/
theorem configured_plus_colouring_ignored (i : Bool) (isRaw : Generated.HunkKind → Bool)
    (hp : isRaw .plus = false) (g : GitColors) (combined : Bool) (body : Bytes) (hb : SgrBody body)
    (rest : Bytes) (ps : List (List Nat)) (hps : csiKind body 0x6d = .sgr ps) (st : Style)
    (hg : g.lookup "color.diff.new" = some st) (he : styleEq (sgrToStyle ps) st = true) :
    hunkLineKeepsRaw false i isRaw g '+' combined (0x1b :: 0x5b :: (body ++ 0x6d :: rest)) = some false := by
  obtain ⟨_, h2, _⟩ := raw_line_arms_table combined
  rw [hunkLineKeepsRaw_of_armOk h2, hp]
  obtain ⟨ps', hk, h⟩ := keepsRawLine_sgr_prefix i body hb rest
    ([Generated.RawStyleRef.gitDefault .plus, .cfgGitPlus].map (resolveRawStyle g))
  rw [hps] at hk; cases hk
  have hc : configGitPlusStyle g = st := by rw [(config_git_styles_source g).2, hg]; rfl
  rw [h]; simp [resolveRawStyle, hc, he]

/-- `color.diff.old = red bold`: a removed line git coloured `ESC[1;31m` and one coloured with the built-in
`ESC[31m` are both ignored; `ESC[1;35m` (oldMoved) is kept. -/
example :
    let g : GitColors := [("color.diff.old", { bold := true, fg := some (.named 1) })]
    hunkLineKeepsRaw false true (fun _ => false) g '-' false [0x1b, 0x5b, 0x31, 0x3b, 0x33, 0x31, 0x6d, 0x2d, 0x78] = some false ∧
    hunkLineKeepsRaw false true (fun _ => false) g '-' false [0x1b, 0x5b, 0x33, 0x31, 0x6d, 0x2d, 0x78] = some false ∧
    hunkLineKeepsRaw false true (fun _ => false) g '-' false [0x1b, 0x5b, 0x31, 0x3b, 0x33, 0x35, 0x6d, 0x2d, 0x78] = some true := by
  decide

/-- **Nothing else is ignored** (moved-line colours are preserved under every gitconfig): with inspection
on, a removed (added) line that starts with an SGR sequence is kept raw exactly when the parsed style
equals neither git's built-in minus (plus) style nor the configured one. -/
theorem moved_line_kept_raw_any_gitconfig (isRaw : Generated.HunkKind → Bool)
    (hm : isRaw .minus = false) (hp : isRaw .plus = false) (g : GitColors) (combined : Bool)
    (body : Bytes) (hb : SgrBody body) (rest : Bytes) :
    ∃ ps, csiKind body 0x6d = .sgr ps ∧
      hunkLineKeepsRaw false true isRaw g '-' combined (0x1b :: 0x5b :: (body ++ 0x6d :: rest)) =
        some (!(styleEq (sgrToStyle ps) gitDefaultMinus || styleEq (sgrToStyle ps) (configGitMinusStyle g))) ∧
      hunkLineKeepsRaw false true isRaw g '+' combined (0x1b :: 0x5b :: (body ++ 0x6d :: rest)) =
        some (!(styleEq (sgrToStyle ps) gitDefaultPlus || styleEq (sgrToStyle ps) (configGitPlusStyle g))) := by
  obtain ⟨h1, h2, _⟩ := raw_line_arms_table combined
  rw [hunkLineKeepsRaw_of_armOk h1, hunkLineKeepsRaw_of_armOk h2, hm, hp]
  obtain ⟨ps, hk, h⟩ := keepsRawLine_sgr_prefix true body hb rest
    ([Generated.RawStyleRef.gitDefault .minus, .cfgGitMinus].map (resolveRawStyle g))
  obtain ⟨ps', hk', h'⟩ := keepsRawLine_sgr_prefix true body hb rest
    ([Generated.RawStyleRef.gitDefault .plus, .cfgGitPlus].map (resolveRawStyle g))
  rw [hk] at hk'; cases hk'
  refine ⟨ps, hk, ?_, ?_⟩
  · rw [h]; simp [resolveRawStyle, gitDefaultStyle]
  · rw [h']; simp [resolveRawStyle, gitDefaultStyle]

/-- An unchanged line has no ordinary style: any leading SGR sequence keeps it raw (with inspection). -/
theorem unchanged_line_any_colour_kept_raw (isRaw : Generated.HunkKind → Bool) (g : GitColors) (combined : Bool)
    (body : Bytes) (hb : SgrBody body) (rest : Bytes) :
    hunkLineKeepsRaw false true isRaw g ' ' combined (0x1b :: 0x5b :: (body ++ 0x6d :: rest)) =
      some (true || isRaw .zero) := by
  obtain ⟨_, _, h3, _⟩ := raw_line_arms_table combined
  rw [hunkLineKeepsRaw_of_armOk h3]
  obtain ⟨ps, _, h⟩ := lineHasStyleOtherThan_sgr_prefix body hb rest ([] : List Style)
  simp [keepsRawLine, emit_raw_line_table, h]

/-! ### Moved-line colours survive parsing and re-emission -/

/-- For an SGR sequence over the supported parameter set — attributes 1–9, 30–37, 40–47, 90–97,
100–107, `38;5;n`, `38;2;r;g;b`, `48;5;n`, `48;2;r;g;b` and the colon forms `38:5:n`, `38:2:r:g:b`,
`38:2:cs:r:g:b` (n, r, g, b ≤ 255), any number of them in any order — the rendition a terminal
shows for text painted with the parsed style (ansi_term's `write_prefix`, generated emit table)
equals the rendition of the input parameters. (Slow and rapid blink, 5 and 6, are one attribute.)

Not supported, i.e. not preserved in general (see `unsupported_parameters_differ`): `0` after
another parameter, 21–29 (attribute resets, double underline), 39, 49 (default colours), 51–55,
58/59, sub-parameters of 4 (`4:0`, `4:3`), colour numbers above 255. -/
theorem moved_colours_round_trip {ps : List (List Nat)} (h : Supported ps) :
    renditionOfStyle (sgrToStyle ps) = applySgr {} ps :=
  round_trip h

/-- `1;38;5;208;48;2;1;2;3` is supported. -/
example : Supported [[1], [38], [5], [208], [48], [2], [1], [2], [3]] :=
  .cons (.attr 1 (by decide) (by decide))
    (.cons (.idx 38 208 (Or.inl rfl) (by decide))
      (.cons (.rgb 48 1 2 3 (Or.inr rfl) (by decide) (by decide) (by decide)) .nil))

/-- A leading reset (`0;…`, as in `ESC[0;1;35m`) changes nothing. -/
theorem moved_colours_round_trip_reset {ps : List (List Nat)} (h : Supported ps) :
    renditionOfStyle (sgrToStyle ([0] :: ps)) = applySgr {} ([0] :: ps) := by
  have h1 : sgrToStyle ([0] :: ps) = sgrToStyle ps := rfl
  have h2 : applySgr {} ([0] :: ps) = applySgr {} ps := rfl
  rw [h1, h2]; exact round_trip h

/-- `ESC[m` and `ESC[0m` parse to the same (plain) style. -/
theorem reset_forms_equal :
    elements [0x1b, 0x5b, 0x6d] = [⟨.sgr [[0]], 0, 3⟩] ∧
    elements [0x1b, 0x5b, 0x30, 0x6d] = [⟨.sgr [[0]], 0, 4⟩] ∧ sgrToStyle [[0]] = {} := by
  decide

/-- The unsupported parameters really are outside the theorem: for each of these sequences the
re-emitted style shows something else than the input. -/
theorem unsupported_parameters_differ :
    ∀ ps ∈ [[[1], [0], [31]], [[1], [22]], [[31], [39]], [[41], [49]], [[4, 0]], [[21]], [[3], [23]],
            [[7], [27]]],
      renditionOfStyle (sgrToStyle ps) ≠ applySgr {} ps := by
  decide

/-! ### `--map-styles`: the lookup key -/

/-- The key of a `--map-styles` pair is parsed at full colour depth and the replacement at the
configured depth (both `true_color` arguments are read from `parse_styles_map` on every run). -/
theorem map_styles_depths : ∀ configured : Bool,
    Generated.mapStylesKeyTrueColor configured = true ∧
    Generated.mapStylesValueTrueColor configured = configured := by decide

/-- Hence the style parsed from a moved line (`sgrToStyle`, colours exactly as in the input, 24-bit
included) finds the pair whose key names that same style, whatever depth delta paints at and
whatever the quantisation is: the stored key is the key of the style as written. -/
theorem map_styles_key_matches_input (quant : Nat → Nat → Nat → Nat) (configured : Bool) (st : Style) :
    mapStylesKey quant configured st = styleKey st := by
  have h := (map_styles_depths configured).1
  unfold mapStylesKey
  rw [h]
  cases st with
  | mk b1 b2 b3 b4 b5 b6 b7 b8 fg bg =>
    have e : ∀ c : Color, Ansi.atDepth quant true c = c := by intro c; cases c <;> simp [Ansi.atDepth]
    cases fg <;> cases bg <;> simp [Style.atDepth, styleKey, e]

/-- `38;2;255;0;128` on a moved line and the key `#ff0080`: same key at both depths; a key reduced to a
256-colour number would not be. -/
example :
    mapStylesKey (fun _ _ _ => 198) false { fg := some (.rgb 255 0 128) } = styleKey (sgrToStyle [[38], [2], [255], [0], [128]]) ∧
    (styleKey (Style.atDepth (fun _ _ _ => 198) false { fg := some (.rgb 255 0 128) })).2.1 ≠
      (styleKey (sgrToStyle [[38], [2], [255], [0], [128]])).2.1 := by
  refine ⟨by rfl, ?_⟩
  show (some (198, 255, 255, 255) : Option (Nat × Nat × Nat × Nat)) ≠ some (255, 0, 128, 0)
  decide

/-! ### Truncation of over-long lines -/

/-- `truncate_commutes_strip` at full strength — `strip (truncate raw w sym) = truncate (strip raw)
w sym` — is **false on the unchanged tree**: after the cut (`break` leaves only the inner grapheme
loop) text of later elements is still appended when it fits, which happens after a double-width
grapheme was replaced by a space (`truncStopsAfterCut` is read from the source on every run). Witness: `a日 ESC[m b`, width 2: coloured gives `a b`
(three columns), uncoloured gives `a `. -/
theorem truncate_commutes_strip_false : Generated.truncStopsAfterCut = false →
    strip [0x61, 0xe6, 0x97, 0xa5, 0x1b, 0x5b, 0x6d, 0x62] = .ok [0x61, 0xe6, 0x97, 0xa5, 0x62] ∧
    truncate demoUni [0x61, 0xe6, 0x97, 0xa5, 0x1b, 0x5b, 0x6d, 0x62] 2 [] (some [0x20]) =
      .ok [0x61, 0x20, 0x1b, 0x5b, 0x6d, 0x62] ∧
    strip [0x61, 0x20, 0x1b, 0x5b, 0x6d, 0x62] = .ok [0x61, 0x20, 0x62] ∧
    truncate demoUni [0x61, 0xe6, 0x97, 0xa5, 0x62] 2 [] (some [0x20]) = .ok [0x61, 0x20] := by
  decide

/-- With the proposed repair (notes/fix-truncate-after-cut.diff) the witness commutes. -/
theorem truncate_witness_after_fix : Generated.truncStopsAfterCut = true →
    (truncate demoUni [0x61, 0xe6, 0x97, 0xa5, 0x1b, 0x5b, 0x6d, 0x62] 2 [] (some [0x20])).bind strip =
      (strip [0x61, 0xe6, 0x97, 0xa5, 0x1b, 0x5b, 0x6d, 0x62]).bind
        (fun p => truncate demoUni p 2 [] (some [0x20])) := by
  decide

/-- **`truncate_loops_never_panic`**. Since fix d6cf9d0 — the `debug_assert!(width_of_grapheme <= 2)` no longer
stands in front of the fallback of `truncate_str_impl`: `Generated.truncAssertsWideCluster = false`, read from
`src/ansi/mod.rs` on every run — neither loop of `truncate_str_impl` has a panic point: for every Unicode oracle
(clusters of any width, 3 and more included), every width, fill character and element list the loops return. A
cluster wider than two columns that does not fit is replaced by `display_width - used` fill characters. -/
theorem truncate_loops_never_panic (hno : Generated.truncAssertsWideCluster = false) (U : Uni) (dw : Nat)
    (fill : Option Bytes) :
    (∀ gs used acc, ∃ r, takeGraphemes U dw fill gs used acc = .ok r) ∧
    (∀ its used acc cut, ∃ r, truncItems U dw fill its used acc cut = .ok r) :=
  ⟨takeGraphemes_total hno U dw fill, truncItems_total hno U dw fill⟩

/-- `a` + a three-column cluster `xy`, two columns: `a` and one blank (the request the unrepaired model answered
with a panic); three columns next to a one-column tail `>`: `a`, one blank, the tail; three columns: two blanks;
without a fill character nothing is pushed -/
example : (if Generated.truncAssertsWideCluster then
      truncate wideUni [0x61, 0x78, 0x79] 2 [] (some [0x20]) = .error "debug_assert: strange grapheme width"
    else
      truncate wideUni [0x61, 0x78, 0x79] 2 [] (some [0x20]) = .ok [0x61, 0x20] ∧
      truncate wideUni [0x61, 0x78, 0x79] 3 [0x3e] (some [0x20]) = .ok [0x61, 0x20, 0x3e] ∧
      truncate wideUni [0x61, 0x78, 0x79] 3 [] (some [0x20]) = .ok [0x61, 0x20, 0x20] ∧
      truncate wideUni [0x61, 0x78, 0x79] 2 [] none = .ok [0x61]) := by
  decide

/-- The part that holds: a line that fits is returned unchanged, coloured or not, so the stripped
results agree. (Full statement blocked by the defect above; with the proposed fix
`notes/fix-truncate-str-continues-after-cut.diff` the cut case needs, in addition, that no
grapheme cluster spans an escape sequence.) -/
theorem truncate_commutes_strip_partial (U : Uni) {s : Bytes} (ts : List Tok) (hwf : ∀ t ∈ ts, t.WF)
    (hs : tokBytes ts = s) (dw : Nat) (tail : Bytes) (fill : Option Bytes)
    (hfit : U.width (plainOf ts) ≤ dw) :
    (truncate U s dw tail fill).bind strip = (strip s).bind (fun p => truncate U p dw tail fill) := by
  subst hs
  obtain ⟨h1, h2⟩ := truncate_fits U ts hwf dw tail fill hfit
  rw [h1, strip_tokens ts hwf]
  simp [Except.bind, strip_tokens ts hwf, h2]

/-! ### The line state machine ignores the raw line as a whole (session 4, task T2)

`Machine.run cfg ls` (DeltaModel/Machine.lean: `delta.rs` `consume`, every `handle_*`, the painter buffers)
receives for every input line the stripped text and the raw line. The theorems below are about *whole runs*, for
every configuration and every input, unbounded. Vocabulary (`Proofs/Machine/RawIndependence.lean`):
`Machine.Agree l l'` — the two lines agree in everything but `raw` (same stripped text, same clusters, same
per-line facts; decidable); `Machine.AgreeAll` — two inputs of the same length, line by line;
`Machine.rawAt ls k` — the raw line of input line `k`; `Machine.RowRel ρ ρ' tab r r'` — same kind, same input
index, and the same text, **or** a row of kind `.raw` (written by a handler whose style is `raw`, or passed
through by `emit_line_unchanged`): each run shows the raw line of the row's own input line, plus the same pad
(nothing, or the one blank of a box decoration), **or** a row of kind `.other` (text inside a hunk that is no hunk
line): each run shows its own raw line with tabs expanded. -/

open Machine in
/-- **The machine depends on `raw_line` only where it is meant to.** Two inputs that agree line by line in
everything but the raw line: both runs end in the same error (= Rust panic), or both succeed and their outputs are
related row by row — same number of rows, same order, same kinds, same input indices, same text, except that the
rows meant to carry the input colouring carry exactly the raw line of their own input line. -/
theorem machine_ignores_raw_line (cfg : Cfg) {ls ls' : List L} (h : AgreeAll ls ls') :
    ERel (fun m m' => RowsRel (rawAt ls) (rawAt ls') cfg.tab m.out m'.out) (run cfg ls) (run cfg ls') :=
  run_rel cfg h

/-- `AgreeAll` is needed and can be met: a removed line and the same line coloured by git. (If the stripped texts
differ the rows differ; if a per-line fact differs — e.g. the commit regex — another handler claims the line.) -/
example : Machine.AgreeAll
    [{ raw := "-x".toList, text := "-x".toList, graphemes := [['-'], ['x']], commitRe := false, blame := false,
       grep := 0, submodule := none }]
    [{ raw := "\x1b[31m-x\x1b[m".toList, text := "-x".toList, graphemes := [['-'], ['x']], commitRe := false,
       blame := false, grep := 0, submodule := none }] :=
  .cons ⟨rfl, rfl, rfl, rfl, rfl, rfl⟩ .nil

open Machine in
/-- The same in elementary terms: the second run succeeds iff the first does; then row `i` of one run and row `i`
of the other have the same kind and input index, and — unless the kind is `.raw` or `.other` — the same text. -/
theorem machine_rows_independent_of_raw_line (cfg : Cfg) {ls ls' : List L} (h : AgreeAll ls ls') {m : M}
    (e : run cfg ls = .ok m) :
    ∃ m', run cfg ls' = .ok m' ∧ m'.out.length = m.out.length ∧
      ∀ (i : Nat) (r : Row), m.out[i]? = some r → ∃ r' : Row, m'.out[i]? = some r' ∧ r'.kind = r.kind ∧ r'.src = r.src ∧
        (r.kind ≠ .raw → r.kind ≠ .other → r'.text = r.text) := by
  have hr := run_rel cfg h
  rw [e] at hr
  revert hr
  cases e' : run cfg ls' <;> intro hr
  · exact hr.elim
  · rename_i m'
    have hr' : RowsRel (rawAt ls) (rawAt ls') cfg.tab m.out m'.out := hr
    refine ⟨m', rfl, hr'.length_eq, ?_⟩
    clear hr e e'
    generalize m.out = a at hr'
    generalize m'.out = a' at hr'
    induction hr' with
    | nil => intro i r hi; simp at hi
    | cons hrow _ ih =>
      intro i r hi
      cases i with
      | zero =>
        simp only [List.getElem?_cons_zero, Option.some.injEq] at hi
        subst hi
        refine ⟨_, rfl, hrow.kind, hrow.src, ?_⟩
        intro h1 h2
        rcases hrow.text with t | ⟨k, _⟩ | ⟨k, _⟩
        · exact t
        · exact absurd k h1
        · exact absurd k h2
      | succ j => simpa using ih j r (by simpa using hi)

open Machine in
/-- …and a run that fails (an error branch of the model = a panic of the code) fails identically: what the raw
line looks like can neither cause nor prevent a crash of the state machine. -/
theorem machine_error_independent_of_raw_line (cfg : Cfg) {ls ls' : List L} (h : AgreeAll ls ls') {e : String}
    (he : run cfg ls = .error e) : run cfg ls' = .error e := by
  have hr := run_rel cfg h
  rw [he] at hr
  revert hr
  cases run cfg ls' <;> intro hr
  · exact congrArg _ hr
  · exact hr.elim

open Machine in
/-- The rows that do show the raw line show the raw line *of their own input line*: a `.raw` row is
`raw_line ++ pad` (in both runs, with the same pad) or does not depend on the raw line at all (a file header that
delta composes itself under a decorated raw `file-style`); a `.other` row is the raw line with tabs expanded. -/
theorem machine_raw_rows_carry_own_line (cfg : Cfg) {ls ls' : List L} (h : AgreeAll ls ls') {m m' : M}
    (e : run cfg ls = .ok m) (e' : run cfg ls' = .ok m') :
    RowsRel (rawAt ls) (rawAt ls') cfg.tab m.out m'.out := by
  have hr := run_rel cfg h
  rw [e, e'] at hr
  exact hr

/-! ### A diff and every git colouring of it, whole runs (byte lines in, rows with their colour source out)

`MachineRaw.runBytes` (DeltaModel/MachineRaw.lean): every line is ingested as `ingest_line_utf8` does
(`line = strip_ansi_codes(raw_line)`, the per-line facts computed from the stripped line), the machine runs, and every
hunk row is paired with the decision `maybe_raw_line` takes for its input line (`Ansi.hunkLineKeepsRaw` over the
generated arms of `new_line_state`). The decoding of bytes and the fact functions are parameters. -/

open MachineRaw Machine in
/-- **Git's colouring is ignored by the whole machine.** For every configuration, every list of lines and every git
colouring of it (SGR sequences inserted anywhere between characters, line by line): the coloured run ends in the same
error as the plain run, or both succeed with the same number of rows in the same order, same kinds, same input
indices and the same text on every row except `.raw` / `.other` rows, which show their own raw line. If moreover the
decision of `maybe_raw_line` for the coloured line of every hunk row is the decision for the plain line (`hdef`:
`git_default_colouring_ignored_any_gitconfig`, `configured_*_colouring_ignored`, `hunk_row_default_colour_source`
below say when — git's built-in or configured colour on removed / added lines, none on unchanged lines), every row
has the same colour source too: run(coloured) = run(plain) on every row. -/
theorem machine_ignores_git_colouring (dec : Ansi.Bytes → Headers.Str) (facts : Headers.Str → Facts) (rc : RawCfg)
    (cfg : Cfg) (combined : Bool) {plain coloured : List Ansi.Bytes} (hc : GitColouringAll plain coloured)
    (hdef : ∀ rows, runBytes rc cfg combined dec facts plain = .ok rows → ∀ p ∈ rows,
      rowKeepsRaw rc cfg combined (bytesAt coloured) p.1 = p.2) :
    ERel (PairsRel (decAt dec plain) (decAt dec coloured) cfg.tab)
      (runBytes rc cfg combined dec facts plain) (runBytes rc cfg combined dec facts coloured) :=
  runBytes_git dec facts rc cfg combined hc hdef

/-- `GitColouringAll` is met by `-a` / `+b` coloured as git does (`ESC[31m-aESC[m`, `ESC[32m+ESC[m` `ESC[32mb`). -/
example : MachineRaw.GitColouringAll [[0x2d, 0x61], [0x2b, 0x62]]
    [[0x1b, 0x5b, 0x33, 0x31, 0x6d, 0x2d, 0x61, 0x1b, 0x5b, 0x6d],
     [0x1b, 0x5b, 0x33, 0x32, 0x6d, 0x2b, 0x1b, 0x5b, 0x6d, 0x1b, 0x5b, 0x33, 0x32, 0x6d, 0x62]] :=
  .cons (.sgr [0x33, 0x31] ⟨by decide, by decide⟩
      (.chr [0x2d] (.ascii _ (by decide)) (by decide) (.chr [0x61] (.ascii _ (by decide)) (by decide)
        (.sgr [] ⟨by simp, by decide⟩ .nil))))
    (.cons (.sgr [0x33, 0x32] ⟨by decide, by decide⟩
      (.chr [0x2b] (.ascii _ (by decide)) (by decide) (.sgr [] ⟨by simp, by decide⟩
        (.sgr [0x33, 0x32] ⟨by decide, by decide⟩ (.chr [0x62] (.ascii _ (by decide)) (by decide) .nil))))) .nil)

open MachineRaw in
/-- When `hdef` holds, 1: under the default options (no word-diff caller, no raw hunk-line style), for every
gitconfig, unified and combined diffs, with or without inspection — a removed-line row whose input line starts with
git's `ESC[31m` and an added-line row whose line starts with `ESC[32m` get their colours from delta. -/
theorem hunk_row_default_colour_source (rc : RawCfg) (hw : rc.wordDiff = false) (cfg : Machine.Cfg)
    (hm : cfg.minusStyle.isRaw = false) (hp : cfg.plusStyle.isRaw = false) (combined : Bool)
    (rawAt : Nat → Ansi.Bytes) (r : Machine.Row) (rest : Ansi.Bytes) :
    (r.kind = .minus → rawAt r.src = [0x1b, 0x5b, 0x33, 0x31, 0x6d] ++ rest →
      rowKeepsRaw rc cfg combined rawAt r = some false) ∧
    (r.kind = .plus → rawAt r.src = [0x1b, 0x5b, 0x33, 0x32, 0x6d] ++ rest →
      rowKeepsRaw rc cfg combined rawAt r = some false) := by
  obtain ⟨h1, h2⟩ := git_default_colouring_ignored_any_gitconfig rc.inspect (isRawOf cfg) hm hp rc.git combined rest
  constructor
  · intro hk hr; simp only [rowKeepsRaw, hk, prefixCharOf, hr, hw]; exact h1
  · intro hk hr; simp only [rowKeepsRaw, hk, prefixCharOf, hr, hw]; exact h2

open MachineRaw in
/-- When `hdef` holds, 2: a hunk row whose input line is not coloured at all (it starts with a character — the plain
diff, and git's unchanged lines) gets its colours from delta, whatever the row kind. Without `hz` (a raw
`zero-style`) or with a word-diff caller the line is kept raw: `raw_style_keeps_raw_line`, `word_diff_keeps_raw_line`. -/
theorem hunk_row_uncoloured_colour_source (rc : RawCfg) (hw : rc.wordDiff = false) (cfg : Machine.Cfg)
    (hm : cfg.minusStyle.isRaw = false) (hz : cfg.zeroStyle.isRaw = false) (hp : cfg.plusStyle.isRaw = false)
    (combined : Bool) (rawAt : Nat → Ansi.Bytes) (r : Machine.Row) (c : Ansi.Bytes) (hc : IsChar c) (hne : c ≠ [0x1b])
    (rest : Ansi.Bytes) (hr : rawAt r.src = c ++ rest) (hk : r.kind = .minus ∨ r.kind = .zero ∨ r.kind = .plus) :
    rowKeepsRaw rc cfg combined rawAt r = some false := by
  obtain ⟨a1, a2, a3, _⟩ := raw_line_arms_table combined
  rcases hk with hk | hk | hk
  · simp only [rowKeepsRaw, hk, prefixCharOf, hr, hw]
    rw [hunkLineKeepsRaw_of_armOk a1, show isRawOf cfg .minus = false from hm, uncoloured_line_not_kept_raw _ c hc hne]
  · simp only [rowKeepsRaw, hk, prefixCharOf, hr, hw]
    rw [hunkLineKeepsRaw_of_armOk a3, show isRawOf cfg .zero = false from hz, uncoloured_line_not_kept_raw _ c hc hne]
  · simp only [rowKeepsRaw, hk, prefixCharOf, hr, hw]
    rw [hunkLineKeepsRaw_of_armOk a2, show isRawOf cfg .plus = false from hp, uncoloured_line_not_kept_raw _ c hc hne]

open MachineRaw in
/-- …and what is *not* ignored stays visible through the composition: with inspection on, a removed-line row whose
input line starts with another SGR sequence (moved-line colours) is painted with the styles parsed from its raw line
exactly when that style equals neither git's built-in nor the configured minus style. -/
theorem hunk_row_moved_colour_source (rc : RawCfg) (hw : rc.wordDiff = false) (hi : rc.inspect = true)
    (cfg : Machine.Cfg) (hm : cfg.minusStyle.isRaw = false) (hp : cfg.plusStyle.isRaw = false) (combined : Bool)
    (rawAt : Nat → Ansi.Bytes) (r : Machine.Row) (hk : r.kind = .minus) (body : Ansi.Bytes) (hb : SgrBody body)
    (rest : Ansi.Bytes) (hr : rawAt r.src = 0x1b :: 0x5b :: (body ++ 0x6d :: rest)) :
    ∃ ps, csiKind body 0x6d = .sgr ps ∧ rowKeepsRaw rc cfg combined rawAt r =
      some (!(styleEq (sgrToStyle ps) gitDefaultMinus || styleEq (sgrToStyle ps) (configGitMinusStyle rc.git))) := by
  obtain ⟨ps, h1, h2, _⟩ := moved_line_kept_raw_any_gitconfig (isRawOf cfg) hm hp rc.git combined body hb rest
  exact ⟨ps, h1, by simp only [rowKeepsRaw, hk, prefixCharOf, hr, hw, hi]; exact h2⟩

/-- The places where the state machine's source reads the raw line are the ones the model was written against
(`Generated.rawLineUses`: every function of src/delta.rs and src/handlers/*.rs that mentions an identifier ending in
`raw_line`, with the number of mentions, regenerated on every run): a handler that starts to consult the raw line — or
a new consumer of it — changes the table. -/
theorem raw_line_use_inventory : Generated.rawLineUses = MachineRaw.modelledRawLineUses := by decide

end C08
