import Proofs.LineNumbersPad
import Proofs.LineNumbersUnified
import Proofs.LineNumbersSbs2
import Proofs.LineNumbersHeader
import Proofs.Machine.HunkCounter
import Proofs.WholeDiff
import Proofs.WholeDiffWidth
import Proofs.Machine.HunkNames
import Proofs.Machine.HunkRowsShape
import Proofs.WholeDiffSbsRead
/-!
C05 — displayed line numbers are the true old/new file line numbers.

The theorems are about the executable model `DeltaModel/LineNumbers.lean` (driver `drv_linenum`),
whose tables (`linenumbers_and_styles` arms, the `increment` rule, the side-by-side correction
arms, which coordinate pair is used, painting order, …) are regenerated from the Rust source on
every run (`DeltaModel/Generated/LineNum.lean`).

Numbers are `usize` in the code: every theorem carries the hypothesis that the numbers of the hunk
fit (`… ≤ usizeMax`); beyond that the model, like the dev-profile build, panics (see the examples
at the end; panics are C03's subject).

The line kinds are taken as `handle_hunk_line` classifies them (first character `-`, `+`, space).
An *empty* line inside a hunk (an empty context line written without the leading space) is not
classified as a hunk line by the code — that defect is outside these statements and is reported
by the check's direct oracle (known finding C05-empty-context-line).

Plain `diff -u` input (section "plain `diff -u` input" below): whether a line `--- x` inside a hunk is
a hunk line at all is decided by the minus-line counter of the state machine
(`DeltaModel/Machine.lean`, driver `drv_machine`); which match arms of `handle_hunk_line` count a
line is regenerated from the source (`DeltaModel/Generated/HunkCounter.lean`) and proved to be what
the machine model does; `plain_diff_numbers_true` composes the plain-diff reading of C01 with
`unified_numbers_true`.
-/
namespace C05
open LineNumbers

/-- Unified view. A hunk whose header starts are `(a, c)` and whose lines have kinds `ks` (in
    input order), painted through `handle_hunk_line`'s buffering with any `line-buffer-size`:
    there is exactly one row per line, in input order; the `k`-th row shows
    `a + #{j < k | ks j ∈ {-, ctx}}` in the old-number cell iff `ks k ∈ {-, ctx}` and
    `c + #{j < k | ks j ∈ {+, ctx}}` in the new-number cell iff `ks k ∈ {+, ctx}`; afterwards the
    counters stand at `a + #old`, `c + #new`. -/
theorem unified_numbers_true (bufSize a c : Nat) (ks : List Kind)
    (ha : a + countOld ks ≤ usizeMax) (hc : c + countNew ks ≤ usizeMax) :
    ∃ rows, runUnified bufSize ⟨a, c⟩ ks = .ok (⟨a + countOld ks, c + countNew ks⟩, rows) ∧
      rows.length = ks.length ∧
      ∀ k (hk : k < ks.length), ∃ cell, rows[k]? = some (some cell) ∧
        cell.left = (if ks[k].isOld then some (a + countOld (ks.take k)) else none) ∧
        cell.right = (if ks[k].isNew then some (c + countNew (ks.take k)) else none) := by
  refine ⟨trueRows a c ks, runUnified_spec bufSize a c ks ha hc, trueRows_length ks a c, ?_⟩
  intro k hk
  refine ⟨_, trueRows_getElem ks a c k hk, ?_, ?_⟩ <;> simp [trueCell, Cell.left, Cell.right]

/-- The hypotheses on a non-trivial hunk, and what the model then computes (buffer size 1, so the
    buffers are flushed in the middle of the subhunk as well). -/
example : (10 : Nat) + countOld [.ctx, .minus, .minus, .plus, .ctx] ≤ usizeMax ∧
    (20 : Nat) + countNew [.ctx, .minus, .minus, .plus, .ctx] ≤ usizeMax := by decide

example : (runUnified 1 ⟨10, 20⟩ [.ctx, .minus, .minus, .plus, .ctx]).toOption.map
      (fun r => r.2.map (fun cell => cell.map fun x => (x.left, x.right)))
    = some [some (some 10, some 20), some (some 11, none), some (some 12, none), some (none, some 21),
        some (some 13, some 22)] := by rfl

/-- Side-by-side view, one subhunk of `m` removed and `p` added lines, for every line alignment
    that uses each line once and in order (paired or not) and every number of rows per line
    (`wl`, `wr`, each ≥ 1) and whichever lines are kept raw in their state (`rl`, `rr`: coloured
    input, `raw` styles): the rows are those of `sbsSpec` — the first row of a line shows its true
    number (`a + i` for removed line `i`, `c + j` for added line `j`) in its own panel,
    continuation rows show none, the opposite panel of an unpaired row shows none — and the
    counters advance by exactly `(m, p)`. -/
theorem sbs_numbers_true (a c m p : Nat) (al : Alignment) (wl wr : List Nat) (rl rr : List Bool)
    (hv : validFrom al 0 0 = some (m, p)) (hwl : wl.length = m) (hwr : wr.length = p)
    (hposl : ∀ x ∈ wl, 1 ≤ x) (hposr : ∀ y ∈ wr, 1 ≤ y)
    (ha : a + m + 1 ≤ usizeMax) (hc : c + p ≤ usizeMax) :
    ∃ rows, sbsBlock ⟨a, c⟩ m p al wl wr rl rr = .ok (⟨a + m, c + p⟩, rows) ∧
      rows.map SbsRow.shown = (sbsSpec a c al wl wr).map some :=
  sbsBlock_spec a c m p al wl wr rl rr hv hwl hwr hposl hposr ha hc

/-- Hypotheses of `sbs_numbers_true` on a non-trivial value: 3 removed, 2 added lines; line 0
    unpaired and wrapped into 2 rows, lines 1/0 paired with 1 vs 3 rows, then an unpaired added
    line, then an unpaired removed line. -/
example : validFrom [(some 0, none), (some 1, some 0), (none, some 1), (some 2, none)] 0 0 = some (3, 2)
    ∧ sbsSpec 7 40 [(some 0, none), (some 1, some 0), (none, some 1), (some 2, none)] [2, 1, 1] [3, 1]
      = [(some 7, none), (none, none), (some 8, some 40), (none, none), (none, none), (none, some 41), (some 9, none)] := by
  decide

/-- The correction at the tail of the side-by-side row loop does not depend on whether the row's
    states still carry their raw line (`HunkMinus(_, Some(raw))` — git-coloured input such as
    `--color-moved`, `--minus-style raw`, …): the extracted arms constrain no payload. -/
theorem fixup_ignores_raw_payload (c : Counters) (ls rs : St) (lraw rraw lraw' rraw' mi pi : Bool) :
    applyFix c ls rs lraw rraw mi pi = applyFix c ls rs lraw' rraw' mi pi :=
  applyFix_ignores_raw c ls rs lraw rraw lraw' rraw' mi pi

example : applyFix ⟨7, 3⟩ .minus .plus true false true true = .ok ⟨8, 3⟩ := by rfl

/-- Side-by-side view, unchanged line occupying `rows` rows: the first row shows both true
    numbers, continuation rows none; both counters advance by one. -/
theorem sbs_zero_line_true (l r rows : Nat) (hl : l + 1 ≤ usizeMax) (hr : r + 1 ≤ usizeMax) :
    ∃ rs, zeroSbs ⟨l, r⟩ rows = .ok (⟨l + 1, r + 1⟩, rs) ∧
      rs.map SbsRow.shown = some (some l, some r) :: List.replicate (rows - 1) (some (none, none)) :=
  zeroSbs_spec l r rows hl hr

example : (3 : Nat) + 1 ≤ usizeMax ∧ (9 : Nat) + 1 ≤ usizeMax := by decide

/-- Side-by-side view, a whole hunk: any sequence of unchanged lines and subhunks (each with its
    own alignment and rows per line) shows `hunkSpec` — every block starts at the true numbers
    reached by the blocks before it — and leaves the counters at `start + number of old/new lines`. -/
theorem sbs_hunk_numbers_true (bs : List Block) (a c : Nat) (hwf : ∀ b ∈ bs, b.wf)
    (ha : a + totalOld bs + 1 ≤ usizeMax) (hc : c + totalNew bs + 1 ≤ usizeMax) :
    ∃ rows, runBlocksSbs ⟨a, c⟩ bs = .ok (⟨a + totalOld bs, c + totalNew bs⟩, rows) ∧
      rows.map SbsRow.shown = (hunkSpec a c bs).map some :=
  runBlocksSbs_spec bs a c hwf ha hc

example : hunkSpec 5 9 [.zero 2, .sub 1 1 [(some 0, some 0)] [1] [2] [true] [false], .zero 1]
    = [(some 5, some 9), (none, none), (some 6, some 10), (none, none), (some 7, some 11)] := by decide

/-- Hunk header `@@ -a[,b] +c[,d] @@frag` (any omitted counts, any fragment not starting with `@`):
    the parser returns the fragment and the two `(start, length)` pairs with length 1 for an
    omitted count; the number printed in the hunk-header box is `c`, the start of the new-file
    coordinate; `initialize_hunk` seeds the counters with `(a, c)`; the path printed is the new
    path unless that is `/dev/null`, then the old path. -/
theorem header_position_and_path (a : Nat) (b : Option Nat) (c : Nat) (d : Option Nat) (frag : List Char)
    (minusFile plusFile : String)
    (hfrag : frag.head? ≠ some '@')
    (ha : a + b.getD 1 ≤ usizeMax) (hc : c + d.getD 1 ≤ usizeMax) :
    parseHunkHeader (fmtHunkHeader a b c d frag) = .ok (some (frag, [(a, b.getD 1), (c, d.getD 1)])) ∧
    headerNumber [(a, b.getD 1), (c, d.getD 1)] = .ok c ∧
    (∃ w, initializeHunk [(a, b.getD 1), (c, d.getD 1)] = .ok (⟨a, c⟩, w)) ∧
    headerPath minusFile plusFile = (if plusFile = "/dev/null" then minusFile else plusFile) := by
  refine ⟨?_, headerNumber_two _ _ _ _, ⟨_, initializeHunk_two _ _ _ _ ha hc⟩, headerPath_eq _ _⟩
  apply parseHunkHeader_fmt a b c d frag hfrag (by omega)
  · intro k hk; subst hk; simp at ha; omega
  · omega
  · intro k hk; subst hk; simp at hc; omega

example : fmtHunkHeader 119 (some 12) 120 none " fn f(".toList = "@@ -119,12 +120 @@ fn f(".toList := by decide

/-- `format::pad` on a number: the field has `max width (number of digits)` characters, it is the
    decimal representation of `n` — unbroken — between runs of spaces, for every alignment. -/
theorem pad_width (n width : Nat) (al : Align) :
    (pad n width al).length = max width (Nat.repr n).length ∧
    (pad n width al).filter (· ≠ ' ') = (Nat.repr n).toList ∧
    ∃ i j, pad n width al = List.replicate i ' ' ++ (Nat.repr n).toList ++ List.replicate j ' ' := by
  obtain ⟨i, j, hp, hlen⟩ := pad_shape n width al
  have hr : (Nat.repr n).length = (digits n).length := by
    rw [digits_eq_repr, String.length_toList]
  have hns : ∀ c ∈ digits n, (decide (c ≠ ' ')) = true := by
    intro c hc
    simpa using digits_no_space n c hc
  refine ⟨?_, ?_, i, j, by rw [hp, digits_eq_repr]⟩
  · rw [hp, hr]; simp; omega
  · rw [hp, ← digits_eq_repr, List.filter_append, List.filter_append, List.filter_eq_self.mpr hns]
    simp

example : pad 7 4 .center = "  7 ".toList ∧ pad 12345 4 .left = "12345".toList := by decide

/-- `log10_plus_1` (the loop over 4 digits at a time) is the number of decimal digits. -/
theorem log10_plus_1_digits (n : Nat) : log10Plus1 n = (Nat.repr n).length := by
  rw [log10Plus1_eq, digits_eq_repr, String.length_toList]

example : log10Plus1 18446744073709551615 = 20 := by decide

-- plain `diff -u` input ---------------------------------------------------------------------------

section Plain
open Machine Machine.Plain Machine.Counter

/-- **Which hunk lines count as old-file lines** (the plain-diff minus-line counter that decides whether
    `--- x` inside a hunk is the removed line `-- x` or the next file's header). The machine model's
    `hunkLinePush` — for every configuration, machine state and line — moves the counter by
    `count_line`'s step times the number of `count_line()` calls that the extractor found in the match
    arm of `handle_hunk_line` the line is dispatched to (removed: 1, added: 0, unchanged: 1, anything
    else: 0; `Generated/HunkCounter.lean`, helper methods inlined). An edit that makes added lines count
    too changes the generated table and this no longer holds of the model. -/
theorem minus_counter_arms_match_source {cfg : Cfg} {m2 m3 : M} {l : L} {k : Option (LineKind × DiffType)}
    (hk : newLineState m2.st l = .ok k) (e : hunkLinePush cfg m2 l = .ok m3) :
    m3.counter = m2.counter - Generated.HunkCounter.countStep * ((armCalls (k.map (·.1)) : Nat) : Int) ∧
    modelArms = [Generated.HunkCounter.countCallsMinus, Generated.HunkCounter.countCallsPlus,
      Generated.HunkCounter.countCallsZero, Generated.HunkCounter.countCallsOther] :=
  ⟨hunkLinePush_counter hk e, modelArms_eq_generated⟩

/-- hypotheses on a concrete state and line: an added line in a unified hunk state; the counter stays -/
example : newLineState (.hunkZero .unified) (probeLine "+++ x") = .ok (some (.plus, .unified)) ∧
    (match hunkLinePush {} { st := .hunkZero .unified, counter := 3 } (probeLine "+++ x") with
     | .ok m => m.counter
     | .error _ => 0) = 3 := ⟨by rfl, by rfl⟩

/-- **The rest of the counter is the source's too**: `three_dashes_expected` with the extracted constants
    and comparison operators, `count_from` with its fallback, the seeding (not needed → armed → set from
    the length of the first coordinate pair of a hunk header), and the inventory of every place in
    `src/` that touches the counter. -/
theorem minus_counter_tables_match_source (c : Int) (n : Nat) :
    (Generated.HunkCounter.threeDashesShape = (">", "<=", true) ∧
      (threeDashesExpected c = true ↔
        (c > Generated.HunkCounter.relevantIfGreaterThan → c ≤ Generated.HunkCounter.expectHeader))) ∧
    countFrom n = (if n < 2 ^ 63 then (n : Int) else Generated.HunkCounter.relevantIfGreaterThan) ∧
    (({} : M).counter = Generated.HunkCounter.relevantIfGreaterThan ∧
      (∀ (m : M) (l : L), (armCounter m l).counter = m.counter ∨
        (armCounter m l).counter = Generated.HunkCounter.expectHeader) ∧
      Generated.HunkCounter.countFromSite = (0, 1, 2, false) ∧
      (∀ (m : M) (hh : Headers.HunkHeader) (a ml : Nat) (p : Nat × Nat) (rest : List (Nat × Nat)),
        hh.coords = (a, ml) :: p :: rest → m.counter > Generated.HunkCounter.relevantIfGreaterThan →
        hunkHeaderCounter m hh = countFrom ml) ∧
      (∀ (m : M) (hh : Headers.HunkHeader), ¬ m.counter > Generated.HunkCounter.relevantIfGreaterThan →
        hunkHeaderCounter m hh = m.counter)) ∧
    Generated.HunkCounter.counterSites.map (fun x => (x.1, x.2.2)) =
      [("src/delta.rs", "field"), ("src/delta.rs", "assign prepare_to_count"), ("src/delta.rs", "init not_needed"),
       ("src/handlers/diff_header.rs", "three_dashes_expected"), ("src/handlers/hunk.rs", "count_line"),
       ("src/handlers/hunk_header.rs", "assign count_from"), ("src/handlers/hunk_header.rs", "must_count")] :=
  ⟨threeDashesExpected_generated c, countFrom_generated n, counter_seeding, by rw [counter_sites]; rfl⟩

/-- **Plain `diff -u` / `diff -ru` input: every line of a hunk — a removed line `-- x` (input `--- x`)
    and an added line `++ x` (input `+++ x`) included — carries its true old/new number.**
    Input `pre ++ hdr :: body ++ post` that is plain diff output (`PlainInput`: detected as such by its
    first line and accepted by the reference reading of `C01.plain_diff_hunk_rows`, i.e. the hunk headers
    announce the true number of old-file lines), where after `pre` the reading takes `hdr` for a hunk
    header with coordinates `-a,b +c,d` and every line of `body` for a line of that hunk. Then
    * `b` is the announced old-file length the minus-line counter was set from;
    * the hunk-line rows of delta's output are those of `pre`, then exactly one row per line of `body`, in
      order, each `plainRow` (kind by the first column: `--- x` is a removed line), then those of `post`;
    * the kinds of these rows, `\ No newline…` rows aside, are `hunkKinds body` — the sequence of
      `paint` requests `handle_hunk_line` makes for the hunk;
    * `initialize_hunk` seeds the counters with `(a, c)`, and the line-number machine run on these kinds
      (any `line-buffer-size`) gives the `j`-th line of the body — if it is a `-`, `+` or blank line — a
      gutter cell showing `a + #{old-file lines before it in the hunk}` on the old side iff it is an
      old-file line and `c + #{new-file lines before it}` on the new side iff it is a new-file line, and
      leaves the counters at `(a + #old, c + #new)`. -/
theorem plain_diff_numbers_true {cfg : Cfg} {pre body post : List L} {hdr : L} {s s2 : PS} {ml : Nat} {m : M}
    {a b c d : Nat}
    (hin : PlainInput (pre ++ hdr :: (body ++ post)))
    (hpre : plainAfter .top pre = some s)
    (hh : plainNext s hdr = some (.hunk ml, false))
    (hco : (Headers.parseHunkHeader hdr.text).map (·.coords) = some [(a, b), (c, d)])
    (hb : readBody (.hunk ml) body = some s2)
    (e : run cfg (pre ++ hdr :: (body ++ post)) = .ok m)
    (ha : a + max b (oldCount body) ≤ usizeMax) (hc : c + max d (newCount body) ≤ usizeMax) :
    b = ml ∧
    m.out.filter (fun r => isBody r.kind) =
      plainRows cfg .top 0 pre ++ bodyRows cfg (pre.length + 1) body ++
        plainRows cfg s2 (pre.length + 1 + body.length) post ∧
    (bodyRows cfg (pre.length + 1) body).filterMap (fun r => rowNumKind r.kind) = hunkKinds body ∧
    (∃ w, initializeHunk [(a, b), (c, d)] = .ok (⟨a, c⟩, w)) ∧
    ∃ cells, runUnified cfg.bufSize ⟨a, c⟩ (hunkKinds body) =
        .ok (⟨a + oldCount body, c + newCount body⟩, cells) ∧
      cells.length = (hunkKinds body).length ∧
      ∀ j (hj : j < body.length) (k : Kind), numKind body[j] = some k →
        (bodyRows cfg (pre.length + 1) body)[j]? = some (plainRow cfg body[j] (pre.length + 1 + j)) ∧
        ∃ cell, cells[(hunkKinds (body.take j)).length]? = some (some cell) ∧
          cell.left = (if k.isOld then some (a + oldCount (body.take j)) else none) ∧
          cell.right = (if k.isNew then some (c + newCount (body.take j)) else none) := by
  have hbo : countOld (hunkKinds body) = oldCount body := countOld_hunkKinds body
  have hbn : countNew (hunkKinds body) = newCount body := countNew_hunkKinds body
  refine ⟨?_, ?_, ?_, ?_, ?_⟩
  · -- the announced length
    have han := plainNext_hunk_false hh
    unfold announcedOld at han
    split at han
    · cases hp : Headers.parseHunkHeader hdr.text with
      | none => simp [hp] at hco
      | some h0 =>
        simp only [hp, Option.map_some, Option.some.injEq] at hco
        simp only [hp, hco] at han
        split at han
        · exact Option.some.inj han
        · cases han
    · cases han
  · -- the rows
    rw [run_plain_rows hin e, plainRows_append pre .top s 0 (hdr :: (body ++ post)) hpre,
      plainRows_cons _ (body ++ post) hh,
      plainRows_append body (.hunk ml) s2 _ post (readBody_after body _ _ hb),
      readBody_rows cfg body _ s2 _ hb]
    simp [Nat.add_assoc]
  · exact bodyRows_kinds cfg body _ (readBody_lines body _ _ hb)
  · exact ⟨_, initializeHunk_two a b c d (by omega) (by omega)⟩
  · obtain ⟨rows, hrun, hlen, hrows⟩ := unified_numbers_true cfg.bufSize a c (hunkKinds body)
      (by rw [hbo]; omega) (by rw [hbn]; omega)
    refine ⟨rows, by rw [hrun, hbo, hbn], hlen, ?_⟩
    intro j hj k hk
    refine ⟨?_, ?_⟩
    · rw [bodyRows_getElem cfg body (pre.length + 1) j hj]
    · obtain ⟨hlt, hget, htake⟩ := hunkKinds_take body j hj k hk
      obtain ⟨cell, hcell, hl, hr⟩ := hrows _ hlt
      refine ⟨cell, hcell, ?_, ?_⟩
      · rw [hl, hget, htake, countOld_hunkKinds]
      · rw [hr, hget, htake, countNew_hunkKinds]

/-- two concatenated plain diffs; in the first hunk the removed line `-- legacy columns` (input
    `--- legacy columns`) comes after four added lines, when two old-file lines have been seen and
    four are still to come -/
def plainNumSample : List L :=
  ["--- a/db/schema.sql", "+++ b/db/schema.sql", "@@ -10,6 +10,9 @@", " create table person (", "+  id integer,",
   "+  email text,", "+  created timestamp,", "+  updated timestamp,", "   name text,", "--- legacy columns",
   "   age integer,", "   unused integer", " );", "--- a/README", "+++ b/README", "@@ -1 +1 @@", "-old title",
   "+new title"].map probeLine

/-- the hypotheses of `plain_diff_numbers_true` with `pre` = lines 0–1, `hdr` = line 2, `body` = lines 3–12 -/
example : plainAccepts .top plainNumSample = true := by decide
example : detectSource (probeLine "--- a/db/schema.sql").text = .diffUnified := by decide
example : plainAfter .top (plainNumSample.take 2) = some .top := by decide
example : plainNext .top (probeLine "@@ -10,6 +10,9 @@") = some (.hunk 6, false) := by decide
example : (Headers.parseHunkHeader (probeLine "@@ -10,6 +10,9 @@").text).map (·.coords) = some [(10, 6), (10, 9)] := by
  decide
example : readBody (.hunk 6) ((plainNumSample.drop 3).take 10) = some (.hunk 0) := by decide
example : (10 : Nat) + max 6 (oldCount ((plainNumSample.drop 3).take 10)) ≤ usizeMax ∧
    (10 : Nat) + max 9 (newCount ((plainNumSample.drop 3).take 10)) ≤ usizeMax := by decide
/-- … and its conclusion: the machine shows the ten body lines as hunk lines (`--- legacy columns`,
    input line 9, as a removed line; the `--- a/README` / `+++ b/README` lines 13–14 not at all) … -/
example : (match run {} plainNumSample with
    | .ok m => (m.out.filter (fun r => isBody r.kind)).map (fun r => (r.src, rowNumKind r.kind))
    | .error _ => []) =
    [(3, some .ctx), (4, some .plus), (5, some .plus), (6, some .plus), (7, some .plus), (8, some .ctx),
     (9, some .minus), (10, some .ctx), (11, some .ctx), (12, some .ctx), (16, some .minus), (17, some .plus)] := by
  decide
/-- … and the line-number machine numbers them 10/10, –/11 … –/14, 11/15, **12/–** (`-- legacy columns`),
    13/16, 14/17, 15/18 -/
example : numKind (probeLine "--- legacy columns") = some .minus ∧
    oldCount (((plainNumSample.drop 3).take 10).take 6) = 2 ∧
    (hunkKinds (((plainNumSample.drop 3).take 10).take 6)).length = 6 := by decide
example : (runUnified 32 ⟨10, 10⟩ (hunkKinds ((plainNumSample.drop 3).take 10))).toOption.map
      (fun r => r.2.map (fun cell => cell.map fun x => (x.left, x.right)))
    = some [some (some 10, some 10), some (none, some 11), some (none, some 12), some (none, some 13),
        some (none, some 14), some (some 11, some 15), some (some 12, none), some (some 13, some 16),
        some (some 14, some 17), some (some 15, some 18)] := by rfl

end Plain

/-- Beyond `usize::MAX` the counter additions either panic (`+=`, dev profile — C03's subject) or
    saturate (`saturating_add`, optional repair 29ddcd9); the model follows whichever form the
    source has (generated flags `counterAddSaturates`, `maxSumSaturates`), and the theorems above
    hold for both because their hypotheses keep the numbers inside `usize`. -/
example : addUsizeSat false usizeMax 1 = .error "attempt to add with overflow" ∧
    addUsizeSat true usizeMax 1 = .ok usizeMax ∧ addUsizeSat true 41 1 = addUsizeSat false 41 1 := by
  refine ⟨by rfl, by rfl, by rfl⟩

/-- A line that only looks like a hunk header (`@@ foo @@`, a number that does not fit `usize`, a
    non-ASCII digit): not a hunk header when the source has the optional repair 9e2fda3, a panic /
    an empty coordinate list otherwise. -/
example : Generated.LineNum.headerRejectsEmpty = true → parseHunkHeader "@@ foo @@".toList = .ok none := by
  intro h; simp [parseHunkHeader, h]; rfl
example : Generated.LineNum.headerParseRejects = true →
    parseHunkHeader "@@ -1 +99999999999999999999999 @@".toList = .ok none := by
  intro h
  have e : coordsF ("-1 +99999999999999999999999 ".toList.length + 1) "-1 +99999999999999999999999 ".toList
      = .error "ParseIntError: number too large to fit in target type" := by rfl
  have f : findHeader "@@ -1 +99999999999999999999999 @@".toList
      = some ("-1 +99999999999999999999999 ".toList, []) := by rfl
  unfold parseHunkHeader
  rw [f]
  simp only [e, h, if_true]
example : headerNumber [] = .error "attempt to subtract with overflow" := by rfl

-- whole diffs: many files, many hunks ----------------------------------------------------------------

section WholeDiffs
open LineNumbers.Whole

/-- **Whole input: every hunk of every file is numbered from its own header.** For every `line-buffer-size`
    and every two-way diff — any number of file sections (each with the pair of names the state machine holds
    after its header lines), each with any number of hunks `@@ -a[,b] +c[,d] @@frag` (counts omitted or not,
    zero-length sides included) followed by the lines of the hunk (kinds `ks`, at least one) — the run of the
    model of `handle_hunk_header_line` / `handle_hunk_line` / `emit_hunk_header_line` /
    `LineNumbersData::initialize_hunk` (statement orders, assigned fields, call arguments regenerated from the
    source) ends without panic, and its rows are `diffRows`: file by file, hunk by hunk,
    * the hunk-header row carrying the path of **that** file (plus file, minus file for `/dev/null`) and `c`,
      the start of **that** hunk in the new file;
    * then one row per line, in input order, the `k`-th showing `a + #{old-file lines among the first k of this
      hunk}` / `c + #{new-file lines among them}` (see `whole_diff_row_reading`), painted while the width of the
      number fields is the digit count of `max (a+b) (c+d)` of **this** header and the plus-file name is that of
      **this** file.
    Nothing of an earlier hunk or file reaches a later one: not the counters (where the previous hunk stopped,
    lines of it still buffered when the next header arrives — they are painted first, with the old numbers), not
    the width, not the name. -/
theorem whole_diff_numbers_true (bufSize : Nat) (fs : List FileSec) (hw : ∀ f ∈ fs, ∀ h ∈ f.hunks, h.wf) :
    runWhole bufSize (diffItems fs) = .ok (diffRows fs) :=
  runWhole_spec bufSize fs hw

/-- how to read `Hunk.rows`: row 0 is the header row, row `k + 1` is line `k` with its numbers in the counting
    form of the property statement -/
theorem whole_diff_row_reading (mf pf : String) (h : Hunk) (k : Nat) (hk : k < h.ks.length) :
    (h.rows mf pf)[0]? = some (.header (if pf = "/dev/null" then mf else pf) h.c) ∧
    ∃ cell, (h.rows mf pf)[k + 1]? = some (.line (some cell) h.width pf) ∧
      cell.left = (if h.ks[k].isOld then some (h.a + countOld (h.ks.take k)) else none) ∧
      cell.right = (if h.ks[k].isNew then some (h.c + countNew (h.ks.take k)) else none) := by
  refine ⟨by simp [Hunk.rows, headerPath_eq], trueCell (h.a + countOld (h.ks.take k)) (h.c + countNew (h.ks.take k)) h.ks[k], ?_, ?_, ?_⟩
  · simp [Hunk.rows, List.getElem?_map, trueRows_getElem h.ks h.a h.c k hk]
  · simp [trueCell, Cell.left]
  · simp [trueCell, Cell.right]

/-- **A hunk is shown the same whatever came before it.** From *any* state earlier input can leave behind
    (counters anywhere, lines of the previous hunk still buffered, any width and plus-file name in the
    line-number data; `Fits`: the numbers of the buffered lines fit `usize`), the items of a hunk add exactly
    `h.rows` for the file names then current, after the rows the earlier input settles to. -/
theorem hunk_shown_independent_of_history (bufSize : Nat) (h : Hunk) (hw : h.wf) (s : WState) (hf : Fits s) :
    ∃ s', stepItems bufSize s h.items = .ok s' ∧
      settled s' = settled s ++ h.rows s.minusFile s.plusFile ∧ Fits s' :=
  let ⟨s', e, hs, hf', _, _⟩ := hunk_spec bufSize h hw s hf
  ⟨s', e, hs, hf'⟩

/-- **`initialize_hunk` leaves nothing of the previous hunk**, read off the source: it assigns every field of
    `LineNumbersData` except the parsed format strings; no new value reads `self` (the extractor stops
    otherwise), the counters and the width come from the header's coordinate list, the name from the
    `plus_file` argument, and the one call in `src/` passes this header's list and the state machine's current
    `plus_file`; the handler of the `@@` line itself only parks the parsed header; `emit_hunk_header_line` is
    called for the first line of a hunk (`handle_hunk_line`) and for a conflict region that opens one. -/
theorem initialize_hunk_resets_everything :
    (Generated.HunkInit.lnDataFields.filter (· ≠ "format_data")).all assigns = true ∧
    (∀ a ∈ Generated.HunkInit.initAssigns, a.2 = (if a.1 = "plus_file" then ["plus_file"] else ["line_numbers"])) ∧
    Generated.HunkInit.initArgs = ("line_numbers_and_hunk_lengths", "self.plus_file") ∧
    Generated.HunkInit.initGuard = "self.config.line_numbers" ∧
    Generated.HunkInit.initCallSites = [("src/handlers/hunk_header.rs", "emit_hunk_header_line")] ∧
    Generated.HunkInit.headerLineOps = ["set_state_hunk_header"] ∧
    Generated.HunkInit.emitHeaderCallSites =
      [("src/handlers/hunk.rs", "handle_hunk_line"), ("src/handlers/merge_conflict.rs", "enter_merge_conflict")] := by
  refine ⟨by decide, by decide, rfl, rfl, rfl, rfl, rfl⟩

/-- two files, three hunks: the second hunk starts below the first one's end, omits both counts, and arrives
    while two removed lines of the first hunk are still buffered; the third belongs to a deleted file
    (`+++ /dev/null`, new side `+0,0`) and needs seven digits -/
def wholeSample : List FileSec :=
  [⟨"src/a.rs", "src/a.rs",
     [⟨119, some 3, 120, some 1, " fn f(".toList, [.ctx, .minus, .minus]⟩,
      ⟨7, none, 9, none, [], [.minus, .plus]⟩]⟩,
   ⟨"old/b.txt", "/dev/null", [⟨1234567, some 2, 0, some 0, [], [.minus, .minus]⟩]⟩]

/-- the hypotheses hold of it … -/
example : ∀ f ∈ wholeSample, ∀ h ∈ f.hunks, h.wf := by decide
/-- … its items … -/
example : (diffItems wholeSample).length = 12 ∧
    (diffItems wholeSample)[1]? = some (.header "@@ -119,3 +120,1 @@ fn f(".toList) ∧
    (diffItems wholeSample)[5]? = some (.header "@@ -7 +9 @@".toList) := by decide
/-- … and what the model computes for them (buffer size 32: nothing is painted early) -/
example : (runWhole 32 (diffItems wholeSample)).toOption.map (·.map fun r => match r with
      | .header p n => (p, n, none, none, 0)
      | .line c w pf => (pf, 0, c.bind Cell.left, c.bind Cell.right, w)) =
    some [("src/a.rs", 120, none, none, 0), ("src/a.rs", 0, some 119, some 120, 3), ("src/a.rs", 0, some 120, none, 3),
      ("src/a.rs", 0, some 121, none, 3),
      ("src/a.rs", 9, none, none, 0), ("src/a.rs", 0, some 7, none, 2), ("src/a.rs", 0, none, some 9, 2),
      ("old/b.txt", 0, none, none, 0), ("/dev/null", 0, some 1234567, none, 7), ("/dev/null", 0, some 1234568, none, 7)] := by
  rfl

/-- `h.ks ≠ []` is needed: a header that no hunk line follows is never written (C02
    `dangling_hunk_header_dropped`; git produces no such input) -/
example : runWhole 32 [.names "a" "a", .header "@@ -1 +1 @@".toList, .names "b" "b",
    .header "@@ -5 +6 @@".toList] = .ok [] := by rfl

end WholeDiffs

-- whole diffs in the side-by-side view --------------------------------------------------------------------

section WholeDiffsSbs
open LineNumbers.Whole LineNumbers.WholeSbs

/-- **Whole input, side-by-side view: every row of every hunk of every file shows true numbers, counted from the
    hunk's own header.** For every `line-buffer-size`, every alignment function `al` (the line alignment of a subhunk
    as a function of its buffered removed / added lines — `get_diff_style_sections(&lines, config)` in the source —
    that uses every line once and in order: `ValidAlign`), and every two-way diff — any number of file sections, each
    with any number of hunks `@@ -a[,b] +c[,d] @@frag` followed by their lines, each line with its kind, the number of
    display rows it wraps into (≥ 1, any) and whether its state keeps the raw line — the run of the model of
    `handle_hunk_header_line` / `handle_hunk_line` / `emit_hunk_header_line` / `initialize_hunk` with the
    side-by-side painters (`paint_buffered_minus_and_plus_lines` → `paint_minus_and_plus_lines_side_by_side`,
    `paint_zero_line` → `paint_zero_lines_side_by_side`; statement orders, branches, call arguments regenerated) ends
    without panic, and what its rows show is `DiffShown`: file by file, hunk by hunk (`HunkShown`),
    * the hunk-header row with the path of **that** file and `c` of **that** header, then
    * `specRows al a c bs` for a sequence `bs` of blocks — unchanged lines and flushed subhunks — whose lines are
      exactly the hunk's lines in input order (`flatAll bs = h.lines`): every block starts at
      `a + #old-file lines before it in this hunk` / `c + #new-file lines before it`
      (`sbs_block_starts_at_true_numbers`), an unchanged line shows both numbers on its first row, in a subhunk the
      first row of removed line `i` shows `start + i` in the left cell, of added line `j` `start + j` in the right
      cell, continuation rows and the empty half of an unpaired row show nothing (`sbsSpec`, as in
      `sbs_numbers_true`) — all stamped with the width of **this** header and the plus-file of **this** file.
    Where the flushes fall (`line-buffer-size`, a removed line after an added one, an unchanged line, the next
    header, the next file, the end of input) changes `bs` but not these facts; `whole_diff_sbs_row_reading` gives the
    reading that does not mention `bs`. -/
theorem whole_diff_numbers_true_sbs (bufSize : Nat) (al : AlignOf) (hal : ValidAlign al) (fs : List SFileSec)
    (hw : ∀ f ∈ fs, ∀ h ∈ f.hunks, h.wf) :
    ∃ rows, runWholeSbs bufSize al (diffItemsS fs) = .ok rows ∧ DiffShown al fs (rows.map view) :=
  runWholeSbs_spec bufSize al hal fs hw

/-- **How to read `HunkShown`, without the blocks**: the first row is the header row (path of the file — the minus
    file for `/dev/null` —, new-file start of this header); in the rows after it, whatever the flush points, the
    alignments and the rows per line, the left cells that show a number show — top to bottom — `a, a+1, …`, one per
    removed / unchanged line of the hunk, the right cells `c, c+1, …`, one per added / unchanged line; every other
    cell (continuation rows of wrapped lines, the empty half of unpaired rows) is blank; every row is stamped with
    this header's width and this file's plus-file name. -/
theorem whole_diff_sbs_row_reading (al : AlignOf) (hal : ValidAlign al) (mf pf : String) (h : SHunk) (v : List SView)
    (hv : HunkShown al mf pf h v) :
    ∃ nums : List NumRow,
      v = .header (if pf = "/dev/null" then mf else pf) h.c :: nums.map (fun x => SView.line (some x) h.width pf) ∧
      lefts nums = List.range' h.a (cntOld h.lines) ∧ rights nums = List.range' h.c (cntNew h.lines) := by
  obtain ⟨bs, hflat, _, rfl⟩ := hv
  refine ⟨specRows al h.a h.c bs, by simp [hunkView, headerPath_eq], ?_, ?_⟩
  · rw [(specRows_numbers al hal bs h.a h.c).1, hflat]
  · rw [(specRows_numbers al hal bs h.a h.c).2, hflat]

/-- **Every cell of every rendered row is a true number of this hunk or blank**: each row of a shown hunk is the header
    row or a panel row stamped with this header's width and this file's plus-file whose left cell is blank or shows an
    old-file line number of this hunk (`a ≤ n < a + #old-file lines`) and whose right cell is blank or shows a new-file
    line number of this hunk (`c ≤ n < c + #new-file lines`); by `whole_diff_sbs_row_reading` each of these numbers
    occurs exactly once, in increasing order — the `k`-th numbered left cell belongs to the `k`-th removed / unchanged
    line. Nothing counted from another hunk's header can appear. -/
theorem whole_diff_sbs_every_cell_true_or_blank (al : AlignOf) (hal : ValidAlign al) (mf pf : String) (h : SHunk)
    (v : List SView) (hv : HunkShown al mf pf h v) :
    ∀ x ∈ v, x = .header (if pf = "/dev/null" then mf else pf) h.c ∨
      ∃ l r, x = .line (some (l, r)) h.width pf ∧
        (∀ n, l = some n → h.a ≤ n ∧ n < h.a + cntOld h.lines) ∧
        (∀ n, r = some n → h.c ≤ n ∧ n < h.c + cntNew h.lines) := by
  obtain ⟨bs, hflat, _, rfl⟩ := hv
  intro x hx
  simp only [hunkView, List.mem_cons, List.mem_map] at hx
  rcases hx with rfl | ⟨y, hy, rfl⟩
  · left; simp [headerPath_eq]
  · right
    refine ⟨y.1, y.2, rfl, ?_, ?_⟩
    · intro n hn
      have : n ∈ lefts (specRows al h.a h.c bs) := List.mem_filterMap.mpr ⟨y, hy, hn⟩
      rw [(specRows_numbers al hal bs h.a h.c).1, hflat] at this
      exact List.mem_range'_1.mp this
    · intro n hn
      have : n ∈ rights (specRows al h.a h.c bs) := List.mem_filterMap.mpr ⟨y, hy, hn⟩
      rw [(specRows_numbers al hal bs h.a h.c).2, hflat] at this
      exact List.mem_range'_1.mp this

/-- **Every block is shown from the true numbers of its first lines**: in the rows of a hunk painted as the blocks
    `xs ++ b :: ys`, the rows of `b` are `blockSpec` (the specification of `sbs_numbers_true` / `sbs_zero_line_true`)
    started at `a + #{old-file lines of the hunk before b}` and `c + #{new-file lines before b}`. -/
theorem sbs_block_starts_at_true_numbers (al : AlignOf) (a c : Nat) (xs ys : List SBlock) (b : SBlock) :
    specRows al a c (xs ++ b :: ys) =
      specRows al a c xs ++ blockSpec (a + cntOld (flatAll xs)) (c + cntNew (flatAll xs)) (b.toBlock al) ++
        specRows al (a + cntOld (flatAll (xs ++ [b]))) (c + cntNew (flatAll (xs ++ [b]))) ys := by
  have e : xs ++ b :: ys = (xs ++ [b]) ++ ys := by simp
  rw [e, specRows_append, specRows_append, (cnt_flatAll al xs).1, (cnt_flatAll al xs).2,
    (cnt_flatAll al (xs ++ [b])).1, (cnt_flatAll al (xs ++ [b])).2]
  simp [specRows, blocksOf, hunkSpec]

/-- **Which painter a flush reaches, read off the source**: `paint_buffered_minus_and_plus_lines` returns at once when
    both buffers are empty, otherwise hands BOTH buffers (one subhunk) and the painter's line-number data to
    `paint_minus_and_plus_lines` and then clears both; that function consults the view only in its final
    `if config.side_by_side`, whose then-branch calls `paint_minus_and_plus_lines_side_by_side` with the line
    alignment — computed from the buffered lines and the configuration alone — and the same line-number data;
    `paint_zero_line` branches on the same flag to `paint_zero_lines_side_by_side`, with the same data. -/
theorem sbs_flush_dispatch_of_source :
    Generated.SbsDispatch.bufferedOrder =
      ["return_if_both_empty", "paint_minus_and_plus_lines", "clear_minus_lines", "clear_plus_lines"] ∧
    Generated.SbsDispatch.bufferedArgs.take 2 =
      ["MinusPlus::new(&self.minus_lines, &self.plus_lines)", "&mut self.line_numbers_data"] ∧
    (Generated.SbsDispatch.minusPlusBranch.1, Generated.SbsDispatch.minusPlusBranch.2.1) =
      ("config.side_by_side", "side_by_side::paint_minus_and_plus_lines_side_by_side") ∧
    "line_alignment" ∈ Generated.SbsDispatch.minusPlusSbsArgs ∧
    "line_numbers_data" ∈ Generated.SbsDispatch.minusPlusSbsArgs ∧
    Generated.SbsDispatch.alignmentSource = "get_diff_style_sections(&lines, config)" ∧
    (Generated.SbsDispatch.zeroBranch.1, Generated.SbsDispatch.zeroBranch.2.1) =
      ("self.config.side_by_side", "side_by_side::paint_zero_lines_side_by_side") ∧
    Generated.SbsDispatch.zeroSbsLineNumbers = "&mut self.line_numbers_data.as_mut()" ∧
    (∀ b, painterKnown b = true) := by
  refine ⟨rfl, rfl, rfl, by decide, by decide, rfl, rfl, rfl, painterKnown_all⟩

/-- two files, three hunks: in the first an unchanged line wrapped into 2 rows, a removed line wrapped into 3 rows
    paired with an added line of 1 row, an unpaired removed line kept raw; the second omits both counts and has more
    added than removed lines; the third belongs to a deleted file and needs seven digits -/
def wholeSampleSbs : List SFileSec :=
  [⟨"src/a.rs", "src/a.rs",
     [⟨119, some 3, 120, some 2, " fn f(".toList,
        [(.ctx, ⟨2, false, 0⟩), (.minus, ⟨3, false, 1⟩), (.minus, ⟨1, true, 2⟩), (.plus, ⟨1, false, 3⟩)]⟩,
      ⟨7, none, 9, none, [], [(.minus, ⟨1, false, 4⟩), (.plus, ⟨2, false, 5⟩), (.plus, ⟨1, false, 6⟩)]⟩]⟩,
   ⟨"old/b.txt", "/dev/null", [⟨1234567, some 2, 0, some 0, [], [(.minus, ⟨1, false, 7⟩), (.minus, ⟨1, false, 8⟩)]⟩]⟩]

/-- the hypotheses hold of it (`zipAlign`: the first `min m p` lines paired, the others unpaired) … -/
example : ValidAlign zipAlign ∧ ∀ f ∈ wholeSampleSbs, ∀ h ∈ f.hunks, h.wf := ⟨zipAlign_valid, by decide⟩
/-- … and what the model computes: buffer size 32 (each subhunk painted as a whole) … -/
example : (runWholeSbs 32 zipAlign (diffItemsS wholeSampleSbs)).toOption.map (·.map view) =
    some [.header "src/a.rs" 120, .line (some (some 119, some 120)) 3 "src/a.rs", .line (some (none, none)) 3 "src/a.rs",
      .line (some (some 120, some 121)) 3 "src/a.rs", .line (some (none, none)) 3 "src/a.rs",
      .line (some (none, none)) 3 "src/a.rs", .line (some (some 121, none)) 3 "src/a.rs",
      .header "src/a.rs" 9, .line (some (some 7, some 9)) 2 "src/a.rs", .line (some (none, none)) 2 "src/a.rs",
      .line (some (none, some 10)) 2 "src/a.rs",
      .header "old/b.txt" 0, .line (some (some 1234567, none)) 7 "/dev/null", .line (some (some 1234568, none)) 7 "/dev/null"] := by
  decide
/-- … and buffer size 1 (the first subhunk is painted in three flushes: other rows, the same numbers in the same order) -/
example : (runWholeSbs 1 zipAlign (diffItemsS wholeSampleSbs)).toOption.map (·.map view) =
    some [.header "src/a.rs" 120, .line (some (some 119, some 120)) 3 "src/a.rs", .line (some (none, none)) 3 "src/a.rs",
      .line (some (some 120, none)) 3 "src/a.rs", .line (some (none, none)) 3 "src/a.rs",
      .line (some (none, none)) 3 "src/a.rs", .line (some (some 121, none)) 3 "src/a.rs",
      .line (some (none, some 121)) 3 "src/a.rs",
      .header "src/a.rs" 9, .line (some (some 7, some 9)) 2 "src/a.rs", .line (some (none, none)) 2 "src/a.rs",
      .line (some (none, some 10)) 2 "src/a.rs",
      .header "old/b.txt" 0, .line (some (some 1234567, none)) 7 "/dev/null", .line (some (some 1234568, none)) 7 "/dev/null"] := by
  decide

/-- the hypothesis `HunkShown` of the two reading theorems on a non-trivial value: the first hunk of `wholeSampleSbs` as
    painted with buffer size 32 — blocks: the unchanged line, then one subhunk of two removed and one added line -/
example : HunkShown zipAlign "src/a.rs" "src/a.rs"
    ⟨119, some 3, 120, some 2, " fn f(".toList,
      [(.ctx, ⟨2, false, 0⟩), (.minus, ⟨3, false, 1⟩), (.minus, ⟨1, true, 2⟩), (.plus, ⟨1, false, 3⟩)]⟩
    [.header "src/a.rs" 120, .line (some (some 119, some 120)) 3 "src/a.rs", .line (some (none, none)) 3 "src/a.rs",
     .line (some (some 120, some 121)) 3 "src/a.rs", .line (some (none, none)) 3 "src/a.rs",
     .line (some (none, none)) 3 "src/a.rs", .line (some (some 121, none)) 3 "src/a.rs"] :=
  ⟨[.zero ⟨2, false, 0⟩, .sub [⟨3, false, 1⟩, ⟨1, true, 2⟩] [⟨1, false, 3⟩]], by decide,
   by intro b hb; simp at hb; rcases hb with rfl | rfl <;> simp [SBlock.wf], by decide⟩

/-- `ValidAlign` is needed: an alignment that leaves a line out loses the line (here: the only line of the hunk) -/
example : (runWholeSbs 32 (fun _ _ => []) [.names "a" "a", .header "@@ -5 +5 @@".toList,
      .line (some .minus) ⟨1, false, 0⟩]).toOption.map (·.map view) = some [.header "a" 5] := by decide
/-- `1 ≤ rows` is needed: a removed line said to occupy no display row has no row to show its number on (the left
    cell of the pair's row stays blank; with 1 row it shows 5) -/
example : (runWholeSbs 32 zipAlign [.names "a" "a", .header "@@ -5 +5 @@".toList, .line (some .minus) ⟨0, false, 0⟩,
      .line (some .plus) ⟨2, false, 0⟩]).toOption.map (·.map view) =
      some [.header "a" 5, .line (some (none, some 5)) 1 "a", .line (some (none, none)) 1 "a"] ∧
    (runWholeSbs 32 zipAlign [.names "a" "a", .header "@@ -5 +5 @@".toList, .line (some .minus) ⟨1, false, 0⟩,
      .line (some .plus) ⟨2, false, 0⟩]).toOption.map (·.map view) =
      some [.header "a" 5, .line (some (some 5, some 5)) 1 "a", .line (some (none, none)) 1 "a"] := by decide
/- The other hypotheses of `SHunk.wf` are those of `whole_diff_numbers_true` (a hunk has a line; `frag` does not start
   with `@`) and of `sbs_hunk_numbers_true` (`start + lines + 1 ≤ usize::MAX`: in the row loop the left counter is
   transiently one ahead of the last removed line — beyond, the checked `+ 1` of the correction panics). -/

end WholeDiffsSbs

-- width of the number fields; coordinates over the whole usize range ------------------------------------

section WidthAndCoordinates
open LineNumbers.Whole

/-- **The width of the number fields is a function of the hunk header alone and covers every number of the
    hunk, for all format strings.** `hunk_max_line_number_width` as `initialize_hunk` computes it is
    `h.width` = the digit count of `max (a + b) (c + d)` (a missing count is 1). In a hunk that has no more
    old / new lines than its header announces (`h.truthful`), every number shown has at most that many digits;
    hence, whatever the two format strings parse to (`fl`, `fr`: any placeholder lists — widths, alignments,
    several placeholders, none), the gutter of every row of the hunk is exactly as long as the gutter of a row
    that shows no number: the number columns of a hunk line up. (`pad_width`: the digits are unbroken in it.) -/
theorem number_field_width_covers_hunk (h : Hunk) (ht : h.truthful) (fl fr : List PH) (cell : Cell)
    (hab : h.a + h.b.getD 1 ≤ usizeMax) (hcd : h.c + h.d.getD 1 ≤ usizeMax)
    (hc : some cell ∈ trueRows h.a h.c h.ks) :
    (∃ cs, initializeHunk h.pairs = .ok (cs, h.width)) ∧
    (∀ n, cell.left = some n → (Nat.repr n).length ≤ h.width) ∧
    (∀ n, cell.right = some n → (Nat.repr n).length ≤ h.width) ∧
    (renderCell fl fr h.width (some cell)).length =
      (renderCell fl fr h.width (some ⟨true, true, none, none⟩)).length := by
  obtain ⟨_, _, hl, hr⟩ := trueRows_bounds h.ks h.a h.c cell hc
  obtain ⟨hm, hp⟩ := width_covers h ht cell hc
  have hrep : ∀ n, (Nat.repr n).length = (digits n).length := by
    intro n; rw [digits_eq_repr, String.length_toList]
  refine ⟨⟨_, initializeHunk_two _ _ _ _ hab hcd⟩, ?_, ?_, ?_⟩
  · intro n hn; rw [hrep]; exact hm n (by simpa [Cell.left, hl] using hn)
  · intro n hn; rw [hrep]; exact hp n (by simpa [Cell.right, hr] using hn)
  · simp only [renderCell, hl, hr, if_true, List.length_append,
      renderField_length fl h.width cell.minus cell.plus hm hp, renderField_length fr h.width cell.minus cell.plus hm hp]

/-- the hypotheses on a non-trivial hunk (`@@ -98,3 +99,2 @@`: the old side reaches 100) -/
example : (⟨98, some 3, 99, some 2, [], [.ctx, .minus, .ctx]⟩ : Hunk).truthful ∧
    (⟨98, some 3, 99, some 2, [], [.ctx, .minus, .ctx]⟩ : Hunk).width = 3 ∧
    some (trueCell 100 100 .ctx) ∈ trueRows 98 99 [.ctx, .minus, .ctx] := by decide

/-- `h.truthful` is needed: `@@ -8 +8 @@` followed by three removed lines shows 10 in a field for one digit,
    and that row's gutter is longer than the others' (default format of the left field: `{nm:^4}⋮`, so take
    the format `{nm}`) -/
example : ¬ (⟨8, none, 8, none, [], [.minus, .minus, .minus]⟩ : Hunk).truthful ∧
    (⟨8, none, 8, none, [], [.minus, .minus, .minus]⟩ : Hunk).width = 1 ∧
    some (trueCell 10 8 .minus) ∈ trueRows 8 8 [.minus, .minus, .minus] ∧
    (renderField [⟨[], 0, some 1, none, none, none, [], [], 0⟩] 1 (some 10) none).length = 2 ∧
    (renderField [⟨[], 0, some 1, none, none, none, [], [], 0⟩] 1 (some 9) none).length = 1 := by decide

/-- **Hunk-header coordinates over the whole `usize` range**: omitted counts (`@@ -3 +4 @@`), zero-length
    sides (`-0,0`), numbers up to `usize::MAX`. Whenever each number of `@@ -a[,b] +c[,d] @@frag` fits `usize`
    the line is parsed back to `[(a, b|1), (c, d|1)]`; the position printed in the header row is `c`;
    `initialize_hunk` seeds the counters with `(a, c)` and takes the width from `max (a+b) (c+d)`; when a sum
    `start + length` leaves `usize` it saturates at `usize::MAX` or the addition panics — whichever the source
    says (`maxSumSaturates`, regenerated; on the pinned tree: saturates) — and nothing else changes. -/
theorem header_coordinates_full_range (a : Nat) (b : Option Nat) (c : Nat) (d : Option Nat) (frag : List Char)
    (hfrag : frag.head? ≠ some '@')
    (ha : a ≤ usizeMax) (hb : ∀ k, b = some k → k ≤ usizeMax) (hc : c ≤ usizeMax) (hd : ∀ k, d = some k → k ≤ usizeMax) :
    parseHunkHeader (fmtHunkHeader a b c d frag) = .ok (some (frag, [(a, b.getD 1), (c, d.getD 1)])) ∧
    headerNumber [(a, b.getD 1), (c, d.getD 1)] = .ok c ∧
    initializeHunk [(a, b.getD 1), (c, d.getD 1)] =
      (if a + b.getD 1 ≤ usizeMax ∧ c + d.getD 1 ≤ usizeMax then
         .ok (⟨a, c⟩, (digits (max (a + b.getD 1) (c + d.getD 1))).length)
       else if Generated.LineNum.maxSumSaturates = true then
         .ok (⟨a, c⟩, (digits (max (min (a + b.getD 1) usizeMax) (min (c + d.getD 1) usizeMax))).length)
       else .error "attempt to add with overflow") :=
  ⟨parseHunkHeader_fmt a b c d frag hfrag ha hb hc hd, headerNumber_two _ _ _ _, initializeHunk_two_any _ _ _ _⟩

/-- omitted counts; a zero-length old side; the largest start there is, with a count that leaves `usize` -/
example : parseHunkHeader "@@ -3 +4 @@".toList = .ok (some ([], [(3, 1), (4, 1)])) ∧
    parseHunkHeader "@@ -0,0 +1,5 @@ x".toList = .ok (some (" x".toList, [(0, 0), (1, 5)])) ∧
    fmtHunkHeader 0 (some 0) 1 (some 5) " x".toList = "@@ -0,0 +1,5 @@ x".toList := ⟨by rfl, by rfl, by decide⟩
example : Generated.LineNum.maxSumSaturates = true →
    initializeHunk [(usizeMax, 2), (1, 1)] = .ok (⟨usizeMax, 1⟩, 20) := by
  intro h
  rw [initializeHunk_two_any, if_neg (by decide), if_pos h]
  have : (digits (max (min (usizeMax + 2) usizeMax) (min (1 + 1) usizeMax))).length = 20 := by decide
  rw [this]

end WidthAndCoordinates

-- the path and position in the hunk-header row, over the state machine's file names ----------------------

section HeaderRowOverMachine
open Machine Machine.HunkNames Machine.Counter

/- Full statement (not proved as one whole-run theorem): "in the output of `Machine.run` on any two-way diff, every
   hunk-header row shows the path of the `+++ ` line (the `--- ` line for `/dev/null`) of the file section the hunk
   stands in and the new-file start of its own `@@` line". Proved below are its three parts; what is missing is the
   lift through `chain` / `runFrom` for the other handlers that may run between a `+++ ` line and a hunk of the same
   section (none of them claims a line in well-formed two-way input; a `Binary files … differ` line appends a suffix
   to both names by design). The binary-level oracle (`header:path-wrong`, `header:number-wrong`) covers whole runs. -/

/-- **The hunk-header row is made from the machine's current file names and this header's coordinates**
    (model `DeltaModel/Machine.lean`, driver `drv_machine`):
    1. the `+++ ` line handler stores the path it parses as the plus file and keeps the minus file;
    2. the handler of an `@@` line changes neither name, 3. nor does the handler of a hunk line — which is the one
       that writes the pending hunk-header row; so every hunk of a file section is written under the names the
       section's header lines left;
    4. with `file` and `line-number` in the hunk-header style, the text of that row is
       `<label><path>:<c>:<fragment>` where `<path>` is the plus file unless that is `/dev/null`, then the minus
       file, and `c` is the start of the last (new-file) coordinate pair of the `@@` line being written. -/
theorem hunk_header_path_partial {cfg : Cfg} {m m' : M} {l : L} {b : Bool} :
    (plusLineTest m l = true → handlePlusLine cfg m l = .ok (b, m') →
      (m'.minusFile, m'.plusFile) = (m.minusFile, (Headers.parseDiffHeaderLine l.text (m.source = .gitDiff)).1)) ∧
    (handleHunkHeader cfg m l = .ok (b, m') → (m'.minusFile, m'.plusFile) = (m.minusFile, m.plusFile)) ∧
    (handleHunkLine cfg m l = .ok (b, m') → (m'.minusFile, m'.plusFile) = (m.minusFile, m.plusFile)) ∧
    (∀ (hh : Headers.HunkHeader) (line : Headers.Str) (a b' c d : Nat), cfg.hhFile = true → cfg.hhLineNumber = true →
      cfg.hunkHeaderStyle.isRaw = false → cfg.colorOnly = false → hh.coords = [(a, b'), (c, d)] →
      hunkHeaderText cfg m hh line = .ok (some
        ((if cfg.hunkLabel ≠ [] then cfg.hunkLabel ++ [' '] else []) ++
         ((if m.plusFile = Generated.Markers.devNull then m.minusFile else m.plusFile) ++
            ':' :: (toString c).toList ++ [':'] ++ (if fragBody cfg hh = [] then [' '] else [])) ++
         Text.expand cfg.tab (fragBody cfg hh)))) :=
  ⟨fun ht e => handlePlusLine_names ht e, fun e => handleHunkHeader_names e, fun e => handleHunkLine_names e,
   fun hh line a b' c d hf hn hr hc hco => hunkHeaderText_shape cfg m hh line a b' c d hf hn hr hc hco⟩

/-- on a concrete run: two files, the second hunk of the first file and the hunk of the deleted file -/
example : (match run { hhFile := true, hunkLabel := "HUNK@".toList }
      (["diff --git a/x.rs b/x.rs", "--- a/x.rs", "+++ b/x.rs", "@@ -1 +1 @@", "-a", "+b", "@@ -70,2 +90,1 @@ fn g()", "-c", " d",
        "diff --git a/gone b/gone", "deleted file mode 100644", "--- a/gone", "+++ /dev/null", "@@ -5 +0,0 @@", "-z"].map probeLine) with
    | .ok m => (m.out.filter (fun r => r.kind = .hunkHeader)).map (fun r => String.ofList r.text)
    | .error _ => []) = ["HUNK@ x.rs:1: ", "HUNK@ x.rs:90: fn g() ", "HUNK@ gone:0: "] := by decide

/-- **`hunk_header_path_whole_run`** — the whole-run statement `hunk_header_path_partial` left open, as a corollary of C14
`hunk_header_row_shows_own_section` (the names carried through every handler of `Machine.run`,
`Proofs/Machine/HunkRows*.lean`). For every configuration in which the file header is a row of its own (`FHC`, the scope
of the section calculus) and every git diff that is a list of well-formed sections (`Sec2`, every kind git emits):
1. the hunk-header rows of the output are, in order, `hhRowsOf2 cfg 0 secs` — one `hhRowOf` per `@@` line that a line of
   its hunk follows, made from that line and from the two names of the section it stands in (`secNames mi pl`);
2. with `file` and `line-number` in the hunk-header style (not raw, not omitted) such a row for a two-way
   `@@ -a,b +c,d @@ frag` line reads `<label><path>:<c>:<frag>` where `<path>` is the path of the section's `+++ ` line —
   of its `--- ` line when the `+++ ` line says `/dev/null` — and `c` is the new-file start of that very `@@` line. -/
theorem hunk_header_path_whole_run {cfg : Cfg} (hc : FHC cfg) (secs : List Sec2) (w : ∀ s ∈ secs, s.WF) {m : M}
    (e : run cfg (linesOf2 secs) = .ok m) :
    m.out.filter (fun r => r.kind == .hunkHeader) = hhRowsOf2 cfg 0 secs ∧
    (cfg.hunkHeaderStyle.isRaw = false → cfg.hunkHeaderStyle.isOmitted = false → cfg.hhFile = true →
      cfg.hhLineNumber = true →
      ∀ (mi pl h : L) (i : Nat) (hh : Headers.HunkHeader) (a b c d : Nat),
        Headers.parseHunkHeader h.text = some hh → hh.coords = [(a, b), (c, d)] →
        hhRowOf cfg (secNames mi pl) h i =
          [{ kind := .hunkHeader,
             text := (if cfg.hunkLabel ≠ [] then cfg.hunkLabel ++ [' '] else []) ++
               ((if (Headers.parseDiffHeaderLine pl.text true).1 = Generated.Markers.devNull
                   then (Headers.parseDiffHeaderLine mi.text true).1 else (Headers.parseDiffHeaderLine pl.text true).1) ++
                 ':' :: (toString c).toList ++ [':'] ++ (if fragBody cfg hh = [] then [' '] else [])) ++
               Text.expand cfg.tab (fragBody cfg hh) ++ hhPad cfg.hunkHeaderStyle,
             src := i }]) :=
  ⟨run_hunk_rows hc secs w e, fun hr ho hf hn mi pl h i hh a b c d hp hco =>
    hhRowOf_file_line hr ho hc.notCO hf hn (secNames mi pl) h i hh a b c d hp hco⟩

/-- the run of the example above as sections: hypotheses met, rows as the theorem says -/
def pathSecs : List Sec2 :=
  [.file { d := probeLine "diff --git a/x.rs b/x.rs", noise := [],
           body := .named (probeLine "--- a/x.rs") (probeLine "+++ b/x.rs") none
             (["@@ -1 +1 @@", "-a", "+b", "@@ -70,2 +90,1 @@ fn g()", "-c", " d"].map probeLine) },
   .file { d := probeLine "diff --git a/gone b/gone", noise := [probeLine "deleted file mode 100644"],
           body := .named (probeLine "--- a/gone") (probeLine "+++ /dev/null") none (["@@ -5 +0,0 @@", "-z"].map probeLine) }]
example : FHC { hhFile := true, hunkLabel := "HUNK@".toList } := ⟨rfl, rfl, rfl⟩
example : ∀ s ∈ pathSecs, s.WF := wf_of_all (by decide)
example : (hhRowsOf2 { hhFile := true, hunkLabel := "HUNK@".toList } 0 pathSecs).map (fun r => (String.ofList r.text, r.src)) =
    [("HUNK@ x.rs:1: ", 3), ("HUNK@ x.rs:90: fn g() ", 6), ("HUNK@ gone:0: ", 13)] := by decide

end HeaderRowOverMachine

end C05
