import Proofs.LineNumbersPad
import Proofs.LineNumbersUnified
import Proofs.LineNumbersSbs2
import Proofs.LineNumbersHeader
/-!
C05 — displayed line numbers are the true old/new file line numbers.

The theorems are about the executable model `DeltaModel/LineNumbers.lean` (driver `drv_linenum`),
whose tables (`linenumbers_and_styles` arms, the `increment` rule, the side-by-side correction
arms, which coordinate pair is used, painting order, …) are regenerated from the Rust source on
every run (`DeltaModel/Generated/LineNum.lean`).

Numbers are `usize` in the code: every theorem carries the hypothesis that the numbers of the hunk
fit (`… ≤ usizeMax`); beyond that the model, like the dev-profile build, panics (see the examples
at the end; panics are C03's subject).

The line kinds are taken as `handle_hunk_line` classifies them (first character `-`, `+`, space).
An *empty* line inside a hunk (an empty context line written without the leading space) is not
classified as a hunk line by the code — that defect is outside these statements and is reported
by the check's direct oracle (known finding C05-empty-context-line).
-/
namespace C05
open LineNumbers

/-- Unified view. A hunk whose header starts are `(a, c)` and whose lines have kinds `ks` (in
    input order), painted through `handle_hunk_line`'s buffering with any `line-buffer-size`:
    there is exactly one row per line, in input order; the `k`-th row shows
    `a + #{j < k | ks j ∈ {-, ctx}}` in the old-number cell iff `ks k ∈ {-, ctx}` and
    `c + #{j < k | ks j ∈ {+, ctx}}` in the new-number cell iff `ks k ∈ {+, ctx}`; afterwards the
    counters stand at `a + #old`, `c + #new`. -/
theorem unified_numbers_true (bufSize a c : Nat) (ks : List Kind)
    (ha : a + countOld ks ≤ usizeMax) (hc : c + countNew ks ≤ usizeMax) :
    ∃ rows, runUnified bufSize ⟨a, c⟩ ks = .ok (⟨a + countOld ks, c + countNew ks⟩, rows) ∧
      rows.length = ks.length ∧
      ∀ k (hk : k < ks.length), ∃ cell, rows[k]? = some (some cell) ∧
        cell.left = (if ks[k].isOld then some (a + countOld (ks.take k)) else none) ∧
        cell.right = (if ks[k].isNew then some (c + countNew (ks.take k)) else none) := by
  refine ⟨trueRows a c ks, runUnified_spec bufSize a c ks ha hc, trueRows_length ks a c, ?_⟩
  intro k hk
  refine ⟨_, trueRows_getElem ks a c k hk, ?_, ?_⟩ <;> simp [trueCell, Cell.left, Cell.right]

/-- The hypotheses on a non-trivial hunk, and what the model then computes (buffer size 1, so the
    buffers are flushed in the middle of the subhunk as well). -/
example : (10 : Nat) + countOld [.ctx, .minus, .minus, .plus, .ctx] ≤ usizeMax ∧
    (20 : Nat) + countNew [.ctx, .minus, .minus, .plus, .ctx] ≤ usizeMax := by decide

example : (runUnified 1 ⟨10, 20⟩ [.ctx, .minus, .minus, .plus, .ctx]).toOption.map
      (fun r => r.2.map (fun cell => cell.map fun x => (x.left, x.right)))
    = some [some (some 10, some 20), some (some 11, none), some (some 12, none), some (none, some 21),
        some (some 13, some 22)] := by rfl

/-- Side-by-side view, one subhunk of `m` removed and `p` added lines, for every line alignment
    that uses each line once and in order (paired or not) and every number of rows per line
    (`wl`, `wr`, each ≥ 1) and whichever lines are kept raw in their state (`rl`, `rr`: coloured
    input, `raw` styles): the rows are those of `sbsSpec` — the first row of a line shows its true
    number (`a + i` for removed line `i`, `c + j` for added line `j`) in its own panel,
    continuation rows show none, the opposite panel of an unpaired row shows none — and the
    counters advance by exactly `(m, p)`. -/
theorem sbs_numbers_true (a c m p : Nat) (al : Alignment) (wl wr : List Nat) (rl rr : List Bool)
    (hv : validFrom al 0 0 = some (m, p)) (hwl : wl.length = m) (hwr : wr.length = p)
    (hposl : ∀ x ∈ wl, 1 ≤ x) (hposr : ∀ y ∈ wr, 1 ≤ y)
    (ha : a + m + 1 ≤ usizeMax) (hc : c + p ≤ usizeMax) :
    ∃ rows, sbsBlock ⟨a, c⟩ m p al wl wr rl rr = .ok (⟨a + m, c + p⟩, rows) ∧
      rows.map SbsRow.shown = (sbsSpec a c al wl wr).map some :=
  sbsBlock_spec a c m p al wl wr rl rr hv hwl hwr hposl hposr ha hc

/-- Hypotheses of `sbs_numbers_true` on a non-trivial value: 3 removed, 2 added lines; line 0
    unpaired and wrapped into 2 rows, lines 1/0 paired with 1 vs 3 rows, then an unpaired added
    line, then an unpaired removed line. -/
example : validFrom [(some 0, none), (some 1, some 0), (none, some 1), (some 2, none)] 0 0 = some (3, 2)
    ∧ sbsSpec 7 40 [(some 0, none), (some 1, some 0), (none, some 1), (some 2, none)] [2, 1, 1] [3, 1]
      = [(some 7, none), (none, none), (some 8, some 40), (none, none), (none, none), (none, some 41), (some 9, none)] := by
  decide

/-- The correction at the tail of the side-by-side row loop does not depend on whether the row's
    states still carry their raw line (`HunkMinus(_, Some(raw))` — git-coloured input such as
    `--color-moved`, `--minus-style raw`, …): the extracted arms constrain no payload. -/
theorem fixup_ignores_raw_payload (c : Counters) (ls rs : St) (lraw rraw lraw' rraw' mi pi : Bool) :
    applyFix c ls rs lraw rraw mi pi = applyFix c ls rs lraw' rraw' mi pi :=
  applyFix_ignores_raw c ls rs lraw rraw lraw' rraw' mi pi

example : applyFix ⟨7, 3⟩ .minus .plus true false true true = .ok ⟨8, 3⟩ := by rfl

/-- Side-by-side view, unchanged line occupying `rows` rows: the first row shows both true
    numbers, continuation rows none; both counters advance by one. -/
theorem sbs_zero_line_true (l r rows : Nat) (hl : l + 1 ≤ usizeMax) (hr : r + 1 ≤ usizeMax) :
    ∃ rs, zeroSbs ⟨l, r⟩ rows = .ok (⟨l + 1, r + 1⟩, rs) ∧
      rs.map SbsRow.shown = some (some l, some r) :: List.replicate (rows - 1) (some (none, none)) :=
  zeroSbs_spec l r rows hl hr

example : (3 : Nat) + 1 ≤ usizeMax ∧ (9 : Nat) + 1 ≤ usizeMax := by decide

/-- Side-by-side view, a whole hunk: any sequence of unchanged lines and subhunks (each with its
    own alignment and rows per line) shows `hunkSpec` — every block starts at the true numbers
    reached by the blocks before it — and leaves the counters at `start + number of old/new lines`. -/
theorem sbs_hunk_numbers_true (bs : List Block) (a c : Nat) (hwf : ∀ b ∈ bs, b.wf)
    (ha : a + totalOld bs + 1 ≤ usizeMax) (hc : c + totalNew bs + 1 ≤ usizeMax) :
    ∃ rows, runBlocksSbs ⟨a, c⟩ bs = .ok (⟨a + totalOld bs, c + totalNew bs⟩, rows) ∧
      rows.map SbsRow.shown = (hunkSpec a c bs).map some :=
  runBlocksSbs_spec bs a c hwf ha hc

example : hunkSpec 5 9 [.zero 2, .sub 1 1 [(some 0, some 0)] [1] [2] [true] [false], .zero 1]
    = [(some 5, some 9), (none, none), (some 6, some 10), (none, none), (some 7, some 11)] := by decide

/-- Hunk header `@@ -a[,b] +c[,d] @@frag` (any omitted counts, any fragment not starting with `@`):
    the parser returns the fragment and the two `(start, length)` pairs with length 1 for an
    omitted count; the number printed in the hunk-header box is `c`, the start of the new-file
    coordinate; `initialize_hunk` seeds the counters with `(a, c)`; the path printed is the new
    path unless that is `/dev/null`, then the old path. -/
theorem header_position_and_path (a : Nat) (b : Option Nat) (c : Nat) (d : Option Nat) (frag : List Char)
    (minusFile plusFile : String)
    (hfrag : frag.head? ≠ some '@')
    (ha : a + b.getD 1 ≤ usizeMax) (hc : c + d.getD 1 ≤ usizeMax) :
    parseHunkHeader (fmtHunkHeader a b c d frag) = .ok (some (frag, [(a, b.getD 1), (c, d.getD 1)])) ∧
    headerNumber [(a, b.getD 1), (c, d.getD 1)] = .ok c ∧
    (∃ w, initializeHunk [(a, b.getD 1), (c, d.getD 1)] = .ok (⟨a, c⟩, w)) ∧
    headerPath minusFile plusFile = (if plusFile = "/dev/null" then minusFile else plusFile) := by
  refine ⟨?_, headerNumber_two _ _ _ _, ⟨_, initializeHunk_two _ _ _ _ ha hc⟩, headerPath_eq _ _⟩
  apply parseHunkHeader_fmt a b c d frag hfrag (by omega)
  · intro k hk; subst hk; simp at ha; omega
  · omega
  · intro k hk; subst hk; simp at hc; omega

example : fmtHunkHeader 119 (some 12) 120 none " fn f(".toList = "@@ -119,12 +120 @@ fn f(".toList := by decide

/-- `format::pad` on a number: the field has `max width (number of digits)` characters, it is the
    decimal representation of `n` — unbroken — between runs of spaces, for every alignment. -/
theorem pad_width (n width : Nat) (al : Align) :
    (pad n width al).length = max width (Nat.repr n).length ∧
    (pad n width al).filter (· ≠ ' ') = (Nat.repr n).toList ∧
    ∃ i j, pad n width al = List.replicate i ' ' ++ (Nat.repr n).toList ++ List.replicate j ' ' := by
  obtain ⟨i, j, hp, hlen⟩ := pad_shape n width al
  have hr : (Nat.repr n).length = (digits n).length := by
    rw [digits_eq_repr, String.length_toList]
  have hns : ∀ c ∈ digits n, (decide (c ≠ ' ')) = true := by
    intro c hc
    simpa using digits_no_space n c hc
  refine ⟨?_, ?_, i, j, by rw [hp, digits_eq_repr]⟩
  · rw [hp, hr]; simp; omega
  · rw [hp, ← digits_eq_repr, List.filter_append, List.filter_append, List.filter_eq_self.mpr hns]
    simp

example : pad 7 4 .center = "  7 ".toList ∧ pad 12345 4 .left = "12345".toList := by decide

/-- `log10_plus_1` (the loop over 4 digits at a time) is the number of decimal digits. -/
theorem log10_plus_1_digits (n : Nat) : log10Plus1 n = (Nat.repr n).length := by
  rw [log10Plus1_eq, digits_eq_repr, String.length_toList]

example : log10Plus1 18446744073709551615 = 20 := by decide

/-- Beyond `usize::MAX` the counter additions either panic (`+=`, dev profile — C03's subject) or
    saturate (`saturating_add`, optional repair 29ddcd9); the model follows whichever form the
    source has (generated flags `counterAddSaturates`, `maxSumSaturates`), and the theorems above
    hold for both because their hypotheses keep the numbers inside `usize`. -/
example : addUsizeSat false usizeMax 1 = .error "attempt to add with overflow" ∧
    addUsizeSat true usizeMax 1 = .ok usizeMax ∧ addUsizeSat true 41 1 = addUsizeSat false 41 1 := by
  refine ⟨by rfl, by rfl, by rfl⟩

/-- A line that only looks like a hunk header (`@@ foo @@`, a number that does not fit `usize`, a
    non-ASCII digit): not a hunk header when the source has the optional repair 9e2fda3, a panic /
    an empty coordinate list otherwise. -/
example : Generated.LineNum.headerRejectsEmpty = true → parseHunkHeader "@@ foo @@".toList = .ok none := by
  intro h; simp [parseHunkHeader, h]; rfl
example : Generated.LineNum.headerParseRejects = true →
    parseHunkHeader "@@ -1 +99999999999999999999999 @@".toList = .ok none := by
  intro h
  have e : coordsF ("-1 +99999999999999999999999 ".toList.length + 1) "-1 +99999999999999999999999 ".toList
      = .error "ParseIntError: number too large to fit in target type" := by rfl
  have f : findHeader "@@ -1 +99999999999999999999999 @@".toList
      = some ("-1 +99999999999999999999999 ".toList, []) := by rfl
  unfold parseHunkHeader
  rw [f]
  simp only [e, h, if_true]
example : headerNumber [] = .error "attempt to subtract with overflow" := by rfl

end C05
