import Proofs.TermTrunc
import Proofs.TermDraw
import Proofs.TermIngest
import Proofs.PaintLine
import Proofs.BlameMeta
/-!
C09 — output lines are self-contained, well-formed terminal text.

`Term.selfContained line`: the abstract terminal (`DeltaModel/Term.lean`, from ECMA-48 / xterm /
the OSC 8 convention), started in its default state, is back in the default state after the
line — parser in ground mode (no cut sequence), default rendition, no open hyperlink.
Model functions: `Sgr.renderStrings` (= `ansi_term::ANSIStrings`), `Line.rightFill`,
`Line.markEmpty`, `Line.spacesFill`, `Line.truncate`, `Line.padPanel`, `Line.link`,
`Line.Row.render`; SGR codes, RESET, clear-to-EOL/BOL and the OSC 8 framing are generated from
the sources.
-/
namespace C09
open Term Sgr SgrTerm Line LineProofs

/-- `ANSIStrings` over any list of (style, ESC-free text): every character is displayed in
exactly its style (no hyperlink), and the terminal ends in the default state. -/
theorem strings_rendition (xs : List (Sgr.Style × List Char))
    (hwf : ∀ x ∈ xs, Style.wf x.1) (hesc : ∀ x ∈ xs, ESC ∉ x.2) :
    run init (renderStrings xs) =
      (init, xs.flatMap fun x => x.2.map fun c => ⟨c, ofStyle x.1, none⟩) := by
  have := run_renderStrings xs hwf hesc init rfl rfl
  simpa [cellsOf, init] using this

example : cells init (renderStrings [({ fg := some (.basic 1), bold := true }, "ab".toList),
      ({ fg := some (.basic 1) }, "c".toList), ({}, "d".toList)]) =
    [⟨'a', { fg := some (.idx 1), bold := true }, none⟩, ⟨'b', { fg := some (.idx 1), bold := true }, none⟩,
     ⟨'c', { fg := some (.idx 1) }, none⟩, ⟨'d', {}, none⟩] := by decide

/-- All three ways `paint_lines` extends a line — the ANSI fill (with its reset-stripping hack),
the space fill and the empty-line marker — keep a self-contained line self-contained. -/
theorem fill_keeps_default (line : List Char) (st : Sgr.Style) (hwf : Style.wf st)
    (h : selfContained line) :
    selfContained (rightFill line st) ∧ (∀ n, selfContained (spacesFill line st n)) ∧
    (∀ m : Option (List Char), (∀ t, m = some t → ESC ∉ t) → selfContained (markEmpty line st m)) :=
  ⟨rightFill_selfContained line st hwf h, fun n => spacesFill_selfContained line st hwf n h,
   fun m hm => markEmpty_selfContained line st hwf m hm h⟩

example : selfContained (rightFill (paint { fg := some (.basic 1) } "ab".toList) { bg := some (.fixed 52) }) := by
  decide

/-- Truncation (`truncate_str_impl`) copies every escape sequence of the line and of the tail and
only drops or replaces text, hence keeps a self-contained line self-contained. -/
theorem truncate_keeps_default (dw : Nat) (tail : List Item) (fill : Option Char)
    (hf : ∀ f, fill = some f → f ≠ ESC) (items r : List Item)
    (hok : ∀ i ∈ items, Item.ok i) (htok : ∀ i ∈ tail, Item.ok i)
    (h : Line.truncate dw tail fill items = some r)
    (h1 : selfContained (flatten items)) (h2 : selfContained (flatten tail)) :
    (r = items ∨ escsOf r = escsOf items ++ escsOf tail) ∧ selfContained (flatten r) :=
  ⟨(truncate_escs dw tail fill hf items r hok htok h).1,
   (truncate_selfContained dw tail fill hf items r hok htok h h1 h2).1⟩

example : Line.truncate 3 [.esc "\x1b[7m".toList, .text [⟨"→".toList, 1⟩], .esc "\x1b[0m".toList] (some ' ')
      [.esc "\x1b[31m".toList, .text [⟨['a'], 1⟩, ⟨['b'], 1⟩, ⟨['日'], 2⟩, ⟨['c'], 1⟩], .esc "\x1b[0m".toList] =
    some [.esc "\x1b[31m".toList, .text [⟨['a'], 1⟩, ⟨['b'], 1⟩], .esc "\x1b[0m".toList,
          .esc "\x1b[7m".toList, .text [⟨"→".toList, 1⟩], .esc "\x1b[0m".toList] := by decide

/-- `pad_panel_line_to_width` (marker, truncation, either fill) keeps a panel line
self-contained. -/
theorem pad_keeps_default (spec : PadSpec) (line : List Item) (out : List Char)
    (hline : ∀ i ∈ line, Item.ok i) (htail : ∀ i ∈ spec.tail, Item.ok i)
    (hmark : ∀ st, spec.emptyMark = some st → Style.wf st) (hfill : Style.wf spec.fillStyle)
    (h1 : selfContained (flatten line)) (h2 : selfContained (flatten spec.tail))
    (h : padPanel spec line = some out) : selfContained out :=
  padPanel_selfContained spec line out hline htail hmark hfill h1 h2 h

/-- `format_osc8_hyperlink url text` opens and closes the link on the same line: when `url` has
no ESC / BEL and `text` is read completely (ends in ground mode), the link is closed afterwards
and exactly the cells of `text` carry the link. -/
theorem link_balanced (url text : List Char) (h1 : ESC ∉ url) (h2 : BEL ∉ url) (s : State)
    (hm : s.mode = .ground) (ht : (final { s with link := linkOf url } text).mode = .ground) :
    (final s (Line.link url text)).link = none ∧
    (final s (Line.link url text)).mode = .ground ∧
    cells s (Line.link url text) = cells { s with link := linkOf url } text := by
  have := run_link url text h1 h2 s hm ht
  simp only [final, cells] at *
  rw [this]
  exact ⟨rfl, ht, rfl⟩

example : cells init (Line.link "http://x".toList "ab".toList) =
    [⟨'a', {}, some "http://x".toList⟩, ⟨'b', {}, some "http://x".toList⟩] ∧
    selfContained (Line.link "http://x".toList "ab".toList) := by decide

/-- What is assumed of the pieces a row is built from. -/
def Piece.ok : Piece → Prop
  | .plain t => ESC ∉ t
  | .linked u t => ESC ∉ u ∧ BEL ∉ u ∧ ESC ∉ t

def stringsOk (xs : List (Sgr.Style × Piece)) : Prop := ∀ x ∈ xs, Style.wf x.1 ∧ Piece.ok x.2

def PadSpec.ok (spec : PadSpec) : Prop :=
  (∀ i ∈ spec.tail, Item.ok i) ∧ selfContained (flatten spec.tail) ∧
  (∀ st, spec.emptyMark = some st → Style.wf st) ∧ Style.wf spec.fillStyle

/-- Well-formed rows: styles are Rust values, texts have no ESC (hyperlink targets no ESC / BEL),
and for side-by-side the items are a faithful partition of the painted panel line. -/
def Row.ok : Row → Prop
  | .unified xs fill => stringsOk xs ∧ (match fill with
      | .none => True
      | .ansi st => Style.wf st
      | .spaces st _ => Style.wf st
      | .emptyMark st m => Style.wf st ∧ ∀ t, m = some t → ESC ∉ t)
  | .sideBySide l r il ir sl sr =>
    stringsOk l ∧ stringsOk r ∧ flatten il = paintLine l ∧ flatten ir = paintLine r ∧
    (∀ i ∈ il, Item.ok i) ∧ (∀ i ∈ ir, Item.ok i) ∧ PadSpec.ok sl ∧ PadSpec.ok sr

theorem paintLine_selfContained (xs : List (Sgr.Style × Piece)) (h : stringsOk xs) :
    selfContained (paintLine xs) := by
  unfold paintLine
  apply selfContained_renderStrings
  · intro x hx
    simp only [List.mem_map] at hx
    obtain ⟨y, hy, rfl⟩ := hx
    exact (h y hy).1
  · intro x hx
    simp only [List.mem_map] at hx
    obtain ⟨y, hy, rfl⟩ := hx
    have := (h y hy).2
    cases hp : y.2 with
    | plain t => rw [hp] at this; exact neutral_text t this
    | linked u t => rw [hp] at this; exact neutral_link u t this.1 this.2.1 this.2.2

/-- **Every rendered row is self-contained**: a unified line (`paint_line`, then one of the fills
or the empty-line marker) and a side-by-side line (two padded, possibly truncated panels). -/
theorem line_self_contained (r : Row) (hok : Row.ok r) (out : List Char) (h : r.render = some out) :
    selfContained out := by
  cases r with
  | unified xs fill =>
    obtain ⟨hxs, hfill⟩ := hok
    have hp := paintLine_selfContained xs hxs
    simp only [Row.render, Option.some.injEq] at h
    subst h
    cases fill with
    | none => exact hp
    | ansi st => exact rightFill_selfContained _ st hfill hp
    | spaces st n => exact spacesFill_selfContained _ st hfill n hp
    | emptyMark st m => exact markEmpty_selfContained _ st hfill.1 m hfill.2 hp
  | sideBySide l r il ir sl sr =>
    obtain ⟨hl, hr, fl, fr, okl, okr, ⟨t1, t2, t3, t4⟩, ⟨u1, u2, u3, u4⟩⟩ := hok
    simp only [Row.render] at h
    cases ha : padPanel sl il with
    | none => simp [ha] at h
    | some a =>
      cases hb : padPanel sr ir with
      | none => simp [ha, hb] at h
      | some b =>
        simp [ha, hb] at h
        subst h
        apply selfContained_append
        · exact padPanel_selfContained sl il a okl t1 t3 t4 (by rw [fl]; exact paintLine_selfContained l hl) t2 ha
        · exact padPanel_selfContained sr ir b okr u1 u3 u4 (by rw [fr]; exact paintLine_selfContained r hr) u2 hb

/-- **Every row is rendered, and self-contained, whatever the cluster widths.** Since fix d6cf9d0 — the
`debug_assert!(width_of_grapheme <= 2)` no longer stands in front of the fallback of `truncate_str_impl`:
`truncateAssertsWideCluster = false`, read from `src/ansi/mod.rs` on every run — the truncation of a panel line has no
panic point (a cluster wider than two columns that does not fit is replaced by as many blanks as columns are left), so
`line_self_contained` holds without the proviso that the row is rendered at all. -/
theorem line_self_contained_any_width (hno : Generated.StyleTables.truncateAssertsWideCluster = false) (r : Row)
    (hok : Row.ok r) : ∃ out, r.render = some out ∧ selfContained out := by
  obtain ⟨out, h⟩ := render_isSome hno r
  exact ⟨out, h, line_self_contained r hok out h⟩

/-- a three-column cluster (emoji with modifier, say) that does not fit in the two columns left next to the mark:
two blanks, every escape sequence kept; before the fix: the assertion -/
example : (if Generated.StyleTables.truncateAssertsWideCluster then
      Line.truncate 4 [.esc "[7m".toList, .text [⟨"→".toList, 1⟩], .esc "[0m".toList] (some ' ')
        [.esc "[31m".toList, .text [⟨['a'], 1⟩, ⟨"👍🏽x".toList, 3⟩, ⟨['c'], 1⟩], .esc "[0m".toList] = none
    else
      Line.truncate 4 [.esc "[7m".toList, .text [⟨"→".toList, 1⟩], .esc "[0m".toList] (some ' ')
        [.esc "[31m".toList, .text [⟨['a'], 1⟩, ⟨"👍🏽x".toList, 3⟩, ⟨['c'], 1⟩], .esc "[0m".toList] =
      some [.esc "[31m".toList, .text [⟨['a'], 1⟩, ⟨[' '], 1⟩, ⟨[' '], 1⟩], .esc "[0m".toList,
            .esc "[7m".toList, .text [⟨"→".toList, 1⟩], .esc "[0m".toList]) := by decide

example : (Row.unified [({ fg := some (.basic 4) }, .linked "file:///f".toList " 12 ".toList),
      ({ bg := some (.fixed 22) }, .plain "added".toList)] (.ansi { bg := some (.fixed 22) })).render.isSome = true := by
  decide

/-- **Decorations** (`src/handlers/draw.rs`): the model `Draw` has the same output statements in
the same order as every function of the current `draw.rs` (generated `drawShapes`, and the
`get_draw_function` table), and every line any decoration shape draws — box, box with whisker and
underline, underline, overline, under-and-over-line, none — around a self-contained text piece is
self-contained: each `paint` is closed before the newline that follows it. -/
theorem decoration_lines_self_contained :
    (Generated.DrawShapes.drawShapes = Draw.modelledShapes ∧
      Generated.DrawShapes.drawFunctionOf = Draw.modelledDrawFunctions) ∧
    ∀ (s : Draw.Shape) (a : Draw.Args), DrawProofs.ArgsOk a →
      ∀ l ∈ Draw.lines (Draw.draw s a), selfContained l :=
  ⟨DrawProofs.shapes_as_modelled, DrawProofs.draw_lines_selfContained⟩

example : Draw.lines (Draw.draw .boxWithUnderline
    { text := "ab".toList, rawText := [], addendum := [], textWidth := 2, width := some 6,
      textStyle := { fg := some (.basic 4) }, textRaw := false, deco := { fg := some (.basic 3), bold := true },
      ch := ⟨'━', '┓', '┃', '┛', '┻'⟩ }) =
    ["\x1b[1;33m━━\x1b[0m\x1b[1;33m┓\x1b[0m".toList,
     "\x1b[34mab\x1b[0m\x1b[1;33m┃\x1b[0m".toList,
     "\x1b[1;33m━━\x1b[0m\x1b[1;33m┻\x1b[0m\x1b[1;33m━━━\x1b[0m".toList, []] := by decide

/-- **Ingest keeps balance**: the CR step of `ingest_line_utf8` (remove the last `\\r` when nothing
visible follows it; whether what follows is *kept* is generated: `crStepKeepsTail`) leaves the
terminal in the same final state as the original line, so a line whose own sequences are balanced
— including ones that close between the CR and the LF, as git writes them for CRLF files — is
passed through balanced. Side condition: the last CR is not inside an escape sequence. -/
theorem ingest_keeps_balance (tailZeroWidth : Bool) (line : List Char)
    (hcr : ∀ a t, splitLastCr line = some (a, t) → (final init a).mode = .ground) :
    Generated.StyleTables.crStepKeepsTail = true ∧
    (selfContained (crStep tailZeroWidth line) ↔ selfContained line) := by
  refine ⟨IngestProofs.keeps_tail, ?_⟩
  unfold selfContained
  rw [IngestProofs.crStep_selfContained tailZeroWidth line hcr]

example : crStep true "\x1b[33mwarning\r\x1b[0m".toList = "\x1b[33mwarning\x1b[0m".toList ∧
    selfContained (crStep true "\x1b[33mwarning\r\x1b[0m".toList) := by decide

/-- **Relativized diff-stat lines** (`--relative-paths`): `relativize_path_in_diff_stat_line` copies
git's `| N +++---` part verbatim (generated from the source: the suffix is bound once and used as
is), so the rewritten line — space, path (plain or hyperlinked), padding, suffix — ends in exactly
the state git's own graph ends in; a balanced coloured graph stays balanced. -/
theorem diff_stat_line_self_contained (path : Piece) (pad : Nat) (suffix : List Char)
    (hp : Piece.ok path) :
    Generated.StyleTables.statSuffixVerbatim = true ∧
    (selfContained (statLine path pad suffix) ↔ selfContained suffix) := by
  refine ⟨StatProofs.suffix_verbatim, ?_⟩
  have hn : Neutral path.chars := by
    cases path with
    | plain t => exact neutral_text t hp
    | linked u t => exact neutral_link u t hp.1 hp.2.1 hp.2.2
  unfold selfContained
  rw [StatProofs.statLine_final path pad suffix hn]

example : selfContained (statLine (.plain "a.rs".toList) 3 "| 12 \x1b[32m+++\x1b[m\x1b[31m--\x1b[m".toList) := by decide

/-- **What the raw paths print is made from the whole input line** (`ingest_line_utf8`,
`src/delta.rs`): `Line.ingestRaw` = CR step, then — when the `--max-line-length` guard holds —
`truncate_str` of the *whole* CR-processed line. (1) The source has exactly the modelled statements:
the field assignments in their order, each computed from what the model says (`truncate_str` is
given `&self.raw_line`, not a slice of it), no other statement before, between or after them, and
`ingest_line` hands the line over whole (`Generated.IngestSteps`, regenerated on every run).
(2) For every line whose own sequences are balanced, every limit, either value of the CR test and
of the guard: `raw_line` is balanced. (3) It is the CR-processed line itself, or it carries exactly
the escape sequences of that line followed by those of the truncation symbol, in order - none is
dropped and none is cut, however many bytes of the line are escape sequences. -/
theorem ingest_line_self_contained (tailZeroWidth truncates : Bool) (maxLen : Nat)
    (sym items : List Item) (line out : List Char)
    (hcr : ∀ a t, splitLastCr line = some (a, t) → (final init a).mode = .ground)
    (hpart : flatten items = crStep tailZeroWidth line)
    (hok : ∀ i ∈ items, Item.ok i) (hsym : ∀ i ∈ sym, Item.ok i)
    (hsc : selfContained (flatten sym)) (hline : selfContained line)
    (h : ingestRaw tailZeroWidth truncates maxLen sym line items = some out) :
    ingestStepsAsModelled = true ∧ selfContained out ∧
    (out = crStep tailZeroWidth line ∨
      ∃ r, out = flatten r ∧ escsOf r = escsOf items ++ escsOf sym ∧ ∀ i ∈ r, Item.ok i) :=
  ⟨IngestProofs.steps_as_modelled,
   IngestProofs.ingestRaw_selfContained tailZeroWidth truncates maxLen sym items line out hcr hpart hok hsym hsc
     hline h,
   IngestProofs.ingestRaw_escs tailZeroWidth truncates maxLen sym items line out hpart hok hsym h⟩

/-- A "rainbow" line (every letter in its own 24-bit colour: 22 bytes for one column) at
`--max-line-length 2`: the text is cut after one column, all six sequences are kept. -/
example : ingestRaw true true 2 [.esc "\x1b[7m".toList, .text [⟨"→".toList, 1⟩], .esc "\x1b[0m".toList]
      "\x1b[38;2;1;2;3ma\x1b[0m\x1b[38;2;4;5;6mb\x1b[0m\x1b[38;2;7;8;9mc\x1b[0m".toList
      [.esc "\x1b[38;2;1;2;3m".toList, .text [⟨['a'], 1⟩], .esc "\x1b[0m".toList,
       .esc "\x1b[38;2;4;5;6m".toList, .text [⟨['b'], 1⟩], .esc "\x1b[0m".toList,
       .esc "\x1b[38;2;7;8;9m".toList, .text [⟨['c'], 1⟩], .esc "\x1b[0m".toList] =
    some ("\x1b[38;2;1;2;3ma\x1b[0m\x1b[38;2;4;5;6m\x1b[0m\x1b[38;2;7;8;9m\x1b[0m\x1b[7m→\x1b[0m".toList) ∧
    selfContained ("\x1b[38;2;1;2;3ma\x1b[0m\x1b[38;2;4;5;6m\x1b[0m\x1b[38;2;7;8;9m\x1b[0m\x1b[7m→\x1b[0m".toList) := by
  decide

/-! ### Session 4 (T5): the painted line is built inside the model

`PaintLine.paintedLine cfg inp` (`DeltaModel/PaintLine.lean`) produces the bytes of one output line of
`Painter::paint_lines` from the state, the line-number strings, the superimposed (style, clusters) sections, the
diff sections' styles and the flags, following `paint_line`, `painted_prefix`, the fill decision and the if-chain of
`paint_lines` as they stand in the current source (`Generated.PaintLine`). No partition of a painted line into text and
escape sequences is an input any more: `PaintLine.lineItems` makes it. -/
section PaintedLine
open PaintLine PaintLineProofs

/-- **Every line `paint_lines` writes is self-contained** — hunk lines (with and without homolog, wrapped, raw:
`HunkMinus(_, Some(raw))` whose sections are parsed from the raw line, combined-diff lines with their merge prefix),
blame, grep and hunk-header code lines — with line numbers in front, with `--keep-plus-minus-markers`, whichever way
the line is finished (ANSI fill, space fill for every terminal width and text width, empty-line marker, nothing).
Hypotheses: `Cfg.wf` / `Input.ok` — the styles are values of the Rust type (a basic colour is one of the eight), and no
text (line-number field, merge prefix, section) contains ESC (a hyperlink target: neither ESC nor BEL). The first
conjunct: the statements of `paint_line`, of the loop of `paint_lines`, of `right_fill_background_color`,
`mark_empty_line`, `Style::paint` and the callers of `paint_lines` in the current source are the modelled ones. -/
theorem painted_line_self_contained (cfg : Cfg) (hcfg : Cfg.wf cfg) (inp : Input) (hin : Input.ok inp)
    (out : List Char) (h : paintedLine cfg inp = .ok out) :
    shapeAsModelled = true ∧ selfContained out :=
  ⟨shape_as_modelled, paintedLine_selfContained cfg hcfg inp hin out h⟩

def exRed : Sgr.Style := { fg := some (.basic 1), bg := some (.fixed 52) }
def exRedEmph : Sgr.Style := { fg := some (.basic 1), bg := some (.fixed 88), bold := true }
/-- All four removed / added-line styles equal: the bytes below do not depend on which arm of the fill-style `match`
names which of them (that is not C09's business; the model follows the generated arms). -/
def exCfg : Cfg :=
  { minusStyle := exRed, plusStyle := exRed, minusNonEmph := exRed, plusNonEmph := exRed, keepMarkers := true,
    availWidth := 8 }
def exInp : Input :=
  { st := .hunk .minus false none
    sections := [(exRed, [⟨['a'], 1⟩, ⟨['日'], 2⟩]), (exRedEmph, [⟨['c'], 1⟩])]
    diffSections := [(exRed, "a日".toList), (exRedEmph, "c\n".toList)] }

/-- A removed line with an emphasised section, the marker kept, ANSI fill; the same line with the space fill
(text width 5 of 8 columns: three spaces). -/
example : (paintedLine exCfg exInp).toOption =
      some "\x1b[48;5;52;31m-a日\x1b[1;48;5;88mc\x1b[0m\x1b[48;5;52;31m\x1b[0K\x1b[0m".toList ∧
    (paintedLine exCfg { exInp with bg := .with_ .spaces }).toOption =
      some "\x1b[48;5;52;31m-a日\x1b[1;48;5;88mc\x1b[0m\x1b[48;5;52;31m   \x1b[0m".toList := by decide +kernel

/-- The hypothesis on texts is needed: a section whose text carries an unclosed sequence (and a plain style, no fill)
gives a line that leaves the colour on. -/
example : (paintedLine {} { st := .other, sections := [({}, [⟨"\x1b[31m".toList, 0⟩, ⟨['x'], 1⟩])] }).toOption =
      some "\x1b[31mx".toList ∧ ¬ selfContained "\x1b[31mx".toList := by decide +kernel

/-- **The item partition is made by the model**: `lineItems` of the strings handed to `ANSIStrings` flattens to exactly
the painted string, every text item is ESC-free and every escape item a complete sequence — what `Row.ok` used to
*assume* of the partition of a side-by-side panel line. -/
theorem painted_line_items (xs : List (Sgr.Style × PPiece)) (h : ∀ x ∈ xs, Style.wf x.1 ∧ PPiece.ok x.2) :
    flatten (lineItems xs) = paintLine (toPieces xs) ∧ (∀ i ∈ lineItems xs, Item.ok i) ∧
    selfContained (flatten (lineItems xs)) :=
  ⟨flatten_lineItems xs, lineItems_ok xs h, by rw [flatten_lineItems]; exact strings_selfContained xs h⟩

example : lineItems [(exRed, .linked "file:///f".toList [⟨['1'], 1⟩, ⟨['2'], 1⟩]), ({}, .plain [⟨['x'], 1⟩])] =
    [.esc "\x1b[48;5;52;31m".toList, .esc "\x1b]8;;file:///f\x1b\\".toList, .text [⟨['1'], 1⟩, ⟨['2'], 1⟩],
     .esc "\x1b]8;;\x1b\\".toList, .esc "\x1b[0m".toList, .text [⟨['x'], 1⟩]] := by decide +kernel

theorem toPieces_ok (xs : List (Sgr.Style × PPiece)) (h : ∀ x ∈ xs, Style.wf x.1 ∧ PPiece.ok x.2) :
    stringsOk (toPieces xs) := by
  intro x hx
  simp only [toPieces, List.mem_map] at hx
  obtain ⟨y, hy, rfl⟩ := hx
  refine ⟨(h y hy).1, ?_⟩
  have := (h y hy).2
  cases hp : y.2 with
  | plain gs => rw [hp] at this; exact gchars_noesc gs this
  | linked u gs => rw [hp] at this; exact ⟨this.1, this.2.1, gchars_noesc gs this.2.2⟩

/-- **A side-by-side row without an input partition**: two panels whose strings are given as (style, clusters), the
items computed by the model, padded / truncated / filled by `padPanel`: self-contained. Remaining hypotheses: styles
are Rust values, texts ESC-free, the truncation symbol well-formed and balanced (`PadSpec.ok`). -/
theorem sbs_row_self_contained (l r : List (Sgr.Style × PPiece)) (sl sr : PadSpec)
    (hl : ∀ x ∈ l, Style.wf x.1 ∧ PPiece.ok x.2) (hr : ∀ x ∈ r, Style.wf x.1 ∧ PPiece.ok x.2)
    (hsl : PadSpec.ok sl) (hsr : PadSpec.ok sr) (out : List Char)
    (h : (Row.sideBySide (toPieces l) (toPieces r) (lineItems l) (lineItems r) sl sr).render = some out) :
    selfContained out :=
  line_self_contained (Row.sideBySide (toPieces l) (toPieces r) (lineItems l) (lineItems r) sl sr)
    (show Row.ok (Row.sideBySide _ _ _ _ _ _) from
      ⟨toPieces_ok l hl, toPieces_ok r hr, flatten_lineItems l, flatten_lineItems r,
       lineItems_ok l hl, lineItems_ok r hr, hsl, hsr⟩) out h

example : (Row.sideBySide (toPieces [(exRed, .plain [⟨['a'], 1⟩, ⟨['日'], 2⟩, ⟨['b'], 1⟩])]) (toPieces [])
      (lineItems [(exRed, .plain [⟨['a'], 1⟩, ⟨['日'], 2⟩, ⟨['b'], 1⟩])]) (lineItems [])
      { panelWidth := 3, tail := [.text [⟨['>'], 1⟩]], fillMode := .spaces, fillStyle := exRed }
      { panelWidth := 3, fillMode := .ansi }).render =
    some "\x1b[48;5;52;31ma \x1b[0m>\x1b[0K\x1b[0m".toList := by decide +kernel

/-- Balanced: the decidable side condition on a raw line (its own sequences return the terminal to the default
state, no sequence cut, no link left open). -/
def balanced (raw : List Char) : Bool := decide (selfContained raw)

/-- **Raw rows**: a raw line that is balanced stays self-contained under everything delta puts after it — the ANSI
fill, the space fill of any width, the empty-line marker, any self-contained suffix (the decoration pieces of
`draw.rs`, the second panel) — and in front of it (line-number strings painted by `paint_line`). -/
theorem raw_row_self_contained (raw : List Char) (hb : balanced raw = true) (st : Sgr.Style) (hwf : Style.wf st) :
    selfContained (rightFill raw st) ∧ (∀ n, selfContained (spacesFill raw st n)) ∧
    (∀ m : Option (List Char), (∀ t, m = some t → ESC ∉ t) → selfContained (markEmpty raw st m)) ∧
    (∀ pre suf, selfContained pre → selfContained suf → selfContained (pre ++ raw ++ suf)) := by
  have h : selfContained raw := by simpa [balanced] using hb
  exact ⟨rightFill_selfContained raw st hwf h, fun n => spacesFill_selfContained raw st hwf n h,
    fun m hm => markEmpty_selfContained raw st hwf m hm h,
    fun pre suf hp hs => selfContained_append _ _ (selfContained_append _ _ hp h) hs⟩

/-- git's colouring of a moved line is balanced; a line that opens a colour and never closes it is not, and the space
fill behind it then inherits the colour: the side condition is needed. An open hyperlink survives even the ANSI fill. -/
example : balanced "\x1b[1;35m-moved\x1b[m".toList = true ∧ balanced "\x1b[31mopen".toList = false ∧
    ¬ selfContained (spacesFill "\x1b[31mopen".toList {} 3) ∧
    ¬ selfContained (rightFill "\x1b]8;;http://x\x1b\\open".toList { bg := some (.fixed 52) }) := by decide

end PaintedLine

/-! ### Session 4 (strengthening after seeded change C09-w6-09): what `format::pad` is applied to

`format::pad(s, width, alignment, precision)` is `format!("{s:<width$.precision$}")`: a precision **cuts** the string
after that many chars. `BlameMeta.formatMeta` (`DeltaModel/BlameMeta.lean`) is `format_blame_metadata` with the arms of
its field `match` — label, guard, *kind of string the arm hands to `pad`* (a copy of a field of the blame line,
`delta::format_raw_line`, `format_commit_line_with_osc8_commit_hyperlink`, anything else) — regenerated from the source
(`Generated.BlameMeta`), and `format_raw_line`'s gate (`config.hyperlinks && io::stdout().is_terminal()`) likewise. -/
section BlameMetadata
open BlameMeta BlameMetaProofs

/-- **`pad` with a precision must only see escape-free text** — and then the metadata is well-formed, for every
`--blame-format` (any number of placeholders; any fill / alignment / width / precision on each), every Config and
destination of stdout, every blame line whose commit, author and rendered timestamp contain no ESC (commit URLs neither
ESC nor BEL) and every format string whose literal text contains no ESC: the formatted metadata is *neutral* (it leaves
any ground, link-free terminal state exactly as it found it: no partial escape sequence, every link opened is closed),
hence self-contained. The hypothesis `precisionOnPlain` is the invariant: each placeholder that has a precision is served
by an arm whose string cannot contain escape sequences. -/
theorem blame_metadata_precision_on_plain_text (env : Env) (cw : Char → Nat) (items : List BlameMeta.Item) (f : Fields)
    (hf : FieldsOk f) (hlit : ItemsLitOk items) (hprec : precisionOnPlain env items = true) (out : List Char)
    (h : formatMeta env cw items f = .ok out) :
    shapeAsModelled = true ∧ Neutral out ∧ selfContained out :=
  have hn := formatMeta_neutral env cw items f hf hlit hprec out h
  ⟨BlameMetaProofs.shape_as_modelled, hn, selfContained_of_neutral out hn⟩

/-- **The blame metadata is self-contained**: when stdout is not a terminal (a pipe, a file, delta's own pager) or
hyperlinks are off, for *every* format string the invariant holds — decided over the generated arm table: every arm of the
current `format_blame_metadata` that can run then hands `pad` escape-free text — and so the metadata contains no partial
escape sequence and no unclosed link. A change that makes an arm pad a linked or painted string whenever
`config.hyperlinks` is set changes the table and this theorem no longer builds. -/
theorem blame_metadata_self_contained (env : Env) (henv : env.stdoutIsTerminal = false ∨ env.hyperlinks = false)
    (cw : Char → Nat) (items : List BlameMeta.Item) (f : Fields) (hf : FieldsOk f) (hlit : ItemsLitOk items)
    (out : List Char) (h : formatMeta env cw items f = .ok out) :
    shapeAsModelled = true ∧ precisionOnPlain env items = true ∧ selfContained out := by
  have harms : armsPlainWhen env = true := by
    obtain ⟨hl, tm⟩ := env
    rcases henv with h1 | h1
    · simp only at h1; subst h1; exact arms_plain_off_terminal hl
    · simp only at h1; subst h1; exact arms_plain_without_hyperlinks tm
  have hprec := precisionOnPlain_of_armsPlain env harms items
  exact ⟨BlameMetaProofs.shape_as_modelled, hprec,
    (blame_metadata_precision_on_plain_text env cw items f hf hlit hprec out h).2.2⟩

/-- The same for any destination of stdout, *if* the arm table says so there too (`armsPlainWhen env`, decidable; false
for the unchanged source with hyperlinks on a terminal — see `blame_commit_link_cut_on_terminal` —, true everywhere once
the commit is linked after it has been padded: `notes/fix-blame-commit-link-precision.diff`, generated `linkAfterPad`). -/
theorem blame_metadata_self_contained_where_arms_plain (env : Env) (harms : armsPlainWhen env = true)
    (cw : Char → Nat) (items : List BlameMeta.Item) (f : Fields) (hf : FieldsOk f) (hlit : ItemsLitOk items)
    (out : List Char) (h : formatMeta env cw items f = .ok out) : selfContained out :=
  (blame_metadata_precision_on_plain_text env cw items f hf hlit
    (precisionOnPlain_of_armsPlain env harms items) out h).2.2

/-- `FieldsOk` asks of the link function (`Fields.relink`, consulted only when a source links a field after padding it)
that it returns well-formed pieces for escape-free text. The executable reference the model driver runs —
`commitRelink`: whole word runs of 7-40 lower-case hex digits that contain a letter, at most 13, linked to the URL template
with `{commit}` replaced — does, for every template without ESC / BEL. -/
theorem commit_relink_well_formed (tmpl : Option (List Char)) (h : ∀ u, tmpl = some u → ESC ∉ u ∧ BEL ∉ u)
    (t : List Char) (ht : ESC ∉ t) : ∀ p ∈ commitRelink tmpl t, PieceOk p :=
  commitRelink_ok tmpl h t ht

example : commitRelink (some "https://x/{commit}".toList) "^ea82f2d0  1234567".toList =
    [.plain ['^'], .linked "https://x/ea82f2d0".toList "ea82f2d0".toList, .plain "  ".toList, .plain "1234567".toList] := by
  decide +kernel

def exFields : Fields :=
  { time := ⟨"2021".toList, [.plain "2021".toList]⟩, author := ⟨"Dan Davison".toList, [.plain "Dan Davison".toList]⟩,
    commit := ⟨"ea82f2d0".toList, [.linked "https://x/ea82f2d0".toList "ea82f2d0".toList]⟩,
    relink := commitRelink (some "https://x/{commit}".toList) }

/-- `{commit:<7.7}|{author:^9.3}|{timestamp}` into a pipe with `--hyperlinks`: the commit is plain and abbreviated. -/
def exItems : List BlameMeta.Item :=
  [{ label := some "commit", align := some .left, width := some 7, prec := some 7, suf := "|{author:^9.3}|{timestamp}".toList },
   { pre := ['|'], label := some "author", align := some .center, width := some 9, prec := some 3, suf := "|{timestamp}".toList },
   { pre := ['|'], label := some "timestamp" }]

example : (formatMeta { hyperlinks := true } (fun _ => 1) exItems exFields).toOption =
    some "ea82f2d|   Dan   |2021           ".toList := by decide +kernel

/-- On a terminal the commit is linked; *without* a precision that is fine (`{commit:<8}`, the default): -/
example : (formatMeta { hyperlinks := true, stdoutIsTerminal := true } (fun _ => 1)
      [{ label := some "commit", align := some .left, width := some 8 }] exFields).toOption =
    some "\x1b]8;;https://x/ea82f2d0\x1b\\ea82f2d0\x1b]8;;\x1b\\".toList ∧
    selfContained "\x1b]8;;https://x/ea82f2d0\x1b\\ea82f2d0\x1b]8;;\x1b\\".toList := by decide +kernel

/-- **The hypothesis is needed, and the unchanged delta violates it on a terminal** (stated under the premise that the
arm serving `{commit}` can carry escapes there, so that it still builds after the repair) (known finding
`C09-blame-precision-cuts-commit-link-on-terminal`, confirmed on the real binary under a pty): with `--hyperlinks`,
a commit URL, stdout a terminal and `--blame-format '{commit:<7.7}'`, `format_raw_line` links the commit and the
precision cuts the string after `ESC ] 8 ; ; h t` — an OSC sequence cut in half, the rest of the row swallowed. -/
theorem blame_commit_link_cut_on_terminal :
    labelPlain { hyperlinks := true, stdoutIsTerminal := true } "commit" = false →
    (precisionOnPlain { hyperlinks := true, stdoutIsTerminal := true }
      [{ label := some "commit", align := some .left, width := some 7, prec := some 7 }] = false ∧
    (formatMeta { hyperlinks := true, stdoutIsTerminal := true } (fun _ => 1)
      [{ label := some "commit", align := some .left, width := some 7, prec := some 7 }] exFields).toOption =
      some "\x1b]8;;ht".toList ∧
    ¬ selfContained "\x1b]8;;ht".toList) := by decide +kernel

/-- The premise holds for the unchanged source — this is a defect of delta today, not a hypothetical — unless the source
already links the commit after padding it (the shape of the repair). -/
example : labelPlain { hyperlinks := true, stdoutIsTerminal := true } "commit" = false ∨
    Generated.BlameMeta.padUse = "bind-then-link" := by decide +kernel

/-- **A whole blame row is self-contained**: the `write!` of `handle_blame_line` (generated `rowPieces`: metadata —
blanked with `measure_text_width` blanks when the key repeats —, separator prefix, line number, separator suffix, each
through `Style::paint`) followed by the code as `paint_lines` paints it (`painted_line_self_contained`, state `Blame`).
Hypotheses: the metadata is neutral (the two theorems above), styles are Rust values, the separator texts and the padded
number contain no ESC. -/
theorem blame_row_self_contained (mdata : List Char) (hm : Neutral mdata) (r : RowIn) (hms : Style.wf r.metaStyle)
    (hss : Style.wf r.sepStyle) (h1 : ESC ∉ r.nrPrefix) (h2 : ESC ∉ r.number) (h3 : ESC ∉ r.nrSuffix)
    (hcode : selfContained r.code) (out : List Char) (h : blameRow mdata r = .ok out) : selfContained out :=
  blameRow_selfContained mdata hm r hms hss h1 h2 h3 hcode out h

def exRow : RowIn :=
  { metaStyle := { bg := some (.fixed 16) }, nrPrefix := ['│'], number := " 12 ".toList, nrSuffix := ['│'],
    code := " x".toList }

example : (blameRow "ea82f2d ".toList exRow).toOption =
    some "\x1b[48;5;16mea82f2d \x1b[0m│\x1b[48;5;16m 12 \x1b[0m│ x".toList := by decide +kernel

/-- **The line-number gutter pads numbers, not links**: in every arm of `format_line_number` (generated `gutterArms`)
what goes through `pad` is the number, and the OSC 8 link is put around the *padded* text; such a field is neutral for
every width, alignment and link target. -/
theorem gutter_pads_numbers_only (digits : List Char) (hd : ESC ∉ digits) (w : Nat) (al : BlameMeta.Align)
    (url : Option (List Char)) (hu : ∀ u, url = some u → ESC ∉ u ∧ BEL ∉ u) :
    gutterPadsNumbersOnly = true ∧ Neutral (gutterField digits w al url) :=
  ⟨by decide +kernel, gutterField_neutral digits hd w al url hu⟩

example : gutterField "12".toList 4 .center (some "file:///f:12".toList) =
    "\x1b]8;;file:///f:12\x1b\\ 12 \x1b]8;;\x1b\\".toList := by decide +kernel

end BlameMetadata

end C09
