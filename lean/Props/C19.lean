import Proofs.LinksMeasure
import Proofs.Remote
import DeltaModel.Generated.LinkTargets
/-!
C19 — hyperlinks are well-formed, transparent, and point at the right target.

Model: `DeltaModel/Links.lean` — `format_osc8_hyperlink`, the file-link template substitution
(sequential `str::replace`, in the order the source has), commit links over the regex's match spans (a parameter),
`absolute_path`'s case analysis, and every call site that consults `config.hyperlinks`
(`Generated.linkSites`, re-read from the source on every run) as a function of `links : Bool`.
The scanner `stripOsc8` / `finalLink` / `linked` is an independent specification-side reading of
OSC strings; `Ansi.measure` / `Ansi.strip` are delta's own (element iterator model).

Standing hypotheses, all visible in the statements: displayed texts are `escSafe` (no `ESC ]`, no
trailing ESC — SGR sequences are fine), URLs ingredients contain no ESC / BEL (`CfgOk`), the regex
spans are ordered, disjoint, in range (`ValidSpans`).
-/
namespace C19
open Ansi Links

/-- The model covers exactly the call sites found in the source. -/
theorem site_inventory : modelledSites = Generated.linkSites := by decide

/-- Which string each file-link site hands to `absolute_path` (table re-read from the source on every
run: the argument expression of the `absolute_path` call feeding each `format_osc8_file_hyperlink`,
and where that expression comes from, following the `let` bindings in scope): the file-link
sites are exactly the modelled ones, and at every site the link **target** derives from the path the
caller gave (`param`) or from its relativized form (`relativized`, which `absolute_path` joins to the
user's directory) — never from the name rewritten by `--file-transformation` for display
(`transformed`), nor from anything else. The link *text* may be the displayed name. -/
theorem link_target_sources :
    Generated.linkTargetTable.map (fun r => (r.1, r.2.1)) =
      modelledSites.filter (fun s => s.2 != "format_raw_line" && s.2 != "_handle_commit_meta_header_line") ∧
    ∀ r ∈ Generated.linkTargetTable, r.2.2.2.1 = "param" ∨ r.2.2.2.1 = "relativized" := by
  decide

/-! ### One link -/

/-- `stripOsc8 (link url text) = text`, for a URL without ESC / BEL. -/
theorem strip_osc8_link (url text : Bytes) (hu : noEscBel url = true) (ht : escSafe text = true) :
    stripOsc8 (osc8 url text) = text := by
  have := stripOsc8_render [.link url text] (by
    intro p hp; simp only [List.mem_singleton] at hp; subst hp; exact ⟨hu, ht⟩)
  simpa [render] using this

example : noEscBel [0x66, 0x3a, 0x2f] = true ∧ escSafe [0x1b, 0x5b, 0x31, 0x6d, 0x61, 0x1b, 0x5b, 0x6d] = true := by
  decide

/-- A link is opened and closed on the same line, and its text is under exactly its URL. -/
theorem link_balanced (url text : Bytes) (hu : noEscBel url = true) (ht : escSafe text = true) :
    finalLink (osc8 url text) = none := by
  have := finalLink_render [.link url text] (by
    intro p hp; simp only [List.mem_singleton] at hp; subst hp; exact ⟨hu, ht⟩)
  simpa [render] using this

/-! ### Every site: transparent, balanced, invisible to width measurement -/

/-- The general form: any line assembled from plain pieces and linked pieces. All sites are of
this form (`site_*` below). -/
theorem pieces_transparent (ps : List Piece) (h : ∀ p ∈ ps, p.okT) :
    stripOsc8 (render true ps) = render false ps ∧ finalLink (render true ps) = none :=
  ⟨stripOsc8_render ps h, finalLink_render ps h⟩

/-- `measure_ignores_osc`: delta's own width measurement and stripping give the same result with
and without links, so padding, wrapping and truncation decisions are the same. -/
theorem measure_ignores_osc (U : Uni) (hU : Additive U) (tps : List TPiece) (h : ∀ p ∈ tps, p.wf) :
    measure U (render true (tps.map TPiece.toPiece)) = measure U (render false (tps.map TPiece.toPiece)) ∧
    strip (render true (tps.map TPiece.toPiece)) = strip (render false (tps.map TPiece.toPiece)) :=
  ⟨measure_render U hU tps h, strip_render tps h⟩

/-- A bold file name linked to `f:/a`: `[link "f:/a" (ESC[1m a ESC[0m)]`. -/
example : (TPiece.link [0x66, 0x3a, 0x2f, 0x61] [.csi [0x31] 0x6d, .chr [0x61], .csi [0x30] 0x6d]).wf :=
  ⟨by decide, by
    intro t ht
    simp only [List.mem_cons, List.not_mem_nil, or_false] at ht
    rcases ht with h | h | h <;> subst h
    · exact ⟨by decide, by decide, by decide, by decide⟩
    · exact ⟨.ascii _ (by decide), by decide⟩
    · exact ⟨by decide, by decide, by decide, by decide⟩⟩

/-- File header (`get_file_change_description_from_file_paths`). -/
theorem site_transparent_file_header (c : Cfg) (hc : CfgOk c) (kind : FileChange)
    (label arrow minus plus : Bytes) (shown : Bytes → Bytes)
    (hl : escSafe label = true) (ha : escSafe arrow = true)
    (hs : ∀ f, escSafe (shown f) = true) :
    stripOsc8 (fileChangeDescription c true kind label arrow minus plus shown) =
      fileChangeDescription c false kind label arrow minus plus shown ∧
    finalLink (fileChangeDescription c true kind label arrow minus plus shown) = none := by
  rw [fileChangeDescription_eq, fileChangeDescription_eq]
  apply pieces_transparent
  intro p hp
  cases kind <;> simp only [fileChangePieces, List.mem_cons, List.not_mem_nil, or_false] at hp
  all_goals
    rcases hp with rfl | rfl | rfl | rfl | rfl | rfl
  all_goals first
    | exact hl
    | exact ha
    | exact filePiece_okT c hc _ _ _ (hs _)
    | exact (by decide : escSafe [0x20] = true)

/-- Mode-change header line (`handle_pending_line_with_diff_name`). -/
theorem site_transparent_pending_name (c : Cfg) (hc : CfgOk c) (label name : Bytes)
    (hl : escSafe label = true) (hn : escSafe name = true) :
    stripOsc8 (pendingDiffNameLine c true label name) = pendingDiffNameLine c false label name ∧
    finalLink (pendingDiffNameLine c true label name) = none := by
  rw [pendingDiffNameLine_eq, pendingDiffNameLine_eq]
  apply pieces_transparent
  intro p hp
  simp only [pendingPieces, List.mem_cons, List.not_mem_nil, or_false] at hp
  rcases hp with rfl | rfl
  · exact hl
  · exact filePiece_okT c hc _ _ _ hn

/-- Diff-stat line (`relativize_path_in_diff_stat_line`): the padding is computed from the
relative path, so the columns stay aligned. -/
theorem site_transparent_diff_stat (c : Cfg) (hc : CfgOk c) (pathInRepo relPath suffix : Bytes)
    (alignWidth : Nat) (hr : escSafe relPath = true) (hs : escSafe suffix = true) :
    stripOsc8 (diffStatLine c true pathInRepo relPath suffix alignWidth) =
      diffStatLine c false pathInRepo relPath suffix alignWidth ∧
    finalLink (diffStatLine c true pathInRepo relPath suffix alignWidth) = none := by
  rw [diffStatLine_eq, diffStatLine_eq]
  apply pieces_transparent
  intro p hp
  simp only [diffStatPieces, List.mem_cons, List.not_mem_nil, or_false] at hp
  rcases hp with rfl | rfl | rfl | rfl
  · exact (by decide : escSafe [0x20] = true)
  · exact filePiece_okT c hc _ _ _ hr
  · apply escSafe_of_noEscBel
    rw [noEscBel_iff]; intro b hb
    have := List.eq_of_mem_replicate hb; subst this; decide
  · exact hs

/-- Hunk header / grep file name with line number (`paint_file_path_with_line_number`). -/
theorem site_transparent_file_path (c : Cfg) (hc : CfgOk c) (file : Bytes) (line : Option Nat)
    (painted : Bytes) (hp : escSafe painted = true) :
    stripOsc8 (filePathWithLineNumber c true file line painted) =
      filePathWithLineNumber c false file line painted ∧
    finalLink (filePathWithLineNumber c true file line painted) = none := by
  rw [filePathWithLineNumber_eq, filePathWithLineNumber_eq]
  apply pieces_transparent
  intro p hp'
  unfold filePathPieces at hp'
  split at hp' <;> simp only [List.mem_singleton] at hp' <;> subst hp'
  · exact hp
  · exact filePiece_okT c hc _ _ _ hp

/-- Line-number gutter (`format_line_number`). In the repaired source (`gutterNumberWithoutAbs`, read
from the source on every run) unconditionally; in the original one provided an absolute path can
be formed. -/
theorem site_transparent_line_number (c : Cfg) (hc : CfgOk c) (n : Option Nat) (plusFile : Option Bytes)
    (padded : Nat → Bytes) (blank : Bytes)
    (habs : Generated.gutterNumberWithoutAbs = true ∨
      ∀ file, plusFile = some file → absolutePath c.path file ≠ none)
    (hpad : ∀ k, escSafe (padded k) = true) (hb : escSafe blank = true) :
    stripOsc8 (formatLineNumber c true n plusFile padded blank) =
      formatLineNumber c false n plusFile padded blank ∧
    finalLink (formatLineNumber c true n plusFile padded blank) = none := by
  rw [formatLineNumber_eq c true n plusFile padded blank habs,
    formatLineNumber_eq c false n plusFile padded blank habs]
  apply pieces_transparent
  intro p hp
  unfold lineNumberPieces at hp
  split at hp <;> simp only [List.mem_singleton] at hp <;> subst hp
  · exact hb
  · exact filePiece_okT c hc _ _ _ (hpad _)
  · exact hpad _

/-- A configuration in which no absolute path can be formed (the working directory of the delta
process is unknown), the file `a.rs`, line 7 shown as ` 7`. -/
def gutterWitnessCfg : Cfg := ⟨[], none, .none, ⟨none, none, false, fun a b => a ++ b⟩⟩

/-- The deviation found by reading (`format_line_number`), on the original source: without an
absolute path the file name is printed in place of the number, so `site_transparent` is **false**
for the gutter. (Confirmed on the binary from a deleted working directory; repaired by 799b717.) -/
theorem site_transparent_line_number_false : Generated.gutterNumberWithoutAbs = false →
    stripOsc8 (formatLineNumber gutterWitnessCfg true (some 7) (some [0x61, 0x2e, 0x72, 0x73]) (fun _ => [0x20, 0x37]) []) ≠
      formatLineNumber gutterWitnessCfg false (some 7) (some [0x61, 0x2e, 0x72, 0x73]) (fun _ => [0x20, 0x37]) [] := by
  decide

/-- …and on the repaired source the same call is transparent. -/
theorem site_transparent_line_number_witness : Generated.gutterNumberWithoutAbs = true →
    stripOsc8 (formatLineNumber gutterWitnessCfg true (some 7) (some [0x61, 0x2e, 0x72, 0x73]) (fun _ => [0x20, 0x37]) []) =
      formatLineNumber gutterWitnessCfg false (some 7) (some [0x61, 0x2e, 0x72, 0x73]) (fun _ => [0x20, 0x37]) [] := by
  decide

/-- Commit lines (`_handle_commit_meta_header_line`), both the stripped and the raw line. -/
theorem site_transparent_commit_meta (c : Cfg)
    (hf : ∀ x, noEscBel x = true → noEscBel (c.commitFmt.url x) = true)
    (spans rawSpans : List (Nat × Nat)) (line raw : Bytes)
    (h : ValidSpans line 0 spans) (hr : ValidSpans raw 0 rawSpans)
    (hl : noEscBel line = true) (hraw : ∀ p ∈ commitLinePieces c.commitFmt rawSpans raw, p.okT) :
    ∃ a b, commitMetaLines c true spans rawSpans line raw = .ok (a, b) ∧
      commitMetaLines c false spans rawSpans line raw = .ok (line, raw) ∧
      stripOsc8 a = line ∧ stripOsc8 b = raw ∧ finalLink a = none ∧ finalLink b = none := by
  have e1 := commitMetaLines_eq c true spans rawSpans line raw h hr
  have e2 := commitMetaLines_eq c false spans rawSpans line raw h hr
  obtain ⟨_, f1⟩ := formatCommitLine_eq c.commitFmt spans line h
  obtain ⟨_, f2⟩ := formatCommitLine_eq c.commitFmt rawSpans raw hr
  have ok1 := commitLinePieces_okT c.commitFmt hf spans line hl
  obtain ⟨t1, b1⟩ := pieces_transparent _ ok1
  obtain ⟨t2, b2⟩ := pieces_transparent _ hraw
  refine ⟨_, _, e1, ?_, ?_, ?_, b1, b2⟩
  · rw [e2, f1, f2]
  · rw [t1, f1]
  · rw [t2, f2]

/-- Raw lines (`format_raw_line`): links only when stdout is a terminal; transparent either way. -/
theorem site_transparent_raw_line (c : Cfg)
    (hf : ∀ x, noEscBel x = true → noEscBel (c.commitFmt.url x) = true) (tty : Bool)
    (spans : List (Nat × Nat)) (line : Bytes) (h : ValidSpans line 0 spans) (hl : noEscBel line = true) :
    ∃ a, formatRawLine c tty spans true line = .ok a ∧ formatRawLine c tty spans false line = .ok line ∧
      stripOsc8 a = line ∧ finalLink a = none := by
  have e1 := formatRawLine_eq c tty spans true line h
  have e2 := formatRawLine_eq c tty spans false line h
  obtain ⟨_, f1⟩ := formatCommitLine_eq c.commitFmt spans line h
  have ok1 := commitLinePieces_okT c.commitFmt hf spans line hl
  refine ⟨_, e1, ?_, ?_, ?_⟩
  · rw [e2]; simp [f1]
  · cases tty
    · simp only [Bool.and_false]
      rw [f1]
      -- without links the line has no OSC string at all
      have : stripOsc8 line = line := by
        have := stripOsc8_render [.plain line] (by
          intro p hp; simp only [List.mem_singleton] at hp; subst hp; exact escSafe_of_noEscBel _ hl)
        simpa [render] using this
      exact this
    · simp only [Bool.and_true]
      rw [(pieces_transparent _ ok1).1, f1]
  · cases tty
    · simp only [Bool.and_false]
      rw [f1]
      have := finalLink_render [.plain line] (by
        intro p hp; simp only [List.mem_singleton] at hp; subst hp; exact escSafe_of_noEscBel _ hl)
      simpa [render] using this
    · simp only [Bool.and_true]
      exact (pieces_transparent _ ok1).2

/-! ### Targets -/

/-- `link_targets` (general form): in a line assembled from pieces, every byte of a linked piece
is under exactly that piece's URL and every other byte under no link. -/
theorem link_targets (ps : List Piece) (h : ∀ p ∈ ps, p.ok) : linked (render true ps) = expectLinked ps :=
  linked_render ps h

/-- File links carry the absolute path — and, where `{line}` occurs, the number: for a template
of literal segments and `{path}` / `{host}` / `{line}`, the URL is the template with the
placeholders replaced by `absolute_path file`, the host name and the line number. The gutter
site passes the very number it displays (`lineNumberPieces`: `fileLink … (some n) (padded n)`).
In the repaired source (`{path}` substituted last, `Generated.fileLinkPathLast`) this holds for
*every* path; in the original order only for a path without `{`. -/
theorem link_target_file (tm : List Seg) (hwf : ∀ seg ∈ tm, seg.wf) (p : Bytes) (host : Option Bytes)
    (hp : Generated.fileLinkPathLast = false → noBrace p = true)
    (hh : ∀ h, host = some h → noBrace h = true) (line : Option Nat) :
    fileUrl (renderT tm) p host line = (tm.map (Seg.subst p host (lineBytes line))).flatten :=
  fileUrl_template tm hwf p host hp hh line

/-- `file-line://{path}:{line}` at `/a/b.rs`, line 12. -/
example : fileUrl (renderT [.lit [0x66, 0x3a], .ph .path, .lit [0x3a], .ph .line]) [0x2f, 0x61] none (some 12) =
    [0x66, 0x3a, 0x2f, 0x61, 0x3a, 0x31, 0x32] := by decide

/-- On the original source the side condition is needed: a file whose name contains a placeholder is
linked to another path (`/{line}` at line 3 → `f:/3`). Found by reading, confirmed on the binary,
repaired by 7b33a1a. -/
theorem link_target_file_placeholder_in_path : Generated.fileLinkPathLast = false →
    fileUrl (renderT [.lit [0x66, 0x3a], .ph .path]) [0x2f, 0x7b, 0x6c, 0x69, 0x6e, 0x65, 0x7d] none (some 3) ≠
      [0x66, 0x3a] ++ [0x2f, 0x7b, 0x6c, 0x69, 0x6e, 0x65, 0x7d] := by
  decide

/-- …and on the repaired source that very file is linked to its own path. -/
theorem link_target_file_placeholder_in_path_kept : Generated.fileLinkPathLast = true →
    fileUrl (renderT [.lit [0x66, 0x3a], .ph .path]) [0x2f, 0x7b, 0x6c, 0x69, 0x6e, 0x65, 0x7d] none (some 3) =
      [0x66, 0x3a] ++ [0x2f, 0x7b, 0x6c, 0x69, 0x6e, 0x65, 0x7d] := by
  decide

/-- The line-number gutter links the displayed number: the number in the URL and the padded number
shown come from the same `n`. -/
theorem link_target_line_number (c : Cfg) (n : Nat) (file p : Bytes) (padded : Nat → Bytes) (blank : Bytes)
    (h : absolutePath c.path file = some p) :
    formatLineNumber c true (some n) (some file) padded blank =
      osc8 (fileUrl c.fileFmt p c.host (some n)) (padded n) := by
  simp [formatLineNumber, h, fileLink]

/-- Commit links carry exactly the hash they wrap: the linked text is the matched span, the URL is
the commit format applied to that same span; for a template `pre{commit}post` that is
`pre ++ hash ++ post`. -/
theorem link_target_commit (f : CommitFmt) (line : Bytes) (pos a b : Nat) (rest : List (Nat × Nat))
    (h : hasHexLetter ((line.drop a).take (b - a)) = true) :
    Piece.link (f.url ((line.drop a).take (b - a))) ((line.drop a).take (b - a)) ∈
      commitPieces f line pos ((a, b) :: rest) := by
  simp [commitPieces, h]

theorem link_target_commit_template (pre post c : Bytes) (h1 : noBrace pre = true) (h2 : noBrace post = true) :
    (CommitFmt.template (pre ++ phCommit ++ post)).url c = pre ++ c ++ post :=
  commit_url_template pre post c h1 h2

/-- `absolute_path`: relative to the delta process's directory unless paths are relative to the
user's directory (`--relative-paths`, `git diff --relative`, grep/blame callers). -/
theorem absolute_path_cases (c : PathCfg) (rel : Bytes) :
    (∀ d, c.cwdOfDelta = some d → c.relativeToCwd = false → absolutePath c rel = some (c.join d rel)) ∧
    (∀ u, c.cwdOfUserShell = some u → c.relativeToCwd = true → absolutePath c rel = some (c.join u rel)) ∧
    (c.cwdOfDelta = none → c.relativeToCwd = false → absolutePath c rel = none) := by
  refine ⟨?_, ?_, ?_⟩
  · intro d h1 h2; simp [absolutePath, h1, h2]
  · intro u h1 h2
    cases h : c.cwdOfDelta <;> simp [absolutePath, h, h1, h2]
  · intro h1 h2; simp [absolutePath, h1, h2]

/-! ### The remote-derived commit URL (`src/git_config/remote.rs`)

Without a configured `hyperlinks-commit-link-format` the commit URL comes from the `origin` remote:
`GitRemoteRepo::from_str` recognises the URL with four regexes and `format_commit_url` formats a fixed template per
forge. Model: `DeltaModel/RemoteRegex.lean` (the regex class by hand: leftmost-first backtracking over the parsed
patterns) + `DeltaModel/Remote.lean`; the patterns, which groups feed the slug, and the templates are re-read from
the source on every run (`Generated/Remote.lean`). -/

section RemoteLinks
open Remote

/-- What the four forges serve (specification side, not read from delta): host and the path between repository and
hash of a commit page. -/
def forges : List (List Char × List Char) :=
  [("github.com".toList, "/commit/".toList), ("gitlab.com".toList, "/-/commit/".toList),
   ("git.sr.ht".toList, "/commit/".toList), ("codeberg.org".toList, "/commit/".toList)]

/-- The concrete side of the table check: the literal host of the pattern and the infix of the template are a forge
of `forges`; the separator class is `[:/]`; the literal prefixes are `https://` and `git@`; the only text the slug
leaves out at the end is `.git`. -/
def armConcrete (arm : Arm) : Bool :=
  match findPattern Generated.Remote.patterns arm.pattern, findFormat Generated.Remote.formatArms arm.variant with
  | some p, some fa =>
    (match hostLit p.host with
      | some h => decide ((h, infixOf fa) ∈ forges)
      | none => false) &&
    p.sep.chars == [':', '/'] &&
    decide (∀ alt ∈ p.pre.alts, allLit alt = true → litText alt = "https://".toList ∨ litText alt = "git@".toList) &&
    decide (∀ t ∈ suffixTexts p.tail, t = ".git".toList)
  | _, _ => false

/-- **The proof obligation on the source**: for every arm of `from_str`, the host part of its pattern is *literal
text* (every host the pattern accepts is that one string), it contains no separator character, the `format_commit_url`
template of the variant the arm builds is `https://<that host>/{slug}<literal>{commit}`, and the slug `format!`
repeats the path part of the pattern (capture groups in order, literal `/` and `~` as literals, an optional group
never `unwrap`ped, only a trailing `(?:\.git)?` left out). A pattern whose host part accepts more than one host
(`gitlab\.[^:/]+`), a template on another host, an arm that builds another forge's variant: this fails. -/
theorem remote_tables_ok :
    ∀ arm ∈ Generated.Remote.fromStrArms,
      armOk Generated.Remote.patterns Generated.Remote.formatArms arm = true := by decide

/-- …and the hosts / commit paths are those of the four forges, the separator is `[:/]`, the literal prefixes are
`https://` and `git@`, the suffix is `.git`. -/
theorem remote_tables_are_the_forges : ∀ arm ∈ Generated.Remote.fromStrArms, armConcrete arm = true := by decide

/-- `from_str` cannot panic (`caps.get(k).unwrap()` is only applied to groups that take part in every match). -/
theorem remote_from_str_total (s : List Char) : ∃ o, recognise s = .ok o := by
  rcases recogniseWith_sound _ _ _ remote_tables_ok s with h | ⟨r, h, _⟩
  · exact ⟨none, h⟩
  · exact ⟨some r, h⟩

/-- **`remote_commit_link_points_at_origin`**: if `from_str` recognises the origin URL `s` as the repository `r`
(forge variant + slug), then `s` is

    `pre ++ host ++ [sep] ++ slug ++ suf`

with `pre` empty, `https://`, `git@` or `u@` (`u` non-empty, free of `@` — the GitHub pattern's `[^@]+@`), `host` free of
`:` and `/`, `sep` one of `:` `/`, `suf` empty or `.git`; `host` is one of the four forges, and for **every** hash `h`

    `format_commit_url(h) = "https://" ++ host ++ "/" ++ slug ++ infix ++ h`

with the infix of that forge: the link is on the host that stands at the host position of the origin URL, under the
path that follows it there, and ends with exactly the hash. -/
theorem remote_commit_link_points_at_origin (s : List Char) (r : Repo) (hr : recognise s = .ok (some r)) :
    ∃ pre host sepc suf infx,
      s = pre ++ host ++ [sepc] ++ r.slug ++ suf ∧
      (pre = [] ∨ pre = "https://".toList ∨ pre = "git@".toList ∨ UserAt pre) ∧
      (∀ c ∈ host, c ≠ ':' ∧ c ≠ '/') ∧ (sepc = ':' ∨ sepc = '/') ∧
      (suf = [] ∨ suf = ".git".toList) ∧
      (host, infx) ∈ forges ∧
      ∀ h, commitUrl r h = some ("https://".toList ++ host ++ ['/'] ++ r.slug ++ infx ++ h) := by
  rcases recogniseWith_sound _ _ _ remote_tables_ok s with h | ⟨r', h, arm, harm, ⟨p, fa, host, pre, sepc, suf, hp, hf, _, hh, hs, hpre, hsep, hfree, hsuf, hurl⟩⟩
  · rw [recognise] at hr; rw [hr] at h; cases h
  · rw [recognise] at hr; rw [hr] at h; cases h
    have hc := remote_tables_are_the_forges arm harm
    simp only [armConcrete, hp, hf, hh, Bool.and_eq_true, decide_eq_true_eq, beq_iff_eq] at hc
    obtain ⟨⟨⟨hforge, hsepc⟩, hlit⟩, hsufs⟩ := hc
    refine ⟨pre, host, sepc, suf, infixOf fa, hs, ?_, ?_, ?_, ?_, hforge, hurl⟩
    · rcases hpre with h | ⟨alt, halt, hl, rfl⟩ | h
      · exact Or.inl h
      · rcases hlit alt halt hl with h | h
        · exact Or.inr (Or.inl h)
        · exact Or.inr (Or.inr (Or.inl h))
      · exact Or.inr (Or.inr (Or.inr h))
    · intro c hc
      have := hfree c hc
      rw [hsepc] at this
      simp only [List.mem_cons, List.not_mem_nil, or_false, not_or] at this
      exact this
    · rw [hsepc] at hsep
      simpa using hsep
    · rcases hsuf with h | h
      · exact Or.inl h
      · exact Or.inr (hsufs suf h)

/-- `git@gitlab.com:proj/grp/subgrp/repo.git` is the GitLab repository `proj/grp/subgrp/repo`; the hash `94907c0`
links to that repository's commit page on gitlab.com (the URL in the statement). -/
example : recognise "git@gitlab.com:proj/grp/subgrp/repo.git".toList =
      .ok (some ⟨"GitLab".toList, "proj/grp/subgrp/repo".toList⟩) ∧
    commitUrl ⟨"GitLab".toList, "proj/grp/subgrp/repo".toList⟩ "94907c0".toList =
      some "https://gitlab.com/proj/grp/subgrp/repo/-/commit/94907c0".toList := by decide

/-- Hosts that only look like a forge are not recognised: no remote-derived link. -/
theorem remote_lookalike_hosts_not_recognised :
    recognise "git@gitlab.gnome.org:GNOME/gtk.git".toList = .ok none ∧
    recognise "https://gitlab.com.cn/a/b".toList = .ok none ∧
    recognise "https://github.com.evil.org/u/r".toList = .ok none ∧
    recognise "git@notgithub.com:u/r".toList = .ok none ∧
    recognise "https://evil.org/github.com/u/r".toList = .ok none := by decide

/-- The documented forms of the four forges (https, `git@host:`, `host:`; with and without `.git`; nested GitLab
groups) are recognised, with the slug a reader expects. (Concrete instances; that *every* recognised URL is linked
to its own host and path is `remote_commit_link_points_at_origin`.) -/
theorem remote_documented_forms_recognised :
    recognise "https://github.com/dandavison/delta.git".toList = .ok (some ⟨"GitHub".toList, "dandavison/delta".toList⟩) ∧
    recognise "git@github.com:dandavison/delta".toList = .ok (some ⟨"GitHub".toList, "dandavison/delta".toList⟩) ∧
    recognise "github.com:dandavison/delta.git".toList = .ok (some ⟨"GitHub".toList, "dandavison/delta".toList⟩) ∧
    recognise "https://gitlab.com/proj/grp/subgrp/repo.git".toList = .ok (some ⟨"GitLab".toList, "proj/grp/subgrp/repo".toList⟩) ∧
    recognise "git@gitlab.com:proj/repo".toList = .ok (some ⟨"GitLab".toList, "proj/repo".toList⟩) ∧
    recognise "gitlab.com:proj/grp/repo.git".toList = .ok (some ⟨"GitLab".toList, "proj/grp/repo".toList⟩) ∧
    recognise "https://git.sr.ht/~someuser/somerepo".toList = .ok (some ⟨"SourceHut".toList, "~someuser/somerepo".toList⟩) ∧
    recognise "git@git.sr.ht:~someuser/somerepo".toList = .ok (some ⟨"SourceHut".toList, "~someuser/somerepo".toList⟩) ∧
    recognise "git.sr.ht:~someuser/somerepo".toList = .ok (some ⟨"SourceHut".toList, "~someuser/somerepo".toList⟩) ∧
    recognise "https://codeberg.org/someuser/somerepo.git".toList = .ok (some ⟨"Codeberg".toList, "someuser/somerepo".toList⟩) ∧
    recognise "git@codeberg.org:someuser/somerepo".toList = .ok (some ⟨"Codeberg".toList, "someuser/somerepo".toList⟩) ∧
    recognise "codeberg.org:someuser/somerepo.git".toList = .ok (some ⟨"Codeberg".toList, "someuser/somerepo".toList⟩) := by
  decide

/-- A configured `hyperlinks-commit-link-format` always wins over the remote (the order of the `if let` chain of
`format_commit_line_with_osc8_commit_hyperlink`, read from the source). -/
theorem configured_commit_format_wins (subst : List Char → List Char → List Char) (fmt : List Char)
    (origin : Option (List Char)) (h : List Char) :
    commitLinkUrl subst (some fmt) origin h = some (subst fmt h) := rfl

/-- …and without one the URL is the remote-derived one, or there is no link. -/
theorem unconfigured_commit_link_is_remote_derived (subst : List Char → List Char → List Char)
    (origin : Option (List Char)) (h : List Char) :
    commitLinkUrl subst none origin h =
      match origin.map recognise with
      | some (.ok (some r)) => commitUrl r h
      | _ => none := by
  cases origin with
  | none => rfl
  | some s =>
    simp only [commitLinkUrl, Generated.Remote.commitLinkSources, commitLinkUrlFrom, Option.map_some]
    cases recognise s with
    | error e => rfl
    | ok o => cases o <;> rfl

/-- The byte-level commit URL of the `Links` model (`Links.Remote.commitUrl`, what `links.commit_line` executes) is
the generated template of the same variant. -/
theorem links_remote_commit_url_generated (slug commit : Bytes) :
    Links.Remote.commitUrl (.github slug) commit =
      (templateBytes Generated.Remote.formatArms "GitHub".toList).1 ++ slug ++
        (templateBytes Generated.Remote.formatArms "GitHub".toList).2 ++ commit ∧
    Links.Remote.commitUrl (.gitlab slug) commit =
      (templateBytes Generated.Remote.formatArms "GitLab".toList).1 ++ slug ++
        (templateBytes Generated.Remote.formatArms "GitLab".toList).2 ++ commit ∧
    Links.Remote.commitUrl (.sourcehut slug) commit =
      (templateBytes Generated.Remote.formatArms "SourceHut".toList).1 ++ slug ++
        (templateBytes Generated.Remote.formatArms "SourceHut".toList).2 ++ commit ∧
    Links.Remote.commitUrl (.codeberg slug) commit =
      (templateBytes Generated.Remote.formatArms "Codeberg".toList).1 ++ slug ++
        (templateBytes Generated.Remote.formatArms "Codeberg".toList).2 ++ commit := by
  have h1 : templateBytes Generated.Remote.formatArms "GitHub".toList =
      ([0x68, 0x74, 0x74, 0x70, 0x73, 0x3a, 0x2f, 0x2f, 0x67, 0x69, 0x74, 0x68, 0x75, 0x62, 0x2e, 0x63, 0x6f, 0x6d, 0x2f],
       [0x2f, 0x63, 0x6f, 0x6d, 0x6d, 0x69, 0x74, 0x2f]) := by decide
  have h2 : templateBytes Generated.Remote.formatArms "GitLab".toList =
      ([0x68, 0x74, 0x74, 0x70, 0x73, 0x3a, 0x2f, 0x2f, 0x67, 0x69, 0x74, 0x6c, 0x61, 0x62, 0x2e, 0x63, 0x6f, 0x6d, 0x2f],
       [0x2f, 0x2d, 0x2f, 0x63, 0x6f, 0x6d, 0x6d, 0x69, 0x74, 0x2f]) := by decide
  have h3 : templateBytes Generated.Remote.formatArms "SourceHut".toList =
      ([0x68, 0x74, 0x74, 0x70, 0x73, 0x3a, 0x2f, 0x2f, 0x67, 0x69, 0x74, 0x2e, 0x73, 0x72, 0x2e, 0x68, 0x74, 0x2f],
       [0x2f, 0x63, 0x6f, 0x6d, 0x6d, 0x69, 0x74, 0x2f]) := by decide
  have h4 : templateBytes Generated.Remote.formatArms "Codeberg".toList =
      ([0x68, 0x74, 0x74, 0x70, 0x73, 0x3a, 0x2f, 0x2f, 0x63, 0x6f, 0x64, 0x65, 0x62, 0x65, 0x72, 0x67, 0x2e, 0x6f, 0x72, 0x67, 0x2f],
       [0x2f, 0x63, 0x6f, 0x6d, 0x6d, 0x69, 0x74, 0x2f]) := by decide
  rw [h1, h2, h3, h4]
  exact ⟨rfl, rfl, rfl, rfl⟩

/-! #### Where the pattern-position reading and git's URL syntax differ (unchanged source)

The theorem above places the host *where the pattern looks for it*. Read as a URL (`UrlSyntax.parse`: what git
itself connects to), two families of origin URLs have another host or path; both confirmed on the binary
(known findings `C19-remote-userinfo-slash`, `C19-remote-port-as-owner`, notes/S4-strengthen-C19.md). -/

/-- The GitHub pattern's user prefix `[^@]+@` also accepts `/`: an `@` in the *path* of a URL on another host
makes delta link its commits to github.com. -/
theorem remote_at_sign_in_path_links_foreign_host :
    recognise "https://evil.org/x@github.com/u/r".toList = .ok (some ⟨"GitHub".toList, "u/r".toList⟩) ∧
    (UrlSyntax.parse "https://evil.org/x@github.com/u/r".toList).map (·.host) = some "evil.org".toList := by decide

/-- A port is taken as the first path component (`[:/]` accepts the colon of `host:port`). -/
theorem remote_port_taken_as_owner :
    recognise "https://gitlab.com:8443/grp/repo".toList = .ok (some ⟨"GitLab".toList, "8443/grp/repo".toList⟩) ∧
    UrlSyntax.parse "https://gitlab.com:8443/grp/repo".toList =
      some ⟨"gitlab.com".toList, "8443".toList, "grp/repo".toList⟩ ∧
    recognise "ssh://git@github.com:22/u/r.git".toList = .ok (some ⟨"GitHub".toList, "22/u/r".toList⟩) := by decide

end RemoteLinks

end C19
