import Proofs.Superimpose
import Proofs.SuperimposeLifetime
import Proofs.SetSyntax
import Proofs.FlushOrder
import Proofs.FlushSection
/-!
C15 — syntax highlighting only recolours foregrounds, by the file's language.

All theorems are about the functions `drv_superimpose` executes
(`Superimpose.superimposeStyleSections`, `coalesce`, `makeSuperimposedStyle`, `getSyntax`);
`makeSuperimposedStyle` and `getSyntax` interpret tables regenerated from
`/repo/src/paint.rs` on every run (`DeltaModel/Generated/Superimpose.lean`).

Trusted, entering as parameters: the syntect output (`syn`: any sections; the theorems that
need it assume only that it spells the same text as the diff sections, `text syn = text diff`),
the colours a theme assigns, `ansi256_from_rgb` (`Env.quant`), `find_syntax_by_extension`
(`byExt`), the light/dark class of a theme (outside the model: it selects the *diff* styles).
-/
namespace C15
open Superimpose Generated.Superimpose

/-- For the examples: the run succeeded with exactly this output. -/
def okEq (r : Except String (List (Style × List Char))) (e : List (Style × List Char)) : Bool :=
  match r with
  | .ok o => o == e
  | .error _ => false

/-- Erase the foreground of every cell. -/
def eraseFgCells (l : List (Style × Char)) : List (Style × Char) :=
  l.map fun x => (eraseFg x.1, x.2)

/-- One character: the superimposed style equals the diff style except possibly for the
foreground colour; it differs at all only if the diff style is `is_syntax_highlighted` and
the syntect style is not the null style, and then the foreground is the syntect foreground.
(Breaks as soon as the generated description of `make_superimposed_style` takes any other
field from the syntect style or weakens the condition.) -/
theorem superimposed_style_only_fg (env : Env) (t : SynStyle) (d : Style) :
    eraseFg (makeSuperimposedStyle env t d) = eraseFg d ∧
    (makeSuperimposedStyle env t d ≠ d → d.isSyntaxHighlighted = true ∧ t ≠ env.null) ∧
    (d.isSyntaxHighlighted = true → t ≠ env.null →
      (makeSuperimposedStyle env t d).ansi.fg = toAnsiColor env t.fg) := by
  -- facts about the generated description (order of the atoms is irrelevant)
  have hov : thenAnsiOverrides = [(.foreground, .syntectForeground)] := by decide
  have hst : thenStyleOverrides = [] := by decide
  have m1 : Atom.diffIsSyntaxHighlighted ∈ condition := by decide
  have m2 : Atom.syntectIsNotNull ∈ condition := by decide
  have only : ∀ a ∈ condition, a = .diffIsSyntaxHighlighted ∨ a = .syntectIsNotNull ∨ a = .constTrue := by
    decide
  have hcond : condition.all (evalAtom env t d) = true ↔
      (d.isSyntaxHighlighted = true ∧ t ≠ env.null) := by
    rw [List.all_eq_true]
    constructor
    · intro h
      exact ⟨by simpa [evalAtom] using h _ m1, by simpa [evalAtom] using h _ m2⟩
    · intro ⟨h1, h2⟩ a ha
      rcases only a ha with rfl | rfl | rfl <;> simp [evalAtom, h1, h2]
  unfold makeSuperimposedStyle
  rw [hov, hst]
  simp only [List.foldl_cons, List.foldl_nil, setAnsi, sourceColor]
  refine ⟨?_, ?_, ?_⟩
  · split <;> simp [eraseFg]
  · split
    · rename_i h; intro _; exact hcond.mp h
    · intro h; exact absurd rfl h
  · intro h1 h2
    rw [if_pos (hcond.mpr ⟨h1, h2⟩)]

example : makeSuperimposedStyle
    { trueColor := true, null := configNull, quant := fun _ _ _ => 0 }
    ⟨⟨255, 0, 0, 255⟩, ⟨0, 0, 0, 255⟩, 1⟩
    { ansi := { bg := some (.rgb 0 16 0), bold := true }, isSyntaxHighlighted := true } =
    { ansi := { fg := some (.rgb 255 0 0), bg := some (.rgb 0 16 0), bold := true },
      isSyntaxHighlighted := true } := by decide

/-- No panic when the syntect sections spell the same text as the diff sections. -/
theorem superimpose_no_panic (env : Env) (syn : List (SynStyle × List Char))
    (diff : List (Style × List Char)) (hpart : text syn = text diff) :
    ∃ out, superimposeStyleSections env syn diff = .ok out := by
  unfold superimposeStyleSections
  obtain ⟨r, hr⟩ := superimpose_ok_of_chars_eq (explode syn) (explode diff)
    (by rw [explode_map_snd, explode_map_snd, hpart])
  exact ⟨coalesce env r, by rw [hr]⟩

/-- The panic branch ("String mismatch…") is taken exactly when the two texts differ at
a position both have. -/
theorem superimpose_panics_iff (env : Env) (syn : List (SynStyle × List Char))
    (diff : List (Style × List Char)) :
    (∃ e, superimposeStyleSections env syn diff = .error e) ↔
      ∃ xy ∈ List.zip (explode syn) (explode diff), xy.1.2 ≠ xy.2.2 := by
  rw [← superimpose_error_iff]
  unfold superimposeStyleSections
  cases superimpose (explode syn) (explode diff) <;> simp

/-- Output text = input text minus one final newline. -/
theorem superimpose_text (env : Env) (syn : List (SynStyle × List Char))
    (diff : List (Style × List Char)) (out : List (Style × List Char))
    (hpart : text syn = text diff)
    (h : superimposeStyleSections env syn diff = .ok out) :
    text out = dropLastIf isNl (text diff) := by
  have hlen : (explode syn).length = (explode diff).length := by
    rw [explode_length, explode_length, hpart]
  rw [← explode_map_snd, explode_superimposeStyleSections env syn diff out h,
    ← dropLastIf_map (fun x : Style × Char => isNl x.2) isNl Prod.snd (fun _ => rfl),
    cells_map_snd env _ _ hlen, explode_map_snd, hpart]

example : okEq (superimposeStyleSections
    { trueColor := true, null := configNull, quant := fun _ _ _ => 0 }
    [(⟨⟨255, 0, 0, 255⟩, ⟨0, 0, 0, 255⟩, 0⟩, "fn".toList), (configNull, " é\n".toList)]
    [({ isSyntaxHighlighted := true }, "f".toList), ({ ansi := { fg := some (.named 1) } }, "n é\n".toList)])
    [({ ansi := { fg := some (.rgb 255 0 0) }, isSyntaxHighlighted := true }, "f".toList),
     ({ ansi := { fg := some (.named 1) } }, "n".toList),
     ({ ansi := { fg := some (.named 1) } }, " é".toList)] = true := by decide

/-- Each output character carries the diff style of the same position, except possibly for
the foreground colour; it differs from it only where the diff style is
`is_syntax_highlighted` and the syntect style is not the null style. -/
theorem superimpose_only_fg (env : Env) (syn : List (SynStyle × List Char))
    (diff : List (Style × List Char)) (out : List (Style × List Char))
    (h : superimposeStyleSections env syn diff = .ok out)
    (i : Nat) (s : Style) (c : Char) (hi : (explode out)[i]? = some (s, c)) :
    ∃ t d, (explode syn)[i]? = some (t, c) ∧ (explode diff)[i]? = some (d, c) ∧
      eraseFg s = eraseFg d ∧
      (s ≠ d → d.isSyntaxHighlighted = true ∧ t ≠ env.null) ∧
      (s.ansi.fg ≠ d.ansi.fg → d.isSyntaxHighlighted = true ∧ t ≠ env.null) := by
  rw [explode_superimposeStyleSections env syn diff out h] at hi
  obtain ⟨t, d, c', hx, hy, hs⟩ := cells_getElem? env _ _ i s c (dropLastIf_getElem? _ _ _ _ hi)
  have hc : c' = c := by
    refine Classical.byContradiction fun hne => ?_
    have : ∃ e, superimposeStyleSections env syn diff = .error e := by
      rw [superimpose_panics_iff]
      refine ⟨((t, c), (d, c')), ?_, fun e => hne e.symm⟩
      exact List.mem_iff_getElem?.mpr ⟨i, List.getElem?_zip_eq_some.mpr ⟨hx, hy⟩⟩
    obtain ⟨e, he⟩ := this
    rw [h] at he; cases he
  subst hc
  obtain ⟨h1, h2, _⟩ := superimposed_style_only_fg env t d
  refine ⟨t, d, hx, hy, by rw [hs, h1], by rw [hs]; exact h2, ?_⟩
  intro hfg
  exact h2 (by rw [← hs]; intro e; exact hfg (by rw [e]))

/-- Text whose style does not ask for `syntax` keeps exactly its configured style, hence
its configured foreground; so does everything when highlighting is off (null style). -/
theorem no_syntax_keeps_fg (env : Env) (syn : List (SynStyle × List Char))
    (diff : List (Style × List Char)) (out : List (Style × List Char))
    (h : superimposeStyleSections env syn diff = .ok out)
    (i : Nat) (s : Style) (c : Char) (hi : (explode out)[i]? = some (s, c)) :
    ∃ t d, (explode syn)[i]? = some (t, c) ∧ (explode diff)[i]? = some (d, c) ∧
      (d.isSyntaxHighlighted = false → s = d) ∧ (t = env.null → s = d) := by
  obtain ⟨t, d, hx, hy, _, hne, _⟩ := superimpose_only_fg env syn diff out h i s c hi
  refine ⟨t, d, hx, hy, ?_, ?_⟩
  · intro hd
    refine Classical.byContradiction fun hsd => ?_
    have := (hne hsd).1
    rw [hd] at this; cases this
  · intro ht
    exact Classical.byContradiction fun hsd => (hne hsd).2 ht

/-- Two runs on the same diff sections with different syntect outputs (different themes,
highlighting on/off, different colour depth) agree after erasing the foreground. -/
theorem theme_independent_modulo_fg (env₁ env₂ : Env)
    (syn₁ syn₂ : List (SynStyle × List Char)) (diff : List (Style × List Char))
    (out₁ out₂ : List (Style × List Char))
    (hp₁ : text syn₁ = text diff) (hp₂ : text syn₂ = text diff)
    (h₁ : superimposeStyleSections env₁ syn₁ diff = .ok out₁)
    (h₂ : superimposeStyleSections env₂ syn₂ diff = .ok out₂) :
    eraseFgCells (explode out₁) = eraseFgCells (explode out₂) := by
  have key : ∀ (env : Env) (syn : List (SynStyle × List Char)) (out : List (Style × List Char)),
      text syn = text diff → superimposeStyleSections env syn diff = .ok out →
      eraseFgCells (explode out) =
        dropLastIf (fun x => isNl x.2) (eraseFgCells (explode diff)) := by
    intro env syn out hp h
    unfold eraseFgCells
    rw [explode_superimposeStyleSections env syn diff out h,
      ← dropLastIf_map (fun x : Style × Char => isNl x.2) (fun x : Style × Char => isNl x.2)
        (fun x => (eraseFg x.1, x.2)) (fun _ => rfl),
      cells_map_erase env eraseFg (fun t d => (superimposed_style_only_fg env t d).1)]
    rw [explode_map_snd, explode_map_snd, hp]
  rw [key env₁ syn₁ out₁ hp₁ h₁, key env₂ syn₂ out₂ hp₂ h₂]

example :
    let env : Env := { trueColor := true, null := configNull, quant := fun _ _ _ => 0 }
    let diff : List (Style × List Char) :=
      [({ ansi := { bg := some (.fixed 22) }, isSyntaxHighlighted := true }, "let x\n".toList)]
    (okEq (superimposeStyleSections env
        [(⟨⟨255, 0, 0, 255⟩, ⟨0, 0, 0, 255⟩, 0⟩, "let".toList), (configNull, " x\n".toList)] diff)
      [({ ansi := { fg := some (.rgb 255 0 0), bg := some (.fixed 22) }, isSyntaxHighlighted := true }, "let".toList),
       ({ ansi := { bg := some (.fixed 22) }, isSyntaxHighlighted := true }, " x".toList)] &&
     okEq (superimposeStyleSections { env with trueColor := false }
        [(⟨⟨0, 0, 255, 255⟩, ⟨0, 0, 0, 255⟩, 2⟩, "let x\n".toList)] diff)
      [({ ansi := { fg := some (.fixed 0), bg := some (.fixed 22) }, isSyntaxHighlighted := true }, "let x".toList)])
    = true := by
  decide

/-- `coalesce` changes neither the text nor the style of any character (one final newline
is dropped), and never leaves two adjacent sections with the same style pair. -/
theorem coalesce_preserves (env : Env) (l : List (Pair × Char)) :
    explode (coalesce env l) =
      dropLastIf (fun x => isNl x.2)
        (l.map fun x => (makeSuperimposedStyle env x.1.1 x.1.2, x.2)) ∧
    text (coalesce env l) = dropLastIf isNl (l.map Prod.snd) := by
  refine ⟨explode_coalesce env l, ?_⟩
  rw [← explode_map_snd, explode_coalesce,
    ← dropLastIf_map (fun x : Style × Char => isNl x.2) isNl Prod.snd (fun _ => rfl)]
  simp [Function.comp_def]

/-- The loop of `coalesce` merges maximally: adjacent sections have different style pairs,
and the first section carries the first pair. -/
theorem coalesce_merges_adjacent (p : Pair) (c : Char) (rest : List (Pair × Char)) :
    AdjNe (group p [c] rest) := (group_adjacent_ne p [c] rest).2

example : group (1 : Nat) ['a'] [(1, 'b'), (2, 'c'), (2, '\n'), (1, 'd')] =
    [(1, ['a', 'b']), (2, ['c', '\n']), (1, ['d'])] := by decide

/-! ### Language from the file name alone -/

/-- `get_syntax` depends on the path only through `(file_name, extension)`. -/
theorem language_by_name {σ : Type} (byExt : List Char → Option σ) (fallback : σ)
    (p q : List Char)
    (hn : (fileName p).getD [] = (fileName q).getD [])
    (he : (extension p).getD [] = (extension q).getD []) :
    getSyntax byExt fallback (some p) = getSyntax byExt fallback (some q) := by
  simp [getSyntax, choose, hn, he]

/-- …and the extension is itself a function of the file name, so the directory part of a
path never matters. -/
theorem language_by_file_name {σ : Type} (byExt : List Char → Option σ) (fallback : σ)
    (p q : List Char) (hn : fileName p = fileName q) :
    getSyntax byExt fallback (some p) = getSyntax byExt fallback (some q) := by
  apply language_by_name
  · rw [hn]
  · rw [extension_eq, extension_eq, hn]

/-- The default language is used iff there is no file name, or the name has no extension
and is at most 4 bytes long, or neither lookup (whole name, then extension) succeeds. -/
theorem default_language_iff {σ : Type} (byExt : List Char → Option σ)
    (fname ext : List Char) :
    (∃ k s, chooseByName byExt fname ext = .found k s) ↔
      ((ext ≠ [] ∨ utf8Len fname > 4) ∧ (byExt fname ≠ none ∨ byExt ext ≠ none)) := by
  unfold chooseByName
  simp only [lookupOrder, wholeNameMinLen, firstFound, keyString]
  by_cases hg : ext ≠ [] ∨ utf8Len fname > 4
  · simp only [hg, if_true, true_and]
    cases h1 : byExt fname <;> cases h2 : byExt ext <;> simp
  · simp [hg]

/-- What is found is what `find_syntax_by_extension` returns, the whole file name taking
precedence over the extension. -/
theorem found_is_lookup {σ : Type} (byExt : List Char → Option σ) (fname ext : List Char)
    (k : LookupKey) (s : σ) (h : chooseByName byExt fname ext = .found k s) :
    byExt (keyString fname ext k) = some s ∧ (k = .extension → byExt fname = none) := by
  unfold chooseByName at h
  simp only [lookupOrder, firstFound, keyString] at h
  split at h
  · cases h1 : byExt fname <;> cases h2 : byExt ext <;> simp [h1, h2] at h <;>
      (obtain ⟨rfl, rfl⟩ := h; simp [keyString, h1, h2])
  · cases h

/-- Renaming a file to another name of the same kind (both names have an extension or are
longer than 4 bytes, neither is itself a known whole name, and the extensions map to the
same syntax) leaves the chosen syntax unchanged. -/
theorem same_kind_rename {σ : Type} (byExt : List Char → Option σ) (fallback : σ)
    (p q : List Char)
    (gp : (extension p).getD [] ≠ [] ∨ utf8Len ((fileName p).getD []) > 4)
    (gq : (extension q).getD [] ≠ [] ∨ utf8Len ((fileName q).getD []) > 4)
    (np : byExt ((fileName p).getD []) = none) (nq : byExt ((fileName q).getD []) = none)
    (hk : byExt ((extension p).getD []) = byExt ((extension q).getD [])) :
    getSyntax byExt fallback (some p) = getSyntax byExt fallback (some q) := by
  simp only [getSyntax, choose, chooseByName, wholeNameMinLen, lookupOrder, firstFound, keyString]
  simp only [gp, gq, if_true, np, nq, hk]

example :
    let byExt : List Char → Option String := fun e =>
      if e = "rs".toList then some "Rust" else if e = "Makefile".toList then some "Makefile" else none
    (getSyntax byExt "Plain Text" (some "src/a.rs".toList),
     getSyntax byExt "Plain Text" (some "b.rs".toList),
     getSyntax byExt "Plain Text" (some "x/Makefile".toList),
     getSyntax byExt "Plain Text" (some "rs".toList),
     getSyntax byExt "Plain Text" (some "a.zz".toList),
     getSyntax byExt "Plain Text" none) =
    ("Rust", "Rust", "Makefile", "Plain Text", "Plain Text", "Plain Text") := by decide

end C15

namespace C15
open Superimpose

/-- Moving a file to another directory never changes its language: only the last path
component is looked at. -/
theorem language_ignores_directory {σ : Type} (byExt : List Char → Option σ) (fallback : σ)
    (dir₁ dir₂ name : List Char) (hs : '/' ∉ name) (h1 : name ≠ []) (h2 : name ≠ ['.']) :
    getSyntax byExt fallback (some (dir₁ ++ '/' :: name)) =
      getSyntax byExt fallback (some (dir₂ ++ '/' :: name)) := by
  apply language_by_file_name
  rw [fileName_dir dir₁ name hs h1 h2, fileName_dir dir₂ name hs h1 h2]

example : '/' ∉ "main.rs".toList ∧ "main.rs".toList ≠ [] ∧ "main.rs".toList ≠ ['.'] := by decide

end C15


/-! ### The language in force when something is painted -/
namespace C15
open Superimpose Superimpose.Lifetime Generated.SuperimposeLifetime

/-- The language of a file section: that of the new name, or of the old name for a deleted file. -/
def fileLang {σ : Type} (lang : Option (List Char) → σ) (minus plus : Option (List Char)) : σ :=
  if plus.isSome then lang plus else lang minus

/-- `Painter::new` satisfies the invariant, so every reachable state does (`step_inv`). -/
theorem initial_state_inv {σ : Type} (lang : Option (List Char) → σ) (unified : Bool) :
    Lifetime.Inv unified .start (initial lang unified) := by
  simp [Lifetime.Inv, initial, Consec]

/-- Along any well-formed event sequence, from any state in which the buffered lines are
consistent with the highlighter, every painted element (hunk-header fragment, hunk line) goes
through exactly the highlighter the property asks for: created for the language of the
current file's name; fresh for a fragment; fed with the preceding lines of the same hunk, and
nothing else, for a hunk line. (Breaks when a generated statement sequence loses or guards a
`set_syntax` / `set_highlighter`.) -/
theorem highlighter_follows_current_file {σ : Type} (lang : Option (List Char) → σ)
    (unified : Bool) (ph : Phase) (s : State σ) (evs : List Event)
    (hi : Lifetime.Inv unified ph s) (hw : wf unified ph evs = true) :
    ∀ p ∈ (run lang s evs).2, p.used = some p.expected :=
  run_inv lang unified evs ph s hi hw

/-- **Whatever preceded** (`s`: any state satisfying the invariant, i.e. any history), the
elements painted for a file section `--- m` / `+++ p` / hunks… of **git** input use the language
of that file's *parsed* name — whatever cutting the raw header line at TABs and spaces would give
(`mkm`, `mkp`: names with spaces, quoted names) — and each hunk-header fragment a fresh
highlighter. (Breaks when a generated statement sequence loses or guards a `set_syntax` /
`set_highlighter`, or takes the name from the raw line for git input.) -/
theorem language_depends_on_current_file_only {σ : Type} (lang : Option (List Char) → σ)
    (s : State σ) (hs : Lifetime.Inv false .start s) (m p mkm mkp : Option (List Char))
    (body : List Event)
    (hnf : ∀ e ∈ body, isFileEvent e = false) (hw : wf false .header body = true) :
    ∀ q ∈ (run lang (run lang s [.fileMinus m mkm, .filePlus p mkp]).1 body).2,
      ∃ n, q.used = some (fileLang lang m p, n) ∧ (q.kind = .fragment → n = 0) := by
  obtain ⟨_, i1⟩ := step_inv lang false .start s (.fileMinus m mkm) hs rfl
  obtain ⟨_, i2⟩ := step_inv lang false .header _ (.filePlus p mkp) i1 (by simp [allowed])
  have hs1 : (run lang s [.fileMinus m mkm, .filePlus p mkp]).1 =
      (step lang (step lang s (.fileMinus m mkm)).1 (.filePlus p mkp)).1 := by simp [run]
  -- the specification fields: `cur` follows the parsed names by definition of `step`;
  -- the buffer is empty after the flush that ends both header handlers (from the invariant)
  have cur_stmts : ∀ (t : State σ) (l : List (Guard × Stmt)), (execStmts lang t l).1.cur = t.cur := by
    intro t l
    induction l generalizing t with
    | nil => rfl
    | cons x rest ih =>
      obtain ⟨g, st⟩ := x
      simp only [execStmts]
      split
      · rw [ih]; cases st <;> try rfl
        rename_i side src; cases side <;> cases src <;> rfl
      · exact ih t
  have hcur : (run lang s [.fileMinus m mkm, .filePlus p mkp]).1.cur = fileLang lang m p := by
    rw [hs1]
    simp only [step, cur_stmts, fileLang]
  intro q hq
  have hok := run_inv lang false body .header _ (by rw [hs1]; exact i2) hw q hq
  -- every buffered expectation left is consistent with `cur` … there is none: paintBuffered ran
  have hbuf : (run lang s [.fileMinus m mkm, .filePlus p mkp]).1.buffered = [] := by
    rw [hs1]
    have hpl : plusHeaderStmts = [(.ifPlusNotDevNull, .setSyntax .plus .parsedPath),
        (.always, .paintBuffered)] := by decide
    cases p <;> simp [step, hpl, execStmts, evalGuard, execStmt]
  obtain ⟨e1, e2⟩ := expected_is_cur lang body _ (fileLang lang m p) hcur
    (by rw [hbuf]; intro e he; cases he) hnf q hq
  refine ⟨q.expected.2, ?_, e2⟩
  rw [hok, ← e1]

/-- The same for plain `diff -u` input, where the name is cut from the raw `--- ` line: holds
under the assumption (part of `wf true`) that this gives the parsed name, i.e. for paths
without spaces. -/
theorem language_depends_on_current_file_only_plain_diff {σ : Type}
    (lang : Option (List Char) → σ) (s : State σ) (hs : Lifetime.Inv true .start s)
    (evs : List Event) (hw : wf true .start evs = true) :
    ∀ q ∈ (run lang s evs).2, q.used = some q.expected :=
  run_inv lang true evs .start s hs hw

/-- The places that set the syntax or re-create the highlighter are exactly the known ones
(the three modelled handlers for diffs; grep, blame, `git show` and `--show-colors` have their own). -/
theorem highlighter_sites_inventory :
    callSites.map (fun x => (x.1, x.2.1)) =
      [("src/handlers/blame.rs", "set_highlighter"), ("src/handlers/blame.rs", "set_syntax"),
       ("src/handlers/diff_header.rs", "set_syntax"),
       ("src/handlers/git_show_file.rs", "set_highlighter"), ("src/handlers/git_show_file.rs", "set_syntax"),
       ("src/handlers/grep.rs", "set_highlighter"), ("src/handlers/grep.rs", "set_syntax"),
       ("src/handlers/hunk_header.rs", "set_highlighter"), ("src/paint.rs", "highlighter="),
       ("src/subcommands/show_colors.rs", "set_highlighter"), ("src/subcommands/show_colors.rs", "set_syntax")] := by
  decide

/-- A `.txt` section with an unfinished hunk, then a `.rs` section: the Rust fragment and lines
are painted by a fresh Rust highlighter; the leftover `.txt` lines by the `.txt` one. -/
example :
    let lang : Option (List Char) → String := fun n =>
      if n = some "a.rs".toList then "Rust" else "Plain Text"
    ((run lang (initial lang false)
        [.fileMinus (some "n.txt".toList) (some "n.txt".toList),
         .filePlus (some "n.txt".toList) none, .hunkHeader,
         .contextLine, .changedLine false, .changedLine false,
         .fileMinus (some "a.rs".toList) (some "a".toList), .filePlus (some "a.rs".toList) none, .hunkHeader,
         .contextLine, .changedLine false, .flush]).2.map fun q => (q.kind, q.used)) =
    [(.fragment, some ("Plain Text", 0)), (.line, some ("Plain Text", 0)),
     (.line, some ("Plain Text", 1)), (.line, some ("Plain Text", 2)),
     (.fragment, some ("Rust", 0)), (.line, some ("Rust", 0)), (.line, some ("Rust", 1))] := by
  decide

end C15


/-! ### No style given on the command line is turned into a `syntax` style -/
namespace C15
open Superimpose Generated.Superimpose

/-- A style option given on the command line reaches the painter exactly as written: the
side-by-side HACK of `set_options` never rewrites it (so a `normal …` style stays one that does
not ask for `syntax`). Breaks when the generated table makes the rewrite of one option depend
on another option's presence. -/
theorem command_line_style_never_rewritten (sideBySide : Bool) (userSupplied : String → Bool)
    (name : String) (value : List Char) (h : userSupplied name = true) :
    sbsRewrite sideBySide userSupplied name value = value := by
  have own : ∀ e ∈ sbsStyleRewrites, e.2 = [e.1] := by decide
  unfold sbsRewrite
  cases hf : sbsStyleRewrites.find? (fun e => e.1 == name) with
  | none => rfl
  | some e =>
    have hm := List.mem_of_find?_eq_some hf
    have hn : e.1 = name := by simpa using List.find?_some hf
    simp [own e hm, hn, h]

/-- Without side-by-side nothing is rewritten at all; and only `normal …` values ever are. -/
theorem style_rewrite_only_side_by_side (userSupplied : String → Bool) (name : String)
    (value : List Char) : sbsRewrite false userSupplied name value = value := by
  unfold sbsRewrite
  cases sbsStyleRewrites.find? (fun e => e.1 == name) <;> simp

example : sbsRewrite true (fun n => n == "minus_emph_style") "minus_style" "normal 52".toList =
    "syntax 52".toList ∧
    sbsRewrite true (fun n => n == "minus_emph_style") "minus_emph_style" "normal 88".toList =
    "normal 88".toList := by decide

end C15


/-! ### `set_syntax` sees nothing but its argument (no cache, no memo in the painter) -/
namespace C15
open Superimpose Superimpose.Lifetime Generated.SuperimposeLifetime

/-- `Painter::set_syntax(filename)` stores the language of `filename`, **whatever else the painter
holds** (`p.tables`: any contents of any other field, e.g. of a cache) and whatever a derived key or a
body the translator does not understand would compute (`env.keyOf`, `env.other`: arbitrary).
Breaks as soon as the generated description of `set_syntax` (`setSyntaxRhs`) is anything but the plain
`Painter::get_syntax(&self.config.syntax_set, filename, &self.config.default_language)`: a memo
`self.<field>.entry(<key>).or_insert_with(…)` or any other read of a painter field. -/
theorem set_syntax_reads_only_its_argument {σ : Type} (env : SetSyntaxEnv σ) :
    Faithful env setSyntaxRhs := by
  have h : setSyntaxRhs = .getSyntaxOfArgument := rfl
  rw [h]
  exact faithful_getSyntaxOfArgument env

/-- The source facts behind it: `set_syntax` mentions no painter field besides `config` and the
assigned `syntax`, of the configuration only the syntax set and the default language; the painter
has one field that holds a syntax; `get_syntax` refers to no static / global besides the fallback
language constant, uses no macro, and calls by path only `Path::new` and `delta_unreachable`. -/
theorem set_syntax_source_inventory :
    setSyntaxOtherFields = [] ∧
    setSyntaxConfigReads = ["default_language", "syntax_set"] ∧
    painterSyntaxFields = ["syntax"] ∧
    getSyntaxConstants = ["config::SYNTAX_FALLBACK_LANG"] ∧ getSyntaxMacros = [] ∧
    getSyntaxCalls = ["delta_unreachable", "std::path::Path::new"] := by
  decide

/-- `language_depends_on_current_file_only` for a painter that carries arbitrary further tables
(`ps.tables`: what a cache filled by any history would hold): every `set_syntax` of the three handlers
is interpreted from its generated description (`runP … setSyntaxRhs`), and still every element painted
for a file section uses the language of that file's own parsed name. -/
theorem language_depends_on_current_file_only_any_painter_state {σ : Type} (env : SetSyntaxEnv σ)
    (ps : PState σ) (hs : Lifetime.Inv false .start ps.st) (m p mkm mkp : Option (List Char))
    (body : List Event)
    (hnf : ∀ e ∈ body, isFileEvent e = false) (hw : wf false .header body = true) :
    ∀ q ∈ (runP env setSyntaxRhs
        (runP env setSyntaxRhs ps [.fileMinus m mkm, .filePlus p mkp]).1 body).2,
      ∃ n, q.used = some (fileLang env.lang m p, n) ∧ (q.kind = .fragment → n = 0) := by
  have hf := set_syntax_reads_only_its_argument env
  obtain ⟨a, _⟩ := runP_sim env setSyntaxRhs hf [.fileMinus m mkm, .filePlus p mkp] ps
  obtain ⟨_, d⟩ := runP_sim env setSyntaxRhs hf body
    (runP env setSyntaxRhs ps [.fileMinus m mkm, .filePlus p mkp]).1
  rw [d, a]
  exact language_depends_on_current_file_only env.lang ps.st hs m p mkm mkp body hnf hw

/-- A world with two languages in which every key expression yields the extension. -/
def memoWitnessEnv : SetSyntaxEnv String :=
  { lang := fun n => if n = some "CMakeLists.txt".toList then "CMake" else "Plain Text",
    keyOf := fun _ n => n.map fun p => (extension p).getD [],
    other := fun _ _ s _ => s }

/-- Why a memo cannot be let through: keyed by the extension, the second of two files that share
it gets the first one's language — `notes.txt` after `CMakeLists.txt` is CMake. (The model of the
seeded change `C15-w5-05`; with it `set_syntax_reads_only_its_argument` is false.) -/
theorem memo_by_derived_key_is_not_faithful :
    ¬ Faithful memoWitnessEnv (.memoOrGetSyntax "syntax_by_extension" (.derived "extension")) := by
  intro h
  have := h (setSyntax memoWitnessEnv ⟨"Plain Text", fun _ => []⟩ (some "CMakeLists.txt".toList)
    (.memoOrGetSyntax "syntax_by_extension" (.derived "extension"))) (some "notes.txt".toList)
  revert this
  decide

example :
    let env := memoWitnessEnv
    let secs (a b : String) : List Event :=
      [.fileMinus (some a.toList) none, .filePlus (some a.toList) none, .hunkHeader, .contextLine,
       .fileMinus (some b.toList) none, .filePlus (some b.toList) none, .hunkHeader, .contextLine, .flush]
    -- the source as it is: each section in its own language
    ((runP env setSyntaxRhs (initialP env false) (secs "CMakeLists.txt" "notes.txt")).2.map fun q =>
        q.used.map Prod.fst) =
      [some "CMake", some "CMake", some "Plain Text", some "Plain Text"] ∧
    -- a memo keyed by the extension: the first file's language sticks
    ((runP env (.memoOrGetSyntax "syntax_by_extension" (.derived "extension")) (initialP env false)
        (secs "CMakeLists.txt" "notes.txt")).2.map fun q => q.used.map Prod.fst) =
      [some "CMake", some "CMake", some "CMake", some "CMake"] := by
  decide

end C15


/-! ### Which highlighter paints the lines that are still buffered at a file boundary

`handle_diff_header_minus_line` calls `set_syntax(<next file>)` BEFORE it flushes the buffered lines of the
previous file (`minusHeaderStmts`, generated). The lines are nevertheless painted in their own file's language,
because the flush (`paint_buffered_minus_and_plus_lines`) and the single-line painters use the highlighter that
exists — created by `set_highlighter` at the last hunk header — and never look at `self.syntax`. The bodies of
those painter methods and the statement order of `handle_hunk_line` are regenerated from the source
(`Generated/PainterFlush.lean`) and interpreted by `Superimpose.Flush` (`DeltaModel/FlushOrder.lean`). -/
namespace C15
open Superimpose Superimpose.Lifetime Superimpose.Flush Generated.PainterFlush

/-- **The flush never re-creates the highlighter.** `Painter::paint_buffered_minus_and_plus_lines`, run from its
translated body on ANY painter state (`s.st.syn`: whatever `set_syntax` has stored meanwhile; `s.held`: whatever
any further syntax-holding field holds) and under any meaning of what the translator did not understand (`env`),
feeds the buffered lines through the highlighter that exists, in order, and clears the buffers — nothing else.
Breaks when the body creates a highlighter (directly or through a helper), paints with another one, or keeps
lines buffered. -/
theorem flush_paints_with_the_existing_highlighter {σ : Type} [DecidableEq σ] (env : FEnv σ)
    (one : Kind × Hl σ) (s : FState σ) :
    (call env painterMethods "paint_buffered_minus_and_plus_lines" one s).1.st =
        { s.st with hl := (paintBuf s.st.hl s.st.buffered).1, buffered := [] } ∧
      (call env painterMethods "paint_buffered_minus_and_plus_lines" one s).2 =
        (paintBuf s.st.hl s.st.buffered).2 := by
  obtain ⟨st, held⟩ := s
  obtain ⟨syn, hl, mn, pn, mm, pm, un, buf, cur, ln⟩ := st
  cases buf with
  | nil =>
    simp [call, bodyOf, painterMethods, List.lookup, Flush.execStmts, Flush.execStmt, evalCond, paintBuf]
  | cons e rest =>
    simp [call, bodyOf, painterMethods, List.lookup, Flush.execStmts, Flush.execStmt, evalCond]

/-- `Painter::paint_zero_line` and `Painter::syntax_highlight_and_paint_line` (hunk-header fragment) send their
one line through the highlighter that exists, whatever `self.syntax` and any further field hold. -/
theorem single_lines_painted_with_the_existing_highlighter {σ : Type} [DecidableEq σ] (env : FEnv σ)
    (one : Kind × Hl σ) (s : FState σ) :
    ((call env painterMethods "paint_zero_line" one s).1.st = { s.st with hl := feed s.st.hl } ∧
      (call env painterMethods "paint_zero_line" one s).2 = [⟨one.1, s.st.hl, one.2⟩]) ∧
    ((call env painterMethods "syntax_highlight_and_paint_line" one s).1.st = { s.st with hl := feed s.st.hl } ∧
      (call env painterMethods "syntax_highlight_and_paint_line" one s).2 = [⟨one.1, s.st.hl, one.2⟩]) := by
  simp [call, bodyOf, painterMethods, List.lookup, Flush.execStmts, Flush.execStmt]

/-- `Painter::set_highlighter` creates a fresh highlighter for the syntax stored by the last `set_syntax`. -/
theorem set_highlighter_takes_the_current_syntax {σ : Type} [DecidableEq σ] (env : FEnv σ)
    (one : Kind × Hl σ) (s : FState σ) :
    (call env painterMethods "set_highlighter" one s).1.st = { s.st with hl := some (s.st.syn, 0) } ∧
      (call env painterMethods "set_highlighter" one s).2 = [] := by
  simp [call, bodyOf, painterMethods, Flush.execStmts, Flush.execStmt, evalCond, synOf]

/-- Hence the language of the highlighter changes nowhere but in `set_highlighter`: the flush keeps it. -/
theorem flush_keeps_the_highlighters_language {σ : Type} [DecidableEq σ] (env : FEnv σ)
    (one : Kind × Hl σ) (s : FState σ) :
    (call env painterMethods "paint_buffered_minus_and_plus_lines" one s).1.st.hl.map Prod.fst =
      s.st.hl.map Prod.fst := by
  rw [(flush_paints_with_the_existing_highlighter env one s).1]
  have h : ∀ (buf : List (Hl σ)) (hl : Option (Hl σ)), (paintBuf hl buf).1.map Prod.fst = hl.map Prod.fst := by
    intro buf
    induction buf with
    | nil => intro hl; rfl
    | cons e rest ih =>
      intro hl
      simp only [paintBuf]
      rw [ih]
      cases hl with
      | none => rfl
      | some x => rfl
  exact h _ _

/-- The translated painter methods are plain (what `Lifetime.execStmt` says by hand). -/
theorem painter_methods_plain {σ : Type} [DecidableEq σ] (env : FEnv σ) : Plain env painterMethods :=
  { flush := fun one s => flush_paints_with_the_existing_highlighter env one s
    setHl := fun one s => set_highlighter_takes_the_current_syntax env one s
    zero := fun one s => (single_lines_painted_with_the_existing_highlighter env one s).1
    frag := fun one s => (single_lines_painted_with_the_existing_highlighter env one s).2 }

/-- The painter statements of `handle_hunk_line`, in source order: flush when a buffer is over its limit, then the
pending hunk header; a removed line flushes first when the previous line was an added one, then is buffered; an
added line is buffered; an unchanged line flushes, then is painted at once; anything else flushes. -/
theorem hunk_line_statement_order : LineOrder := by
  unfold LineOrder
  decide

/-- Where highlighters come from: of the painter methods that touch syntax / highlighter only `set_highlighter`
creates one (no other method does, neither directly nor through a call), none of them calls another, the
painter has no further field holding a syntax or a highlighter, and outside paint.rs the field is accessed
directly only by the merge-conflict painter. -/
theorem highlighter_creation_inventory :
    (painterMethods.filter fun m => createsL m.2).map Prod.fst = ["set_highlighter"] ∧
    painterMethods.map Prod.fst = ["set_highlighter", "paint_buffered_minus_and_plus_lines", "paint_zero_line",
      "syntax_highlight_and_paint_line"] ∧
    painterCalls = [] ∧ trackedFields = ["syntax", "highlighter"] ∧
    directFieldUses = [("src/handlers/merge_conflict.rs", "paint_buffered_merge_conflict_lines", "highlighter", 1)] := by
  decide

/-- A zero line is painted by `handle_hunk_line` only (the `zeroLine` event of the model). The callers of the flush
(`flushSites`, generated) are not pinned: a flush is an event the theorems allow anywhere. -/
theorem zero_line_sites_inventory :
    (flushSites.filter fun x => x.2.2.1 == "paint_zero_line").map (fun x => (x.1, x.2.1, x.2.2.2)) =
      [("src/handlers/hunk.rs", "handle_hunk_line", 1)] := by
  decide

/-- The machine that interprets the source (`runF`: painter methods, `handle_hunk_line`, the three header
handlers — all generated) paints, on every event sequence and from every painter state, exactly what
`Lifetime.run` paints on the mapped events, with the same highlighters. (So the driver op
`superimpose.lifetime`, which executes `Lifetime.run`, is tied to the generated method bodies as well.) -/
theorem flush_machine_follows_source {σ : Type} [DecidableEq σ] (env : FEnv σ) (s : FState σ)
    (evs : List FEvent) :
    (runF env painterMethods s evs).1.st = (run env.lang s.st (toEventsAll evs)).1 ∧
      (runF env painterMethods s evs).2 = (run env.lang s.st (toEventsAll evs)).2 :=
  runF_sim env painterMethods (painter_methods_plain env) hunk_line_statement_order evs s

/-- **Every line is painted with the highlighter of the file it belongs to** — for git and for plain `diff -u`
streams (`u`), from ANY painter state that satisfies the invariant (any history) and whatever any further field
holds: all elements painted after the header lines `--- m` / `+++ p` of a file — hunk-header fragments, hunk
lines, and the removed / added lines that are still buffered when the NEXT file's `--- n` line arrives and are
flushed by it after `set_syntax(n)` has already run — go through a highlighter created for the language of
`m` / `p`'s own name, whatever `n` is; a fragment through a fresh one.
This holds only because the highlighter is created at the hunk header and is not re-created at the flush
(`flush_paints_with_the_existing_highlighter`); the order `set_syntax` → flush in the handler is generated. -/
theorem buffered_lines_painted_with_their_files_language {σ : Type} [DecidableEq σ] (env : FEnv σ)
    (u : Bool) (s : FState σ) (hs : Lifetime.Inv u .start s.st)
    (m p mkm mkp n mkn : Option (List Char)) (body : List FEvent)
    (hnf : ∀ e ∈ body, isFileFEvent e = false)
    (hw : wf u .start (toEventsAll (.fileMinus m mkm :: .filePlus p mkp :: (body ++ [.fileMinus n mkn]))) = true) :
    ∀ q ∈ (runF env painterMethods (runF env painterMethods s [.fileMinus m mkm, .filePlus p mkp]).1
        (body ++ [.fileMinus n mkn])).2,
      ∃ k, q.used = some (sectionLang env.lang m p, k) ∧ (q.kind = .fragment → k = 0) := by
  obtain ⟨a, _⟩ := flush_machine_follows_source env s [.fileMinus m mkm, .filePlus p mkp]
  obtain ⟨_, d⟩ := flush_machine_follows_source env
    (runF env painterMethods s [.fileMinus m mkm, .filePlus p mkp]).1 (body ++ [.fileMinus n mkn])
  rw [d, a]
  have e1 : toEventsAll [FEvent.fileMinus m mkm, FEvent.filePlus p mkp] =
      [Event.fileMinus m mkm, Event.filePlus p mkp] := rfl
  have e2 : toEventsAll (body ++ [FEvent.fileMinus n mkn]) = toEventsAll body ++ [Event.fileMinus n mkn] := by
    rw [toEventsAll_append]; rfl
  have e3 : toEventsAll (.fileMinus m mkm :: .filePlus p mkp :: (body ++ [.fileMinus n mkn])) =
      .fileMinus m mkm :: .filePlus p mkp :: (toEventsAll body ++ [.fileMinus n mkn]) := by
    rw [← e2]; rfl
  rw [e1, e2]
  rw [e3] at hw
  exact section_language env.lang u s.st hs m p mkm mkp n mkn (toEventsAll body)
    (toEventsAll_no_file body hnf) hw

/-- The painter methods as translated from the seeded change `C15-w6-05`: `set_highlighter` remembers the
syntax it used in a field, and the flush and the zero-line painter first re-create the highlighter when
`self.syntax` has changed since. -/
def recreatingMethods : Methods :=
  let setHl : List Stmt := [.ite .themeConfigured [.newHighlighter .currentSyntax, .record "highlighter_syntax"] []]
  let ensure : List Stmt := [.ite (.recordedDiffers "highlighter_syntax") [.inline "set_highlighter" setHl] []]
  [("set_highlighter", setHl),
   ("ensure_highlighter_matches_syntax", ensure),
   ("paint_buffered_minus_and_plus_lines",
     [.ite .buffersEmpty [.ret] [], .inline "ensure_highlighter_matches_syntax" ensure, .paintBuffered .own, .clearBuffers]),
   ("paint_zero_line", [.inline "ensure_highlighter_matches_syntax" ensure, .highlightOne .own]),
   ("syntax_highlight_and_paint_line", [.highlightOne .own])]

/-- Two languages. -/
def twoLangs : Option (List Char) → String := fun n =>
  if n = some "one.rs".toList then "Rust" else if n = some "two.py".toList then "Python" else "Plain Text"

/-- A plain `diff -u` stream of two files with nothing between them, the first hunk ending in a removed and an
added line; `sep`: a line between the files that flushes (`diff -u a b`, `diff --git …`, `Index: …`). -/
def twoFiles (sep : Bool) : List FEvent :=
  [.fileMinus (some "one.rs".toList) (some "one.rs".toList), .filePlus (some "one.rs".toList) (some "one.rs".toList),
   .minusLine true false false, .plusLine false false] ++ (if sep then [.flush] else []) ++
  [.fileMinus (some "two.py".toList) (some "two.py".toList), .filePlus (some "two.py".toList) (some "two.py".toList),
   .plusLine true false, .flush]

/-- Non-vacuity, and the order made visible: (1) the source as it is paints the two buffered lines of `one.rs`
with the Rust highlighter although `self.syntax` is already Python when they are flushed; (2) with a flush that
re-creates the highlighter when the syntax has changed (the seeded change) the same lines are painted in the NEXT
file's language; (3) the same methods are harmless when a line that flushes comes first (`diff --git`, `diff -u
a b`, `Index:` …) — it is exactly the order `set_syntax` → flush at the `--- ` line that matters. -/
theorem recreating_at_flush_paints_with_the_next_files_language :
    let env := plainEnv twoLangs
    let langs (r : FState String × List (Painted String)) := r.2.map fun q => (q.kind, q.used.map Prod.fst)
    langs (runF env painterMethods (initialF env true) (twoFiles false)) =
      [(.fragment, some "Rust"), (.line, some "Rust"), (.line, some "Rust"),
       (.fragment, some "Python"), (.line, some "Python")] ∧
    (runF env painterMethods (initialF env true) ((twoFiles false).take 5)).1.st.syn = "Python" ∧
    langs (runF env recreatingMethods (initialF env true) (twoFiles false)) =
      [(.fragment, some "Rust"), (.line, some "Python"), (.line, some "Python"),
       (.fragment, some "Python"), (.line, some "Python")] ∧
    langs (runF env recreatingMethods (initialF env true) (twoFiles true)) =
      [(.fragment, some "Rust"), (.line, some "Rust"), (.line, some "Rust"),
       (.fragment, some "Python"), (.line, some "Python")] := by
  decide

/-- The hypotheses of `buffered_lines_painted_with_their_files_language` are satisfiable on that stream. -/
example :
    wf true .start (toEventsAll (twoFiles false)) = true ∧
    (∀ e ∈ [FEvent.minusLine true false false, FEvent.plusLine false false], isFileFEvent e = false) := by
  decide

end C15
