import DeltaModel.Blame
import Proofs.BlameColour
import Proofs.BlameParse
import Proofs.BlameRender
import Proofs.BlameFormat
import Proofs.BlameFlow
/-!
C17 — git blame output keeps code and attribution; colours follow commits.

Model: `DeltaModel/Blame.lean` (executed by `drv_blame`, compared with the implementation by
`vlib/props/c17.py`). The `get_color` match arms, the palette index expressions, the padding
arithmetic, the author sub-pattern of `BLAME_LINE_REGEX` and the default palettes are
regenerated from the source on every run (`DeltaModel/Generated/Blame.lean`).

A "history" is the sequence of metadata keys (`format_blame_metadata` output, which contains
the commit) of the blame lines, in order. `plain hist` = none of the lines is coloured by git.
-/
namespace C17
open Blame

/-! ## Colours -/

/-- Every line of a blame stream (no line coloured by git itself) gets exactly one paint, in
order, with a palette colour; no `delta_unreachable` arm and no palette index failure is
reached. -/
theorem run_total (pal : List Colour) (hpal : pal ≠ []) (hist : List Key) :
    ∃ s ps, run pal {} (plain hist) = .ok (s, ps) ∧ ps.length = hist.length ∧
      ∀ p ∈ ps, ∃ c, p.colour = some c := by
  obtain ⟨s, ps, h, _, hl, hc, _⟩ := run_plain pal hpal hist {} inv_init
  exact ⟨s, ps, h, hl, hc⟩

example : (paintsOf [['1'], ['2']] (plain [['a'], ['a'], ['b'], ['c'], ['a']])).map (·.map (·.colour)) =
    some [some ['1'], some ['1'], some ['2'], some ['1'], some ['2']] := by decide

/-- Consecutive lines with the same attribution share one colour (and the second is marked as a
repeat, which is what blanks its metadata). -/
theorem same_key_same_colour (pal : List Colour) (hpal : pal ≠ []) (pre post : List Key) (k : Key)
    (s : CState) (ps : List Paint)
    (h : run pal {} (plain (pre ++ k :: k :: post)) = .ok (s, ps)) :
    ∃ a b, ps[pre.length]? = some a ∧ ps[pre.length + 1]? = some b ∧
      a.colour = b.colour ∧ b.isRepeat = true := by
  obtain ⟨s1, ps1, h1, hinv, hlen, _⟩ := run_plain pal hpal pre {} inv_init
  obtain ⟨cx, cy, s', ps', a, b, hrun, ha, hb, hrep, hg⟩ :=
    run_two_at pal hpal pre k k post s1 ps1 h1 hinv
  rw [hrun] at h
  injection h with h
  injection h with _ hps
  subst hps
  have hidx := getElem?_append_cons_cons ps1 a b ps'
  rw [hlen] at hidx
  refine ⟨a, b, hidx.1, hidx.2, ?_, by simpa using hrep⟩
  have : getColor pal (insert s1.map k cx) k (some k) true = .ok cx :=
    getColor_repeat pal _ k cx (lookup_insert_self _ _ _)
  simp only [decide_true] at hg
  rw [this] at hg
  injection hg with hg
  rw [ha, hb, hg]

example : run [['1'], ['2']] {} (plain ([['a']] ++ ['b'] :: ['b'] :: [['c']])) =
    .ok (⟨[(['a'], ['1']), (['b'], ['2']), (['c'], ['1'])], some ['c']⟩,
      [⟨some ['1'], false⟩, ⟨some ['2'], false⟩, ⟨some ['2'], true⟩, ⟨some ['1'], false⟩]) := by decide

/-- With a palette of two or more pairwise distinct colours, a line attributed differently from
its predecessor never has the predecessor's colour. -/
theorem neighbour_differs (pal : List Colour) (hd : pal.Nodup) (h2 : 2 ≤ pal.length)
    (pre post : List Key) (p k : Key) (hpk : p ≠ k) (s : CState) (ps : List Paint)
    (h : run pal {} (plain (pre ++ p :: k :: post)) = .ok (s, ps)) :
    ∃ a b, ps[pre.length]? = some a ∧ ps[pre.length + 1]? = some b ∧
      a.colour ≠ b.colour ∧ b.isRepeat = false := by
  have hpal : pal ≠ [] := by intro e; simp [e] at h2
  obtain ⟨s1, ps1, h1, hinv, hlen, _⟩ := run_plain pal hpal pre {} inv_init
  obtain ⟨cx, cy, s', ps', a, b, hrun, ha, hb, hrep, hg⟩ :=
    run_two_at pal hpal pre p k post s1 ps1 h1 hinv
  rw [hrun] at h
  injection h with h
  injection h with _ hps
  subst hps
  have hidx := getElem?_append_cons_cons ps1 a b ps'
  rw [hlen] at hidx
  refine ⟨a, b, hidx.1, hidx.2, ?_, by simpa [hpk] using hrep⟩
  simp only [hpk, decide_false] at hg
  have := getColor_differs pal hd h2 _ p k cx cy (lookup_insert_self _ _ _) hg
  rw [ha, hb]
  intro e
  exact this (Option.some.inj e).symm

example : ([['1'], ['2'], ['3']] : List Colour).Nodup ∧ 2 ≤ ([['1'], ['2'], ['3']] : List Colour).length := by
  decide

/-- The distinctness hypothesis is needed: with a repeated palette entry two different
neighbours can share a colour. -/
theorem neighbour_differs_needs_distinct_palette :
    paintsOf [['r'], ['r'], ['b']] (plain [['x'], ['y'], ['z'], ['w']]) =
      some [⟨some ['r'], false⟩, ⟨some ['b'], false⟩, ⟨some ['r'], false⟩, ⟨some ['r'], false⟩] := by
  decide

/-- An attribution keeps its colour when it reappears, unless that colour is the colour of the
line above: `k` at position `|pre|`, not again in `mid`, then `p ≠ k`, then `k` again. -/
theorem colour_stable_unless_collision (pal : List Colour) (hpal : pal ≠ [])
    (pre mid post : List Key) (p k : Key) (hmid : k ∉ mid) (hpk : p ≠ k) (s : CState) (ps : List Paint)
    (h : run pal {} (plain (pre ++ k :: (mid ++ p :: k :: post))) = .ok (s, ps)) :
    ∃ a b c, ps[pre.length]? = some a ∧ ps[pre.length + 1 + mid.length]? = some b ∧
      ps[pre.length + 1 + mid.length + 1]? = some c ∧
      (a.colour ≠ b.colour → c.colour = a.colour) := by
  -- the prefix `pre`, then `k`
  obtain ⟨s0, ps0, h0, hinv0, hlen0, _⟩ := run_plain pal hpal pre {} inv_init
  obtain ⟨ca, hstepa, _⟩ := step_spec pal hpal s0 hinv0 k
  -- then `mid`, which does not mention `k`
  obtain ⟨s1, psm, hm, hinv1, hlenm, _, hkeep, _⟩ :=
    run_plain pal hpal mid { map := insert s0.map k ca, prev := some k } (inv_after _ _ _)
  have hk1 : lookup s1.map k = some ca := by
    rw [hkeep k hmid]; exact lookup_insert_self _ _ _
  -- the run over `pre ++ k :: mid`
  have hrun1 : run pal {} (plain (pre ++ k :: mid)) =
      .ok (s1, ps0 ++ ⟨some ca, decide (s0.prev = some k)⟩ :: psm) := by
    rw [plain_append, run_append, h0]
    simp only [plain_cons, run, hstepa, hm]
  obtain ⟨cx, cy, s', ps', a, b, hrun, ha, hb, _, hg⟩ :=
    run_two_at pal hpal (pre ++ k :: mid) p k post s1 _ hrun1 hinv1
  have hlist : pre ++ k :: (mid ++ p :: k :: post) = (pre ++ k :: mid) ++ p :: k :: post := by simp
  rw [hlist, hrun] at h
  injection h with h
  injection h with _ hps
  subst hps
  have hidx := getElem?_append_cons_cons (ps0 ++ ⟨some ca, decide (s0.prev = some k)⟩ :: psm) a b ps'
  have hl : (ps0 ++ (⟨some ca, decide (s0.prev = some k)⟩ : Paint) :: psm).length
      = pre.length + 1 + mid.length := by simp [hlen0, hlenm]; omega
  rw [hl] at hidx
  refine ⟨⟨some ca, decide (s0.prev = some k)⟩, a, b, ?_, hidx.1, hidx.2, ?_⟩
  · rw [List.append_assoc, List.getElem?_append_right (by omega)]
    simp [hlen0]
  · intro hne
    simp only [hpk, decide_false] at hg
    have hkm : lookup (insert s1.map p cx) k = some ca := by
      rw [lookup_insert_other _ _ _ _ (fun e => hpk e.symm)]; exact hk1
    have hcne : ca ≠ cx := by
      intro e; apply hne; rw [ha, e]
    have := getColor_stable pal _ p k cx ca (lookup_insert_self _ _ _) hkm hcne
    rw [this] at hg
    injection hg with hg
    rw [hb, hg]

example : run [['1'], ['2'], ['3']] {} (plain ([] ++ ['a'] :: ([['b']] ++ ['c'] :: ['a'] :: []))) =
    .ok (⟨[(['a'], ['1']), (['b'], ['2']), (['c'], ['3'])], some ['a']⟩,
      [⟨some ['1'], false⟩, ⟨some ['2'], false⟩, ⟨some ['3'], false⟩, ⟨some ['1'], false⟩]) := by decide

/-- The collision case does occur (so "unless" cannot be dropped): palette of two, `a b c a`. -/
theorem colour_changes_on_collision :
    paintsOf [['1'], ['2']] (plain [['a'], ['b'], ['c'], ['a']]) =
      some [⟨some ['1'], false⟩, ⟨some ['2'], false⟩, ⟨some ['1'], false⟩, ⟨some ['2'], false⟩] := by
  decide

/-- The built-in palettes satisfy the hypotheses of `neighbour_differs`. -/
theorem default_palettes_distinct :
    Generated.Blame.lightPalette.Nodup ∧ 2 ≤ Generated.Blame.lightPalette.length ∧
    Generated.Blame.darkPalette.Nodup ∧ 2 ≤ Generated.Blame.darkPalette.length := by decide

/-! ## The blame line parser -/

/-- The shape of `BLAME_LINE_REGEX` (everything but the author sub-pattern, which is read into
`Generated.Blame.authorMode`) is the one `parseBlame` was written against. -/
theorem blame_regex_pinned :
    Generated.Blame.regexShapeSha =
      0x73e5359403a71224f49ce89ab28908604c484c77511500104c8c2864ad45602e ∧
    Generated.Blame.authorMode ≤ 1 := by decide

/-- `parseBlame (fmtBlame r) = some r`: commit of 4–40 hex digits (optionally `^`), optional
file column without `(`, author without leading/trailing blank, a valid timestamp with any time
zone (in chrono's normal form: `-0000` is printed `+0000`), a line number below 2^64, any
padding. What else is needed depends on the author sub-pattern of the regex in the source
(`Generated.Blame.authorMode`), and was found while proving this:
* `[^ ].*[^ ]` (mode 0, longest match): the author needs two or more characters and the *code*
  must not contain anything that looks like the end of a blame prefix (`noTail`) — see
  `round_trip_fails_on_lookalike_code`, `one_char_author_status`;
* `[^ ](?:.*?[^ ])??` (mode 1, shortest match; the proposed fix): any code, any author of one
  or more characters in which no blank is directly followed by a digit. -/
theorem blame_round_trip (r : BlameRec) (file : Option Str) (padA padB : Nat)
    (hc : validCommit r.commit) (hf : ∀ f, file = some f → '(' ∉ f)
    (ha : 1 ≤ r.author.length) (ha0 : r.author.head? ≠ some ' ') (ha1 : r.author.getLast? ≠ some ' ')
    (hts : tsShape r.ts = true) (htv : tsValid r.ts = true) (htn : normTs r.ts = r.ts)
    (hn : r.lineNumber < 2 ^ 64)
    (hgreedy : Generated.Blame.authorMode = 0 → 2 ≤ r.author.length ∧ noTail r.code = true)
    (hlazy : Generated.Blame.authorMode = 1 → noBlankDigit r.author = true) :
    parseBlame Generated.Blame.authorMode (fmtBlame r file padA padB) = some r := by
  first
  | (have hm : Generated.Blame.authorMode = 0 := rfl
     rw [hm]
     exact parse_fmt_greedy r file padA padB hc hf (hgreedy hm).1 ha0 ha1 hts htv htn hn (hgreedy hm).2)
  | (have hm : Generated.Blame.authorMode = 1 := rfl
     rw [hm]
     exact parse_fmt_lazy r file padA padB hc hf ha ha0 ha1 (hlazy hm) hts htv htn hn)

def exRec : BlameRec :=
  ⟨"^35876eaa".toList, "Kangwook Lee (이강욱)".toList, "2021-06-09 23:33:59 +0900".toList, 130,
   "     let mut output_type =".toList⟩

example : validCommit exRec.commit ∧ 2 ≤ exRec.author.length ∧ exRec.author.head? ≠ some ' ' ∧
    exRec.author.getLast? ≠ some ' ' ∧ tsShape exRec.ts = true ∧ tsValid exRec.ts = true ∧
    normTs exRec.ts = exRec.ts ∧ exRec.lineNumber < 2 ^ 64 ∧ noTail exRec.code = true ∧
    noBlankDigit exRec.author = true :=
  ⟨⟨"35876eaa".toList, Or.inr (by decide), by decide, by decide, by decide⟩,
   by decide, by decide, by decide, by decide, by decide, by decide, by decide, by decide, by decide⟩

example : String.ofList (fmtBlame exRec (some "old/name.rs".toList) 1 2) =
    "^35876eaa old/name.rs (Kangwook Lee (이강욱)  2021-06-09 23:33:59 +0900   130)     let mut output_type =" := by
  decide

/-- DEFECT (confirmed on the binary): the round trip is false for code that contains a
blame-tail look-alike, e.g. a source line quoting a timestamp. With the greedy author pattern
the author group swallows the real prefix and everything up to the look-alike; the line is then
attributed to the quoted time and number, and the code is cut. With the shortest-match author
pattern (`authorMode = 1`, the proposed fix) the line parses as written. -/
def lookalikeRec : BlameRec :=
  ⟨"abcd1234".toList, "Dan".toList, "2021-08-22 18:20:19 -0700".toList, 120,
   " log(\"x 2019-01-01 00:00:00 +0000 5) y\")".toList⟩

theorem round_trip_fails_on_lookalike_code :
    (Generated.Blame.authorMode = 0 ∧
      parseBlame Generated.Blame.authorMode (fmtBlame lookalikeRec none 0 0) =
        some ⟨"abcd1234".toList, "Dan 2021-08-22 18:20:19 -0700 120) log(\"x".toList,
              "2019-01-01 00:00:00 +0000".toList, 5, " y\")".toList⟩) ∨
    (Generated.Blame.authorMode = 1 ∧
      parseBlame Generated.Blame.authorMode (fmtBlame lookalikeRec none 0 0) = some lookalikeRec) := by
  decide

/-- DEFECT (confirmed on the binary): an author name of one character does not match
`[^ ].*[^ ]`, so the line is not recognised as a blame line at all (it is passed through raw
and the repeat-blanking then compares the lines around it). -/
theorem one_char_author_status :
    (Generated.Blame.authorMode = 0 ∧
      parseBlame Generated.Blame.authorMode "abcd1234 (X 2021-08-22 18:20:19 -0700 1) code".toList = none) ∨
    (Generated.Blame.authorMode = 1 ∧
      parseBlame Generated.Blame.authorMode "abcd1234 (X 2021-08-22 18:20:19 -0700 1) code".toList =
        some ⟨"abcd1234".toList, "X".toList, "2021-08-22 18:20:19 -0700".toList, 1, " code".toList⟩) := by
  decide

/-! ## Lines coloured by git mixed with uncoloured ones (`delta_unreachable`) -/

/-- Whenever the `get_color` match of the source has no `delta_unreachable` arm left
(`armsTotal`, a finite check of the generated table), no blame stream — whatever mix of lines
that git coloured itself — can abort. (Holds for every table; it is the statement that applies
once the defect below is repaired.) -/
theorem mixed_stream_total_of_total_arms (h : armsTotal = true) (pal : List Colour) (hpal : pal ≠ [])
    (hist : List (Key × Bool)) :
    ∃ ps, paintsOf pal hist = some ps ∧ ps.length = hist.length := by
  obtain ⟨s, ps, hr, hl⟩ := run_total_of_armsTotal h pal hpal hist {}
  exact ⟨ps, by simp [paintsOf, hr], hl⟩

/-- DEFECT (confirmed on the binary, exit status 2): with the arms as they are in the source both
`delta_unreachable` arms are reachable — a line coloured by git followed by an uncoloured line
of the same key, and an uncoloured known key after a coloured line. Second disjunct: the table
is total (after the proposed fix) and both streams are painted. -/
theorem mixed_colouring_status :
    (armsTotal = false ∧
      paintsOf [['1'], ['2']] [(['k'], true), (['k'], false)] = none ∧
      paintsOf [['1'], ['2']] [(['a'], false), (['b'], true), (['a'], false)] = none) ∨
    (armsTotal = true ∧
      (paintsOf [['1'], ['2']] [(['k'], true), (['k'], false)]).isSome = true ∧
      (paintsOf [['1'], ['2']] [(['a'], false), (['b'], true), (['a'], false)]).isSome = true) := by
  decide

/-! ## The rendered row -/

/-- `format_blame_metadata` cannot panic when the padding arithmetic saturates
(`metaPadArith = 1`, the proposed fix) or when no character is wider than one cell. -/
theorem meta_no_panic (cw : Char → Nat) (items : List Item) (ts author commit : Str)
    (h : Generated.Blame.metaPadArith ≠ 0 ∨ ∀ c, cw c ≤ 1) :
    ∃ key, formatMeta Generated.Blame.metaPadArith cw items ts author commit = .ok key :=
  formatMetaGo_ok _ cw ts author commit h items [] []

def wideCw (c : Char) : Nat := if c.toNat ≥ 0x2E80 then 2 else 1
def authorItem : Item := ⟨[], some .author, some .left, some 15, some 14, []⟩

/-- DEFECT (confirmed on the binary): with the checked `usize` subtraction an author containing
wide characters (display width > number of chars) panics; with the saturating form it is padded
to the display width. -/
theorem wide_author_status :
    (Generated.Blame.metaPadArith = 0 ∧
      formatMeta Generated.Blame.metaPadArith wideCw [authorItem] [] "日本".toList "abcd1234".toList =
        .error .subOverflow) ∨
    (Generated.Blame.metaPadArith = 1 ∧
      formatMeta Generated.Blame.metaPadArith wideCw [authorItem] [] "日本".toList "abcd1234".toList =
        .ok ("日本".toList ++ spaces 11)) := by
  decide

/-- The metadata column shows every field the format asks for (whole, or its first `p`
characters under a precision `.p`): in particular the commit whenever the format contains
`{commit}`. The metadata string is also the colour key, so the key contains the commit. -/
theorem metadata_shows_attribution (arith : Nat) (cw : Char → Nat) (items : List Item)
    (ts author commit key : Str) (h : formatMeta arith cw items ts author commit = .ok key)
    (it : Item) (hit : it ∈ items) (ph : Field) (hph : it.ph = some ph) :
    (match it.prec with
     | none => fieldText ph ts author commit
     | some p => (fieldText ph ts author commit).take p) <:+: key :=
  formatMetaGo_shows arith cw ts author commit items [] [] key h it hit ph hph

example : formatMeta 0 (fun _ => 1)
    [⟨[], some .timestamp, some .left, some 15, none, []⟩, ⟨[' '], some .author, some .left, some 15, some 14, []⟩,
     ⟨[' '], some .commit, some .left, some 8, none, []⟩]
    "2021-08-22".toList "Dan Davison".toList "abcd123".toList =
    .ok "2021-08-22      Dan Davison     abcd123 ".toList := by decide

/-! ## The blame format string (`--blame-format`, src/format.rs)

`handle_blame_line` parses `config.blame_format` with `parse_line_number_format` and the regex of
`make_placeholder_regex(["timestamp", "author", "commit"])` on every line; what that returns decides
which fields the metadata — and therefore the colour key — contains. Model:
`DeltaModel/BlameFormat.lean` (`PF.parseBlameFormat`), executed by `drv_blame` (`blame.format_data`)
and compared with the implementation's `blame.format_data` / `linenum.parse_format`. The same regex
and parser serve `--blame-separator-format` (label `n`) and `--line-numbers-left/right-format`
(labels `nm`, `np`): `format_round_trip` is stated for every label set. -/

/-- The pattern text of `make_placeholder_regex` and the capture group each field of
`FormatStringPlaceholderData` is read from are the ones `PF.matchAfterBrace` / `PF.mkItem` were
written against (both re-read from src/format.rs on every run). -/
theorem placeholder_regex_pinned :
    Generated.BlameFormat.regexBody =
      "(?x)\\{{({})(?::(?:([^<^>])?([<^>]))?(\\d+)?(?:\\.(\\d+))?(?:_?([A-Za-z][0-9A-Za-z_-]*))?)?\\}}" ∧
    Generated.BlameFormat.captureUse =
      [("placeholder", 1), ("alignment_spec", 3), ("width", 4), ("precision", 5), ("fmt_type", 6)] :=
  ⟨rfl, rfl⟩

/-- Facts about the generated character classes, `Align::try_from` and the label lists that make the
pattern deterministic (the first alternative that applies is the only one that can succeed) and the
formatter invertible; and: the label `timestamp` prints the time, `author` the author, `commit` the
commit (arms of `format_blame_metadata`). -/
theorem placeholder_classes_deterministic :
    PF.classesOk = true ∧
    PF.labelsOk Generated.BlameFormat.blameLabels = true ∧
    PF.labelsOk Generated.BlameFormat.separatorLabels = true ∧
    PF.labelsOk Generated.BlameFormat.lineNumberLabels = true ∧
    PF.fieldOfLabel "timestamp".toList = some .timestamp ∧
    PF.fieldOfLabel "author".toList = some .author ∧
    PF.fieldOfLabel "commit".toList = some .commit ∧
    Generated.BlameFormat.blameLabels = ["timestamp".toList, "author".toList, "commit".toList] := by
  decide

/-- `parse (fmt spec) = some spec` for the whole placeholder grammar: a format string written as
literal text and placeholders `{label[:[[fill]align][width][.precision][[_]type]]}` — every part
optional and independent of the others, in particular a precision without a width (`{commit:.7}`)
and a width without a precision — is split by `parse_line_number_format` into exactly these
placeholders with these alignments, widths, precisions and types and the literal text between them.
For every label set without `:` / `}` (blame, blame separator, line numbers); literal text may
contain `{` when it is followed by a character no label starts with; widths and precisions up to
`usize::MAX`; any fill character other than `<^>`. -/
theorem format_round_trip (labels : List Str) (hlab : PF.labelsOk labels = true)
    (ps : List PF.Piece) (tail : Str) (hps : PF.piecesOk labels ps)
    (ht : PF.litOk labels tail = true) :
    PF.parseFormat labels (PF.render ps tail) = .ok (PF.expected ps tail) :=
  PF.parseFormat_render labels hlab ps tail hps ht

def exPieces : List PF.Piece :=
  [⟨[], { label := "author".toList, fill := some '*', align := some .left, width := some 20 }⟩,
   ⟨" {x} ".toList, { label := "commit".toList, prec := some 7, under := true, ty := "t-1".toList }⟩,
   ⟨"|".toList, { label := "timestamp".toList, align := some .center, width := some 30, prec := some 10 }⟩]

example : PF.labelsOk Generated.BlameFormat.blameLabels = true ∧
    PF.piecesOk Generated.BlameFormat.blameLabels exPieces ∧
    PF.litOk Generated.BlameFormat.blameLabels " }".toList = true ∧
    String.ofList (PF.render exPieces " }".toList) =
      "{author:*<20} {x} {commit:.7_t-1}|{timestamp:^30.10} }" := by
  refine ⟨by decide, ?_, by decide, by decide⟩
  intro p hp
  simp only [exPieces, List.mem_cons, List.not_mem_nil, or_false] at hp
  rcases hp with e | e | e <;> subst e <;> decide

/-- ... in particular for `--blame-format`, as the items `format_blame_metadata` reads. -/
theorem blame_format_round_trip (ps : List PF.Piece) (tail : Str)
    (hps : PF.piecesOk Generated.BlameFormat.blameLabels ps)
    (ht : PF.litOk Generated.BlameFormat.blameLabels tail = true) :
    PF.parseBlameFormat (PF.render ps tail) = .ok (PF.blameExpected ps tail) :=
  PF.parseBlameFormat_render ps tail hps ht

/-- The format of the seeded change C17-w5-07: a precision-only placeholder is a placeholder. -/
theorem precision_only_placeholder_parses :
    PF.parseBlameFormat "{author:<20} {commit:.7} {timestamp}".toList =
      .ok [⟨[], some .author, some .left, some 20, none, " {commit:.7} {timestamp}".toList⟩,
           ⟨[' '], some .commit, none, none, some 7, " {timestamp}".toList⟩,
           ⟨[' '], some .timestamp, none, none, none, []⟩] := by
  decide

/-- For every blame format string of the grammar, the metadata (= colour key, = what repeat-blanking
compares) that `format_blame_metadata` builds from the *parsed format string* shows the field of
every placeholder written in it — whole, or its first `n` characters under `.n`. -/
theorem format_shows_attribution (arith : Nat) (cw : Char → Nat) (ps : List PF.Piece) (tail : Str)
    (hps : PF.piecesOk Generated.BlameFormat.blameLabels ps)
    (ht : PF.litOk Generated.BlameFormat.blameLabels tail = true)
    (ts author commit key : Str) (items : List Item)
    (hparse : PF.parseBlameFormat (PF.render ps tail) = .ok items)
    (hk : formatMeta arith cw items ts author commit = .ok key)
    (p : PF.Piece) (hp : p ∈ ps) (f : Field) (hf : PF.fieldOfLabel p.spec.label = some f) :
    (match p.spec.prec with
     | none => fieldText f ts author commit
     | some n => (fieldText f ts author commit).take n) <:+: key := by
  rw [PF.parseBlameFormat_render ps tail hps ht] at hparse
  injection hparse with hparse
  subst hparse
  exact PF.blameFormat_shows arith cw ps tail ts author commit key hk p hp f hf

/-- All blame format strings that include the commit show the commit: whatever else the format
contains, and however the `{commit}` placeholder is written (fill, alignment, width, precision —
alone or combined —, type), the key contains the commit (its first `n` characters under `.n`). -/
theorem format_with_commit_shows_commit (arith : Nat) (cw : Char → Nat) (ps : List PF.Piece) (tail : Str)
    (hps : PF.piecesOk Generated.BlameFormat.blameLabels ps)
    (ht : PF.litOk Generated.BlameFormat.blameLabels tail = true)
    (ts author commit key : Str) (items : List Item)
    (hparse : PF.parseBlameFormat (PF.render ps tail) = .ok items)
    (hk : formatMeta arith cw items ts author commit = .ok key)
    (p : PF.Piece) (hp : p ∈ ps) (hc : p.spec.label = "commit".toList) :
    (match p.spec.prec with
     | none => commit
     | some n => commit.take n) <:+: key := by
  have hf : PF.fieldOfLabel p.spec.label = some .commit := by rw [hc]; decide
  exact format_shows_attribution arith cw ps tail hps ht ts author commit key items hparse hk p hp
    .commit hf

example : (PF.parseBlameFormat (PF.render exPieces " }".toList)).bind
      (fun items => (formatMeta 1 (fun _ => 1) items "2021-08-22 18:20:19 -0700".toList "Dan Davison".toList
        "3f1c2a9e".toList).toOption.elim (.error .unknownLabel) .ok) =
    .ok "Dan Davison          {x} 3f1c2a9        |          2021-08-22           }".toList := by
  decide

/-- Colours follow commits: with a format whose last placeholder is `{commit}` (left aligned, no
precision, a blank before it, nothing after it) the metadata key — which is what the colour memo
is indexed by and what repeat-blanking compares — determines the commit. -/
theorem key_determines_commit (arith : Nat) (cw : Char → Nat) (items : List Item) (it : Item)
    (hph : it.ph = some .commit) (hprec : it.prec = none) (hal : it.align.getD .left = .left)
    (hpre : ∃ p, it.pre = p ++ [' ']) (hsuf : it.suf = [])
    (ts1 a1 c1 ts2 a2 c2 key : Str) (hc1 : c1 ≠ [] ∧ ' ' ∉ c1) (hc2 : c2 ≠ [] ∧ ' ' ∉ c2)
    (h1 : formatMeta arith cw (items ++ [it]) ts1 a1 c1 = .ok key)
    (h2 : formatMeta arith cw (items ++ [it]) ts2 a2 c2 = .ok key) : c1 = c2 :=
  key_determines_commit_core arith cw items it hph hprec hal hpre ts1 a1 c1 ts2 a2 c2 key hc1 hc2 hsuf h1 h2

/-- ... in particular with the default `--blame-format`. -/
theorem default_key_determines_commit (arith : Nat) (cw : Char → Nat)
    (ts1 a1 c1 ts2 a2 c2 key : Str) (hc1 : c1 ≠ [] ∧ ' ' ∉ c1) (hc2 : c2 ≠ [] ∧ ' ' ∉ c2)
    (h1 : formatMeta arith cw defaultItems ts1 a1 c1 = .ok key)
    (h2 : formatMeta arith cw defaultItems ts2 a2 c2 = .ok key) : c1 = c2 :=
  key_determines_commit arith cw (defaultItems.take 2) ⟨[' '], some .commit, some .left, some 8, none, []⟩
    rfl rfl rfl ⟨[], rfl⟩ rfl ts1 a1 c1 ts2 a2 c2 key hc1 hc2 h1 h2

/-- Code and line number of a blame line reach the row intact, and the metadata is blanked
exactly when the previous blame line had the same metadata: for a line `fmtBlame r …` (under
the hypotheses of `blame_round_trip`) the row produced by `handle_blame_line` has
* the code of `r` with tabs expanded (unchanged when it has no tab),
* a number field made of blanks and the decimal digits of `r.lineNumber`, unless the line
  repeats the key of the line above *and* the separator format is per-block / every-N,
* the metadata `key = formatMeta …` of `r`, or blanks of the same display width iff the state
  holds the same key (`State::Blame(key)` of the previous blame line). -/
theorem code_and_number_intact (cfg : StreamCfg) (s s' : CState) (git : Bool) (o : Out)
    (r : BlameRec) (file : Option Str) (padA padB : Nat)
    (hmode : cfg.mode = Generated.Blame.authorMode)
    (hc : validCommit r.commit) (hf : ∀ f, file = some f → '(' ∉ f)
    (ha : 1 ≤ r.author.length) (ha0 : r.author.head? ≠ some ' ') (ha1 : r.author.getLast? ≠ some ' ')
    (hts : tsShape r.ts = true) (htv : tsValid r.ts = true) (htn : normTs r.ts = r.ts)
    (hn : r.lineNumber < 2 ^ 64)
    (hgreedy : Generated.Blame.authorMode = 0 → 2 ≤ r.author.length ∧ noTail r.code = true)
    (hlazy : Generated.Blame.authorMode = 1 → noBlankDigit r.author = true)
    (h : streamStep cfg s (fmtBlame r file padA padB) git = .ok (s', o)) :
    ∃ key colour row,
      o = .row colour (decide (s.prev = some key)) key row ∧
      formatMeta cfg.arith cfg.cw cfg.items (cfg.tsOut r.ts) r.author r.commit = .ok key ∧
      s'.prev = some key ∧
      row.code = Text.expand cfg.tab r.code ∧ ('\t' ∉ r.code → row.code = r.code) ∧
      (∀ w, cfg.sep.width = some w → (cfg.sep.kind = .on ∨ s.prev ≠ some key) →
        row.num.filter (· != ' ') = Nat.toDigits 10 r.lineNumber) ∧
      (s.prev ≠ some key → row.metaCol = key) ∧
      (s.prev = some key → row.metaCol = spaces (strWidth cfg.cw key)) := by
  have hp : parseBlame cfg.mode (fmtBlame r file padA padB) = some r := by
    rw [hmode]
    exact blame_round_trip r file padA padB hc hf ha ha0 ha1 hts htv htn hn hgreedy hlazy
  obtain ⟨key, colour, pre, num, suf, hkey, hnum, hprev, ho⟩ := streamStep_row cfg s s' _ git r o hp h
  refine ⟨key, colour, _, ho, hkey, hprev, rfl, fun ht => expand_no_tab _ _ ht, ?_, ?_, ?_⟩
  · intro w hw hshow
    have hshow' : cfg.sep.kind = .on ∨ decide (s.prev = some key) = false := by
      rcases hshow with h1 | h1
      · exact Or.inl h1
      · exact Or.inr (by simp [h1])
    exact (fmtLineNumber_shows cfg.sep r.lineNumber _ pre num suf w hnum hw hshow').1
  · intro hne
    simp [hne]
  · intro he
    simp [he]

/-- One output row (or raw pass-through) per input line, in order. -/
theorem stream_one_row_per_line (cfg : StreamCfg) (lines : List (Str × Bool)) (outs : List Out)
    (h : stream cfg {} lines = .ok outs) : outs.length = lines.length :=
  stream_length cfg {} lines outs h

/-! ## The data flow of `is_repeat` and streams with arbitrary line numbers

`handle_blame_line` computes one local, `is_repeat`, and hands it to three consumers: the blanking of the
metadata column, `format_blame_line_number()` and — through `blame_metadata_style()` — `get_color()`. For the
first two it is a *display* flag ("this line continues the block above"); for `get_color()` `false` means
"the key differs from the previous key": with an equal key the arm `(Some(c), Some(c'), false)` finds the two
colours equal, takes that for a collision with the line above and recolours the key for the rest of the stream.
So the definition of `is_repeat`, and which expression reaches which consumer, is part of what C17 states.

`tools/extractors/blameflow.py` translates that data flow on every run into `Generated.BlameFlow` (expressions
over the previous key, the key, `blame.line_number`, author, commit and the fields of `StateMachine` the
handler keeps between lines); `DeltaModel/BlameFlow.lean` (`stepF`, `runF`, `streamStepF`, `streamF`)
interprets the table on blame lines *with their numbers* and is what `drv_blame` executes for `blame.stream`.
The theorems below are about that generated table, for every sequence of line numbers: consecutive, several
`-L` ranges (forward gaps), second listings and `--reverse` (backward jumps), repeated numbers. -/

section Flow
open BlameFlow

/-- The checks of the generated data-flow table (`BlameFlow.tableOk`, syntactic and conservative, sound for
every table: `Proofs/BlameFlow.lean`): the flag that reaches `get_color` is the test `previous key = key` itself;
a blanked metadata column / a blanked number forces that test; the state update is skipped at most when the
test holds; no checked `usize` arithmetic and no undeclared register anywhere in the table. -/
theorem repeat_flow_table_ok : tableOk = true := by decide

/-- What the property needs of the data flow of `is_repeat`, for every state, key, line number, author, commit
and register content: the flag that reaches `get_color` *is* "same key as the previous blame line"; the metadata
and the line number are blanked *only* for the key of the previous blame line; after the line the state is
`State::Blame(key)`; no `usize` panic point in the flag / register arithmetic. -/
theorem repeat_flow_ok : FlowOk := flowOk_of_tableOk repeat_flow_table_ok

example : (flags ⟨some ['k'], ['k'], 80, [], [], Generated.BlameFlow.numRegs.map (·.2),
      Generated.BlameFlow.strRegs.map (fun _ => none), fun _ => false⟩).map (fun f => f.style) =
    some true := by decide

/-- The generated table evaluated on a stream with a forward gap (`-L 10,11 -L 80,81`), a backward jump and a
repeated number inside one attribution: one colour for the attribution throughout, and the table is
executable (no condition the translator could not read). -/
theorem line_number_gap_keeps_colour :
    coloursOf [['1'], ['2'], ['3']]
      [ln ['k'] 10, ln ['k'] 11, ln ['k'] 80, ln ['k'] 81, ln ['j'] 82, ln ['k'] 30, ln ['k'] 30, ln ['k'] 7] =
      some [some ['1'], some ['1'], some ['1'], some ['1'], some ['2'], some ['1'], some ['1'], some ['1']] ∧
    executable = true := by
  decide

/-- Every blame stream (no line coloured by git), whatever its line numbers, is painted: one paint per line,
each with a palette colour; no `delta_unreachable`, no index failure, no arithmetic panic. -/
theorem run_total_any_line_numbers (pal : List Colour) (hpal : pal ≠ []) (opq : Nat → Bool)
    (lines : List LineIn) (hplain : ∀ l ∈ lines, l.git = false) :
    ∃ s ps, runF pal opq {} lines = .ok (s, ps) ∧ ps.length = lines.length ∧
      ∀ p ∈ ps, ∃ c, p.colour = some c := by
  obtain ⟨c', ps, hr, hl, hc⟩ := run_total pal hpal (lines.map (·.key))
  rw [← keysOf_plain lines hplain] at hr
  obtain ⟨s', fps, hrf, _, _, hcol, _⟩ := (runF_sim repeat_flow_ok pal opq lines {} init_wf).1 c' ps hr
  refine ⟨s', fps, hrf, ?_, ?_⟩
  · have := congrArg List.length hcol
    simp at this
    rw [this, hl]; simp
  · intro p hp
    have hm : p.colour ∈ fps.map (·.colour) := List.mem_map_of_mem hp
    rw [hcol] at hm
    obtain ⟨q, hq, hqe⟩ := List.mem_map.mp hm
    obtain ⟨c, hc'⟩ := hc q hq
    exact ⟨c, by rw [← hqe, hc']⟩

example : ∀ l ∈ [ln ['k'] 10, ln ['k'] 80, ln ['j'] 3], l.git = false := by decide

/-- Consecutive lines with the same attribution share one colour — whatever their line numbers (adjacent,
a gap, a backward jump, the same number again). -/
theorem same_key_same_colour_any_line_numbers (pal : List Colour) (hpal : pal ≠ []) (opq : Nat → Bool)
    (pre post : List LineIn) (a b : LineIn) (hk : a.key = b.key)
    (hplain : ∀ l ∈ pre ++ a :: b :: post, l.git = false) (s : FState) (ps : List FPaint)
    (h : runF pal opq {} (pre ++ a :: b :: post) = .ok (s, ps)) :
    ∃ pa pb, ps[pre.length]? = some pa ∧ ps[pre.length + 1]? = some pb ∧ pa.colour = pb.colour := by
  obtain ⟨bps, hr, hcol, _⟩ := runF_ok_run repeat_flow_ok pal opq _ s ps h
  rw [keysOf_plain _ hplain] at hr
  simp only [List.map_append, List.map_cons, hk] at hr
  obtain ⟨x, y, hx, hy, hxy, _⟩ :=
    same_key_same_colour pal hpal (pre.map (·.key)) (post.map (·.key)) b.key _ bps hr
  simp only [List.length_map] at hx hy
  obtain ⟨pa, hpa, hca⟩ := getElem?_of_map_eq _ _ ps bps hcol _ x hx
  obtain ⟨pb, hpb, hcb⟩ := getElem?_of_map_eq _ _ ps bps hcol _ y hy
  exact ⟨pa, pb, hpa, hpb, by rw [hca, hcb, hxy]⟩

example : (runF [['1'], ['2']] (fun _ => false) {} ([ln ['j'] 9] ++ ln ['k'] 20 :: ln ['k'] 80 :: [ln ['j'] 81])).toOption.map
    (fun r => r.2.map (·.colour)) = some [some ['1'], some ['2'], some ['2'], some ['1']] := by decide

/-- With a palette of two or more pairwise distinct colours, a line attributed differently from its
predecessor never has the predecessor's colour, and neither its metadata nor its number is blanked —
whatever the line numbers. -/
theorem neighbour_differs_any_line_numbers (pal : List Colour) (hd : pal.Nodup) (h2 : 2 ≤ pal.length)
    (opq : Nat → Bool) (pre post : List LineIn) (a b : LineIn) (hk : a.key ≠ b.key)
    (hplain : ∀ l ∈ pre ++ a :: b :: post, l.git = false) (s : FState) (ps : List FPaint)
    (h : runF pal opq {} (pre ++ a :: b :: post) = .ok (s, ps)) :
    ∃ pa pb, ps[pre.length]? = some pa ∧ ps[pre.length + 1]? = some pb ∧ pa.colour ≠ pb.colour ∧
      pb.blank = false ∧ pb.number = false := by
  obtain ⟨bps, hr, hcol, _⟩ := runF_ok_run repeat_flow_ok pal opq _ s ps h
  rw [keysOf_plain _ hplain] at hr
  simp only [List.map_append, List.map_cons] at hr
  obtain ⟨x, y, hx, hy, hxy, _⟩ :=
    neighbour_differs pal hd h2 (pre.map (·.key)) (post.map (·.key)) a.key b.key hk _ bps hr
  simp only [List.length_map] at hx hy
  obtain ⟨pa, hpa, hca⟩ := getElem?_of_map_eq _ _ ps bps hcol _ x hx
  obtain ⟨pb, hpb, hcb⟩ := getElem?_of_map_eq _ _ ps bps hcol _ y hy
  obtain ⟨pb', hpb', hdisp⟩ := runF_display_at repeat_flow_ok pal opq pre post a b s ps h
  rw [hpb] at hpb'
  injection hpb' with hpb'
  subst hpb'
  refine ⟨pa, pb, hpa, hpb, by rw [hca, hcb]; exact hxy, ?_, ?_⟩
  · cases hb : pb.blank with
    | false => rfl
    | true => exact absurd (hdisp (Or.inl hb)) hk
  · cases hb : pb.number with
    | false => rfl
    | true => exact absurd (hdisp (Or.inr hb)) hk

example : (runF [['1'], ['2'], ['3']] (fun _ => false) {} ([] ++ ln ['a'] 5 :: ln ['b'] 6 :: [ln ['a'] 7])).toOption.map
    (fun r => r.2.map (fun p => (p.colour, p.blank))) =
    some [(some ['1'], false), (some ['2'], false), (some ['1'], false)] := by decide

/-- An attribution keeps its colour when it reappears, unless that colour is the colour of the line above —
whatever the line numbers of the stream (in particular when the attribution's own lines were not adjacent). -/
theorem colour_stable_unless_collision_any_line_numbers (pal : List Colour) (hpal : pal ≠ [])
    (opq : Nat → Bool) (pre mid post : List LineIn) (a p b : LineIn) (hab : a.key = b.key)
    (hmid : ∀ l ∈ mid, l.key ≠ a.key) (hpk : p.key ≠ a.key)
    (hplain : ∀ l ∈ pre ++ a :: (mid ++ p :: b :: post), l.git = false) (s : FState) (ps : List FPaint)
    (h : runF pal opq {} (pre ++ a :: (mid ++ p :: b :: post)) = .ok (s, ps)) :
    ∃ pa pp pb, ps[pre.length]? = some pa ∧ ps[pre.length + 1 + mid.length]? = some pp ∧
      ps[pre.length + 1 + mid.length + 1]? = some pb ∧
      (pa.colour ≠ pp.colour → pb.colour = pa.colour) := by
  obtain ⟨bps, hr, hcol, _⟩ := runF_ok_run repeat_flow_ok pal opq _ s ps h
  rw [keysOf_plain _ hplain] at hr
  simp only [List.map_append, List.map_cons, ← hab] at hr
  have hmid' : a.key ∉ mid.map (·.key) := by
    intro hm
    obtain ⟨l, hl, hle⟩ := List.mem_map.mp hm
    exact hmid l hl hle
  obtain ⟨x, y, z, hx, hy, hz, himp⟩ :=
    colour_stable_unless_collision pal hpal (pre.map (·.key)) (mid.map (·.key)) (post.map (·.key))
      p.key a.key hmid' hpk _ bps hr
  simp only [List.length_map] at hx hy hz
  obtain ⟨pa, hpa, hca⟩ := getElem?_of_map_eq _ _ ps bps hcol _ x hx
  obtain ⟨pp, hpp, hcp⟩ := getElem?_of_map_eq _ _ ps bps hcol _ y hy
  obtain ⟨pb, hpb, hcb⟩ := getElem?_of_map_eq _ _ ps bps hcol _ z hz
  refine ⟨pa, pp, pb, hpa, hpp, hpb, ?_⟩
  intro hne
  rw [hca, hcb]
  exact himp (by rw [← hca, ← hcp]; exact hne)

example : (runF [['1'], ['2'], ['3']] (fun _ => false) {}
      ([ln ['a'] 10] ++ ln ['a'] 40 :: ([ln ['b'] 41] ++ ln ['c'] 42 :: ln ['a'] 90 :: []))).toOption.map
    (fun r => r.2.map (·.colour)) = some [some ['1'], some ['1'], some ['2'], some ['3'], some ['1']] := by decide

/-- Metadata (and the line number) are blanked only on consecutive lines of the same attribution: if the row
of `b` is displayed as a repeat, the line above it has `b`'s key — also for lines coloured by git and for every
sequence of line numbers. (The converse is not demanded: showing the metadata again, e.g. after a gap, is
allowed.) -/
theorem blank_only_after_same_key (pal : List Colour) (opq : Nat → Bool) (pre post : List LineIn)
    (a b : LineIn) (s : FState) (ps : List FPaint)
    (h : runF pal opq {} (pre ++ a :: b :: post) = .ok (s, ps)) :
    ∃ pb, ps[pre.length + 1]? = some pb ∧ ((pb.blank = true ∨ pb.number = true) → a.key = b.key) :=
  runF_display_at repeat_flow_ok pal opq pre post a b s ps h

/-- ... and never on the first line of a stream. -/
theorem first_line_shows_metadata (pal : List Colour) (opq : Nat → Bool) (a : LineIn) (post : List LineIn)
    (s : FState) (ps : List FPaint) (h : runF pal opq {} (a :: post) = .ok (s, ps)) :
    ∃ pa, ps[0]? = some pa ∧ pa.blank = false ∧ pa.number = false :=
  runF_display_first repeat_flow_ok pal opq a post s ps h

example : (runF [['1'], ['2']] (fun _ => false) {} ([] ++ ln ['a'] 5 :: ln ['a'] 6 :: [])).toOption.map
    (fun r => r.2.map (fun p => (p.blank, p.number))) = some [(false, false), (true, true)] := by decide

/-- `code_and_number_intact` for the row `handle_blame_line` builds *with the generated flags*
(`streamStepF`, executed by `drv_blame`): code, number and metadata of a line `fmtBlame r …` reach the row;
the number is shown unless the separator format is per-block / every-N *and* the state holds the same key;
the metadata is the key, or blanks of its width — blanks only if the state holds the same key; afterwards the
state holds the key. For every line number and whatever the registers hold. -/
theorem row_intact_any_line_numbers (cfg : StreamCfg) (opq : Nat → Bool) (s s' : FState) (git : Bool) (o : Out)
    (r : BlameRec) (file : Option Blame.Str) (padA padB : Nat)
    (hmode : cfg.mode = Generated.Blame.authorMode)
    (hc : validCommit r.commit) (hf : ∀ f, file = some f → '(' ∉ f)
    (ha : 1 ≤ r.author.length) (ha0 : r.author.head? ≠ some ' ') (ha1 : r.author.getLast? ≠ some ' ')
    (hts : tsShape r.ts = true) (htv : tsValid r.ts = true) (htn : normTs r.ts = r.ts)
    (hn : r.lineNumber < 2 ^ 64)
    (hgreedy : Generated.Blame.authorMode = 0 → 2 ≤ r.author.length ∧ noTail r.code = true)
    (hlazy : Generated.Blame.authorMode = 1 → noBlankDigit r.author = true)
    (h : streamStepF cfg opq s (fmtBlame r file padA padB) git = .ok (s', o)) :
    ∃ key colour blank row,
      o = .row colour blank key row ∧
      formatMeta cfg.arith cfg.cw cfg.items (cfg.tsOut r.ts) r.author r.commit = .ok key ∧
      s'.c.prev = some key ∧
      row.code = Text.expand cfg.tab r.code ∧ ('\t' ∉ r.code → row.code = r.code) ∧
      (∀ w, cfg.sep.width = some w → (cfg.sep.kind = .on ∨ s.c.prev ≠ some key) →
        row.num.filter (· != ' ') = Nat.toDigits 10 r.lineNumber) ∧
      (s.c.prev ≠ some key → blank = false ∧ row.metaCol = key) ∧
      (blank = true → row.metaCol = spaces (strWidth cfg.cw key)) ∧
      (blank = false → row.metaCol = key) := by
  have hp : parseBlame cfg.mode (fmtBlame r file padA padB) = some r := by
    rw [hmode]
    exact blame_round_trip r file padA padB hc hf ha ha0 ha1 hts htv htn hn hgreedy hlazy
  obtain ⟨key, paint, pre, num, suf, hkey, hstep, hnum, ho⟩ := streamStepF_row cfg opq s s' _ git r o hp h
  have hprev := stepF_prev repeat_flow_ok cfg.pal opq s s' _ paint hstep
  have hdisp := stepF_display repeat_flow_ok cfg.pal opq s s' _ paint hstep
  refine ⟨key, paint.colour, paint.blank, _, ho, hkey, hprev, rfl, fun ht => expand_no_tab _ _ ht, ?_, ?_, ?_, ?_⟩
  · intro w hw hshow
    have hshow' : cfg.sep.kind = .on ∨ paint.number = false := by
      rcases hshow with h1 | h1
      · exact Or.inl h1
      · right
        cases hb : paint.number with
        | false => rfl
        | true => exact absurd (hdisp (Or.inr hb)) h1
    exact (fmtLineNumber_shows cfg.sep r.lineNumber _ pre num suf w hnum hw hshow').1
  · intro hne
    have hb : paint.blank = false := by
      cases hb : paint.blank with
      | false => rfl
      | true => exact absurd (hdisp (Or.inl hb)) hne
    exact ⟨hb, by simp [hb]⟩
  · intro hb
    simp [hb]
  · intro hb
    simp [hb]

/-- One output row (or raw pass-through) per input line, in order (`streamF`). -/
theorem stream_flow_one_row_per_line (cfg : StreamCfg) (opq : Nat → Bool) (lines : List (Blame.Str × Bool))
    (outs : List Out) (h : streamF cfg opq {} lines = .ok outs) : outs.length = lines.length :=
  streamF_length cfg opq {} lines outs h

end Flow

end C17
