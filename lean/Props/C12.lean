import DeltaModel.Style
import DeltaModel.Term
namespace C12
theorem stub : DeltaStyle.words "Bold RED".toList = ["bold", "red"] := by decide
end C12
