import Proofs.StyleImage
import Proofs.StyleSites
import Proofs.DrawText
import Proofs.StyleGuards
import Proofs.DecoWords
/-!
C12 — style strings mean what git's colour language says they mean.

Model: `DeltaStyle.parseAnsi` (= `parse_ansi_term_style`; the word → effect arms, ANSI_16_COLORS,
CSS names and basic-colour variants are generated from the source), `DeltaStyle.display`
(= `impl Display for Style`, word order generated), `Sgr.paint` (= ansi_term rendering, SGR
codes generated), `Term.run` (the abstract terminal, from ECMA-48 / xterm).
`denote` (Proofs/StyleParse.lean) is the declarative reading of a style string.
-/
namespace C12
open DeltaStyle SgrTerm

/-- The parser computes exactly the declarative reading: attributes = the attribute words
present, foreground = the first colour word, background = the second (each `syntax`, `auto` =
the default's colour, `normal` = none, or a colour), a third colour is the fatal error; `omit` /
`raw` are inherited from the default only for `auto auto`. -/
theorem parse_eq_denote (env : Env) (d : Option DStyle) (s : List Char) :
    parseAnsi env d s = denote env d s :=
  parseAnsi_eq_denote env d s

example : denote ⟨true, fun _ _ _ => 0⟩ none "Bold \"#0a0B0c\" ul 17".toList =
    .ok { ansi := { fg := some (.rgb 10 11 12), bg := some (.fixed 17), bold := true, underline := true } } := by
  decide

example : denote ⟨true, fun _ _ _ => 0⟩ none "red green blue".toList = .error .tooManyColors := by decide

/-- Text painted with the parsed style carries exactly the colours and attributes the style string
denotes and no others, and the terminal is back in its default state afterwards. -/
theorem paint_carries_exactly (env : Env) (d : Option DStyle) (hd : defaultWf d) (s : List Char)
    (p : Parsed) (text : List Char) (ht : Term.ESC ∉ text) (h : denote env d s = .ok p) :
    parseAnsi env d s = .ok p ∧
    Term.run Term.init (Sgr.paint p.ansi text) =
      (Term.init, text.map fun c => ⟨c, ofStyle p.ansi, none⟩) := by
  have hp : parseAnsi env d s = .ok p := by rw [parse_eq_denote]; exact h
  refine ⟨hp, ?_⟩
  have := run_paint p.ansi text (parseAnsi_wf env d hd s p hp) ht Term.init rfl rfl
  simpa [cellsOf, Term.init] using this

example : Term.cells Term.init (Sgr.paint { fg := some (.basic 1), bold := true, underline := true } "ab".toList) =
    [⟨'a', { fg := some (.idx 1), bold := true, underline := true }, none⟩,
     ⟨'b', { fg := some (.idx 1), bold := true, underline := true }, none⟩] := by decide

/-- Letter case does not matter: the parser only sees the lower-cased string. -/
theorem case_insensitive (env : Env) (d : Option DStyle) (s s' : List Char)
    (h : lower s = lower s') : parseAnsi env d s = parseAnsi env d s' := by
  simp [parseAnsi, words, h]

example : lower "BoLd RED".toList = lower "bold red".toList := by decide

/-- Word order does not matter as long as the colour words keep their relative order. -/
theorem attribute_order_insensitive (env : Env) (d : Option DStyle) (ws ws' : List String)
    (hp : ws.Perm ws') (hc : colourWords ws = colourWords ws') :
    parseWords env d ws = parseWords env d ws' := by
  have hany : ∀ f : String → Bool, ws.any f = ws'.any f := by
    intro f
    rw [Bool.eq_iff_iff, List.any_eq_true, List.any_eq_true]
    exact ⟨fun ⟨x, hx, hf⟩ => ⟨x, hp.mem_iff.mp hx, hf⟩, fun ⟨x, hx, hf⟩ => ⟨x, hp.mem_iff.mpr hx, hf⟩⟩
  have h1 : present ws = present ws' := funext fun a => hany _
  have h2 : hasOmit ws = hasOmit ws' := hany _
  have h3 : hasRaw ws = hasRaw ws' := hany _
  rw [parseWords_eq_denoteWords, parseWords_eq_denoteWords]
  unfold denoteWords
  rw [hc, h1, h2, h3]

example : ["bold", "red", "ul", "blue"].Perm ["ul", "red", "blue", "bold"] ∧
    colourWords ["bold", "red", "ul", "blue"] = colourWords ["ul", "red", "blue", "bold"] := by
  refine ⟨?_, by decide⟩
  decide

/-- The order of the colour words does matter: first = foreground, second = background. -/
theorem colour_order_matters :
    ∃ (env : Env) (s s' : List Char), (words s).Perm (words s') ∧
      parseAnsi env none s ≠ parseAnsi env none s' := by
  refine ⟨⟨true, fun _ _ _ => 0⟩, "red blue".toList, "blue red".toList, ?_, ?_⟩
  · have : words "red blue".toList = ["red", "blue"] := by decide
    have h2 : words "blue red".toList = ["blue", "red"] := by decide
    rw [this, h2]
    exact List.Perm.swap _ _ _
  · have h1 : parseAnsi ⟨true, fun _ _ _ => 0⟩ none "red blue".toList =
        .ok { ansi := { fg := some (.basic 1), bg := some (.basic 4) } } := by decide
    have h2 : parseAnsi ⟨true, fun _ _ _ => 0⟩ none "blue red".toList =
        .ok { ansi := { fg := some (.basic 4), bg := some (.basic 1) } } := by decide
    rw [h1, h2]
    decide

/-- Permuting attribute words and changing letter case does not change the parsed style; the
order of the colours does. -/
theorem case_and_order_insensitive :
    (∀ env d s s', lower s = lower s' → parseAnsi env d s = parseAnsi env d s') ∧
    (∀ env d ws ws', ws.Perm ws' → colourWords ws = colourWords ws' →
      parseWords env d ws = parseWords env d ws') ∧
    (∃ (env : Env) (s s' : List Char), (words s).Perm (words s') ∧
      parseAnsi env none s ≠ parseAnsi env none s') :=
  ⟨case_insensitive, attribute_order_insensitive, colour_order_matters⟩

/-! ### `--show-config` round trip

`RoundTrips env p`: `Display` prints `p` to a string that `parse` (with no default) reads as a
style rendering the same (`sameRendering`: equal, or both `raw`).
`shown a`: attribute `a` has a word in the generated table of `impl Display for Style`. -/

/-- Round trip for every style whose set attributes all have a Display word (true before and after
the repair of defect #14; the hypothesis `hcov` is what the repair discharges). -/
theorem display_round_trip_general (env : Env) (p : Parsed) (hc : Canon env p)
    (hcov : ∀ a, p.ansi.get a = true → shown a = true) : RoundTrips env p :=
  DeltaStyle.display_round_trip_general env p hc hcov

/-- Every attribute has a word in `impl Display for Style` (after `fix: print hidden`). -/
theorem display_shows_all : ∀ a : Sgr.Attr, shown a = true := by intro a; cases a <;> decide

/-- **`--show-config` round trip**: every style in the image of `parse` is printed by `Display` to
a string that parses back to a style rendering the same. -/
theorem display_round_trip (env : Env) (ho : OracleOk env) (s : List Char) (p : Parsed)
    (h : parseAnsi env none s = .ok p) : RoundTrips env p :=
  display_round_trip_general env p (parseAnsi_canon env ho s p h) (fun a _ => display_shows_all a)

example : parseAnsi ⟨true, fun _ _ _ => 16⟩ none "hidden bold ul 12 \"#102030\"".toList =
    .ok { ansi := { fg := some (.fixed 12), bg := some (.rgb 16 32 48), bold := true, underline := true,
                    hidden := true } } := by
  decide

/-! ### The same language in every style option

`Generated.StyleSites.styleCallSites` is the inventory (re-extracted on every run) of every call of a
style / colour parsing function with the expression it passes as `true_color`. -/

/-- Every style option is parsed at the configured colour depth: in the generated inventory each
option site passes `opt.computed.true_color` (directly or through a local `let`), the only
exceptions being git's own `color.diff.old/new` (`StyleSites.depthExceptions`, never painted);
every `--…-style` option of cli.rs has such a site; wrappers forward their parameter and the only
literal depths in helpers are the three listed in `StyleSites.allowedLiteralHelpers` (git's own colour
strings, the *key* of a `--map-styles` entry, and — a known finding — a style referred to through a custom
git-config key); the `--map-styles` replacement and `--blame-palette` follow the configured depth. -/
theorem style_options_use_configured_depth :
    (∀ s ∈ Generated.StyleSites.styleCallSites, s.kind = "option" → s.name ∉ StyleSites.depthExceptions →
      s.trueColorArg = "opt.computed.true_color") ∧
    (∀ o ∈ Generated.StyleSites.cliStyleOptions, ∃ s ∈ Generated.StyleSites.styleCallSites,
      s.kind = "option" ∧ o ∈ s.uses ∧ s.trueColorArg = "opt.computed.true_color") ∧
    (∀ s ∈ Generated.StyleSites.styleCallSites, StyleSites.literalHelper s = true →
      (s.inFn, s.callee, s.styleArg) ∈ StyleSites.allowedLiteralHelpers) ∧
    (∀ s ∈ Generated.StyleSites.styleCallSites,
      (s.inFn = "parse_styles_map" ∧ s.styleArg = "to_str") ∨ s.inFn = "blame_metadata_style" →
      ∀ configured, StyleSites.evalDepth s.trueColorArg configured = some configured) :=
  ⟨StyleSites.option_sites_pass_configured_depth, StyleSites.every_cli_style_option_has_a_site,
   StyleSites.helpers_forward_depth, StyleSites.map_styles_and_blame_palette_depth.2.2⟩

/-- **A style string means the same thing in every style option**: at any option site of the
inventory (other than git's own colours), with the configured depth `configured`, the parser is run
at depth `configured` and returns the declarative reading of the string at that depth — the same
function of (string, default, depth) for all options. -/
theorem style_string_means_the_same_in_every_option (s : Generated.StyleSites.Site)
    (hs : s ∈ Generated.StyleSites.styleCallSites) (hk : s.kind = "option")
    (hx : s.name ∉ StyleSites.depthExceptions) (configured : Bool) (q : Nat → Nat → Nat → Nat)
    (d : Option DStyle) (str : List Char) :
    ∃ depth, StyleSites.evalDepth s.trueColorArg configured = some depth ∧
      parseAnsi ⟨depth, q⟩ d str = denote ⟨configured, q⟩ d str :=
  ⟨configured, StyleSites.site_depth s hs hk hx configured, parse_eq_denote ⟨configured, q⟩ d str⟩

example : ∃ s ∈ Generated.StyleSites.styleCallSites, s.name = "grep-line-number-style" ∧ s.kind = "option" ∧
    s.name ∉ StyleSites.depthExceptions := by decide

/-- **The style string the user gave is the one that is parsed**: the generated inventory of the
assignments `set_options` makes to style-typed fields after the command line was read consists of
exactly six rewrites; a non-decoration style is rewritten only when it did *not* come from the
command line (guard on that same option) and before git-config values are loaded (so those are not
rewritten either); the side-by-side `normal …` → `syntax …` HACK applies to `minus-style` /
`minus-emph-style` defaults only, each under its own guard; the sole rewrite of command-line values
is `--color-only` forcing the three decoration styles to `none`. -/
theorem only_defaults_are_rewritten :
    Generated.StyleRewrites.styleRewrites.map (·.field) = StyleRewrites.rewrittenFields ∧
    Generated.StyleRewrites.userSuppliedMeansCommandLine = true ∧
    (∀ r ∈ Generated.StyleRewrites.styleRewrites, r.field ∉ StyleRewrites.colorOnlyFields →
      StyleRewrites.ownGuard r.field ∈ r.guards ∧ r.beforeGitConfig = true) ∧
    (∀ r ∈ Generated.StyleRewrites.styleRewrites, r.field ∈ StyleRewrites.colorOnlyFields →
      r.guards = ["opt.color_only"] ∧ r.value = "\"none\".to_string()") ∧
    (∀ r ∈ Generated.StyleRewrites.styleRewrites, ("format!(\"syntax {}\"".toList.isPrefixOf r.value.toList) = true →
      (r.field = "minus_style" ∨ r.field = "minus_emph_style") ∧
      "features.contains(&\"side-by-side\".to_string())" ∈ r.guards ∧ StyleRewrites.ownGuard r.field ∈ r.guards) :=
  StyleRewrites.rewrites_are_exactly

/-! ### Text drawn under a decoration (`src/handlers/draw.rs`)

The commit line, the file header, the hunk header and the merge-conflict / grep headers are written by the
functions of `draw.rs`, chosen by the matching `*-decoration-style`. `Generated.DrawText.drawFns` is a data-flow
reading of that file (every `let`, assignment, call and `.paint(…)` of every function, regenerated on every run);
`DrawText.paintsOf` follows the `DrawFunction` arguments through it symbolically. `Draw` (DeltaModel/Sgr.lean) is
the executable model of the same functions, tied to the source by `DrawProofs.shapes_as_modelled`. -/

/-- **In the source, the header text is painted with the given text style, unmodified, whatever the
decoration**: for each of the eight functions `get_draw_function` returns, the symbolic run reaches `paint` only
with the function's own `text_style` argument (on `text` or `text (addendum)`, both occur) or its own
`decoration_style` argument (on material that contains nothing of the text but its measured width); no function
of `draw.rs` has a `mut` parameter or an assignment; the text style is the sixth `DrawFunction` argument (the only
`Style`); `Style::paint` is `self.ansi_term_style.paint(input)`. -/
theorem draw_functions_paint_text_with_given_style :
    (∀ vf ∈ Generated.DrawText.drawFunctionOf,
      DrawText.TextPaintedWithGivenStyle (DrawText.paintsOf Generated.DrawText.drawFns vf.2)) ∧
    (∀ f ∈ Generated.DrawText.drawFns, f.mutParams = [] ∧ ∀ e ∈ f.events, DrawText.isMutate e = false) ∧
    Generated.DrawText.drawFunctionParamTypes =
      ["&mut dyn Write", "&str", "&str", "&str", "&Width", "Style", "ansi_term::Style"] ∧
    Generated.DrawText.stylePaintBody = ["self", ".", "ansi_term_style", ".", "paint", "(", "input", ")"] :=
  ⟨DrawTextProofs.text_style_reaches_paint_unmodified, DrawTextProofs.no_mutation_in_draw,
   DrawTextProofs.draw_function_signature.1, DrawTextProofs.style_paint_is_ansi_term_paint⟩

/-- What the symbolic run reports for `write_underlined` (`--file-decoration-style ul`; both arms of every `match`
are followed, so the rule shows up above and below): the rule is painted with the decoration style, the text (both
forms of `paint_text`) with the text style. -/
example : (DrawText.paintsOf Generated.DrawText.drawFns "write_underlined").map (fun p => (p.inFn, p.recv)) =
    [("write_horizontal_line", DrawText.decoStyle), ("paint_text", DrawText.textStyle),
     ("paint_text", DrawText.textStyle), ("write_horizontal_line", DrawText.decoStyle)] := by decide +kernel

/-- **Every call site of a drawing function passes a configured style together with its own decoration**
(`DrawTextProofs.CallSiteOk`): the function `get_draw_function(<s>.decoration_style)` returned is called once, its
text-style argument is that same `<s>` (`config.file_style`, `self.config.commit_style`, `config.hunk_header_style`,
the merge-conflict header `style`) — or `config.null_style` for hunk-header / grep lines, whose text arrives painted —
rooted in a parameter no `let` rebinds, and its decoration argument is the style `get_draw_function` returned. -/
theorem draw_call_sites_pass_configured_style :
    (∀ s ∈ Generated.DrawText.drawCallSites, DrawTextProofs.CallSiteOk s) ∧
    Generated.DrawText.drawCallSites.map (fun s => (s.file, s.inFn)) =
      [("commit_meta.rs", "_handle_commit_meta_header_line"),
       ("diff_header.rs", "write_generic_diff_header_header_line"),
       ("hunk_header.rs", "write_hunk_header_raw"),
       ("hunk_header.rs", "write_line_of_code_with_optional_path_and_line_number"),
       ("merge_conflict.rs", "write_diff_header")] :=
  ⟨DrawTextProofs.call_sites_pass_configured_style, DrawTextProofs.call_sites_are⟩

/-- The `Draw` model mirrors the source: same output statements in the same order in every function of `draw.rs`,
the same variant → function table (also the one the data-flow reading starts from). -/
theorem draw_model_mirrors_source :
    Generated.DrawShapes.drawShapes = Draw.modelledShapes ∧
    Generated.DrawShapes.drawFunctionOf = Draw.modelledDrawFunctions ∧
    Generated.DrawText.drawFunctionOf = Generated.DrawShapes.drawFunctionOf :=
  ⟨DrawProofs.shapes_as_modelled.1, DrawProofs.shapes_as_modelled.2, by decide⟩

/-- **Decorated text is painted with the given style**: let the style string `str` denote `p` (not `raw`), and let
a drawing function be called with that style as its text style (`a.textStyle = p.ansi`), any text, addendum, width,
decoration style and box characters. Then for *every* decoration shape: the text piece is written; every other piece
written is painted with the decoration style; the text piece is `p.ansi` painted around `text` / `text (addendum)` —
the given style, unmodified; and the abstract terminal shows every character of it in exactly the colours and
attributes `str` denotes (no others), ending in the default state. -/
theorem decorated_text_painted_with_given_style (env : Env) (d : Option DStyle) (hd : defaultWf d)
    (str : List Char) (p : Parsed) (h : denote env d str = .ok p) (s : Draw.Shape) (a : Draw.Args)
    (hs : a.textStyle = p.ansi) (hraw : a.textRaw = p.raw) (hnr : p.raw = false)
    (ht : Term.ESC ∉ a.text) (ha : Term.ESC ∉ a.addendum) :
    some (Draw.textPiece a) ∈ Draw.draw s a ∧
    (∀ q, some q ∈ Draw.draw s a → q = Draw.textPiece a ∨ ∃ t, q = Sgr.paint a.deco t) ∧
    Draw.textPiece a = Sgr.paint p.ansi (DrawText.fullText a) ∧
    Term.run Term.init (Draw.textPiece a) =
      (Term.init, (DrawText.fullText a).map fun c => ⟨c, ofStyle p.ansi, none⟩) := by
  have hp : parseAnsi env d str = .ok p := by rw [parse_eq_denote]; exact h
  have hr : a.textRaw = false := by rw [hraw, hnr]
  have hw : Style.wf a.textStyle := by rw [hs]; exact parseAnsi_wf env d hd str p hp
  refine ⟨DrawTextProofs.text_piece_written s a, DrawTextProofs.other_pieces_are_decoration s a, ?_, ?_⟩
  · rw [← hs]; exact DrawTextProofs.textPiece_eq_paint a hr
  · rw [← hs]; exact DrawTextProofs.text_piece_shown_in_given_style a hr hw ht ha

/-- `--file-style 'yellow ul'` under `--file-decoration-style 'blue ul'`: the text row carries yellow + underline,
the rule below it is the decoration's. -/
example :
    let a : Draw.Args := { text := "f.rs".toList, rawText := "f.rs".toList, addendum := [], textWidth := 4, width := some 6, textStyle := { fg := some (.basic 3), underline := true }, textRaw := false, deco := { fg := some (.basic 4) }, ch := ⟨'─', '┐', '│', '┘', '┴'⟩ }
    denote ⟨true, fun _ _ _ => 0⟩ none "yellow ul".toList = .ok { ansi := a.textStyle } ∧
    Draw.lines (Draw.draw .underline a) =
      ["\x1b[4;33mf.rs\x1b[0m".toList, "\x1b[34m──────\x1b[0m".toList, []] ∧
    Term.cells Term.init (Draw.textPiece a) =
      "f.rs".toList.map fun c => ⟨c, { fg := some (.idx 3), underline := true }, none⟩ := by
  decide +kernel

/-! ### A style option is painted as given, whatever the other style options are (`src/paint.rs`, `src/style.rs`)

Which configured style a section of a removed / added line is painted with is decided by `paint_minus_and_plus_lines` and
`update_diff_style_sections`, in places by *comparing configured styles with each other* (`non_emph != emph`, "more than
one style on the line", the `==` of `edits::annotate` instantiated with `Style`). `Generated.StyleGuards` holds what `==`
on `Style` compares, where `is_emph` is written, the arguments of the two calls as expression trees over configured
styles, the guards of the loop, and the inventory of every test on a configured style in src/.
`StyleGuards.paintedLine cfg …` runs that code on a configuration, `StyleGuards.governs …` runs the same code on the *names*
of the `Config` fields. `AsParsed cfg`: the `is_emph` flags are as `parse_styles()` leaves them; everything else about
every style is arbitrary. -/

open StyleGuards in
/-- **`==` on `Style` is identity**: it compares every field of the struct (the generated list of compared fields
covers the generated list of fields, which is the one modelled; `DecorationStyle` derives its equality), so two
styles it calls equal are painted identically — and it tells an emph style from any other style whatever their
colours and attributes, because `is_emph` is among the compared fields. -/
theorem style_equality_is_identity :
    (∀ a b : GStyle, styleEq a b = true ↔ a = b) ∧
    (∀ a b : GStyle, a.isEmph ≠ b.isEmph → styleEq a b = false) ∧
    Generated.StyleGuards.styleStructFields = knownParts ∧
    "is_emph" ∈ Generated.StyleGuards.styleEqFields ∧
    Generated.StyleGuards.decorationStyleEqDerived = true :=
  ⟨styleEq_iff, styleEq_false_of_flag, struct_facts.1, isEmph_compared, by decide⟩

/-- Same colours, same attributes, one of them the emph style: not equal. -/
example : StyleGuards.styleEq ⟨7, true, false, false, false, 0⟩ ⟨7, false, false, false, false, 0⟩ = false := by decide

open StyleGuards in
/-- **Parsing sets `is_emph` for the emph options only**: in all of src/ every `Style { … }` constructor writes
`is_emph: false`; the only assignments are the two of `parse_styles()`, `= true`, on the map of *resolved* styles (each
key owns its copy), for the keys read into `minus_emph_style` / `plus_emph_style` and no other `Config` field; hence
`configOf given` — `Config::from` over any resolved styles — has exactly those two flags (`AsParsed`). -/
theorem is_emph_written_only_by_parse_styles :
    (∀ w ∈ Generated.StyleGuards.isEmphWrites, w.2.2.1 = "init" → w.2.2.2 = "false") ∧
    (∀ w ∈ Generated.StyleGuards.isEmphWrites, w.2.2.1 = "assign" →
      w.1 = "src/parse_styles.rs" ∧ w.2.1 = "parse_styles" ∧ w.2.2.2 = "true") ∧
    (∀ e ∈ Generated.StyleGuards.emphFlagSets, e.2 = "resolved") ∧
    (∀ f ∈ Generated.StyleGuards.configStyleKey.map (·.1),
      isEmphField f = (f == "minus_emph_style" || f == "plus_emph_style")) ∧
    (∀ given, AsParsed (configOf given)) :=
  ⟨isEmph_writes.1, isEmph_writes.2.1, isEmph_writes.2.2.2.1, isEmph_writes.2.2.2.2.1, configOf_asParsed⟩

open StyleGuards in
/-- **The guard `non_emph != emph` is always true**: both calls of `update_diff_style_sections` pass
`if config.X_non_emph_style != config.X_emph_style { Some(config.X_non_emph_style) } else { None }`; for every
configuration with the flags of `parse_styles()` — whatever colours, attributes and other flags the styles have, equal
strings included — the comparison is true (the emph style carries `is_emph`, the non-emph style does not, and `==` looks
at the flag), so the argument is `Some(non-emph style)`: the non-emph style is always applied. -/
theorem non_emph_guard_always_true (cfg : Cfg) (h : AsParsed cfg) :
    (∀ c ∈ Generated.StyleGuards.updateCalls, ∀ g, guardOf c.nonEmph = some g → evalGuard cfg g = true) ∧
    (∀ c ∈ Generated.StyleGuards.updateCalls, (guardOf c.nonEmph).isSome = true) ∧
    (∀ c, callOf .minus = some c → evalOpt cfg c.nonEmph = some (cfg "minus_non_emph_style")) ∧
    (∀ c, callOf .plus = some c → evalOpt cfg c.nonEmph = some (cfg "plus_non_emph_style")) := by
  have hsym : ∀ c ∈ Generated.StyleGuards.updateCalls,
      (guardOf c.nonEmph).all (fun g => symGuard g == some true) = true := by decide
  refine ⟨?_, by decide, ?_, ?_⟩
  · intro c hc g hg
    have := hsym c hc
    rw [hg] at this
    exact symGuard_sound cfg h g true (by simpa using this)
  · intro c hc
    obtain ⟨hm, hs⟩ := callOf_mem .minus c hc
    rw [symOpt_sound cfg h _ _ ((calls_args c hm).1 hs).2]; rfl
  · intro c hc
    obtain ⟨hm, hs⟩ := callOf_mem .plus c hc
    rw [symOpt_sound cfg h _ _ ((calls_args c hm).2 hs).2]; rfl

open StyleGuards in
/-- The user gives the same style to `minus-emph-style` and `minus-non-emph-style` (and another to `minus-style`): the
guard still holds, the unchanged sections of a paired removed line get the non-emph style, the changed one the emph
style, an unpaired line `minus-style`. -/
example :
    let given : String → GStyle := fun k =>
      if k == "minus-style" then ⟨1, false, false, false, false, 0⟩ else ⟨52, false, false, false, false, 0⟩
    paintedLine (configOf given) .minus true [(false, false), (true, false), (false, false)] =
      .ok [(⟨52, false, false, false, false, 0⟩, false), (⟨52, true, false, false, false, 0⟩, false),
           (⟨52, false, false, false, false, 0⟩, false)] ∧
    paintedLine (configOf given) .minus false [(false, false)] = .ok [(⟨1, false, false, false, false, 0⟩, false)] := by
  decide

open StyleGuards in
/-- **A style option is painted as given, whatever the other style options are** (hunk lines): for every configuration
with the flags of `parse_styles()`, every side, paired or not, every annotation of the line: `governs` — computed without
looking at any configured style — names for every section the `Config` field that governs it, and the section is painted
with exactly the configured style of that field. So the style a section shows depends on the value of one option only
(two configurations that agree on it paint the section alike), and the closed form of `governs` is the documented one:
on a removed line, and outside the trailing whitespace of an added line, a changed section shows `X-emph-style`, an
unchanged section of a paired line `X-non-emph-style`, an unchanged section of an unpaired line `X-style`. -/
theorem style_option_painted_as_given_whatever_the_others (cfg : Cfg) (h : AsParsed cfg) (side : Side)
    (homolog : Bool) (secs : List (Bool × Bool)) :
    ∃ g, governs side homolog secs = .ok g ∧
      paintedLine cfg side homolog secs = .ok (g.map fun p => (cfg p.1, p.2)) ∧
      (∀ cfg', AsParsed cfg' → ∃ out', paintedLine cfg' side homolog secs = .ok out' ∧
        ∀ i (hi : i < g.length) (hi' : i < out'.length), cfg' g[i].1 = cfg g[i].1 → out'[i].1 = cfg g[i].1) ∧
      (∀ pre s post, secs = pre ++ s :: post → (side = .minus ∨ ∃ t ∈ s :: post, t.2 = false) →
        ∃ gpre gpost, g = gpre ++ (hunkRule side homolog s.1, s.2) :: gpost ∧ gpre.length = pre.length) := by
  obtain ⟨g, hg⟩ := governs_ok side homolog secs
  refine ⟨g, hg, ?_, ?_, ?_⟩
  · rw [paintedLine_eq_governs cfg h, hg]; rfl
  · intro cfg' h'
    refine ⟨g.map fun p => (cfg' p.1, p.2), by rw [paintedLine_eq_governs cfg' h', hg]; rfl, ?_⟩
    intro i hi hi' he
    simpa using he
  · intro pre s post hs hb
    subst hs
    obtain ⟨gpre, gpost, h1, h2, _⟩ := governs_section side homolog pre post s g hg hb
    exact ⟨gpre, gpost, h1, h2⟩

open StyleGuards in
/-- An added paired line `unchanged · changed · unchanged · trailing blank`: the trailing blank section is the
whitespace-error style's, the rest follows `hunkRule`; unpaired: the style of the line. -/
example :
    governs .plus true [(false, false), (true, false), (false, false), (false, true)] =
      .ok [("plus_non_emph_style", false), ("plus_emph_style", false), ("plus_non_emph_style", false),
           ("whitespace_error_style", true)] ∧
    governs .plus false [(false, false), (false, true)] = .ok [("plus_style", false), ("whitespace_error_style", true)] ∧
    governs .minus true [(false, false), (true, false), (false, true)] =
      .ok [("minus_non_emph_style", false), ("minus_emph_style", false), ("minus_non_emph_style", true)] := by
  decide

open StyleGuards in
/-- **The `==` of `edits::annotate` on styles is a comparison of roles**: `get_diff_style_sections` instantiates the
annotation type with `Style` (`noop_deletion` = `minus-style`, `deletion` = `minus-emph-style`, likewise plus); every
comparison in `annotate` is `<side>_op_prev == <parameter of the same side>`, and for every value the variable can hold
and every configuration with the flags of `parse_styles()` the two styles are equal exactly when they are the same
parameter — whatever the user's style strings (equal ones included). -/
theorem annotation_comparisons_are_structural (cfg : Cfg) (h : AsParsed cfg) :
    ∀ c ∈ Generated.StyleGuards.annotateComparisons, c.2.1 = "==" ∧
      ∀ v ∈ prevValues c.1, ∃ fv fr, annotationField v = some fv ∧ annotationField c.2.2 = some fr ∧
        styleEq (cfg fv) (cfg fr) = (v == c.2.2) := by
  intro c hc
  obtain ⟨h1, _, h3⟩ := annotate_facts c hc
  refine ⟨h1, ?_⟩
  intro v hv
  have := h3 v hv
  cases hfv : annotationField v with
  | none => simp [hfv] at this
  | some fv =>
    cases hfr : annotationField c.2.2 with
    | none => simp [hfv, hfr] at this
    | some fr =>
      simp only [hfv, hfr, Option.bind_some] at this
      exact ⟨fv, fr, rfl, rfl, symCmp_sound cfg h (.style fv) (.style fr) _ this⟩

example : ("minus_op_prev", "==", "deletion") ∈ Generated.StyleGuards.annotateComparisons ∧
    StyleGuards.prevValues "minus_op_prev" = ["noop_deletion", "deletion", "noop_deletion"] := by decide

open StyleGuards in
/-- **Every test on a configured style in src/ is one of those modelled or reviewed** (generated inventory): two whole
`Style` values are compared in five functions only (`reviewedComparisonPlaces`: the guards and `annotate` above,
`style_sections_contain_more_than_one_style`, the coalescing of `superimpose_style_sections`, and
`blame_metadata_style` on a style parsed from git's colours); a configured style is an operand of `==` / `!=` only in
`paint_minus_and_plus_lines`, and only the operands of the modelled guards; the parts of configured styles that are read
are exactly `reviewedPartsRead` (each in the code that writes that option's own element, or deciding whether syntect
runs); `is_emph` of a configured style is never read. -/
theorem configured_style_tests_are_modelled :
    Generated.StyleGuards.styleComparisonPlaces = reviewedComparisonPlaces ∧
    Generated.StyleGuards.configStylePartsRead = reviewedPartsRead ∧
    (∀ r ∈ Generated.StyleGuards.configStyleReads, r.use = "cmp" →
      r.file = "src/paint.rs" ∧ r.inFn = "paint_minus_and_plus_lines" ∧
      r.field ∈ Generated.StyleGuards.updateCalls.flatMap fun c => optOperands c.wsErr ++ optOperands c.nonEmph) ∧
    (∀ r ∈ Generated.StyleGuards.configStyleReads, r.use = "part" → r.detail ≠ "is_emph") :=
  inventory_facts

/-! ### Decoration words inside style strings (`src/parse_style.rs`, `src/config.rs`)

`box`, `ul`, `ol`, `underline`, `overline`, `none`, `plain` select the decoration drawn around commit / file / hunk-header /
merge-conflict / grep header text. They are read by `_extract_special_decoration_attributes` (word table:
`Generated.StyleTables.decoWords`) in two contexts: a `*-decoration-style` string (`DecorationStyle::from_str`) and the
element's own style string (`Style::from_str_with_handling_of_special_decoration_attributes`, the parser of the eleven
sites of `Generated.StyleSites` with that callee). `Generated.DecoArms` holds the `bitflags!` bits, the arms of the two
`match special_attributes`, the checks and the `--color-only` block of `Config::from`; `DecoWords.parseDecoT` /
`fromStrSpecialT` / `configStyleT` run them. `DecoWords.stripped s` = the style string with its decoration words removed,
`DecoWords.textPart st` = what the painted text carries (colours, attributes, omit / raw / syntax). -/

open DecoWords in
/-- **The hand-written decoration model is the source's match arms**: evaluated arm by arm over the generated tables,
`DecorationStyle::from_str` and `from_str_with_handling_of_special_decoration_attributes` are the functions
`DeltaStyle.parseDeco` / `fromStrSpecial` that the `style.parse` correspondence, `DrawTextRun` and the theorems above use. -/
theorem decoration_model_follows_the_source_arms (env : Env) (d : Option DStyle) (s : List Char)
    (decoS : Option (List Char)) :
    parseDecoT env s = parseDeco env s ∧ fromStrSpecialT env d s decoS = fromStrSpecial env d s decoS :=
  ⟨parseDecoT_eq env s, fromStrSpecialT_eq env d s decoS⟩

example : DecoWords.fromStrSpecialT ⟨true, fun _ _ _ => 0⟩ none "Yellow BOX ul".toList (some "blue ul".toList) =
    .ok { ansi := { fg := some (.basic 3), underline := true }, deco := some (.box, { fg := some (.basic 4) }) } := by
  decide

open DecoWords in
/-- **(a, c) Decoration words never change the text's colours and attributes**: the text part of an element style is
the parse — hence, by `parse_eq_denote`, the declarative reading — of the string with its decoration words removed; the
decoration option's string plays no part in it. So two style strings that differ only in decoration words (and any two
decoration strings) give text painted alike. -/
theorem decoration_words_never_change_text_attributes (env : Env) (d : Option DStyle) (s : List Char)
    (decoS : Option (List Char)) (st : DStyle) (h : fromStrSpecial env d s decoS = .ok st) :
    denote env d (stripped s) = .ok (textPart st) ∧ st.isEmph = false ∧
    (∀ s' decoS' st', fromStrSpecial env d s' decoS' = .ok st' → stripped s' = stripped s → textPart st' = textPart st) := by
  obtain ⟨h1, h2, _⟩ := fromStrSpecial_ok env d s decoS st h
  refine ⟨by rw [← parse_eq_denote]; exact h1, h2, ?_⟩
  intro s' decoS' st' h' hs
  have h1' := (fromStrSpecial_ok env d s' decoS' st' h').1
  rw [hs, h1] at h1'
  injection h1' with h1'
  exact h1'.symm

/-- `--file-style 'yellow ul box'` with `--file-decoration-style 'blue ol'` and `--file-style 'ul yellow'` with no
decoration: the same text part (yellow, underlined). -/
example : DecoWords.stripped "yellow ul box".toList = "yellow ul".toList ∧
    (fromStrSpecial ⟨true, fun _ _ _ => 0⟩ none "yellow ul box".toList (some "blue ol".toList)).map DecoWords.textPart =
      .ok { ansi := { fg := some (.basic 3), underline := true } } ∧
    (fromStrSpecial ⟨true, fun _ _ _ => 0⟩ none "ul yellow".toList none).map DecoWords.textPart =
      .ok { ansi := { fg := some (.basic 3), underline := true } } := by decide

open DecoWords in
/-- **(a) The exact rule, per kind of option.** In an element's own style string (clean words: lower case, no quotes)
attribute `a` is set exactly when some word is an attribute word for `a` that is *not* taken out as a decoration request,
and the decoration requested is that of the words of `wordsFor false`; in a `*-decoration-style` string the shape is that
of the words of `wordsFor true`. On the generated tables: `ul` is a text attribute in an element style and a shape word
only in a decoration string; `underline` is a text attribute for the parser (`minus-style` etc.) but in an element style it
is taken out as a decoration request and never underlines the text; likewise `box` / `overline`; `ol` is a shape word in a
decoration string only (elsewhere it is read as a colour and rejected); `none` / `plain` are dropped in both. -/
theorem decoration_words_exact_rule :
    (∀ env d s decoS st, CleanWords (words s) → fromStrSpecial env d s decoS = .ok st →
      (∀ a, st.ansi.get a = (words s).any fun w => decide (w ∈ attrWords a ∧ w ∉ elementDecoWords)) ∧
      (extractDeco false s).1 =
        ⟨(words s).any fun w => decide (w ∈ wordsFor false "BOX"), (words s).any fun w => decide (w ∈ wordsFor false "OVERLINE"),
         (words s).any fun w => decide (w ∈ wordsFor false "UNDERLINE")⟩) ∧
    (∀ s, (extractDeco true s).1 =
        ⟨(words s).any fun w => decide (w ∈ wordsFor true "BOX"), (words s).any fun w => decide (w ∈ wordsFor true "OVERLINE"),
         (words s).any fun w => decide (w ∈ wordsFor true "UNDERLINE")⟩) ∧
    attrWords .underline = ["ul", "underline"] ∧
    elementDecoWords = ["box", "overline", "underline", "none", "plain"] ∧
    (wordsFor false "BOX", wordsFor false "OVERLINE", wordsFor false "UNDERLINE") = (["box"], ["overline"], ["underline"]) ∧
    (wordsFor true "BOX", wordsFor true "OVERLINE", wordsFor true "UNDERLINE") =
      (["box"], ["overline", "ol"], ["underline", "ul"]) ∧
    (∀ a, a ≠ Sgr.Attr.underline → ∀ w ∈ attrWords a, w ∉ elementDecoWords) ∧
    effectOf "ol" = none ∧ effectOf "box" = none ∧ effectOf "overline" = none :=
  ⟨fun env d s decoS st hc h => element_style_rule env d s decoS st hc h, decoration_string_rule,
   by decide, by decide, by decide, by decide, by intro a; cases a <;> decide, by decide, by decide, by decide⟩

/-- The hypothesis `CleanWords` is met by ordinary strings, and is needed: a quoted empty word is a colour word (an
error) for the parser, but vanishes when the stripped string is re-joined. -/
example : DecoWords.CleanWords (words "yellow ul box #ffeeee".toList) ∧
    ¬ DecoWords.CleanWords (words "red ''".toList) ∧
    (fromStrSpecial ⟨true, fun _ _ _ => 0⟩ none "red ''".toList none).map DecoWords.textPart =
      .ok { ansi := { fg := some (.basic 1) } } ∧
    denoteWords ⟨true, fun _ _ _ => 0⟩ none ((words "red ''".toList).filter fun w => (DecoWords.classify false w).isNone) =
      .error (.invalidColor "") := by decide

/-- **`ul` and `underline` are not synonyms in an element style** (witness; `delta --help`, STYLES: "'ul' (or
'underline')", "All options that have a name like --*-style work the same way"): `--file-style 'yellow ul'` underlines
the file name and requests no decoration; `--file-style 'yellow underline'` does not underline it and requests an underline
rule instead — while in `--minus-style` both spellings underline the text. -/
theorem underline_spelling_in_element_style_is_a_decoration_request :
    (fromStrSpecial ⟨true, fun _ _ _ => 0⟩ none "yellow ul".toList (some "none".toList)) =
      .ok { ansi := { fg := some (.basic 3), underline := true }, deco := none } ∧
    (fromStrSpecial ⟨true, fun _ _ _ => 0⟩ none "yellow underline".toList (some "none".toList)) =
      .ok { ansi := { fg := some (.basic 3), underline := false }, deco := some (.ul, {}) } ∧
    (parseAnsi ⟨true, fun _ _ _ => 0⟩ none "yellow underline".toList) = parseAnsi ⟨true, fun _ _ _ => 0⟩ none "yellow ul".toList := by
  decide

open DecoWords in
/-- **(b) The decoration kind is a function of the set of decoration words only**: two strings whose word lists have the
same members — any order, any repetition, any letter case (`words` sees the lower-cased string only) — request the same
decoration attributes, in a decoration string (`b = true`) and in an element style (`b = false`); and the words that matter
are those of the generated table (every other word stays in the style string). -/
theorem decoration_kind_depends_on_word_set_only (b : Bool) (s s' : List Char)
    (h : ∀ w, w ∈ words s ↔ w ∈ words s') :
    (extractDeco b s).1 = (extractDeco b s').1 ∧ (extractDeco b s).1.kind = (extractDeco b s').1.kind ∧
    (∀ t t' : List Char, lower t = lower t' → extractDeco b t = extractDeco b t') ∧
    (∀ w flag, classify b w = some flag → w ∈ Generated.StyleTables.decoWords.map (·.1)) := by
  have h1 : (extractDeco b s).1 = (extractDeco b s').1 := by
    unfold extractDeco
    exact attrs_of_same_word_set b _ _ h
  refine ⟨h1, by rw [h1], ?_, classify_some_mem b⟩
  intro t t' ht
  simp [extractDeco, words, ht]

example : (∀ w, w ∈ words "ol red BOX ul ul".toList ↔ w ∈ words "Ul box 'red' OL box".toList) ∧
    (extractDeco true "ol red BOX ul ul".toList).1.kind = some .boxulol := by
  refine ⟨?_, by decide⟩
  have h1 : words "ol red BOX ul ul".toList = ["ol", "red", "box", "ul", "ul"] := by decide
  have h2 : words "Ul box 'red' OL box".toList = ["ul", "box", "red", "ol", "box"] := by decide
  intro w
  rw [h1, h2]
  simp only [List.mem_cons, List.not_mem_nil, or_false]
  constructor <;> (intro h; rcases h with h | h | h | h | h <;> simp [h])

open DecoWords in
/-- **(d) Conflicting requests resolve as the match arms say, totally.** Every set of decoration attributes is caught by
an explicit arm of `DecorationStyle::from_str` (kind = `DecoAttrs.kind` of the set: `box` + `ul` + `ol` =
`BoxWithUnderOverline`, …) and of `apply_special_decoration_attributes` (no word: the decoration option's own decoration is
kept; otherwise the words' kind *replaces* the option's kind and keeps its colours); the trailing arms (`_ if is_omitted`,
`_ => delta_unreachable`, `_ => NoDecoration`) are dead: for no style string, decoration string, default and depth does
either parser reach `delta_unreachable`, and the only failures are the fatal errors of the two word parses (an invalid colour
word, a third colour, `syntax` as background; `raw` / `syntax` in a decoration string). -/
theorem conflicting_decoration_requests_resolve_totally (env : Env) (d : Option DStyle) (s : List Char)
    (decoS : Option (List Char)) :
    (∀ a om, runArms Generated.DecoArms.decoFromStrArms (attrBits a) om = .kind a.kind) ∧
    (∀ a, runArms Generated.DecoArms.decoApplyArms (attrBits a) false =
      (match a.kind with | none => .keep | some k => .kind (some k))) ∧
    parseDecoT env s ≠ .error .unreachable ∧
    fromStrSpecialT env d s decoS ≠ .error .unreachable ∧
    (∀ e, fromStrSpecialT env d s decoS = .error e →
      parseAnsi env d (stripped s) = .error e ∨ parseDecoT env (decoS.getD []) = .error e) ∧
    (∀ st, fromStrSpecialT env d s decoS = .ok st → ∃ dd, parseDecoT env (decoS.getD []) = .ok dd ∧
      st.deco = (match (extractDeco false s).1.kind with
        | none => dd
        | some k => some (k, match dd with | some (_, a) => a | none => {}))) := by
  refine ⟨runArms_fromStr, runArms_apply, ?_, ?_, ?_, ?_⟩
  · rw [parseDecoT_eq]; exact parseDeco_not_unreachable env s
  · rw [fromStrSpecialT_eq]; exact fromStrSpecial_not_unreachable env d s decoS
  · intro e h
    rw [fromStrSpecialT_eq] at h
    rw [parseDecoT_eq]
    exact fromStrSpecial_error env d s decoS e h
  · intro st h
    rw [fromStrSpecialT_eq] at h
    rw [parseDecoT_eq]
    exact (fromStrSpecial_ok env d s decoS st h).2.2

/-- `--file-style 'yellow box'` over the default `--file-decoration-style 'blue ul'`: a blue box, not a box with an
underline (the words' kind replaces the option's); `box ul ol` in one decoration string is the seventh variant; an
element style that is only decoration words leaves the text plain. -/
example :
    (fromStrSpecial ⟨true, fun _ _ _ => 0⟩ none "yellow box".toList (some "blue ul".toList)).map (·.deco) =
      .ok (some (.box, { fg := some (.basic 4) })) ∧
    parseDeco ⟨true, fun _ _ _ => 0⟩ "ol red box bold green ul".toList =
      .ok (some (.boxulol, { fg := some (.basic 1), bg := some (.basic 2), bold := true })) ∧
    (fromStrSpecial ⟨true, fun _ _ _ => 0⟩ none "overline underline".toList none) =
      .ok { deco := some (.ulol, {}) } ∧
    parseDeco ⟨true, fun _ _ _ => 0⟩ "raw ul".toList = .error .rawInDecoration := by decide

open DecoWords in
/-- **`--color-only` ignores decorations requested inside a style string** (repair 7cc61e9): for the styles whose
`*-decoration-style` option `set_options` resets under `--color-only` — which are exactly the keys the block of `Config::from`
clears (generated: guard `opt.color_only`, value `NoDecoration`) — the configured style has no decoration whatever words
either string holds, and its text part is that of the same strings without `--color-only`; without `--color-only`
nothing is cleared. -/
theorem color_only_ignores_decoration_words (env : Env) (key : String) (s : List Char) (decoS : Option (List Char)) :
    Generated.DecoArms.colorOnlyClears = ["commit-style", "file-style", "hunk-header-style"] ∧
    ((Generated.StyleSites.styleCallSites.filter fun x =>
        x.kind = "option" ∧ x.callee = "style_from_str_with_handling_of_special_decoration_attributes" ∧
        StyleRewrites.colorOnlyFields.any fun f => x.decoArg == "Some(&opt." ++ f ++ ")").map (·.name)) =
      Generated.DecoArms.colorOnlyClears ∧
    (key ∈ Generated.DecoArms.colorOnlyClears → ∀ st, configStyleT env true key s decoS = .ok st →
      st.deco = none ∧ ∃ st0, fromStrSpecial env none s decoS = .ok st0 ∧ textPart st = textPart st0) ∧
    configStyleT env false key s decoS = fromStrSpecial env none s decoS := by
  refine ⟨by decide, by decide, ?_, ?_⟩
  · intro hk st h
    unfold configStyleT at h
    rw [fromStrSpecialT_eq] at h
    cases h0 : fromStrSpecial env none s decoS with
    | error e => simp [h0] at h
    | ok st0 =>
      simp only [h0, clear_true key st0 hk] at h
      injection h with h
      subst h
      exact ⟨rfl, st0, rfl, rfl⟩
  · unfold configStyleT
    rw [fromStrSpecialT_eq]
    cases fromStrSpecial env none s decoS with
    | error e => rfl
    | ok st0 => simp only [clear_false]

/-- `--color-only --file-style 'yellow box ul'` (any decoration string): yellow, underlined text, no decoration. -/
example : DecoWords.configStyleT ⟨true, fun _ _ _ => 0⟩ true "file-style" "yellow box ul".toList (some "blue ol".toList) =
    .ok { ansi := { fg := some (.basic 3), underline := true }, deco := none } ∧
    DecoWords.configStyleT ⟨true, fun _ _ _ => 0⟩ false "file-style" "yellow box ul".toList (some "blue ol".toList) =
    .ok { ansi := { fg := some (.basic 3), underline := true }, deco := some (.box, { fg := some (.basic 4) }) } := by decide

end C12
