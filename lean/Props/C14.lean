import Proofs.Machine.HunkHeaders
import Proofs.Machine.FileHeaders
import Proofs.Machine.FileHeaders5
import Proofs.Machine.MiscSource
import Proofs.Machine.SubmoduleLogSource
import Proofs.Machine.HunkRowsShape
import Proofs.Machine.CommitBlocksEx
import Proofs.Machine.CommitMetaSource
import Proofs.Machine.CommitBlocksExHH
import Proofs.Machine.NoPendingEx
import Proofs.Machine.CombinedHeadersEx
import Proofs.Machine.PlainHeadersEx
import Proofs.Machine.PlainHeaders2Ex
import Proofs.Headers.Paths
import Proofs.Headers.HunkHeader
/-!
C14 — one header per file section (right file, right event) and one per hunk.

Path extraction, hunk-header matching and the description text are functions of
`DeltaModel/Headers.lean`; the write-once bookkeeping is part of `DeltaModel/Machine.lean`.
-/
set_option linter.unusedSimpArgs false
namespace C14
open Machine Headers Generated

/-- `repeated_path`: `diff --git <p1><X> <p2><X>` yields `X` for every path `X` (given as its
grapheme clusters: blanks, non-ASCII, anything) and every pair of mnemonic prefixes. -/
theorem repeated_path (line : Str) (p1 p2 : Str) (X : List Str)
    (hl : startsWith line Markers.diffGit = true)
    (hp1 : p1 ∈ Markers.diffPrefixes) (hp2 : p2 ∈ Markers.diffPrefixes)
    (hx1 : (p1 ++ X.flatten).getLast? ≠ some '\t') (hx2 : (p2 ++ X.flatten).getLast? ≠ some '\t') :
    repeatedFilePath line (singles p1 ++ X ++ [[' ']] ++ singles p2 ++ X) = some X.flatten :=
  Headers.repeated_path line p1 p2 X hl hp1 hp2 hx1 hx2

example : (match repeatedFilePath "diff --git a/my file.rs b/my file.rs".toList
    (singles "a/".toList ++ singles "my file.rs".toList ++ [[' ']] ++ singles "b/".toList ++ singles "my file.rs".toList) with
  | some p => p == "my file.rs".toList
  | _ => false) = true := by decide

/-- the slice offsets of `parse_diff_header_line` are the lengths of the literals they follow -/
theorem offsets_eq_prefix_len :
    ∀ r ∈ Markers.parseDiffHeaderLine, r.2.1 = r.1.length := by decide

/-- `hunk_header_fragment_intact`: the code fragment after the closing `@@` is captured unchanged. -/
theorem hunk_header_fragment_intact (k j : Nat) (hk : 0 < k) (hj : 0 < j) (c f : Str)
    (hc : c ≠ []) (hcat : ∀ x ∈ c, x ≠ '@') (hf : f.head? ≠ some '@') :
    searchHunkHeader (List.replicate k '@' ++ ' ' :: (c ++ (List.replicate j '@' ++ f))) = some (c, f) :=
  Headers.hunk_header_fragment_intact k j hk hj c f hc hcat hf

example : (match parseHunkHeader "@@ -74,15 +75,14 @@ pub fn delta(".toList with
  | some h => h.coords == [(74, 15), (75, 14)] && h.fragment == " pub fn delta(".toList
  | _ => false) = true := by decide

/-- `hunk_header_row_carries_fragment`: when the style shows the fragment, the hunk-header row ends
with the fragment (followed by one blank), tabs expanded, nothing else changed. -/
theorem hunk_header_row_carries_fragment (cfg : Cfg) (m : M) (hh : HunkHeader) (line : Str) (n : Nat) (t : Str)
    (hco : cfg.colorOnly = false) (hfr : cfg.hhFragment = true) (hne : hh.fragment ≠ [])
    (e : hunkHeaderTextOf cfg m hh line n = some t) :
    ∃ pre, t = pre ++ Text.expand cfg.tab (hh.fragment ++ [' ']) := by
  unfold hunkHeaderTextOf at e
  simp only [hco, Bool.false_eq_true, if_false, hfr, hne, ne_eq, not_false_eq_true, and_self, if_true] at e
  simp only [List.append_eq_nil_iff, List.cons_ne_self, and_false, false_and, if_false,
    Option.some.injEq, reduceCtorEq] at e
  exact ⟨_, e.symm⟩

/-- `header_written_once`: at a `+++ ` / `rename to` / `copy to` line whose file pair has not been
announced yet, exactly the header rows (a blank row and the decorated description) are written,
after everything buffered, and the pair is remembered … -/
theorem header_written_once (cfg : Cfg) (m1 : M) (l : L)
    (hco : cfg.colorOnly = false) (hsh : shouldHandle cfg m1 = true)
    (hnew : m1.handledPair ≠ m1.currentPair) (hom : cfg.fileStyle.isOmitted = false) :
    (plusLineFinish cfg m1 l).2.handledPair = (plusLineFinish cfg m1 l).2.currentPair ∧
    (plusLineFinish cfg m1 l).2.currentPair = m1.currentPair ∧
    (plusLineFinish cfg m1 l).2.out = m1.out ++ m1.buf ++
      ({ kind := .blank, text := [], src := m1.n } ::
        drawRows cfg.fileStyle .file
          (fileChangeDescription cfg.labels m1.minusFile m1.plusFile (m1.source = .diffUnified) m1.minusEvent)
          (fileChangeDescription cfg.labels m1.minusFile m1.plusFile (m1.source = .diffUnified) m1.minusEvent)
          m1.modeInfo m1.n) := by
  unfold plusLineFinish
  have hw : (shouldWriteGeneric cfg m1 l).1 = false := by simp [shouldWriteGeneric, hco]
  simp only [hw, Bool.false_eq_true, if_false, hsh, hnew, ne_eq, not_false_eq_true, and_self, if_true]
  simp [handleHeaderLine, writeGeneric, hom, hco, emit, direct]

/-- … so that a second header line of the same section (`+++ ` after `rename to`) writes nothing. -/
theorem header_not_repeated (cfg : Cfg) (m1 : M) (l : L)
    (hco : cfg.colorOnly = false) (hold : m1.handledPair = m1.currentPair) :
    (plusLineFinish cfg m1 l).2 = m1 := by
  unfold plusLineFinish
  have hw : (shouldWriteGeneric cfg m1 l).1 = false := by simp [shouldWriteGeneric, hco]
  simp [hw, hold]

-- the description names the right file(s) and event -----------------------------------

theorem description_modified (lb : Labels) (p : Str) (ev : FileEvent) :
    fileChangeDescription lb p p false ev = formatLabel lb.modified ++ p := by
  simp [fileChangeDescription]

theorem description_removed (lb : Labels) (p : Str) (ev : FileEvent) (h : p ≠ Markers.devNull) :
    fileChangeDescription lb p Markers.devNull false ev = formatLabel lb.removed ++ p := by
  simp [fileChangeDescription, h]

theorem description_added (lb : Labels) (p : Str) (ev : FileEvent) (h : p ≠ Markers.devNull) :
    fileChangeDescription lb Markers.devNull p false ev = formatLabel lb.added ++ p := by
  simp [fileChangeDescription, h, Ne.symm h]

theorem description_renamed (lb : Labels) (a b : Str) (hab : a ≠ b) (ha : a ≠ Markers.devNull)
    (hb : b ≠ Markers.devNull) :
    fileChangeDescription lb a b false .rename =
      formatLabel lb.renamed ++ a ++ [' '] ++ lb.rightArrow ++ [' '] ++ b := by
  simp [fileChangeDescription, hab, ha, hb]

theorem description_copied (lb : Labels) (a b : Str) (hab : a ≠ b) (ha : a ≠ Markers.devNull)
    (hb : b ≠ Markers.devNull) :
    fileChangeDescription lb a b false .copy =
      formatLabel lb.copied ++ a ++ [' '] ++ lb.rightArrow ++ [' '] ++ b := by
  simp [fileChangeDescription, hab, ha, hb]

/-- plain `diff -u`: both paths, old then new -/
theorem description_comparing (lb : Labels) (a b : Str) (ev : FileEvent) :
    fileChangeDescription lb a b true ev =
      formatLabel lb.modified ++ a ++ [' '] ++ lb.rightArrow ++ [' '] ++ b := by
  simp [fileChangeDescription]

/-- mode changes are reported in the header's addendum -/
theorem mode_change_reported (cfg : Cfg) :
    modeInfoText cfg "100644".toList "100755".toList = "mode +x".toList ∧
    modeInfoText cfg "100755".toList "100644".toList = "mode -x".toList := by
  constructor <;> (unfold modeInfoText; simp)

-- whole runs: one hunk-header row per hunk ---------------------------------------------

/-- **`one_header_row_per_hunk`** (whole runs). For every configuration in which the hunk header is a
row of its own (`HHC`: hunk-header-style not raw, not omitted, not color-only, line number shown —
the default) and every input whose first line identifies a git diff, that opens no merge-conflict
region, in which no hunk-header line matches the commit regex and every hunk-header line is followed
by a line of its hunk (`FollowedG`): the hunk-header rows of delta's output are, in input order,
exactly one for each hunk-header line of the input. (The header of a hunk is written when the
first line of the hunk arrives; `hunk_header_row_carries_fragment` says what it shows.) -/
theorem one_header_row_per_hunk {cfg : Cfg} (hc : HHC cfg) {d : L} {ls : List L} {m : M}
    (hd : detectSource d.text = .gitDiff)
    (hl : ∀ l ∈ d :: ls, startsWith l.text Markers.mcBegin = false ∧ (isHHLine l = true → l.commitRe = false))
    (hf : FollowedG false (d :: ls)) (e : run cfg (d :: ls) = .ok m) :
    (m.out.filter (fun r => pHH r.kind)).map (·.src) = hhIndices 0 (d :: ls) :=
  run_one_header_row_per_hunk hc hd hl hf e

/-- a plain input line for the examples -/
def mkL (s : String) : L :=
  { raw := s.toList, text := s.toList, graphemes := s.toList.map (fun c => [c]),
    commitRe := false, blame := false, grep := 0, submodule := none }

def twoHunks : List L :=
  ["diff --git a/x b/x", "--- a/x", "+++ b/x", "@@ -1,2 +1,2 @@ fn f()", " ctx", "-old", "+new",
   "@@ -10 +10 @@ fn g()", "-a", "+b", "diff --git a/y b/y", "--- a/y", "+++ b/y", "@@ -3 +3 @@", "+z"].map mkL

/-- the hypotheses are satisfiable (default configuration) and the conclusion is what the model computes -/
example : HHC ({} : Cfg) := ⟨rfl, rfl, rfl, rfl⟩
example : FollowedG false twoHunks := followedG_of_b _ _ (by decide)
example : hhIndices 0 twoHunks = [3, 7, 13] := by decide
example : (match run {} twoHunks with
    | .ok m => (m.out.filter (fun r => pHH r.kind)).map (·.src) == [3, 7, 13]
    | .error _ => false) = true := by decide

/-- the hypothesis `FollowedG` is needed: a hunk-header line that is not followed by a line of its hunk
(here: directly by the next file) gets no header row at all -/
theorem dangling_hunk_header_has_no_row :
    (match run {} (["diff --git a/x b/x", "--- a/x", "+++ b/x", "@@ -1 +1 @@", "diff --git a/y b/y"].map mkL) with
     | .ok m => (m.out.filter (fun r => pHH r.kind)).map (·.src)
     | .error _ => [99]) = [] := by decide

/-- **`one_file_header_per_section`** (whole runs, `Proofs/Machine/FileHeaders.lean`). For every
configuration in which the file header is a row of its own (not color-only; file style neither raw
nor omitted: `FHC`) and every git diff made of ordinary sections — a `diff --git` line, index-like
lines (`Noise`) and `new file mode` / `deleted file mode` lines, the line naming the old file (`--- `,
`rename from `, `copy from `), the line naming the new file (`+++ `, `rename to `, `copy to `), for a
renamed or copied file with changes the two names once more (`again`), then hunk-header lines and hunk lines starting with a
hunk-header line (`Sec.WF`) — the file-header rows of delta's output are, in order, exactly one per
section (`rowsOf`): the row written at the line that names the section's new file, whose text is the description of the
two names and the event (change, rename, copy) those lines carry (`headerRow`, `fileChangeDescription`; see `description_*` above). No
section gets two headers, none is skipped, and no header names another section's file. -/
theorem one_file_header_per_section {cfg : Cfg} (hc : FHC cfg) (secs : List Sec) (w : ∀ s ∈ secs, s.WF) {m : M}
    (e : run cfg (linesOf secs) = .ok m) :
    m.out.filter (fun r => r.kind == .file) = rowsOf cfg 0 secs :=
  run_one_file_row_per_section hc secs w e

/-- two sections meeting the hypotheses (default configuration): a modified file and a deleted one -/
def secA : Sec :=
  { d := mkL "diff --git a/src/x.rs b/src/x.rs", noise := [mkL "index 1111111..2222222 100644"],
    mi := mkL "--- a/src/x.rs", pl := mkL "+++ b/src/x.rs",
    hunks := ["@@ -1,2 +1,2 @@ fn f()", " ctx", "-old", "+new", "@@ -10 +10 @@", "-a", "+b"].map mkL }
def secB : Sec :=
  { d := mkL "diff --git a/y.txt b/y.txt", noise := [mkL "deleted file mode 100644", mkL "index 1111111..0000000"],
    mi := mkL "--- a/y.txt", pl := mkL "+++ /dev/null", hunks := ["@@ -1 +0,0 @@", "-gone"].map mkL }

example : FHC ({} : Cfg) := ⟨rfl, rfl, rfl⟩

theorem noise_index : Noise (mkL "index 1111111..2222222 100644") :=
  { hunkHeader := by decide, oldMode := by decide, newMode := by decide, binary := by decide, submodule := by decide,
    commit := rfl, diff := by decide, fileOp := by decide, minus := by decide, plus := by decide }

theorem bodyL_of (c : Char) (rest : String) (h : isMarker c = true) : BodyL (mkL (String.ofList (c :: rest.toList))) :=
  ⟨⟨c, rest.toList, by simp [mkL], h⟩, rfl, rfl⟩

example : secA.WF :=
  { d := by decide
    noise := by
      intro x hx
      simp only [secA, List.mem_singleton] at hx
      subst hx; exact Or.inl noise_index
    mi := by decide
    pl := by decide
    again := by intro n2 a b h; simp [secA] at h
    hunks := by
      intro x hx
      simp only [secA, List.map, List.mem_cons, List.not_mem_nil, or_false] at hx
      rcases hx with h | h | h | h | h | h | h <;> subst h
      · exact Or.inl (by decide)
      · exact Or.inr ⟨⟨' ', "ctx".toList, rfl, rfl⟩, rfl, rfl⟩
      · exact Or.inr ⟨⟨'-', "old".toList, rfl, rfl⟩, rfl, rfl⟩
      · exact Or.inr ⟨⟨'+', "new".toList, rfl, rfl⟩, rfl, rfl⟩
      · exact Or.inl (by decide)
      · exact Or.inr ⟨⟨'-', "a".toList, rfl, rfl⟩, rfl, rfl⟩
      · exact Or.inr ⟨⟨'+', "b".toList, rfl, rfl⟩, rfl, rfl⟩
    first := by
      intro x hx
      simp only [secA, List.map, List.head?] at hx
      cases hx; decide }

theorem noise_index0 : Noise (mkL "index 1111111..0000000") :=
  { hunkHeader := by decide, oldMode := by decide, newMode := by decide, binary := by decide, submodule := by decide,
    commit := rfl, diff := by decide, fileOp := by decide, minus := by decide, plus := by decide }

example : secB.WF :=
  { d := by decide
    noise := by
      intro x hx
      simp only [secB, List.mem_cons, List.not_mem_nil, or_false] at hx
      rcases hx with h | h <;> subst h
      · exact Or.inr (by decide)
      · exact Or.inl noise_index0
    mi := by decide
    pl := by decide
    again := by intro n2 a b h; simp [secB] at h
    hunks := by
      intro x hx
      simp only [secB, List.map, List.mem_cons, List.not_mem_nil, or_false] at hx
      rcases hx with h | h <;> subst h
      · exact Or.inl (by decide)
      · exact Or.inr ⟨⟨'-', "gone".toList, rfl, rfl⟩, rfl, rfl⟩
    first := by
      intro x hx
      simp only [secB, List.map, List.head?] at hx
      cases hx; decide }

/-- a renamed file with changes: `rename from` / `rename to` name the two files, the `--- ` / `+++ ` lines name them again -/
def secC : Sec :=
  { d := mkL "diff --git a/old name.rs b/new.rs", noise := [mkL "similarity index 90%"],
    mi := mkL "rename from old name.rs", pl := mkL "rename to new.rs",
    again := some ([mkL "index 1111111..2222222 100644"], mkL "--- a/old name.rs\t", mkL "+++ b/new.rs"),
    hunks := ["@@ -1 +1 @@", "-a", "+b"].map mkL }

theorem noise_similarity : Noise (mkL "similarity index 90%") :=
  { hunkHeader := by decide, oldMode := by decide, newMode := by decide, binary := by decide, submodule := by decide,
    commit := rfl, diff := by decide, fileOp := by decide, minus := by decide, plus := by decide }

example : secC.WF :=
  { d := by decide
    noise := by
      intro x hx
      simp only [secC, List.mem_singleton] at hx
      subst hx; exact Or.inl noise_similarity
    mi := by decide
    pl := by decide
    again := by
      intro n2 a b h
      simp only [secC, Option.some.injEq, Prod.mk.injEq] at h
      obtain ⟨rfl, rfl, rfl⟩ := h
      refine ⟨?_, by decide, by decide, by decide, by decide⟩
      intro x hx
      simp only [List.mem_singleton] at hx
      subst hx; exact noise_index
    hunks := by
      intro x hx
      simp only [secC, List.map, List.mem_cons, List.not_mem_nil, or_false] at hx
      rcases hx with h | h | h <;> subst h
      · exact Or.inl (by decide)
      · exact Or.inr ⟨⟨'-', "a".toList, rfl, rfl⟩, rfl, rfl⟩
      · exact Or.inr ⟨⟨'+', "b".toList, rfl, rfl⟩, rfl, rfl⟩
    first := by
      intro x hx
      simp only [secC, List.map, List.head?] at hx
      cases hx; decide }

/-- the rename is reported once, at the `rename to` line, with its event and both names -/
example : rowsOf {} 0 [secC] = [{ kind := .file, text := "renamed: old name.rs ⟶   new.rs".toList, src := 3 }] := by decide
example : (match run {} (linesOf [secC, secA]) with
    | .ok m => m.out.filter (fun r => r.kind == .file) == rowsOf {} 0 [secC, secA]
    | .error _ => false) = true := by decide

/-- what the theorem says for these two sections: one row at each `+++ ` line (input lines 3 and 14),
the modified file under its name, the deleted one as removed -/
example : rowsOf {} 0 [secA, secB] =
    [{ kind := .file, text := "src/x.rs".toList, src := 3 }, { kind := .file, text := "removed: y.txt".toList, src := 15 }] := by
  decide

/-- … and it is what the model computes for them -/
example : (match run {} (linesOf [secA, secB]) with
    | .ok m => m.out.filter (fun r => r.kind == .file) == rowsOf {} 0 [secA, secB]
    | .error _ => false) = true := by decide

-- whole runs: one file header per section, every kind of section ------------------------------

/-- **`one_file_header_per_section_any`** (whole runs, `Proofs/Machine/FileHeaders2.lean` … `FileHeaders5.lean`).
For every configuration in which the file header is a row of its own (`FHC`) and every git diff that is a
list of sections of the kinds git produces (`Sec2`, `Sec2.WF`; decidable form `Sec2.wfb`) —
* a file section: `diff --git` line, optionally `old mode` / `new mode`, index-like lines and `new file mode` /
  `deleted file mode` lines, and then one of
  - the lines naming the old and the new file (`--- `/`+++ `, `rename from/to`, `copy from/to`), for a renamed
    or copied file with changes the names once more, hunks (`Body.named`: the sections of
    `one_file_header_per_section`, now also with a mode change);
  - the two names, index-like lines and a `Binary files … differ` line (`Body.namedBinary`: renamed binary file with changes);
  - `--- `, `+++ `, a hunk header, `-Subproject commit <hash>`, `+Subproject commit <hash>` (`Body.submodule`: short form),
    or a single `Subproject commit` line for an added or removed submodule (`Body.submodule1`);
  - nothing (`Body.bare`: mode-only change, empty added or deleted file);
  - a `Binary files … differ` line (`Body.binary`; the `diff --git` line must repeat one path, or the file be added / deleted);
* a submodule log: a `Submodule <path> <old>..<new>:` line and its log lines (`Sec2.log`), anywhere — also directly
  after a `bare` / `binary` section (excluded by hypothesis until `handle_submodule_log_line` was repaired to write the
  pending header first; see `late_header_written_before_submodule_log` below) —
the file-header rows of delta's output are, in order, exactly one per section (`rowsOf2`):
for a section that names its files the row written at the line naming the new file (description of the two names
and the event, the mode change in parentheses: `headerRowA`); for a `bare` / `binary` section the row written *late*
— its input index is that of the next section's first line (a `diff --git` line or a `Submodule …:` line), or the number
of input lines at the end of input — that shows, with a mode change, the name of the `diff --git` line and the mode change, otherwise the description of
(name, name), (`/dev/null`, name) after `new file mode`, (name, `/dev/null`) after `deleted file mode`, with
` (binary file)` appended to the names of a binary file (`lateText`, `lateNames`, `binNames`); for a submodule log the
`Submodule …:` line itself. No section gets two headers, none is skipped, none is out of order. -/
theorem one_file_header_per_section_any {cfg : Cfg} (hc : FHC cfg) (secs : List Sec2) (w : ∀ s ∈ secs, s.WF)
    {m : M} (e : run cfg (linesOf2 secs) = .ok m) :
    m.out.filter (fun r => r.kind == .file) = rowsOf2 cfg 0 secs :=
  run_one_file_row_per_section2 hc secs w e

/-- … in particular: as many file-header rows as sections -/
theorem file_header_count_any {cfg : Cfg} (hc : FHC cfg) (secs : List Sec2) (w : ∀ s ∈ secs, s.WF)
    {m : M} (e : run cfg (linesOf2 secs) = .ok m) :
    (m.out.filter (fun r => r.kind == .file)).length = secs.length := by
  rw [one_file_header_per_section_any hc secs w e, rowsOf2_length]

/-- a `Subproject commit` line with the hash the implementation's regex captures -/
def mkS (s : String) (c : String) : L := { mkL s with submodule := some c.toList }

def sModified : Sec2 := .file {
  d := mkL "diff --git a/y b/y", noise := [mkL "index 1111111..2222222 100644"],
  body := .named (mkL "--- a/y") (mkL "+++ b/y") none (["@@ -1 +1 @@", "-a", "+b"].map mkL) }
def sModeOnly : Sec2 := .file {
  d := mkL "diff --git a/run.sh b/run.sh", modes := some (mkL "old mode 100644", mkL "new mode 100755"), body := .bare }
def sBinary : Sec2 := .file {
  d := mkL "diff --git a/img.png b/img.png", noise := [mkL "index 1111111..2222222 100644"],
  body := .binary (mkL "Binary files a/img.png and b/img.png differ") }
def sEmptyNew : Sec2 := .file {
  d := mkL "diff --git a/e.txt b/e.txt", noise := [mkL "new file mode 100644", mkL "index 0000000..e69de29"], body := .bare }
def sModeAndHunks : Sec2 := .file {
  d := mkL "diff --git a/x b/x", modes := some (mkL "old mode 100644", mkL "new mode 100755"),
  noise := [mkL "index 1111111..2222222"],
  body := .named (mkL "--- a/x") (mkL "+++ b/x") none (["@@ -1 +1 @@", "-a", "+b"].map mkL) }
def sRenamedMode : Sec2 := .file {
  d := mkL "diff --git a/o b/n", modes := some (mkL "old mode 100755", mkL "new mode 100644"),
  noise := [mkL "similarity index 100%"], body := .named (mkL "rename from o") (mkL "rename to n") none [] }
def sSubShort : Sec2 := .file {
  d := mkL "diff --git a/sub b/sub", noise := [mkL "index 1111111..2222222 160000"],
  body := .submodule (mkL "--- a/sub") (mkL "+++ b/sub") (mkL "@@ -1 +1 @@")
    (mkS "-Subproject commit 1111111111111111111111111111111111111111" "1111111111111111111111111111111111111111")
    (mkS "+Subproject commit 2222222222222222222222222222222222222222" "2222222222222222222222222222222222222222") }
def sSubAdded : Sec2 := .file {
  d := mkL "diff --git a/new-sub b/new-sub", noise := [mkL "new file mode 160000", mkL "index 0000000..1111111"],
  body := .submodule1 (mkL "--- /dev/null") (mkL "+++ b/new-sub") (mkL "@@ -0,0 +1 @@")
    (mkS "+Subproject commit 1111111111111111111111111111111111111111" "1111111111111111111111111111111111111111") }
def sSubRemoved : Sec2 := .file {
  d := mkL "diff --git a/old-sub b/old-sub", noise := [mkL "deleted file mode 160000", mkL "index 1111111..0000000"],
  body := .submodule1 (mkL "--- a/old-sub") (mkL "+++ /dev/null") (mkL "@@ -1 +0,0 @@")
    (mkS "-Subproject commit 1111111111111111111111111111111111111111" "1111111111111111111111111111111111111111") }
def sSubLog : Sec2 := .log (mkL "Submodule sub 1111111..2222222:") [mkL "  > subject one", mkL "  < subject two"]
def sRenamedBinary : Sec2 := .file {
  d := mkL "diff --git a/o.png b/n.png", noise := [mkL "similarity index 90%"],
  body := .namedBinary (mkL "rename from o.png") (mkL "rename to n.png") [mkL "index 1111111..2222222 100644"]
    (mkL "Binary files a/o.png and b/n.png differ") }
def sDeletedBinary : Sec2 := .file {
  d := mkL "diff --git a/old.bin b/old.bin", noise := [mkL "deleted file mode 100644", mkL "index 1111111..0000000"],
  body := .binary (mkL "Binary files a/old.bin and /dev/null differ") }

/-- a mode-only section followed by a modified file: the header of the first is written when the second
`diff --git` line (input line 3) arrives, with the mode change; the hypotheses hold; the model computes it -/
example : ∀ s ∈ [sModeOnly, sModified], s.WF := wf_of_all (by decide)
example : rowsOf2 {} 0 [sModeOnly, sModified] =
    [{ kind := .file, text := "run.sh (mode +x)".toList, src := 3 }, { kind := .file, text := "y".toList, src := 6 }] := by
  decide
example : (match run {} (linesOf2 [sModeOnly, sModified]) with
    | .ok m => m.out.filter (fun r => r.kind == .file) == rowsOf2 {} 0 [sModeOnly, sModified]
    | .error _ => false) = true := by decide

/-- a binary section at the end of the input: its header is written by the tail of `consume` (index 10 = the
number of input lines) -/
example : ∀ s ∈ [sModified, sBinary], s.WF := wf_of_all (by decide)
example : rowsOf2 {} 0 [sModified, sBinary] =
    [{ kind := .file, text := "y".toList, src := 3 }, { kind := .file, text := "img.png (binary file)".toList, src := 10 }] := by
  decide
example : (match run {} (linesOf2 [sModified, sBinary]) with
    | .ok m => m.out.filter (fun r => r.kind == .file) == rowsOf2 {} 0 [sModified, sBinary]
    | .error _ => false) = true := by decide

/-- an empty added file between two ordinary sections -/
example : ∀ s ∈ [sModified, sEmptyNew, sModified], s.WF := wf_of_all (by decide)
example : rowsOf2 {} 0 [sModified, sEmptyNew, sModified] =
    [{ kind := .file, text := "y".toList, src := 3 }, { kind := .file, text := "added: e.txt".toList, src := 10 },
     { kind := .file, text := "y".toList, src := 13 }] := by decide
example : (match run {} (linesOf2 [sModified, sEmptyNew, sModified]) with
    | .ok m => m.out.filter (fun r => r.kind == .file) == rowsOf2 {} 0 [sModified, sEmptyNew, sModified]
    | .error _ => false) = true := by decide

/-- a mixture: mode change with hunks, renamed file with a mode change, changed / added / removed submodule (short
form), submodule log, renamed binary file, deleted binary file, binary file -/
def mixture : List Sec2 :=
  [sModeAndHunks, sRenamedMode, sSubShort, sSubAdded, sSubRemoved, sSubLog, sRenamedBinary, sDeletedBinary, sBinary]
example : ∀ s ∈ mixture, s.WF := wf_of_all (by decide)
example : (rowsOf2 {} 0 mixture).map (fun r => (String.ofList r.text, r.src)) =
    [("x (mode +x)", 5), ("renamed: o ⟶   n (mode -x)", 14), ("sub", 18), ("added: new-sub", 26),
     ("removed: old-sub", 33), ("Submodule sub 1111111..2222222:", 36), ("renamed: o.png ⟶   n.png", 42),
     ("removed: old.bin (binary file)", 49), ("img.png (binary file)", 52)] := by decide
example : (match run {} (linesOf2 mixture) with
    | .ok m => m.out.filter (fun r => r.kind == .file) == rowsOf2 {} 0 mixture
    | .error _ => false) = true := by decide +kernel

/-- the sections of `one_file_header_per_section` are sections of the new theorem, with the same rows -/
example : rowsOf2 {} 0 [secC.toSec2, secA.toSec2, secB.toSec2] = rowsOf {} 0 [secC, secA, secB] := by decide

/-- **Repaired defect** (was `late_header_misplaced_before_submodule_log`; until the repair the theorem above needed
the hypothesis "no submodule log directly after a section whose header is written late"). A section whose header is
written late (here: mode change only) directly followed by a submodule log (`git diff --submodule=log`):
`handle_submodule_log_line` now calls `handle_pending_line_with_diff_name` first, so the header of `run.sh` is written
when the `Submodule …:` line (input line 3) arrives, with its mode change, before the submodule's own header.
Before the repair the model and the binary gave `Submodule sub 1111111..2222222: (mode +x)`@3, `run.sh`@6, `y`@9. -/
theorem late_header_written_before_submodule_log :
    (match run {} (linesOf2 [sModeOnly, sSubLog, sModified]) with
     | .ok m => (m.out.filter (fun r => r.kind == .file)).map (fun r => (String.ofList r.text, r.src))
     | .error _ => []) =
      [("run.sh (mode +x)", 3), ("Submodule sub 1111111..2222222:", 3), ("y", 9)] := by decide

/-- … and when the submodule log is the last section the pending header (here of an empty added file) is written as
well, first (was `late_header_lost_before_final_submodule_log`: only the `Submodule …:` header was written) -/
theorem late_header_written_before_final_submodule_log :
    (match run {} (linesOf2 [sEmptyNew, sSubLog]) with
     | .ok m => (m.out.filter (fun r => r.kind == .file)).map (fun r => (String.ofList r.text, r.src))
     | .error _ => []) = [("added: e.txt", 3), ("Submodule sub 1111111..2222222:", 3)] := by decide

/-- both inputs are instances of `one_file_header_per_section_any`, and `rowsOf2` says the same -/
example : ∀ s ∈ [sModeOnly, sSubLog, sModified], s.WF := wf_of_all (by decide)
example : ∀ s ∈ [sEmptyNew, sSubLog], s.WF := wf_of_all (by decide)
example : (rowsOf2 {} 0 [sModeOnly, sSubLog, sModified]).map (fun r => (String.ofList r.text, r.src)) =
    [("run.sh (mode +x)", 3), ("Submodule sub 1111111..2222222:", 3), ("y", 9)] := by decide
example : (rowsOf2 {} 0 [sEmptyNew, sSubLog]).map (fun r => (String.ofList r.text, r.src)) =
    [("added: e.txt", 3), ("Submodule sub 1111111..2222222:", 3)] := by decide

/-- every kind of late section before a log, a log first, two logs in a row, a log last -/
def lateBeforeLog : List Sec2 := [sSubLog, sBinary, sSubLog, sSubLog, sDeletedBinary, sSubLog, sModeOnly, sSubLog]
example : ∀ s ∈ lateBeforeLog, s.WF := wf_of_all (by decide)
example : (rowsOf2 {} 0 lateBeforeLog).map (fun r => (String.ofList r.text, r.src)) =
    [("Submodule sub 1111111..2222222:", 0), ("img.png (binary file)", 6), ("Submodule sub 1111111..2222222:", 6),
     ("Submodule sub 1111111..2222222:", 9), ("removed: old.bin (binary file)", 16),
     ("Submodule sub 1111111..2222222:", 16), ("run.sh (mode +x)", 22), ("Submodule sub 1111111..2222222:", 22)] := by
  decide
example : (match run {} (linesOf2 lateBeforeLog) with
    | .ok m => m.out.filter (fun r => r.kind == .file) == rowsOf2 {} 0 lateBeforeLog
    | .error _ => false) = true := by decide +kernel

/-- the hypothesis on `Body.binary` is needed: when the `diff --git` line names two different paths (and the file is
neither added nor deleted) delta has no name for a header and passes the `Binary files` line through instead -/
theorem binary_two_paths_has_no_file_header :
    (match run {} (["diff --git a/x b/y", "index 1111111..2222222", "Binary files a/x and b/y differ"].map mkL) with
     | .ok m => m.out.map (fun r => (r.kind, String.ofList r.text))
     | .error _ => []) = [(.raw, "Binary files a/x and b/y differ")] := by decide

/-- the hypothesis `ModesWF.arg` is needed for the text: an `old mode ` line without a mode announces no mode change
(the header is still written once, without addendum) -/
example : (match run {} (["diff --git a/x b/x", "old mode ", "new mode 100755"].map mkL) with
     | .ok m => (m.out.filter (fun r => r.kind == .file)).map (fun r => (String.ofList r.text, r.src))
     | .error _ => []) = [("x", 3)] := by decide

-- the handler of `Binary files …` / `Only in …` lines, executed from its source -----------------------------

/-- **`misc_handler_follows_source`**. `handle_diff_header_misc_line` as the Rust source has it — the statement tree
`Generated.MiscHandler.body` (guards, returns, every write to a field of the state machine, in source order) with the
predicates `Generated.MiscHandler.tests` and the constant `binaryFileSuffix`, all regenerated by
`tools/extractors/mischandler.py`, run by the interpreter `MiscHandler.run` (DeltaModel/MiscHandler.lean) — computes,
for every configuration, every state and every line, exactly `Machine.handleMisc`: the function the model driver executes
and `one_file_header_per_section_any` is about. A statement added to the Rust function (a write to `current_file_pair`,
to `handled_diff_header_header_line_file_pair`, to `mode_info`, to a name), dropped from it or moved, or a changed guard,
changes the generated tree and this theorem no longer builds. -/
theorem misc_handler_follows_source (cfg : Cfg) (m : M) (l : L) :
    MiscHandler.handleMiscSrc cfg m l = some (handleMisc cfg m l) :=
  MiscHandler.handleMiscSrc_eq cfg m l

/-- **`binary_line_only_marks_names`**. A `Binary files … differ` line of a section that has names (from the `diff --git`
line, file-operation lines or rename / copy lines) is claimed and changes nothing but the two names, which get
` (binary file)` appended (`/dev/null` does not): no row is written, and the pair of names the header bookkeeping compares
(`currentPair` against `handledPair`), the pending mode change and the remembered `diff` line stay as they are. -/
theorem binary_line_only_marks_names (cfg : Cfg) (m : M) (l : L)
    (hco : cfg.colorOnly = false) (hb : startsWith l.text Markers.binaryFiles = true)
    (hn : ¬ (m.minusFile = [] ∧ m.plusFile = [])) :
    MiscHandler.handleMiscSrc cfg m l =
      some (.ok (true, { m with minusFile := MiscHandler.binaryMarked m.minusFile,
                                plusFile := MiscHandler.binaryMarked m.plusFile })) :=
  MiscHandler.binary_line_only_marks_names cfg m l hco hb hn

/-- … and without names (`git diff --no-index`, plain `diff`) the line is shown as it is (after everything held back) and
the header is marked as dealt with, so that no header without a name is written later. -/
theorem binary_line_without_names_is_shown (cfg : Cfg) (m : M) (l : L)
    (hco : cfg.colorOnly = false) (hb : startsWith l.text Markers.binaryFiles = true)
    (hn : m.minusFile = [] ∧ m.plusFile = []) :
    MiscHandler.handleMiscSrc cfg m l = some (.ok (true, { emitLineUnchanged m l with handledPair := m.currentPair })) :=
  MiscHandler.binary_line_without_names_is_shown cfg m l hco hb hn

/-- **`misc_line_never_reopens_header`**. Whatever line the handler claims or declines (`Binary files`, `Only in`, under
any configuration): if the header of the current section has been written (`handledPair = currentPair`, the test of
`handle_diff_header_plus_line` and `handle_pending_line_with_diff_name`) it still counts as written afterwards. So a
section whose header was written at its `rename to` / `copy to` line does not get a second one because a `Binary files`
line follows (renamed or copied binary file with changes). -/
theorem misc_line_never_reopens_header (cfg : Cfg) (m m' : M) (l : L) (b : Bool)
    (e : MiscHandler.handleMiscSrc cfg m l = some (.ok (b, m')))
    (h : m.handledPair = m.currentPair) : m'.handledPair = m'.currentPair :=
  MiscHandler.misc_line_never_reopens_header cfg m m' l b e h

/-- the state in which the `Binary files` line of a renamed binary file with changes arrives (after `rename to` and the
index line: the header has been written), and what the source makes of the line: names marked, bookkeeping untouched -/
def renamedBinaryHead : List L :=
  ["diff --git a/img/logo old.png b/img/logo new.png", "similarity index 81%", "rename from img/logo old.png",
   "rename to img/logo new.png", "index 3333333..4444444 100644"].map mkL
def renamedBinaryLine : L := mkL "Binary files a/img/logo old.png and b/img/logo new.png differ"

example : (match runFrom {} {} renamedBinaryHead with
    | .ok m =>
      m.handledPair == some ("img/logo old.png".toList, "img/logo new.png".toList) && m.handledPair == m.currentPair &&
      startsWith renamedBinaryLine.text Markers.binaryFiles && !(m.minusFile == [] && m.plusFile == []) &&
      (match MiscHandler.handleMiscSrc {} m renamedBinaryLine with
       | some (.ok (true, m')) =>
         m'.handledPair == m.handledPair && m'.currentPair == m.currentPair && m'.out == m.out &&
         m'.minusFile == "img/logo old.png (binary file)".toList && m'.plusFile == "img/logo new.png (binary file)".toList
       | _ => false)
    | .error _ => false) = true := by decide

/-- exactly this section — rename lines and a `Binary files` line — followed by another section, and at the end of the
input: it is a `Body.namedBinary` section of `one_file_header_per_section_any`, whose conclusion is one row for it (at its
`rename to` line), and the model's run gives that -/
def sRenamedBinaryChanged : Sec2 := .file {
  d := mkL "diff --git a/img/logo old.png b/img/logo new.png", noise := [mkL "similarity index 81%"],
  body := .namedBinary (mkL "rename from img/logo old.png") (mkL "rename to img/logo new.png")
    [mkL "index 3333333..4444444 100644"] renamedBinaryLine }
def sCopiedBinaryChanged : Sec2 := .file {
  d := mkL "diff --git a/a.bin b/b.bin", noise := [mkL "similarity index 50%"],
  body := .namedBinary (mkL "copy from a.bin") (mkL "copy to b.bin") [mkL "index 1111111..2222222 100644"]
    (mkL "Binary files a/a.bin and b/b.bin differ") }

example : (linesOf2 [sRenamedBinaryChanged]).map (·.text) = (renamedBinaryHead ++ [renamedBinaryLine]).map (·.text) := by decide
example : ∀ s ∈ [sRenamedBinaryChanged, sModified, sCopiedBinaryChanged, sBinary, sRenamedBinaryChanged], s.WF :=
  wf_of_all (by decide)
example : (rowsOf2 {} 0 [sRenamedBinaryChanged, sModified]).map (fun r => (String.ofList r.text, r.src)) =
    [("renamed: img/logo old.png ⟶   img/logo new.png", 3), ("y", 9)] := by decide
example : (match run {} (linesOf2 [sRenamedBinaryChanged, sModified]) with
    | .ok m => m.out.filter (fun r => r.kind == .file) == rowsOf2 {} 0 [sRenamedBinaryChanged, sModified]
    | .error _ => false) = true := by decide
example : (rowsOf2 {} 0 [sModified, sRenamedBinaryChanged]).map (fun r => (String.ofList r.text, r.src)) =
    [("y", 3), ("renamed: img/logo old.png ⟶   img/logo new.png", 10)] := by decide
example : (match run {} (linesOf2 [sModified, sRenamedBinaryChanged]) with
    | .ok m => m.out.filter (fun r => r.kind == .file) == rowsOf2 {} 0 [sModified, sRenamedBinaryChanged]
    | .error _ => false) = true := by decide
/-- copied binary file with changes, then a binary file (header written late), then the renamed one last: 3 sections, 3 rows -/
example : (match run {} (linesOf2 [sCopiedBinaryChanged, sBinary, sRenamedBinaryChanged]) with
    | .ok m => (m.out.filter (fun r => r.kind == .file)).map (fun r => (String.ofList r.text, r.src)) ==
        [("copied: a.bin ⟶   b.bin", 3), ("img.png (binary file)", 9), ("renamed: img/logo old.png ⟶   img/logo new.png", 12)] &&
      m.out.filter (fun r => r.kind == .file) == rowsOf2 {} 0 [sCopiedBinaryChanged, sBinary, sRenamedBinaryChanged]
    | .error _ => false) = true := by decide

-- the handler of `Submodule …` lines (diff.submodule=log), executed from its source --------------------------

/-- **`submodule_log_handler_follows_source`**. `handle_submodule_log_line` as the Rust source has it — the statement
list `Generated.SubmoduleLog.body` (the guard on `test_submodule_log`, `paint_buffered_minus_and_plus_lines()`,
`handle_pending_line_with_diff_name()?`, the tail call `handle_additional_cases(State::SubmoduleLog)`, in source order)
with the literal `testPrefix` of the test, regenerated by `tools/extractors/submodulelog.py` and run by the interpreter
`SubmoduleLogSrc.exec` (DeltaModel/SubmoduleLogSrc.lean) — computes, for every configuration, every state and every line,
exactly `Machine.handleSubmoduleLog`: the function the model driver executes and `one_file_header_per_section_any` is
about. Dropping or moving the two calls that write the file header still owed to the section before the log (the repair
of the defect "late header after / lost before a submodule log") changes the generated list and this theorem no longer
builds. -/
theorem submodule_log_handler_follows_source (cfg : Cfg) (m : M) (l : L) :
    SubmoduleLogSrc.handleSubmoduleLogSrc cfg m l = some (handleSubmoduleLog cfg m l) :=
  SubmoduleLogSrc.handleSubmoduleLogSrc_eq cfg m l

/-- … and what the source does at a `Submodule …` line: buffered lines painted, the pending file header written (by
`handle_pending_line_with_diff_name`, in the state the line is met in), then `handle_additional_cases` -/
theorem submodule_log_line_writes_pending_header_first (cfg : Cfg) (m : M) (l : L)
    (h : startsWith l.text Markers.submoduleLog = true) :
    SubmoduleLogSrc.handleSubmoduleLogSrc cfg m l =
      some (handleAdditionalCases cfg (pendingDiffName cfg (flushMP m)) l .submoduleLog) :=
  SubmoduleLogSrc.submodule_log_line_writes_pending_header_first cfg m l h

/-- the state in which the `Submodule …:` line of the repaired defect arrives (mode-only section: header owed), what the
source makes of the line — two file rows, the owed header first — and what the function *without* the two calls (the
list the extractor produced before the repair) made of it: one row, the mode change on the wrong header -/
def modeOnlyHead : List L := ["diff --git a/run.sh b/run.sh", "old mode 100644", "new mode 100755"].map mkL
def subLogLine : L := mkL "Submodule sub 1111111..2222222:"
def fileTexts (r : Option (Except String (Bool × M))) : List String :=
  match r with
  | some (.ok (_, m)) => (m.out.filter (fun r => r.kind == .file)).map (fun r => String.ofList r.text)
  | _ => []
example : (match runFrom {} {} modeOnlyHead with
    | .ok m =>
      startsWith subLogLine.text Markers.submoduleLog && m.modeInfo == "mode +x".toList &&
      fileTexts (SubmoduleLogSrc.handleSubmoduleLogSrc {} m subLogLine) ==
        ["run.sh (mode +x)", "Submodule sub 1111111..2222222:"] &&
      fileTexts (SubmoduleLogSrc.exec {} subLogLine
          [.declineUnless "test_submodule_log", .tailAdditionalCases "SubmoduleLog"] m) ==
        ["Submodule sub 1111111..2222222: (mode +x)"] &&
      -- statements the interpreter has no meaning for give no result at all
      (SubmoduleLogSrc.exec {} subLogLine [.declineUnless "test_submodule_log", .unknown "self.x();",
          .tailAdditionalCases "SubmoduleLog"] m).isNone &&
      (SubmoduleLogSrc.exec {} subLogLine [.declineUnless "test_submodule_log", .paintBuffered, .pendingDiffName] m).isNone
    | .error _ => false) = true := by decide

-- what a hunk-header row shows, over whole runs (session 4, T13) ------------------------------------------

/-- **`hunk_header_row_shows_own_section`** (whole runs over `Machine.run`). For every configuration in which the file
header is a row of its own (`FHC`, the scope of the section calculus) and every git diff that is a list of well-formed
sections of the kinds git emits (`Sec2`, as in `one_file_header_per_section_any`), the rows of kind `hunkHeader` of the
output are, in order, exactly `hhRowsOf2 cfg 0 secs`: for every `@@` line that a line of its hunk follows, the row(s)
`emit_hunk_header_line` writes (`hhRowOf`) from **that line's own** parsed coordinates and code fragment, stamped with
that line's input index, and the **two file names of the section the line stands in** (`secNames mi pl` = the paths on
the section's `--- `/`rename from`/`copy from` line and on its `+++ `/`rename to`/`copy to` line). No row is built from
the names of another section, none is lost or doubled; an `@@` line that no hunk line follows (directly followed by
another `@@` line, by the next section or by the end of the input) gives no row, the `@@` line of a changed submodule
(short form) gives none, that of an added / removed submodule gives one. Every `hunk-header-style` is covered (raw and
omitted styles and an empty text give no row of this kind: `hhRowOf` then is `[]`); what the row's text is in terms of
the style words: `hunk_header_row_text`, `hunk_header_row_text_file_line`. -/
theorem hunk_header_row_shows_own_section {cfg : Cfg} (hc : FHC cfg) (secs : List Sec2) (w : ∀ s ∈ secs, s.WF)
    {m : M} (e : run cfg (linesOf2 secs) = .ok m) :
    m.out.filter (fun r => r.kind == .hunkHeader) = hhRowsOf2 cfg 0 secs :=
  run_hunk_rows hc secs w e

/-- **`hunk_header_row_text`**: hunk-header style neither raw nor omitted, no `--color-only`: the rows written for an
`@@` line under the names `p` are one row — the text `hunkHeaderText` (model of
`write_line_of_code_with_optional_path_and_line_number`) computes from the names, the parsed header and the style words,
plus the blank of a box decoration — or none when that text is empty (`omit-code-fragment` without `file` and
`line-number`). -/
theorem hunk_header_row_text {cfg : Cfg} (hr : cfg.hunkHeaderStyle.isRaw = false)
    (ho : cfg.hunkHeaderStyle.isOmitted = false) (hco : cfg.colorOnly = false) (p : Str × Str) (h : L) (i : Nat)
    (hh : HunkHeader) (hp : parseHunkHeader h.text = some hh) :
    hhRowOf cfg p h i =
      (match hunkHeaderText cfg (namesOnly p) hh h.text with
       | .ok (some t) => [{ kind := .hunkHeader, text := t ++ hhPad cfg.hunkHeaderStyle, src := i }]
       | _ => []) :=
  hhRowOf_text hr ho hco p h i hh hp

/-- **`hunk_header_row_text_file_line`**: with `file` and `line-number` in `hunk-header-style`, the row of a two-way
`@@ -a,b +c,d @@ frag` line under the names `p` reads `<hunk-label ><path>:<c>:<frag >` — the path is the plus-file name,
or the minus-file name when the plus file is `/dev/null` (`shownPath`); `c` is the new-file start of this very line;
`frag` is the code fragment git supplied (`hunk_header_fragment_intact`), tabs expanded, or nothing under
`omit-code-fragment` (`fragBody`). -/
theorem hunk_header_row_text_file_line {cfg : Cfg} (hr : cfg.hunkHeaderStyle.isRaw = false)
    (ho : cfg.hunkHeaderStyle.isOmitted = false) (hco : cfg.colorOnly = false) (hf : cfg.hhFile = true)
    (hn : cfg.hhLineNumber = true) (p : Str × Str) (h : L) (i : Nat) (hh : HunkHeader) (a b c d : Nat)
    (hp : parseHunkHeader h.text = some hh) (hcoords : hh.coords = [(a, b), (c, d)]) :
    hhRowOf cfg p h i =
      [{ kind := .hunkHeader,
         text := (if cfg.hunkLabel ≠ [] then cfg.hunkLabel ++ [' '] else []) ++
           (shownPath p ++ ':' :: (toString c).toList ++ [':'] ++
             (if HunkNames.fragBody cfg hh = [] then [' '] else [])) ++
           Text.expand cfg.tab (HunkNames.fragBody cfg hh) ++ hhPad cfg.hunkHeaderStyle,
         src := i }] :=
  hhRowOf_file_line hr ho hco hf hn p h i hh a b c d hp hcoords

/-- **`no_pending_header_no_hunk_header_row`** (the frame lemma behind the whole-run theorem, for every configuration
and every line): a step of the machine from a state in which no hunk header is pending, outside a conflict region,
writes no hunk-header row — whichever of the 18 handlers claims the line. -/
theorem no_pending_header_no_hunk_header_row {cfg : Cfg} {m m' : M} {l : L} (e : step cfg m l = .ok m')
    (hs : isMergeConflict m.st = false) (hq : isHunkHeader m.st = false) (g : Good m) : hhTL m' = hhTL m :=
  step_rq e hs hq g

/-- a file shown with path and line number, a label, a box -/
def cfgFile : Cfg := { hhFile := true, hunkLabel := "§".toList, hunkHeaderStyle := { deco := .box } }

def sTwoHunks : Sec2 := .file {
  d := mkL "diff --git a/src/x.rs b/src/x.rs", noise := [mkL "index 1111111..2222222 100644"],
  body := .named (mkL "--- a/src/x.rs") (mkL "+++ b/src/x.rs") none
    (["@@ -1,2 +1,2 @@ fn f()", " ctx", "-old", "+new", "@@ -70,2 +90 @@\tfn g()", "-c", " d"].map mkL) }
def sDeleted : Sec2 := .file {
  d := mkL "diff --git a/gone b/gone", noise := [mkL "deleted file mode 100644", mkL "index 1111111..0000000"],
  body := .named (mkL "--- a/gone") (mkL "+++ /dev/null") none (["@@ -5 +0,0 @@", "-z"].map mkL) }
def sRenamedChanged : Sec2 := .file {
  d := mkL "diff --git a/o.rs b/n.rs", noise := [mkL "similarity index 90%"],
  body := .named (mkL "rename from o.rs") (mkL "rename to n.rs")
    (some ([mkL "index 1111111..2222222 100644"], mkL "--- a/o.rs", mkL "+++ b/n.rs"))
    (["@@ -3 +3 @@ impl T", "-a", "+b"].map mkL) }
/-- an `@@` line directly followed by another one: no row for the first -/
def sDangling : Sec2 := .file {
  d := mkL "diff --git a/y b/y", noise := [],
  body := .named (mkL "--- a/y") (mkL "+++ b/y") none (["@@ -1 +1 @@ lost", "@@ -8 +9 @@ kept", "+q", "@@ -20 +21 @@ end"].map mkL) }

def shownSecs : List Sec2 :=
  [sTwoHunks, sModeOnly, sDeleted, sSubLog, sRenamedChanged, sSubShort, sSubAdded, sDangling, sBinary, sModified]

example : FHC cfgFile := ⟨rfl, rfl, rfl⟩
example : ∀ s ∈ shownSecs, s.WF := wf_of_all (by decide)
/-- what the theorem says for this input: each row carries the path of its own section (the minus file for the deleted
file, the new name of the renamed file), its own start and fragment; nothing for the `@@ … lost` line, for the changed
submodule, for the `@@ … end` line the next section follows -/
example : (hhRowsOf2 cfgFile 0 shownSecs).map (fun r => (String.ofList r.text, r.src)) =
    [("§ src/x.rs:1: fn f()  ", 4), ("§ src/x.rs:90:        fn g()  ", 8), ("§ gone:0:  ", 19), ("§ n.rs:3: impl T  ", 31),
     ("§ new-sub:1:  ", 46), ("§ y:9: kept  ", 52), ("§ y:1:  ", 62)] := by decide
/-- … and it is what the model's run writes -/
example : (match run cfgFile (linesOf2 shownSecs) with
    | .ok m => m.out.filter (fun r => r.kind == .hunkHeader) == hhRowsOf2 cfgFile 0 shownSecs
    | .error _ => false) = true := by decide +kernel
/-- the reading theorem on one of these lines -/
example : hhRowOf cfgFile (secNames (mkL "--- a/gone") (mkL "+++ /dev/null")) (mkL "@@ -5 +0,0 @@") 19 =
    [{ kind := .hunkHeader, text := "§ gone:0:  ".toList, src := 19 }] := by decide
/-- other style words: no `file` (default), `omit-code-fragment`, no `line-number` and no fragment (no row at all) -/
example : (hhRowsOf2 {} 0 [sTwoHunks]).map (fun r => String.ofList r.text) = ["1: fn f() ", "90:        fn g() "] := by decide
example : (hhRowsOf2 { hhFile := true, hhFragment := false } 0 [sTwoHunks]).map (fun r => String.ofList r.text) =
    ["src/x.rs:1: ", "src/x.rs:90: "] := by decide
example : hhRowsOf2 { hhLineNumber := false, hhFragment := false } 0 [sTwoHunks] = [] := by decide
example : hhRowsOf2 { hunkHeaderStyle := { isRaw := true } } 0 [sTwoHunks] = [] := by decide

/-- `FHC` is the scope of the reused section calculus, not a limit of delta: with a raw or omitted file style the same
hunk-header rows are written (model run; outside the theorem) -/
example : (match run { cfgFile with fileStyle := { isRaw := true } } (linesOf2 shownSecs),
      run { cfgFile with fileStyle := { isOmitted := true } } (linesOf2 shownSecs) with
    | .ok m1, .ok m2 => m1.out.filter (fun r => r.kind == .hunkHeader) == hhRowsOf2 cfgFile 0 shownSecs &&
        m2.out.filter (fun r => r.kind == .hunkHeader) == hhRowsOf2 cfgFile 0 shownSecs
    | _, _ => false) = true := by decide +kernel

/-- the section grammar is needed: a `Binary files … differ` line between an `@@` line and the first line of its hunk
(not something git writes) is claimed by `handle_diff_header_misc_line`, which marks both names — the header row then
shows `x (binary file)` instead of the section's path -/
theorem binary_line_inside_hunk_changes_shown_path :
    (match run cfgFile (["diff --git a/x b/x", "--- a/x", "+++ b/x", "@@ -1 +1 @@", "Binary files a/x and b/x differ", "+z"].map mkL) with
     | .ok m => (m.out.filter (fun r => r.kind == .hunkHeader)).map (fun r => String.ofList r.text)
     | .error _ => []) = ["§ x (binary file):1:  "] := by decide

-- whole runs over `git log -p` / `git show`: commit blocks between the sections (T19) ---------------------

/-- **`one_file_header_per_section_log`** (whole runs, `Proofs/Machine/CommitBlocks.lean`). For every configuration in
which the file header is a row of its own (`FHC`; **every commit style**: decorated, omitted, raw with or without a
decoration) and every input of the shape `git log -p` / `git show` / `git stash show -p` produce — optionally the sections
of a diff (`pre`, usually none), then any number of commits (`Commit`), each being
* the commit line `c`: matched by the commit regex and beginning `commit ` (`isCommitLine`),
* the lines git prints before the commit's diff, `msgs` (`Author:`, `Date:`, `Merge:`, blank lines, the indented message,
  notes, …): any lines the commit regex does not match and that begin with none of the literals a handler tests for
  (`isMetaLine`: `diff `, `--- `/`+++ `/`rename …`/`copy …`, `new file mode `/`deleted file mode `, `@@`, `old mode `/`new mode `,
  `Only in `, `Binary files `, `Submodule `) — git indents the message by four blanks, so its text is arbitrary,
* the sections `secs` of the commit's diff: any list, **possibly empty**, of the section kinds of
  `one_file_header_per_section_any` (`Sec2`: ordinary, renamed, mode change, empty added / deleted file, binary,
  submodule short form, submodule log) —
the file-header rows of delta's output are, in order, exactly one per file section (`rowsOfLog`: the `rowsOf2` of each
commit's sections, the first section of a commit beginning at the index after the commit line and its `msgs`) and **none
for a commit block**. A section whose header is written late (`Body.bare`, `Body.binary`: no `---`/`+++` lines) and that a
commit block follows gets its header **at that commit line** (`late_header_written_at_next_commit_line`: the row's input
index is the index of the commit line; `handle_commit_meta_header_line` calls `handle_pending_line_with_diff_name`
first), with the same text as anywhere else; after the last commit, at the end of input. Unbounded: induction over
commits, message lines and sections. -/
theorem one_file_header_per_section_log {cfg : Cfg} (hc : FHC cfg) (pre : List Sec2) (commits : List Commit)
    (wp : ∀ s ∈ pre, s.WF) (wc : ∀ k ∈ commits, k.WF) {m : M} (e : run cfg (linesOfLog pre commits) = .ok m) :
    m.out.filter (fun r => r.kind == .file) = rowsOfLog cfg pre commits :=
  run_one_file_row_per_section_log hc pre commits wp wc e

/-- the same for sections and commit blocks in **any** order (`Item`; the shape above is the special case
`logItems pre commits`): a commit block may also be followed directly by another commit block or end the input. -/
theorem one_file_header_per_section_items {cfg : Cfg} (hc : FHC cfg) (items : List Item) (w : ∀ i ∈ items, i.WF)
    {m : M} (e : run cfg (linesOfItems items) = .ok m) :
    m.out.filter (fun r => r.kind == .file) = rowsOfItems cfg 0 items :=
  run_one_file_row_per_section_items hc items w e

/-- … in particular: as many file-header rows as the commits have sections together (plus those of `pre`) -/
theorem file_header_count_log {cfg : Cfg} (hc : FHC cfg) (pre : List Sec2) (commits : List Commit)
    (wp : ∀ s ∈ pre, s.WF) (wc : ∀ k ∈ commits, k.WF) {m : M} (e : run cfg (linesOfLog pre commits) = .ok m) :
    (m.out.filter (fun r => r.kind == .file)).length = pre.length + (commits.map (fun c => c.secs.length)).sum := by
  rw [one_file_header_per_section_log hc pre commits wp wc e]
  simp [rowsOfLog, rowsOf2_length, rowsOfCommits_length]

/-- the header of a section that is written late carries the input index of the line that follows the section — in a
`git log -p` stream the next commit line. -/
theorem late_header_written_at_next_commit_line (cfg : Cfg) (s : Sec2) (k : Nat) (h : s.late = true) :
    (s.row cfg k).src = k + s.lines.length :=
  late_row_src cfg s k h

/-- step level, every commit style: the commit line writes the file header that is due for the section before it —
nothing else of kind `file` — and leaves the machine inside the commit block with nothing pending; a line of the block
writes no file row. -/
theorem commit_line_writes_pending_header_only {cfg : Cfg} (hc : FHC cfg) {m : M} {l : L} (h : Pre m)
    (hl : isCommitLine l = true) :
    ∃ m', step cfg m l = .ok m' ∧ CMeta m' ∧ fileTL m' = facct cfg m ∧ m'.n = m.n + 1 :=
  commit_line_step hc h hl

theorem commit_block_line_writes_no_file_header {cfg : Cfg} {m : M} {l : L} (h : CMeta m) (hl : isMetaLine l = true) :
    ∃ m', step cfg m l = .ok m' ∧ CMeta m' ∧ fileTL m' = fileTL m ∧ m'.n = m.n + 1 :=
  meta_line_step h hl

open Machine.CommitBlocksEx in
/-- the hypotheses are met by concrete streams (three commits, 43 lines: message lines that look like diff lines but are
indented, a commit without a diff, a merge commit with notes; sections: modified, mode-only before the next commit,
binary, submodule log, empty added file last), the rows are the expected ones (the mode-only section's header at the
second commit line, index 19), and the model's run agrees — also with a diff before the first commit and for a decorated,
an omitted, a raw and a raw decorated commit style (`Proofs/Machine/CommitBlocksEx.lean`, `decide +kernel`). -/
example : (∀ k ∈ log3, k.WF) ∧
    shown (rowsOfLog {} [] log3) =
      [("y", 12), ("run.sh (mode +x)", 19), ("img.png (binary file)", 37), ("Submodule sub 1111111..2222222:", 37),
       ("added: e.txt", 43)] ∧
    agrees {} [] log3 = true ∧ agrees {} [sBinary] log3 = true ∧
    agrees { commitStyle := { isOmitted := true } } [] log2 = true ∧ agrees { commitStyle := { isRaw := true } } [] log2 = true :=
  ⟨log3_wf, log3_rows, log3_run, pre_run, log2_run_styles.2.1, log2_run_styles.2.2.1⟩

open Machine.CommitBlocksEx in
example : (linesOfLog [] log3).length = 43 ∧ ((linesOfLog [] log3).getD 19 (mkL "")).text = c2.c.text := by decide

/-- `isMetaLine` is needed: an unindented `diff --git` line inside the block starts a section (a file header appears). -/
theorem commit_block_hypothesis_needed :
    (match run {} [Machine.CommitBlocksEx.mkC "commit 1", mkL "diff --git a/x b/x"] with
     | .ok m => (m.out.filter (fun r => r.kind == .file)).map (fun r => (String.ofList r.text, r.src))
     | .error _ => []) = [("x", 2)] ∧ isMetaLine (mkL "diff --git a/x b/x") = false := by decide

/-- the `commit ` prefix in `isCommitLine` is needed (the commit regex is configurable): a matched line beginning
`diff --git `, under a raw commit style, is declined by the commit handler and becomes the first line of a section. -/
theorem commit_line_prefix_needed :
    (match run { commitStyle := { isRaw := true } } [{ mkL "diff --git a/x b/x" with commitRe := true }] with
     | .ok m => (m.out.filter (fun r => r.kind == .file)).map (fun r => (String.ofList r.text, r.src))
     | .error _ => []) = [("x", 1)] := by decide

-- the commit-line handler, from its source (T19) ---------------------------------------------------------------

/-- **`commit_meta_handler_follows_source`**: the statements of `handle_commit_meta_header_line` and of
`_handle_commit_meta_header_line` as the extractor regenerates them from `src/handlers/commit_meta.rs`
(`Generated.CommitMeta.body`: guard on `test_commit_meta_header_line` = a match of the commit regex, `let mut handled_line = false`,
`paint_buffered_minus_and_plus_lines`, `handle_pending_line_with_diff_name`, `self.state = State::CommitMeta`,
`if self.should_handle() { emit; _handle_commit_meta_header_line; handled_line = true }`, `Ok(handled_line)`; `inner`: early return for an
omitted commit style outside color-only mode, then the one `draw_fn` call in `commit_style`), executed by the interpreter
`DeltaModel/CommitMetaSrc.lean`, compute exactly the model's `handleCommitMeta` — the function the model driver runs and
`one_file_header_per_section_log` is about — for every configuration, machine state and line. Dropping the call that writes the
file header still owed to the section before the commit line, moving it behind the state change or into the `should_handle`
block, or moving the state change into that block (the message lines of a commit with a raw commit style would then be read in
the state of the diff before) changes the generated list and this theorem no longer builds. -/
theorem commit_meta_handler_follows_source (cfg : Cfg) (m : M) (l : L) :
    CommitMetaSrc.handleCommitMetaSrc cfg m l = some (handleCommitMeta cfg m l) :=
  CommitMetaSrc.handleCommitMetaSrc_eq cfg m l

/-- … and what the source does at a line the commit regex matches: it ends in `CommitMeta` for every commit style, and the line
is claimed exactly when the commit style is not "raw without decoration" — decided in `CommitMeta`, after the owed header. -/
theorem commit_line_sets_state_after_pending_header (cfg : Cfg) (m : M) (l : L) (hre : l.commitRe = true) :
    ∃ b z, CommitMetaSrc.handleCommitMetaSrc cfg m l = some (.ok (b, z)) ∧ z.st = .commitMeta ∧
      b = shouldHandle cfg { pendingDiffName cfg (flushMP m) with st := .commitMeta } :=
  CommitMetaSrc.commit_line_sets_state_after_pending_header cfg m l hre

/-- the state in which a commit line arrives after a mode-only section (header owed); what the source makes of the line: the
owed header; what the function *without* the call, or with the call inside the `should_handle` block under a raw commit style,
makes of it: no header (it is then written after the commit block, or never); unknown statements give no result at all -/
example : (match runFrom {} {} modeOnlyHead with
    | .ok m =>
      fileTexts (CommitMetaSrc.handleCommitMetaSrc {} m (Machine.CommitBlocksEx.mkC "commit 1234567")) == ["run.sh (mode +x)"] &&
      fileTexts (CommitMetaSrc.handleCommitMetaSrc { commitStyle := { isRaw := true } } m (Machine.CommitBlocksEx.mkC "commit 1234567"))
        == ["run.sh (mode +x)"] &&
      fileTexts (CommitMetaSrc.exec {} (Machine.CommitBlocksEx.mkC "commit 1234567") m.n
          [.declineUnless "test_commit_meta_header_line", .letHandled false, .paintBuffered, .setState "CommitMeta",
           .ifShouldHandle [.emit, .call "_handle_commit_meta_header_line", .setHandled true], .returnHandled] m false) == [] &&
      (match CommitMetaSrc.exec { commitStyle := { isRaw := true } } (Machine.CommitBlocksEx.mkC "commit 1234567") m.n
          [.declineUnless "test_commit_meta_header_line", .letHandled false, .paintBuffered, .setState "CommitMeta",
           .ifShouldHandle [.call "handle_pending_line_with_diff_name", .emit, .call "_handle_commit_meta_header_line",
             .setHandled true], .returnHandled] m false with
        | some (.ok (b, z)) => !b && fileTexts (some (.ok (b, z))) == []
        | _ => false) &&
      (CommitMetaSrc.exec {} (Machine.CommitBlocksEx.mkC "commit 1234567") m.n
          [.declineUnless "test_commit_meta_header_line", .unknown "self.x();", .returnHandled] m false).isNone
    | .error _ => false) = true := by decide

-- hunk-header rows over `git log -p` streams (T19) ---------------------------------------------------------------

/-- **`hunk_header_row_shows_own_section_log`** (whole runs, `Proofs/Machine/CommitBlocksHH.lean`):
`hunk_header_row_shows_own_section` over `git log -p` shaped input (the inputs of `one_file_header_per_section_log`: a leading
diff, then commits, each with its commit line, message lines and any list of sections, possibly none). The rows of kind
`hunkHeader` of delta's output are exactly, in order, those of the sections (`hhRowsOfLog` = the `hhRowsOf2` of each commit's
sections at their own input indices): one per `@@` line that a line of its hunk follows, built from that line's own coordinates and
fragment and from the two file names of the section it stands in. A commit block writes none — under every commit style, in
whatever state the commit line is met (`commit_line_writes_no_hunk_header_row`: a hunk header still pending, i.e. an `@@` line no
hunk line followed, is dropped there as it is at a `diff --git` line) — and does not change the names a later section's rows show. -/
theorem hunk_header_row_shows_own_section_log {cfg : Cfg} (hc : FHC cfg) (pre : List Sec2) (commits : List Commit)
    (wp : ∀ s ∈ pre, s.WF) (wc : ∀ k ∈ commits, k.WF) {m : M} (e : run cfg (linesOfLog pre commits) = .ok m) :
    m.out.filter (fun r => r.kind == .hunkHeader) = hhRowsOfLog cfg pre commits :=
  run_hunk_rows_log hc pre commits wp wc e

/-- a commit line, met in any state, under any configuration: no hunk-header row -/
theorem commit_line_writes_no_hunk_header_row {cfg : Cfg} {m m1 : M} {l : L} (hl : isCommitLine l = true)
    (e : step cfg m l = .ok m1) :
    (timeline m1).filter (fun r => r.kind == .hunkHeader) = (timeline m).filter (fun r => r.kind == .hunkHeader) :=
  commit_line_rows hl e

open Machine.CommitBlocksEx in
/-- three commits; the first one's section ends in an `@@` line that no hunk line follows (no row; dropped at the second commit
line); rows under `file` + label: own path, own new-file start, own fragment, own index; the model's run agrees, also with a
leading diff and a raw commit style (`Proofs/Machine/CommitBlocksExHH.lean`) -/
example : (∀ k ∈ logHH, k.WF) ∧
    shown (hhRowsOfLog cfgLabelled [] logHH) = [("§ src/x.rs:1: fn f() ", 13), ("§ src/x.rs:90: fn g() ", 17), ("§ y:1: ", 40)] ∧
    agreesHH cfgLabelled [] logHH = true ∧ agreesHH { commitStyle := { isRaw := true } } [sHunksDangling] logHH = true :=
  ⟨logHH_wf, logHH_rows, logHH_run.1, logHH_run.2⟩

-- no file header pending ⇒ no file-header row, in any state (T22) -------------------------------------------------

/-- **`no_pending_header_no_file_row`** (whole step, `Proofs/Machine/NoPending.lean`): for every configuration (also
`--color-only`, raw / omitted / decorated file styles), every machine state outside a merge-conflict region — header states,
pending `@@` headers, hunk states of unified, combined and plain diffs, commit blocks, submodule logs, blame, grep, unknown — and
every line that is not a header-naming line (`notNamingb`: begins with none of `diff `, `new file mode ` / `deleted file mode `,
`--- ` / `rename from ` / `copy from `, `+++ ` / `rename to ` / `copy to `, `old mode `, `new mode `, `Only in `, `Binary files `,
`Submodule `; `@@` lines, commit lines, hunk lines and everything else are allowed): if no file header is owed (`NPend`:
`modeInfo = []` and `handledPair = currentPair`, the two fields `handle_pending_line_with_diff_name` reads), one iteration of
the `consume` loop writes **no file-header row**, whichever of the eighteen handlers claims the line, and nothing is owed
afterwards. Proved once per handler and lifted through `chain` and `step`. Each hypothesis is needed (examples below); inside a
conflict region rows come out of buffers the timeline does not account for (excluded, as in `step_rq`). -/
theorem no_pending_header_no_file_row {cfg : Cfg} {m m' : M} {l : L} (e : step cfg m l = .ok m')
    (hl : notNamingb l = true) (hp : NPend m) (hs : isMergeConflict m.st = false) :
    fileTL m' = fileTL m ∧ NPend m' :=
  step_nf e (notNaming_of_b hl) hp hs

/-- … and over any run of such lines none of which opens a conflict region (no line begins `++<<<<<<<`): the body of any
hunk of a unified, combined or plain diff, commit messages, arbitrary text — no file-header row, nothing owed afterwards. -/
theorem no_pending_header_no_file_row_run {cfg : Cfg} (ls : List L) {m m' : M} (e : runFrom cfg m ls = .ok m')
    (hl : ∀ l ∈ ls, notNamingb l = true ∧ startsWith l.text Markers.mcBegin = false) (hp : NPend m)
    (hs : isMergeConflict m.st = false) (g : Good m) :
    fileTL m' = fileTL m ∧ NPend m' ∧ isMergeConflict m'.st = false :=
  let r := runFrom_nf ls e (fun l h => ⟨notNaming_of_b (hl l h).1, (hl l h).2⟩) hp hs g
  ⟨r.1, r.2.1, r.2.2.1⟩

open Machine.NoPendingEx in
/-- the hypotheses are met inside a combined hunk (`ccHead`: `diff --cc`, `index`, `---`, `+++`, `@@@`, two hunk lines), inside a
plain `diff -u` hunk, at the start; a hunk line, a further `@@@` line, a commit line, text add no file row there (`added` =
(hypotheses on the machine hold, number of file rows the line adds), evaluated on the model's run, `decide +kernel`) -/
example : added {} ccHead (Machine.CommitBlocksEx.mkL " +c") = some (true, 0) ∧
    added {} ccHead (Machine.CommitBlocksEx.mkC "commit 1234567") = some (true, 0) ∧
    added {} plainHead (Machine.CommitBlocksEx.mkL "+B") = some (true, 0) :=
  ⟨met.1, met.2.2.2.2.1, met.2.2.2.2.2.2.1⟩

open Machine.NoPendingEx in
/-- `NPend` is needed: after a mode-only section a commit line (not a header-naming line) writes the owed header -/
example : added {} modeOnly (Machine.CommitBlocksEx.mkC "commit 1234567") = some (false, 1) ∧
    notNamingb (Machine.CommitBlocksEx.mkC "commit 1234567") = true := npend_needed

open Machine.NoPendingEx in
/-- the line hypothesis is needed: with nothing owed a `Submodule ` line writes a header of its own, and under `--color-only`
so does a `--- ` line -/
example : added {} [] (Machine.CommitBlocksEx.mkL "Submodule sub 1111111..2222222:") = some (true, 1) ∧
    added { colorOnly := true } [] (Machine.CommitBlocksEx.mkL "--- a/x") = some (true, 1) :=
  ⟨line_hypothesis_needed.1, line_hypothesis_needed.2.2.2.1⟩

-- combined-diff sections in the whole-run header theorem (T22) --------------------------------------------------

/-- **`one_file_header_per_section_combined`** (whole runs, unbounded; `Proofs/Machine/CombinedHeaders.lean`, `CombinedHeaders2.lean`):
for every `FHC` configuration and every input made of combined-diff sections and commit blocks in any order (`CItem`: the shape of
`git diff` during a merge, `git show <merge>`, `git log -p --cc`) — a section (`CSec`) being the `diff --cc x` / `diff --combined x`
line, any number of index-like lines (`index a,b..c`, `mode a,b..c`) and `new file mode m` / `deleted file mode a,b` lines, the
`--- a/x` and `+++ b/x` lines, and then the hunks: `@@@ … @@@` lines and hunk lines, none of which begins with a header-naming
literal or opens a conflict region (`isQuietLine`; a `--- y` hunk line of a combined diff stands behind its marker columns) —: if the
run succeeds, the file-header rows of delta's output are exactly `rowsOfCItems cfg 0 items`: one per section, in order, written at
the section's `+++ ` line (index of the `diff --cc` line + number of index lines + 2), showing the description of the two names
that section's own `--- ` / `+++ ` lines carry; none for a commit block. The header steps are those of `FileHeaders2.lean` re-proved
for a header state of any diff type (`DiffHeader(Combined(Unknown, No))` here); the hunks are covered by
`no_pending_header_no_file_row` (any state: pending `@@@` header, `HunkZero/Minus/Plus(Combined(..))`). Hypotheses: `FHC`
(otherwise no row of kind `file`), `CSec.WF` — decidable (`CSec.wfb`); a body line beginning `--- ` / `+++ ` / `diff ` is the start of
something else (`line_hypothesis_needed` above), a conflict region is excluded (rows out of buffers, C01's theorems). -/
theorem one_file_header_per_section_combined {cfg : Cfg} (hc : FHC cfg) (items : List CItem) (w : ∀ i ∈ items, i.WF)
    {m : M} (e : run cfg (linesOfCItems items) = .ok m) :
    m.out.filter (fun r => r.kind == .file) = rowsOfCItems cfg 0 items :=
  run_one_file_row_per_section_combined hc items w e

/-- … so the number of file headers is the number of sections -/
theorem file_header_count_combined {cfg : Cfg} (hc : FHC cfg) (items : List CItem) (w : ∀ i ∈ items, i.WF)
    {m : M} (e : run cfg (linesOfCItems items) = .ok m) :
    (m.out.filter (fun r => r.kind == .file)).length =
      (items.filter CItem.isSec).length := by
  rw [one_file_header_per_section_combined hc items w e, rowsOfCItems_length]

/-- step level: the `+++ ` line of a section in a header state of any diff type writes exactly that section's row, after which
nothing is owed; the `diff --cc` line, met with nothing owed, writes none -/
theorem combined_plus_line_writes_the_header {cfg : Cfg} (hc : FHC cfg) {dt : DiffType} {m : M} {l : L} (h : HdrC dt m)
    (hl : isPlusLine l = true) :
    ∃ m', step cfg m l = .ok m' ∧ QG m' ∧ m'.n = m.n + 1 ∧
      fileTL m' = fileTL m ++ [headerRow cfg m.minusFile m.minusEvent l m.n] :=
  plus_step_c hc h hl

theorem combined_diff_line_writes_no_header {cfg : Cfg} (hc : FHC cfg) {m : M} {l : L} (h : QC m) (hl : isCcLine l = true) :
    ∃ m', step cfg m l = .ok m' ∧ HdrC (.combined .unknown false) m' ∧ fileTL m' = fileTL m ∧ m'.n = m.n + 1 :=
  cc_line_step hc h hl

open Machine.CombinedHeadersEx Machine.CommitBlocksEx in
/-- the hypotheses are met by a concrete `git show`-like stream of two merge commits (38 lines: commit blocks with an indented
`--- a/x` message line; a section modified in both parents with a `mode a,b..c` line, two `@@@` hunks and a ` +--- not a header`
hunk line; a file added in the merge (`new file mode`, `--- /dev/null`); a file deleted (`diff --combined`, `deleted file mode a,b`,
`+++ /dev/null`)), the rows are the expected ones, and the model's run agrees — also under a raw commit style with a boxed file
style, and without commit blocks (`Proofs/Machine/CombinedHeadersEx.lean`, `decide +kernel`) -/
example : (∀ i ∈ mergeShow, i.WF) ∧
    shown (rowsOfCItems {} 0 mergeShow) = [("src/x.rs", 11), ("added: new.txt", 25), ("removed: old.txt", 35)] ∧
    agreesC {} mergeShow = true ∧ agreesC {} [.sec ccAdded, .sec ccModified] = true :=
  ⟨mergeShow_wf, mergeShow_rows, mergeShow_run.1, mergeShow_run.2.2⟩

-- plain `diff -u` multi-file streams in the whole-run header theorem (T22) ---------------------------------------

/-- **`one_file_header_per_section_plain`** (whole runs, unbounded; `Proofs/Machine/PlainHeaders2.lean`): for every `FHC`
configuration and every plain `diff -u` input made of file sections (`PSec`: the `--- old` line, the `+++ new` line — neither a
commit line —, then the hunks: `@@` lines and the lines the reference reading `Plain.plainNext` takes as hunk lines, such that the
reading ends with no old-file line outstanding, `PSec.wfb`, decidable): if the run succeeds, the file-header rows of delta's output
are exactly `rowsOfP cfg 0 secs`: **one per `--- ` / `+++ ` pair**, in order, written at the `+++ ` line (index of the `--- ` line
+ 1), showing `old ⟶ new` for the two paths of that pair (dates after the tab dropped) — and **none for a `--- x` / `+++ x` line
inside a hunk**: while the hunk's `@@` line still promises old-file lines a `--- x` line is the removed line `-- x`, and a `+++ x`
line after a hunk line is the added line `++ x` (`one_file_header_per_section_plain_partial` below; the counter invariant of
`BodyPlain.lean`). The first line's source detection and the arming of the counter are part of the run. Hypotheses: `FHC`;
`PSec.wfb` — the `@@` lines must announce the true number of old-file lines (`hunk_count_needed`: otherwise the next section's
`--- ` line is read as a hunk line and its header is missing). Not in the grammar: `diff -u …` command lines of `diff -ru` (after
one a header with empty names is pending), `Only in …` lines. -/
theorem one_file_header_per_section_plain {cfg : Cfg} (hc : FHC cfg) (secs : List Plain.PSec)
    (w : ∀ s ∈ secs, s.wfb = true) {m : M} (e : run cfg (Plain.linesOfP secs) = .ok m) :
    m.out.filter (fun r => r.kind == .file) = Plain.rowsOfP cfg 0 secs :=
  Plain.run_one_file_row_per_section_plain hc secs w e

theorem file_header_count_plain {cfg : Cfg} (hc : FHC cfg) (secs : List Plain.PSec)
    (w : ∀ s ∈ secs, s.wfb = true) {m : M} (e : run cfg (Plain.linesOfP secs) = .ok m) :
    (m.out.filter (fun r => r.kind == .file)).length = secs.length := by
  rw [one_file_header_per_section_plain hc secs w e, Plain.rowsOfP_length]

open Machine.PlainHeaders2Ex Machine.CommitBlocksEx Machine.Plain in
/-- the hypotheses are met by a concrete stream of three sections (22 lines; hunks with `--- x`, `+++ y`, `+++ v`, `+--- …` hunk
lines and a `\ No newline` line; `--- /dev/null`), the rows are the expected ones (at lines 1, 13, 18), the model's run agrees
(also with a boxed file style); and the hunk-count hypothesis is needed (`Proofs/Machine/PlainHeaders2Ex.lean`, `decide +kernel`) -/
example : (∀ s ∈ plain3, s.wfb = true) ∧
    shown (rowsOfP {} 0 plain3) =
      [("old/x.txt ⟶   new/x.txt", 1), ("old/y.txt ⟶   new/y.txt", 13), ("/dev/null ⟶   new/z.txt", 18)] ∧
    agreesP {} plain3 = true ∧
    (pTruncated.wfb = false ∧ p2.wfb = true ∧ fileRowCount {} [pTruncated, p2] = 1) :=
  ⟨plain3_wf, plain3_rows, plain3_run.1, hunk_count_needed⟩

/-- **`one_file_header_per_section_plain_partial`** (the step the whole-run theorem rests on, and more general than its use
there: any state of the simulation, anything pending; `Proofs/Machine/PlainHeaders.lean`): in a plain `diff -u` run, for every
configuration (any file style, also `--color-only`), every machine that stands where the reference reading stands (`Plain.Sim s m`:
source = plain diff, `m.counter` = number of old-file lines the current hunk still expects, unified hunk state inside hunks — the
invariant `BodyPlain.lean` maintains over every accepted input) and every line the reading takes as a **hunk line** — a
removed line `-- x`, i.e. the input line `--- x`, while old-file lines are outstanding; an added line `++ x`, i.e. `+++ x`; any
`-` / `+` / blank-column / `\` line —: the step writes **no file-header row**, whatever header may be pending, and leaves the mode
information and the handled / current pair alone (so the header bookkeeping of the section is not disturbed either). The
counter is what makes it true: every handler before `handle_hunk_line` declines the line (`chain_body`: `three_dashes_expected`
is false while the counter is positive). -/
theorem one_file_header_per_section_plain_partial {cfg : Cfg} {s s' : Plain.PS} {m m' : M} {l : L} (hs : Plain.Sim s m)
    (hn : Plain.plainNext s l = some (s', true)) (e : step cfg m l = .ok m') :
    fileTL m' = fileTL m ∧ m'.modeInfo = m.modeInfo ∧ m'.handledPair = m.handledPair ∧ m'.currentPair = m.currentPair :=
  Plain.step_hunk_line_no_file_row hs hn e

open Machine.PlainHeadersEx Machine.NoPendingEx Machine.Plain in
/-- the hypotheses are met on the model's run (`---`, `+++`, `@@ -1,2 +1,2 @@`, `-a`: the reading stands at `hunk 1`, the
machine simulates it); there `--- x` and `+++ x` are hunk lines and add no file row; one old-file line later the same `--- `
text starts the next section (still no row) and its `+++ ` line adds exactly one (`decide +kernel` in `PlainHeadersEx.lean`) -/
example : plainAfter .top inHunk = some (.hunk 1) ∧ simAfter inHunk = true ∧
    plainNext (.hunk 1) (Machine.CommitBlocksEx.mkL "--- x") = some (.hunk 0, true) ∧
    added {} inHunk (Machine.CommitBlocksEx.mkL "--- x") = some (true, 0) :=
  ⟨dashes_in_hunk.1, dashes_in_hunk.2.1, dashes_in_hunk.2.2.1, dashes_in_hunk.2.2.2.1⟩

end C14
