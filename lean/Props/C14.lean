import Proofs.Machine.Run
namespace C14
open Machine Headers
theorem placeholder : (fileChangeDescription {} ['x'] ['x'] false .change) = ['x'] := by decide
end C14
