import Proofs.Machine.Passthrough
import Proofs.Machine.GlobalOrderLazy
import Proofs.Machine.GlobalOrderLazyLog
import Proofs.Ingest
import Proofs.AnsiGit
import Proofs.Gates
import Proofs.Machine.CommitState
/-!
C04 — text that is not diff/blame/grep output passes through byte for byte.

`raw` is the line as received (after `ingest_line`: the harness obtains it from the code); a
`.raw` row is written to the output exactly as it is.
-/
namespace C04
open Machine Headers Generated

/-- Tab width 0 (the `--color-only` preset) never changes a line. -/
theorem expand_zero_identity (l : List Char) : Text.expand 0 l = l := by
  simp [Text.expand]

/-- A line without a TAB is unchanged by tab expansion, whatever the width. -/
theorem expand_no_tab_identity (w : Nat) (l : List Char) (h : '\t' ∉ l) :
    Text.expand w l = l := by
  unfold Text.expand
  split
  · rfl
  · induction l with
    | nil => rfl
    | cons c cs ih =>
      have hc : c ≠ '\t' := fun e => h (e ▸ List.mem_cons_self)
      have hcs : '\t' ∉ cs := fun m => h (List.mem_cons_of_mem _ m)
      simp [List.flatMap_cons, hc, ih hcs]

example : '\t' ∉ ("abc def".toList) := by decide

/-- `passthrough_exact`. Outside any diff section (state Unknown or CommitMeta; not a plain
`diff -u` stream) a line that opens no construct is claimed by no handler and is written by
`emit_line_unchanged`: exactly one new row, at the end of the timeline, carrying the raw line
unchanged (including any colours it has), and the state stays what it was. -/
theorem passthrough_exact (cfg : Cfg) (m : M) (l : L)
    (hst : m.st = .unknown ∨ m.st = .commitMeta) (hsrc : m.source ≠ .diffUnified) (no : NotOpener l) :
    ∃ m', chain cfg l Generated.handlerOrder m = .ok m' ∧ m'.st = m.st ∧
      timeline m' = timeline m ++ [{ kind := .raw, text := l.raw, src := m.n }] :=
  Machine.passthrough_exact cfg m l hst hsrc no

/-- the hypotheses are satisfiable: a coloured commit-message line opens nothing -/
def exampleLine : L :=
  { raw := "    \x1b[31mFix\x1b[m the thing".toList, text := "    Fix the thing".toList, graphemes := [],
    commitRe := false, blame := false, grep := 0, submodule := none }

example : NotOpener exampleLine := by
  constructor <;> decide

/-- **`text_stream_passes_through`** (whole runs, every configuration): if no line of the input opens
a construct and no line looks like the start of plain `diff -u` output, delta ends normally and
its output is the input line for line — row `i` is written raw and carries exactly the `raw_line` of
input line `i` (colours included), nothing added, dropped or reordered. -/
theorem text_stream_passes_through {cfg : Cfg} (ls : List L) (hl : ∀ l ∈ ls, PlainText l) :
    ∃ m, run cfg ls = .ok m ∧
      m.out = (ls.zipIdx 0).map (fun p => ({ kind := .raw, text := p.1.raw, src := p.2 } : Row)) :=
  run_passthrough ls hl

example : PlainText exampleLine := ⟨by constructor <;> decide, by decide⟩

/-- `interleaving`: pass-through rows keep their place relative to rendered rows — a step only
appends to the timeline, and at the end of the input the output is exactly the timeline. -/
theorem interleaving {cfg : Cfg} {m m' : M} {l : L} (g : Good m) (e : step cfg m l = .ok m') :
    ∃ new, timeline m' = timeline m ++ new := (step_spec e g).2.1

theorem output_is_timeline {cfg : Cfg} {ls : List L} {m : M} (e : run cfg ls = .ok m) :
    timeline m = m.out := (run_spec e).2

/-- `after_hunk_partial`: inside a hunk a line that is not a hunk line takes the `_` arm of
`handle_hunk_line`: what is written is the raw line with tabs expanded — unchanged iff it has no
TAB or the tab width is 0 (known finding C04-text-after-hunk-tabs for the other case). -/
theorem after_hunk_partial (cfg : Cfg) (m m' : M) (l : L) (hn : newLineState m.st l = .ok none)
    (e : hunkLinePush cfg m l = .ok m') :
    ∃ r : Row, timeline m' = timeline m ++ [r] ∧ r.kind = .other ∧ r.text = Text.expand cfg.tab l.raw := by
  unfold hunkLinePush at e
  simp only [hn] at e
  cases e
  refine ⟨{ kind := .other, text := Text.expand cfg.tab l.raw, src := m.n }, ?_, rfl, rfl⟩
  rw [timeline_of_flushed m]; simp [timeline]

/-- … and the negation of byte-exactness for a line with a TAB, as a concrete witness -/
example : Text.expand 4 "a\tb".toList ≠ "a\tb".toList := by decide

/-! ### `ingest_line`: from the input line to `raw_line` (what pass-through rows print) and `line`

Model `DeltaModel/Ingest.lean` over the escape-sequence model `DeltaModel/Ansi.lean` (builder
b-ansi). Valid UTF-8 input; the test that removes a `\r` and the truncation guard are read from
the source on every run (`Generated.crRemovedWhen`, `Generated.truncGuard`). -/

section IngestLine
open Ansi

/-- `ingest_identity`: a line without `\r` that is not longer than `max-line-length` (or with the
limit switched off) is taken as it is; `line` is the stripped line. -/
theorem ingest_identity (U : Uni) (maxLen : Nat) (sym raw : Bytes) (hcr : (0x0d : UInt8) ∉ raw)
    (hlen : maxLen = 0 ∨ raw.length ≤ maxLen) :
    Ingest.ingest U maxLen sym raw = (strip raw).map fun l => (raw, l) := by
  have h1 : Ingest.removeCr U raw = .ok raw := by
    simp [Ingest.removeCr, Ingest.lastCr_none_of_not_mem raw hcr]
  have h2 := Ingest.not_truncates_of_small maxLen raw hlen
  cases hs : strip raw <;> simp [Ingest.ingest, h1, h2, hs, Except.map]

/-- `ingest_cr_only_zero_width_tail`: when the line is not truncated and `raw_line` differs from
the input, then exactly the last `\r` was removed, and what follows it has display width 0 (only
escape sequences: the CRLF remnant git leaves when it colours a line with CRLF ending). -/
theorem ingest_cr_only_zero_width_tail (U : Uni) (maxLen : Nat) (sym raw r l : Bytes)
    (h : Ingest.ingest U maxLen sym raw = .ok (r, l)) (hlen : maxLen = 0 ∨ raw.length ≤ maxLen)
    (hne : r ≠ raw) :
    ∃ a t, raw = a ++ [0x0d] ++ t ∧ (0x0d : UInt8) ∉ t ∧ measure U t = .ok 0 ∧ r = a ++ t := by
  unfold Ingest.ingest at h
  cases h1 : Ingest.removeCr U raw with
  | error m => simp [h1] at h
  | ok r1 =>
    have hle := Ingest.removeCr_length_le U raw r1 h1
    have h2 := Ingest.not_truncates_of_small maxLen r1 (by rcases hlen with e | e; exact Or.inl e; exact Or.inr (by omega))
    simp only [h1, h2] at h
    cases h3 : strip r1 with
    | error m => simp [h3] at h
    | ok l' =>
      simp only [h3, Bool.false_eq_true, if_false, Except.ok.injEq, Prod.mk.injEq] at h
      obtain ⟨rfl, _⟩ := h
      rcases Ingest.removeCr_cases U raw r1 h1 with e | ⟨a, t, w, e1, e2, e3, e4, e5⟩
      · exact absurd e hne
      · have := Ingest.crRemovedWhen_zero w _ _ e4
        subst this
        exact ⟨a, t, e1, e2, e3, e5⟩

/-- `ingest_text_preserved_partial`: when the line is not truncated, `line` is the stripped
`raw_line`, and `raw_line` is the input or the input without its last `\r` (zero-width tail) —
no visible text is lost or changed. (Partial: truncated lines are the business of C01/C09.) -/
theorem ingest_text_preserved_partial (U : Uni) (maxLen : Nat) (sym raw r l : Bytes)
    (h : Ingest.ingest U maxLen sym raw = .ok (r, l)) (hlen : maxLen = 0 ∨ raw.length ≤ maxLen) :
    strip r = .ok l ∧
      (r = raw ∨ ∃ a t, raw = a ++ [0x0d] ++ t ∧ measure U t = .ok 0 ∧ r = a ++ t) := by
  have hs : strip r = .ok l := by
    unfold Ingest.ingest at h
    cases h1 : Ingest.removeCr U raw with
    | error m => simp [h1] at h
    | ok r1 =>
      have hle := Ingest.removeCr_length_le U raw r1 h1
      have h2 := Ingest.not_truncates_of_small maxLen r1 (by rcases hlen with e | e; exact Or.inl e; exact Or.inr (by omega))
      simp only [h1, h2] at h
      cases h3 : strip r1 with
      | error m => simp [h3] at h
      | ok l' =>
        simp only [h3, Bool.false_eq_true, if_false, Except.ok.injEq, Prod.mk.injEq] at h
        obtain ⟨rfl, rfl⟩ := h
        exact h3
  refine ⟨hs, ?_⟩
  by_cases hr : r = raw
  · exact Or.inl hr
  · obtain ⟨a, t, e1, _, e3, e4⟩ := ingest_cr_only_zero_width_tail U maxLen sym raw r l h hlen hr
    exact Or.inr ⟨a, t, e1, e3, e4⟩

/-- The CRLF remnant on benign lines (characters, SGR/CSI/OSC sequences): for `a ++ \r ++ t` with `t`
free of `\r` and of width 0, `raw_line = a ++ t` and `line` is the text of `a` followed by the text
of `t` — the visible text of the input minus that one `\r`. -/
theorem ingest_crlf_remnant_benign (U : Uni) (hU : Additive U) (maxLen : Nat) (sym : Bytes)
    (ta tt : List Tok) (hwa : ∀ x ∈ ta, x.WF) (hwt : ∀ x ∈ tt, x.WF)
    (hcr : (0x0d : UInt8) ∉ tokBytes tt) (hw : U.width (plainOf tt) = 0)
    (hlen : maxLen = 0 ∨ (tokBytes ta ++ [0x0d] ++ tokBytes tt).length ≤ maxLen) :
    Ingest.ingest U maxLen sym (tokBytes ta ++ [0x0d] ++ tokBytes tt) =
      .ok (tokBytes ta ++ tokBytes tt, plainOf ta ++ plainOf tt) := by
  have hm : measure U (tokBytes tt) = .ok 0 := by rw [measure_tokens U hU tt hwt, hw]
  have h1 : Ingest.removeCr U (tokBytes ta ++ [0x0d] ++ tokBytes tt) = .ok (tokBytes ta ++ tokBytes tt) := by
    unfold Ingest.removeCr
    rw [Ingest.lastCr_split _ _ hcr]
    simp [hm, Ingest.crRemovedWhen_of_zero]
  have hle : (tokBytes ta ++ tokBytes tt).length ≤ (tokBytes ta ++ [0x0d] ++ tokBytes tt).length := by simp
  have h2 := Ingest.not_truncates_of_small maxLen (tokBytes ta ++ tokBytes tt)
    (by rcases hlen with e | e; exact Or.inl e; exact Or.inr (by omega))
  have hwf : ∀ x ∈ ta ++ tt, x.WF := by
    intro x hx; rcases List.mem_append.mp hx with h | h
    · exact hwa x h
    · exact hwt x h
  have e1 := Ingest.tokBytes_app ta tt
  have e2 := Ingest.plainOf_app ta tt
  have h3 : strip (tokBytes ta ++ tokBytes tt) = .ok (plainOf ta ++ plainOf tt) := by
    rw [← e1, ← e2]; exact strip_tokens _ hwf
  unfold Ingest.ingest
  rw [h1]
  simp [h2, h3]

/-- Non-vacuity, with the small concrete Unicode oracle `demoUni`:
`ab\r ESC[m` (CRLF remnant) loses its `\r`; `Fetching\r ESC[32m done ESC[m` (a progress line: text
after the escape sequence) keeps it; `abcdef` is cut at `max-line-length 3`; `@@abcdef` is not. -/
example :
    Ingest.ingest demoUni 0 [] [0x61, 0x62, 0x0d, 0x1b, 0x5b, 0x6d] = .ok ([0x61, 0x62, 0x1b, 0x5b, 0x6d], [0x61, 0x62]) ∧
    Ingest.ingest demoUni 0 [] [0x46, 0x0d, 0x1b, 0x5b, 0x33, 0x32, 0x6d, 0x64, 0x1b, 0x5b, 0x6d] =
      .ok ([0x46, 0x0d, 0x1b, 0x5b, 0x33, 0x32, 0x6d, 0x64, 0x1b, 0x5b, 0x6d], [0x46, 0x0d, 0x64]) ∧
    Ingest.ingest demoUni 3 [0x2e] [0x61, 0x62, 0x63, 0x64, 0x65, 0x66] = .ok ([0x61, 0x62, 0x2e], [0x61, 0x62, 0x2e]) ∧
    Ingest.ingest demoUni 3 [0x2e] [0x40, 0x40, 0x61, 0x62, 0x63, 0x64] =
      .ok ([0x40, 0x40, 0x61, 0x62, 0x63, 0x64], [0x40, 0x40, 0x61, 0x62, 0x63, 0x64]) := by
  decide

/-- `ingest_line` with invalid UTF-8 (model input: the lossy string): the line is ingested like any
other line. Fails on the older form of the `Err(_)` arm (read from the source). -/
theorem ingest_invalid_like_any_line (U : Uni) (maxLen : Nat) (sym lossy : Bytes) :
    Ingest.ingestInvalid U maxLen sym lossy = Ingest.ingest U maxLen sym lossy := by
  have h : Generated.invalidUtf8LikeAnyLine = true := by decide
  simp [Ingest.ingestInvalid, h]

/-- With `--max-line-length 0` (no limit) nothing is lost: `raw_line` is the lossy line itself and
`line` its stripped form (for a line without `\r`; with one, `ingest_cr_only_zero_width_tail` applies). -/
theorem ingest_invalid_no_limit (U : Uni) (sym lossy : Bytes) (hcr : (0x0d : UInt8) ∉ lossy) :
    Ingest.ingestInvalid U 0 sym lossy = (strip lossy).map fun l => (lossy, l) := by
  rw [ingest_invalid_like_any_line]
  exact ingest_identity U 0 sym lossy hcr (Or.inl rfl)

/-- With a limit, a line that is cut is cut by `truncate_str` (which keeps every escape sequence and
appends the truncation symbol), never by a byte count: `raw_line = truncate_str(line', limit, symbol)`
where `line'` is the line after the `\r` step, and `line` is its stripped form. -/
theorem ingest_truncated_by_truncate_str (U : Uni) (maxLen : Nat) (sym raw r1 : Bytes)
    (h1 : Ingest.removeCr U raw = .ok r1) (ht : Ingest.truncates maxLen r1 = true) :
    Ingest.ingest U maxLen sym raw =
      (truncate U r1 maxLen sym (some [0x20])).bind fun r2 => (strip r2).map fun l => (r2, l) := by
  simp only [Ingest.ingest, h1, ht, if_true]
  cases truncate U r1 maxLen sym (some [0x20]) with
  | error m => rfl
  | ok r2 => cases hs : strip r2 <;> simp [Except.bind, Except.map, hs]

/-- `a ÿ b` (lossy: `a U+FFFD b`) at limit 0 and at limit 2 (cut, with the symbol `.`). -/
example :
    Ingest.ingestInvalid demoUni 0 [0x2e] [0x61, 0xef, 0xbf, 0xbd, 0x62] = .ok ([0x61, 0xef, 0xbf, 0xbd, 0x62], [0x61, 0xef, 0xbf, 0xbd, 0x62]) ∧
    Ingest.ingestInvalid demoUni 2 [0x2e] [0x61, 0xef, 0xbf, 0xbd, 0x62] = .ok ([0x61, 0x2e], [0x61, 0x2e]) := by
  decide

end IngestLine

/-! ### Global order of the output (C04 "in order and interleaved correctly", C01 "no hunk line moved
past a header", C14 "header before the file's hunks and after everything of the previous file")

`Row.src` is the ghost stamp of a row = index of the input line it was produced from. For the lazily
written rows (read off the handlers, confirmed by evaluation below): a pending hunk header carries
the index of its `@@` line; buffered minus/plus lines the index of their own line; the submodule
short form the index of its `+Subproject commit` line; the file header of a section without
`--- `/`+++ ` lines (`handle_pending_line_with_diff_name`) the index of the line that TRIGGERS the
write (next `diff ` line, next commit line, or `ls.length` at the end of the input) — for that row
`lazy_file_header_in_place` / `lazy_file_header_at_end` say where it stands. -/

/-- **`all_rows_in_input_order`** (whole runs, every configuration of the model). If no line of the
input opens a merge-conflict region and no `@@` line is directly followed by a `Binary files …` /
`new file mode …` / `deleted file mode …` line (`NoStray`, decidable), then the input indices carried
by ALL rows of delta's output — raw pass-through rows, commit / file / hunk-header rows with their
blank and decoration rows, mode / binary / submodule rows, hunk-line rows — are non-decreasing: no
row of a later line stands before a row of an earlier line, whatever kinds the rows have. (One input
line can produce several rows, hence `≤`.) -/
theorem all_rows_in_input_order {cfg : Cfg} {ls : List L} {m : M}
    (hmc : ∀ l ∈ ls, startsWith l.text Generated.Markers.mcBegin = false) (hns : NoStray ls)
    (e : run cfg ls = .ok m) : (m.out.map (·.src)).Pairwise (· ≤ ·) :=
  (run_rows_sorted hmc hns e).1

/-- … and every stamp is the index of an input line, or `ls.length` for a file header written by
the statements after the loop. -/
theorem all_rows_stamped_within_input {cfg : Cfg} {ls : List L} {m : M}
    (hmc : ∀ l ∈ ls, startsWith l.text Generated.Markers.mcBegin = false) (hns : NoStray ls)
    (e : run cfg ls = .ok m) : ∀ r ∈ m.out, r.src ≤ ls.length :=
  (run_rows_sorted hmc hns e).2

def mkL (s : String) : L :=
  { raw := s.toList, text := s.toList, graphemes := s.toList.map (fun c => [c]),
    commitRe := false, blame := false, grep := 0, submodule := none }
def mkC (s : String) : L := { mkL s with commitRe := true }

/-- `git log -p` shaped input: commit block, message text, a file section with a hunk, a mode-only
section (its header is written lazily, when the next commit line arrives), another commit block with
a file section -/
def logP : List L :=
  [mkC "commit 1a2b", mkL "Author: A <a@b>", mkL "", mkL "    Fix the thing", mkL "",
   mkL "diff --git a/x b/x", mkL "index 1..2 100644", mkL "--- a/x", mkL "+++ b/x", mkL "@@ -1,2 +1,2 @@ fn f()",
   mkL " ctx", mkL "-old", mkL "+new",
   mkL "diff --git a/m b/m", mkL "old mode 100644", mkL "new mode 100755",
   mkC "commit 3c4d", mkL "Author: A <a@b>", mkL "", mkL "    Second message", mkL "",
   mkL "diff --git a/y b/y", mkL "--- a/y", mkL "+++ b/y", mkL "@@ -3 +3 @@", mkL "-a", mkL "+b"]

example : ∀ l ∈ logP, startsWith l.text Generated.Markers.mcBegin = false := by decide
example : NoStray logP := by decide
/-- what the conclusion says there: commit row 0, raw rows 1–4, blank + file header at the `+++ `
line 8, blank + hunk header stamped with the `@@` line 9, hunk lines 10–12, the lazily written header
of the mode-only section (blank + file row) stamped with its trigger 16 followed by the commit row 16,
raw rows 17–20, the second section -/
example : (match run {} logP with | .ok m => m.out.map (·.src) | .error _ => []) =
    [0, 1, 2, 3, 4, 8, 8, 9, 9, 10, 11, 12, 16, 16, 16, 17, 18, 19, 20, 23, 23, 24, 24, 25, 26] := by decide
example : (match run {} logP with | .ok m => (m.out.filter (fun r => r.src == 16)).map (fun r => (r.kind, String.ofList r.text)) | .error _ => []) =
    [(.blank, ""), (.file, "m (mode +x)"), (.commit, "commit 3c4d")] := by decide

/-- The hypothesis `NoStray` is needed, first kind (`Binary files` line while no file name is known):
the line is written at once, the hunk header that was pending after it. Confirmed on the real binary
(`printf '@@ -1 +1 @@\nBinary files a and b differ\n x\n' | delta`): the `Binary files` line is shown
above the hunk header. git never produces this input. -/
theorem stray_binary_line_overtakes_pending_hunk_header :
    (match run {} (["@@ -1 +1 @@", "Binary files a and b differ", " x"].map mkL) with
     | .ok m => m.out.map (·.src)
     | .error _ => []) = [1, 0, 0, 2] := by decide

/-- … second kind (`new file mode` line in plain `diff -u` input under `--color-only`): real binary
`printf -- '--- a\n+++ b\n@@ -1 +1 @@\nnew file mode 100644\n x\n' | delta --color-only` prints the
`new file mode` line above the `@@` line (so `--color-only` is not line-for-line on this input). -/
theorem stray_file_operation_line_overtakes_pending_hunk_header :
    (match run { colorOnly := true } (["--- a", "+++ b", "@@ -1 +1 @@", "new file mode 100644", " x"].map mkL) with
     | .ok m => m.out.map (·.src)
     | .error _ => []) = [0, 1, 3, 2, 4] := by decide

example : ¬ NoStray (["@@ -1 +1 @@", "Binary files a and b differ", " x"].map mkL) := by decide

/-- The hypothesis about conflict regions is needed: the lines of a region are buffered until its end
marker and then shown as two comparisons (ancestor lines twice, ancestor before "ours"). -/
theorem conflict_region_not_in_input_order :
    (match run {} (["diff --cc x", "--- a/x", "+++ b/x", "@@@ -1,3 -1,3 +1,7 @@@", "++<<<<<<< HEAD", "+ ours",
                    "++||||||| base", "++anc", "++=======", " +theirs", "++>>>>>>> other"].map mkL) with
     | .ok m => (m.out.map (·.src)).drop 4
     | .error _ => []) = [10, 10, 10, 10, 7, 5, 10, 10, 10, 7, 9, 10] := by decide

/-- **`rows_of_earlier_lines_stand_before`** (whole runs, by position): if the row at position `i` of
the output is stamped with a smaller input index than the row at position `j`, then `i < j`. With
where the header rows come from (file header: the `+++ ` line of its section, `C14`; hunk header: its
`@@` line) this reads: a file header stands before every row of its file's hunks and after every row
of the previous file; no hunk line stands on the wrong side of a header. -/
theorem rows_of_earlier_lines_stand_before {cfg : Cfg} {ls : List L} {m : M}
    (hmc : ∀ l ∈ ls, startsWith l.text Generated.Markers.mcBegin = false) (hns : NoStray ls)
    (e : run cfg ls = .ok m) {i j : Nat} {r1 r2 : Row} (h1 : m.out[i]? = some r1) (h2 : m.out[j]? = some r2)
    (hlt : r1.src < r2.src) : i < j :=
  run_rows_positions hmc hns e h1 h2 hlt

/-- on `logP`: position 6 is the file header of `x` (stamped with line 8, the `+++ ` line), position 11
the `+new` row of its hunk (line 12) -/
example : (match run {} logP with
    | .ok m => (m.out[6]?.map (fun r => (r.kind, r.src)), m.out[11]?.map (fun r => (r.kind, r.src)))
    | .error _ => (none, none)) = (some (.file, 8), some (.plus, 12)) := by decide

/-- **`rows_split_at`** (whole runs): cut the input anywhere, `ls = A ++ B`. The output is
`before ++ after`: `before` holds exactly the rows stamped with a line of `A`, `after` the rows
stamped with a line of `B` (or `ls.length`). -/
theorem rows_split_at {cfg : Cfg} {A B : List L} {m : M}
    (hmc : ∀ l ∈ A ++ B, startsWith l.text Generated.Markers.mcBegin = false) (hns : NoStray (A ++ B))
    (e : run cfg (A ++ B) = .ok m) :
    ∃ before after, m.out = before ++ after ∧ (∀ r ∈ before, r.src < A.length) ∧
      (∀ r ∈ after, A.length ≤ r.src) :=
  run_rows_split_at hmc hns e

/-- **`section_rows_between_headers`** (whole runs). Let `S` be the lines of file section k (from its
`diff ` line to the line before the next section's `diff ` line, or any other block of consecutive
lines), `A` what precedes and `B` what follows. The output is `a ++ s ++ b`: all rows of earlier
lines, then all rows stamped with a line of the section (its eagerly written file header — stamped
with the `+++ ` line, see `C14.one_file_header_per_section` — its hunk headers and hunk lines), then
all rows of later lines, among them the file header of section k+1. A lazily written header of
section k itself is the first thing in `b` (`lazy_file_header_in_place`). -/
theorem section_rows_between_headers {cfg : Cfg} {A S B : List L} {m : M}
    (hmc : ∀ l ∈ A ++ S ++ B, startsWith l.text Generated.Markers.mcBegin = false) (hns : NoStray (A ++ S ++ B))
    (e : run cfg (A ++ S ++ B) = .ok m) :
    ∃ a s b, m.out = a ++ s ++ b ∧ (∀ r ∈ a, r.src < A.length) ∧
      (∀ r ∈ s, A.length ≤ r.src ∧ r.src < A.length + S.length) ∧ (∀ r ∈ b, A.length + S.length ≤ r.src) :=
  run_section_block hmc hns e

/-- on `logP` with `S` = the first file section (lines 5–12): its block is the file header, the hunk
header and the three hunk lines; the commit block stands before, everything else after -/
example : logP = logP.take 5 ++ (logP.drop 5).take 8 ++ logP.drop 13 := rfl
example : (match run {} logP with
    | .ok m => (m.out.filter (fun r => 5 ≤ r.src && r.src < 13)).map (·.kind)
    | .error _ => []) = [.blank, .file, .blank, .hunkHeader, .zero, .minus, .plus] := by decide

/-- **`passthrough_rows_in_place`** (whole runs, every configuration, any input). A line met in state
Unknown / CommitMeta of a stream that is not plain `diff -u` output (text before the first diff,
commit-message text between the file sections of `git log -p`) which opens no construct
(`PlainText`: `NotOpener` and not the start of plain diff output) has exactly one row in delta's
output: a raw row with the line unchanged; it stands after every row of every earlier line and before
every row of every later line — whatever constructs the rest of the input contains. -/
theorem passthrough_rows_in_place {cfg : Cfg} {pre post : List L} {l : L} {mi m : M}
    (hmc : ∀ x ∈ pre ++ l :: post, startsWith x.text Generated.Markers.mcBegin = false)
    (hns : NoStray (pre ++ l :: post))
    (ei : runFrom cfg {} pre = .ok mi) (hst : mi.st = .unknown ∨ mi.st = .commitMeta)
    (hsrc : mi.source ≠ .diffUnified) (hl : PlainText l) (e : run cfg (pre ++ l :: post) = .ok m) :
    ∃ A C, m.out = A ++ [{ kind := .raw, text := l.raw, src := pre.length }] ++ C ∧
      (∀ r ∈ A, r.src < pre.length) ∧ (∀ r ∈ C, pre.length < r.src) :=
  run_passthrough_in_place hmc hns ei hst hsrc hl e

/-- line 19 of `logP` (`    Second message`, after two file sections and a commit line): the
hypotheses hold, and the conclusion names its one row -/
example : logP = logP.take 19 ++ mkL "    Second message" :: logP.drop 20 := rfl
example : (match runFrom {} {} (logP.take 19) with
    | .ok mi => mi.st == .commitMeta && mi.source == .gitDiff
    | .error _ => false) = true := by decide
example : PlainText (mkL "    Second message") := ⟨by constructor <;> decide, by decide⟩
example : (match run {} logP with
    | .ok m => m.out.filter (fun r => r.src == 19)
    | .error _ => []) = [{ kind := .raw, text := "    Second message".toList, src := 19 }] := by decide

/-- **`lazy_file_header_in_place`** (whole runs). `t` a `diff ` line, `mi` the machine when it arrives.
The output is `timeline mi ++ H ++ rest`: everything rendered for the lines before `t` (all stamped
below `t`), then the rows `H` that `handle_pending_line_with_diff_name` writes at that moment for the
section that ends here (its file header if still owed: mode change, rename, binary, empty file; stamped
with the index of `t`), then every other row of `t` and of the later lines. So a lazily written file
header stands after everything that belongs to the previous lines and before anything of the next
section. -/
theorem lazy_file_header_in_place {cfg : Cfg} {pre post : List L} {t : L} {mi m : M}
    (hmc : ∀ x ∈ pre ++ t :: post, startsWith x.text Generated.Markers.mcBegin = false)
    (hns : NoStray (pre ++ t :: post))
    (ei : runFrom cfg {} pre = .ok mi) (hd : startsWith t.text Markers.diffLine = true) (hc : t.commitRe = false)
    (e : run cfg (pre ++ t :: post) = .ok m) :
    ∃ H rest, m.out = timeline mi ++ H ++ rest ∧
      timeline (pendingDiffName cfg { flushMP (stepInit mi t) with st := diffLineState t }) = timeline mi ++ H ∧
      (∀ r ∈ timeline mi, r.src < pre.length) ∧ (∀ r ∈ H, r.src = pre.length) ∧
      (∀ r ∈ rest, pre.length ≤ r.src) :=
  run_lazy_file_header_in_place hmc hns ei hd hc e

/-- **`lazy_file_header_at_end`**: … and when the input ends, the output is everything rendered in the
loop followed by the rows `handle_pending_line_with_diff_name` writes for the last section, stamped
`ls.length`. -/
theorem lazy_file_header_at_end {cfg : Cfg} {ls : List L} {m1 m : M}
    (hmc : ∀ x ∈ ls, startsWith x.text Generated.Markers.mcBegin = false) (hns : NoStray ls)
    (e1 : runFrom cfg {} ls = .ok m1) (e : run cfg ls = .ok m) :
    ∃ H, m.out = timeline m1 ++ H ∧ timeline (pendingDiffName cfg (flushMP m1)) = timeline m1 ++ H ∧
      (∀ r ∈ timeline m1, r.src < ls.length) ∧ (∀ r ∈ H, r.src = ls.length) :=
  run_lazy_file_header_at_end hmc hns e1 e

/-- a new empty file followed by another section, and a mode change that ends the input: the lazily
written headers carry the index of the trigger (3) resp. `ls.length` (3) -/
example : (match run {} (["diff --git a/e b/e", "new file mode 100644", "index 000..111", "diff --git a/x b/x", "--- a/x", "+++ b/x"].map mkL) with
    | .ok m => m.out.map (fun r => (r.src, r.kind, String.ofList r.text))
    | .error _ => []) = [(3, .blank, ""), (3, .file, "added: e"), (5, .blank, ""), (5, .file, "x")] := by decide
example : (match run {} (["diff --git a/m b/m", "old mode 100644", "new mode 100755"].map mkL) with
    | .ok m => m.out.map (fun r => (r.src, r.kind, String.ofList r.text))
    | .error _ => []) = [(3, .blank, ""), (3, .file, "m (mode +x)")] := by decide

/-- **`lazy_file_header_before_submodule_log`** (whole runs). The same for a section that is followed by a submodule
log (`git diff --submodule=log`): `t` a `Submodule <path> <range>:` line, `mi` the machine when it arrives. The output is
`timeline mi ++ H ++ rest`: everything rendered for the lines before `t`, then the rows `H` that
`handle_pending_line_with_diff_name` writes at that moment for the section that ends here (its file header if still
owed; stamped with the index of `t`), then every other row of `t` — the header showing the `Submodule …` line — and of
the later lines. (`handle_submodule_log_line` begins with the same two calls as `handle_diff_header_diff_line`; before
that repair the owed header came after the log, with the mode change on the submodule's header, or was never written.) -/
theorem lazy_file_header_before_submodule_log {cfg : Cfg} {pre post : List L} {t : L} {mi m : M}
    (hmc : ∀ x ∈ pre ++ t :: post, startsWith x.text Generated.Markers.mcBegin = false)
    (hns : NoStray (pre ++ t :: post))
    (ei : runFrom cfg {} pre = .ok mi) (hd : startsWith t.text Markers.submoduleLog = true) (hc : t.commitRe = false)
    (e : run cfg (pre ++ t :: post) = .ok m) :
    ∃ H rest, m.out = timeline mi ++ H ++ rest ∧
      timeline (pendingDiffName cfg (flushMP (stepInit mi t))) = timeline mi ++ H ∧
      (∀ r ∈ timeline mi, r.src < pre.length) ∧ (∀ r ∈ H, r.src = pre.length) ∧
      (∀ r ∈ rest, pre.length ≤ r.src) :=
  run_lazy_file_header_before_submodule_log hmc hns ei hd hc e

/-- a mode change followed by a submodule log and another section: the owed header (with its mode change) is written
when the `Submodule …` line (3) arrives, before that line's own header; the log lines pass through -/
example : (match run {} (["diff --git a/m b/m", "old mode 100644", "new mode 100755", "Submodule sub 1111111..2222222:",
      "  > subject", "diff --git a/x b/x", "--- a/x", "+++ b/x"].map mkL) with
    | .ok m => m.out.map (fun r => (r.src, r.kind, String.ofList r.text))
    | .error _ => []) = [(3, .blank, ""), (3, .file, "m (mode +x)"), (3, .blank, ""),
      (3, .file, "Submodule sub 1111111..2222222:"), (4, .raw, "  > subject"), (7, .blank, ""), (7, .file, "x")] := by decide

/-- What `lazy_file_header_in_place` also shows: the lazily written header stands AFTER the rows of its
own section's lines. git's sections without `--- `/`+++ ` lines have no such rows; a hand-made section
with a hunk but no `--- `/`+++ ` lines gets its file header below its hunk — in the model and in the
real binary (`printf 'diff --git a/x b/x\n@@ -1 +1 @@\n x\ndiff --git a/y b/y\n' | delta`). -/
theorem file_header_after_hunk_without_name_lines :
    (match run {} (["diff --git a/x b/x", "@@ -1 +1 @@", " x", "diff --git a/y b/y"].map mkL) with
     | .ok m => m.out.map (fun r => (r.src, r.kind))
     | .error _ => []) = [(1, .blank), (1, .hunkHeader), (2, .zero), (3, .blank), (3, .file), (4, .blank), (4, .file)] := by
  decide

/-! ### Claim gates: which handler may take a line outside any diff section, and who has to say so

The handlers between `handle_hunk_line` and `emit_line_unchanged` (`handle_git_show_file_line`,
`handle_blame_line`, `handle_grep_line`) and `handle_diff_stat_line` are not keyed on a literal marker.
`Generated.ClaimGates` holds, per handler, the decision tree read from the Rust source on every run
(`tools/extractors/gates.py`): which state, which calling process, which prefix, which configuration
value (= option value), which regex is asked before the handler returns `Ok(true)`. The theorems below
quantify over ALL environments `e : Gates.Env` — every valuation of the configuration fields
(`e.option`: any option values), of the regexes not named in the hypotheses (`e.regex`) and of the
conditions the reader could not interpret (`e.other`). Each is proved by evaluating the over-approximation
`Gates.may` on the generated tree (finite: `decide`) and `Gates.claims_may`. A way to claim a line that does
not ask the calling process (a fallback switched on by an option, a dropped guard) is a new branch of the
tree on which `may` is true: the proof fails. -/

section ClaimGates
open Generated.ClaimGates Gates

/-- **`grep_gate_needs_a_grep_tool`**: when the calling process is not a grep tool (`git grep`, `rg` & co.),
`handle_grep_line` takes no line that does not begin with `{` (an `rg --json` record) — in any state,
under any option values (`--grep-output-type` and every other configuration field), whatever the five
grep regexes say about the line. -/
theorem grep_gate_needs_a_grep_tool (e : Env) (hc : e.caller ∈ callers) (hng : e.caller ∉ grepTools)
    (hbrace : e.startsWith .line "{" = false) : claims e grep = false := by
  have tbl : ∀ c ∈ callers, c ∉ grepTools → may (knowOf none (some c) [.pfx .line "{"]) grep = false := by decide
  refine not_claims_of_may_false (tbl e.caller hc hng) e (by simp) (by simp) ?_
  intro c hm
  simp only [List.mem_singleton] at hm
  subst hm
  exact hbrace

/-- **`blame_gate_needs_the_blame_regex`**: `handle_blame_line` takes no line that `BLAME_LINE_REGEX` does not
match — whatever the calling process, the state and the option values (`--blame-format`,
`--blame-timestamp-format`, …) are. -/
theorem blame_gate_needs_the_blame_regex (e : Env) (hre : e.regex "BLAME_LINE_REGEX" = false) :
    claims e blame = false := by
  have tbl : may (knowOf none none [.regex "BLAME_LINE_REGEX"]) blame = false := by decide
  refine not_claims_of_may_false tbl e (by simp) (by simp) ?_
  intro c hm
  simp only [List.mem_singleton] at hm
  subst hm
  exact hre

/-- **`git_show_file_gate_needs_git_show`**: outside its own state, `handle_git_show_file_line` takes a line
only when delta was called by `git show` — under any option values. -/
theorem git_show_file_gate_needs_git_show (e : Env) (hc : e.caller ∈ callers) (hns : e.caller ≠ "GitShow")
    (hs : e.state ∈ states) (hst : e.state ≠ "GitShowFile") : claims e gitShowFile = false := by
  have tbl : ∀ c ∈ callers, c ≠ "GitShow" → ∀ s ∈ states, s ≠ "GitShowFile" →
      may (knowOf (some s) (some c) []) gitShowFile = false := by decide
  exact not_claims_of_may_false (tbl e.caller hc hns e.state hs hst) e (by simp) (by simp) (by simp)

/-- **`diff_stat_gate_needs_relative_paths`**: `handle_diff_stat_line` takes a line only with
`relative-paths` switched on, … -/
theorem diff_stat_gate_needs_relative_paths (e : Env) (h : e.option "relative_paths" = false) :
    claims e diffStat = false := by
  have tbl : may (knowOf none none [.option "relative_paths"]) diffStat = false := by decide
  refine not_claims_of_may_false tbl e (by simp) (by simp) ?_
  intro c hm
  simp only [List.mem_singleton] at hm
  subst hm
  exact h

/-- … **`diff_stat_gate_needs_a_leading_blank`**: only a line that begins with a blank, … -/
theorem diff_stat_gate_needs_a_leading_blank (e : Env) (h : e.startsWith .line " " = false) :
    claims e diffStat = false := by
  have tbl : may (knowOf none none [.pfx .line " "]) diffStat = false := by decide
  refine not_claims_of_may_false tbl e (by simp) (by simp) ?_
  intro c hm
  simp only [List.mem_singleton] at hm
  subst hm
  exact h

/-- … **`diff_stat_gate_needs_the_diff_stat_regex`**: and only one that `DIFF_STAT_LINE_REGEX` matches;
in every state and for every other option value. -/
theorem diff_stat_gate_needs_the_diff_stat_regex (e : Env) (h : e.regex "DIFF_STAT_LINE_REGEX" = false) :
    claims e diffStat = false := by
  have tbl : may (knowOf none none [.regex "DIFF_STAT_LINE_REGEX"]) diffStat = false := by decide
  refine not_claims_of_may_false tbl e (by simp) (by simp) ?_
  intro c hm
  simp only [List.mem_singleton] at hm
  subst hm
  exact h

/-- **`gate_states_as_in_the_machine_model`**: the states in which the source lets each of the four
handlers look at a line are the ones the machine model (`handleBlame`, `handleGrep`, `handleGitShowFile`,
`handleDiffStat`) builds in: Blame/Unknown, Grep/Unknown, Unknown/GitShowFile, CommitMeta/Unknown. In no
other state can the handler claim, whatever the rest says. -/
theorem gate_states_as_in_the_machine_model :
    (∀ s ∈ states, s ∉ ["Blame", "Unknown"] → may (knowOf (some s) none []) blame = false) ∧
    (∀ s ∈ states, s ∉ ["Grep", "Unknown"] → may (knowOf (some s) none []) grep = false) ∧
    (∀ s ∈ states, s ∉ ["Unknown", "GitShowFile"] → may (knowOf (some s) none []) gitShowFile = false) ∧
    (∀ s ∈ states, s ∉ ["CommitMeta", "Unknown"] → may (knowOf (some s) none []) diffStat = false) := by
  decide

/-- … and every handler that stands between `handle_hunk_line` and `should_skip_line` in `consume` has a
gate here (the extractor stops when it meets one it cannot read). -/
theorem tail_handlers_all_gated : ∀ h ∈ tailHandlers, (gateOf h).isSome = true := by decide

/-- the hypotheses are not vacuous, and the gates are not trivially closed: with a grep tool calling, a
line that the loosest grep regex matches IS claimed; a line matched by the blame regex (and whose
timestamp and line number parse) IS claimed; `git show` output IS claimed -/
def demoEnv (caller : String) : Env :=
  { state := "Unknown", caller := caller, startsWith := fun _ _ => false, option := fun _ => false,
    regex := fun n => n == "GREP_LINE_REGEX_ASSUMING_NO_INTERNAL_SEPARATOR_CHARS" || n == "BLAME_LINE_REGEX",
    other := fun _ => true }

example : claims (demoEnv "OtherGrep") grep = true ∧ claims (demoEnv "None") grep = false ∧
    claims (demoEnv "None") blame = true ∧ claims (demoEnv "GitShow") gitShowFile = true ∧
    claims (demoEnv "GitDiff") gitShowFile = false := by decide

/-- **`no_option_makes_a_handler_claim_text`** (all four gates at once). Delta was started by something
that is neither a grep tool nor `git show`; the machine is outside any construct (state Unknown or
CommitMeta); the line does not begin with `{`, is not matched by the blame regex, and does not begin with a
blank or is not matched by the diff-stat regex. Then none of the four handlers claims it — for every
valuation of the configuration fields (no value of `--grep-output-type`, `--blame-format`, `--relative-paths`
or any other option changes that), of the remaining regexes and of the uninterpreted conditions. -/
theorem no_option_makes_a_handler_claim_text (e : Env) (hc : e.caller ∈ callers) (hng : e.caller ∉ grepTools)
    (hns : e.caller ≠ "GitShow") (hst : e.state = "Unknown" ∨ e.state = "CommitMeta")
    (hbrace : e.startsWith .line "{" = false) (hbl : e.regex "BLAME_LINE_REGEX" = false)
    (hds : e.startsWith .line " " = false ∨ e.regex "DIFF_STAT_LINE_REGEX" = false) :
    claims e diffStat = false ∧ claims e gitShowFile = false ∧ claims e blame = false ∧ claims e grep = false := by
  refine ⟨?_, ?_, blame_gate_needs_the_blame_regex e hbl, grep_gate_needs_a_grep_tool e hc hng hbrace⟩
  · rcases hds with h | h
    · exact diff_stat_gate_needs_a_leading_blank e h
    · exact diff_stat_gate_needs_the_diff_stat_regex e h
  · refine git_show_file_gate_needs_git_show e hc hns ?_ ?_
    · rcases hst with h | h <;> rw [h] <;> decide
    · rcases hst with h | h <;> rw [h] <;> decide

example : (demoEnv "GitLog").caller ∈ callers ∧ (demoEnv "GitLog").caller ∉ grepTools := by decide

/-- **`passthrough_whatever_the_options`**: the gates composed with the state machine. `l` is a line met
outside any diff section that carries no literal marker and is not a commit line; `e` describes it
(no `{` in front, not matched by the blame regex) and a calling process that is not a grep tool; the two
per-line facts the machine model takes from the implementation are what the gates say (`l.blame` only if the
blame gate claims, `l.grep ≠ 0` only if the grep gate claims: the correspondence run compares exactly this).
Then, for every configuration of the machine model AND every option valuation of `e`, the handler chain ends
in `emit_line_unchanged`: one raw row with the line as received, state unchanged. -/
theorem passthrough_whatever_the_options (cfg : Machine.Cfg) (m : Machine.M) (l : Machine.L) (e : Env)
    (hst : m.st = .unknown ∨ m.st = .commitMeta) (hsrc : m.source ≠ .diffUnified)
    (hcr : l.commitRe = false) (mk : NoMarker l)
    (hc : e.caller ∈ callers) (hng : e.caller ∉ grepTools)
    (hbrace : e.startsWith .line "{" = false) (hbl : e.regex "BLAME_LINE_REGEX" = false)
    (hb : l.blame = true → claims e blame = true) (hg : l.grep ≠ 0 → claims e grep = true) :
    ∃ m', Machine.chain cfg l Generated.handlerOrder m = .ok m' ∧ m'.st = m.st ∧
      Machine.timeline m' = Machine.timeline m ++ [{ kind := .raw, text := l.raw, src := m.n }] := by
  have h1 := blame_gate_needs_the_blame_regex e hbl
  have h2 := grep_gate_needs_a_grep_tool e hc hng hbrace
  have no : Machine.NotOpener l :=
    { commit := hcr, diff := mk.diff, hunkHeader := mk.hunkHeader, oldMode := mk.oldMode, newMode := mk.newMode,
      onlyIn := mk.onlyIn, binary := mk.binary, submodule := mk.submodule,
      blame := by
        cases hbv : l.blame with
        | false => rfl
        | true => rw [hb hbv] at h1; cases h1
      grep := by
        cases hgv : l.grep with
        | zero => rfl
        | succ k => rw [hg (by rw [hgv]; exact Nat.succ_ne_zero k)] at h2; cases h2 }
  exact Machine.passthrough_exact cfg m l hst hsrc no

end ClaimGates

/-! ### The state after a commit line (`git log -p`: what makes the message lines pass through) -/

/-- `commit_line_enters_commit_meta`. One iteration of `consume` on a line matched by the commit regex leaves the
machine in `CommitMeta` — from every state (inside a hunk, after a hunk-less file section, …) and for every commit
style the handler deals with itself: drawn with any decoration, raw with a decoration, **or omitted** (the state is
set before the handler decides whether to draw). The `Author:` / `Date:` / message lines that follow are therefore
met in `CommitMeta` and `passthrough_rows_in_place` applies to them, also with `commit-style = omit`. (With
`commit-style raw` and no decoration the handler leaves the line to `emit_line_unchanged`: `shouldHandle` is false —
the state it hands on is `CommitMeta` as well: `commit_handler_always_sets_commit_meta`.) -/
theorem commit_line_enters_commit_meta (cfg : Machine.Cfg) (m m' : Machine.M) (l : Machine.L)
    (hre : l.commitRe = true)
    (hs : Machine.shouldHandle cfg
      { Machine.pendingDiffName cfg (Machine.flushMP (Machine.stepInit m l)) with st := .commitMeta } = true)
    (h : Machine.step cfg m l = .ok m') : m'.st = .commitMeta :=
  Machine.step_commit_line_st cfg m m' l hre hs h

/-- The handler itself: whatever it answers (claimed or not), the machine it returns is in `CommitMeta`. -/
theorem commit_handler_always_sets_commit_meta (cfg : Machine.Cfg) (m m' : Machine.M) (l : Machine.L) (b : Bool)
    (hre : l.commitRe = true) (h : Machine.handleCommitMeta cfg m l = .ok (b, m')) : m'.st = .commitMeta :=
  Machine.handleCommitMeta_st cfg m m' l b hre h

-- `commit-style = omit`, met inside a hunk (`git log -p`, second commit): claimed, nothing drawn, state `CommitMeta`
example :
    (match Machine.step { commitStyle := { isOmitted := true } }
        { st := .hunkZero .unified, source := .gitDiff, n := 7 }
        { raw := "commit 0123abc".toList, text := "commit 0123abc".toList, graphemes := [], commitRe := true,
          blame := false, grep := 0, submodule := none } with
     | .ok m' => (m'.st == .commitMeta, m'.out.length)
     | .error _ => (false, 99)) = (true, 0) := by decide

end C04
