import DeltaModel.Text
/-!
C04 — text that is not diff/blame/grep output passes through byte for byte.
(First instalment: the tab-expansion primitive that decides when a line is unchanged.)
-/
namespace C04

/-- Tab width 0 (the `--color-only` preset) never changes a line. -/
theorem expand_zero_identity (l : List Char) : Text.expand 0 l = l := by
  simp [Text.expand]

/-- A line without a TAB is unchanged by tab expansion, whatever the width. -/
theorem expand_no_tab_identity (w : Nat) (l : List Char) (h : '\t' ∉ l) :
    Text.expand w l = l := by
  unfold Text.expand
  split
  · rfl
  · induction l with
    | nil => rfl
    | cons c cs ih =>
      have hc : c ≠ '\t' := fun e => h (e ▸ List.mem_cons_self)
      have hcs : '\t' ∉ cs := fun m => h (List.mem_cons_of_mem _ m)
      simp [List.flatMap_cons, hc, ih hcs]

example : '\t' ∉ ("abc def".toList) := by decide

end C04
