import Proofs.Machine.Passthrough
import Proofs.Ingest
import Proofs.AnsiGit
/-!
C04 — text that is not diff/blame/grep output passes through byte for byte.

`raw` is the line as received (after `ingest_line`: the harness obtains it from the code); a
`.raw` row is written to the output exactly as it is.
-/
namespace C04
open Machine Headers Generated

/-- Tab width 0 (the `--color-only` preset) never changes a line. -/
theorem expand_zero_identity (l : List Char) : Text.expand 0 l = l := by
  simp [Text.expand]

/-- A line without a TAB is unchanged by tab expansion, whatever the width. -/
theorem expand_no_tab_identity (w : Nat) (l : List Char) (h : '\t' ∉ l) :
    Text.expand w l = l := by
  unfold Text.expand
  split
  · rfl
  · induction l with
    | nil => rfl
    | cons c cs ih =>
      have hc : c ≠ '\t' := fun e => h (e ▸ List.mem_cons_self)
      have hcs : '\t' ∉ cs := fun m => h (List.mem_cons_of_mem _ m)
      simp [List.flatMap_cons, hc, ih hcs]

example : '\t' ∉ ("abc def".toList) := by decide

/-- `passthrough_exact`. Outside any diff section (state Unknown or CommitMeta; not a plain
`diff -u` stream) a line that opens no construct is claimed by no handler and is written by
`emit_line_unchanged`: exactly one new row, at the end of the timeline, carrying the raw line
unchanged (including any colours it has), and the state stays what it was. -/
theorem passthrough_exact (cfg : Cfg) (m : M) (l : L)
    (hst : m.st = .unknown ∨ m.st = .commitMeta) (hsrc : m.source ≠ .diffUnified) (no : NotOpener l) :
    ∃ m', chain cfg l Generated.handlerOrder m = .ok m' ∧ m'.st = m.st ∧
      timeline m' = timeline m ++ [{ kind := .raw, text := l.raw, src := m.n }] :=
  Machine.passthrough_exact cfg m l hst hsrc no

/-- the hypotheses are satisfiable: a coloured commit-message line opens nothing -/
def exampleLine : L :=
  { raw := "    \x1b[31mFix\x1b[m the thing".toList, text := "    Fix the thing".toList, graphemes := [],
    commitRe := false, blame := false, grep := 0, submodule := none }

example : NotOpener exampleLine := by
  constructor <;> decide

/-- **`text_stream_passes_through`** (whole runs, every configuration): if no line of the input opens
a construct and no line looks like the start of plain `diff -u` output, delta ends normally and
its output is the input line for line — row `i` is written raw and carries exactly the `raw_line` of
input line `i` (colours included), nothing added, dropped or reordered. -/
theorem text_stream_passes_through {cfg : Cfg} (ls : List L) (hl : ∀ l ∈ ls, PlainText l) :
    ∃ m, run cfg ls = .ok m ∧
      m.out = (ls.zipIdx 0).map (fun p => ({ kind := .raw, text := p.1.raw, src := p.2 } : Row)) :=
  run_passthrough ls hl

example : PlainText exampleLine := ⟨by constructor <;> decide, by decide⟩

/-- `interleaving`: pass-through rows keep their place relative to rendered rows — a step only
appends to the timeline, and at the end of the input the output is exactly the timeline. -/
theorem interleaving {cfg : Cfg} {m m' : M} {l : L} (g : Good m) (e : step cfg m l = .ok m') :
    ∃ new, timeline m' = timeline m ++ new := (step_spec e g).2.1

theorem output_is_timeline {cfg : Cfg} {ls : List L} {m : M} (e : run cfg ls = .ok m) :
    timeline m = m.out := (run_spec e).2

/-- `after_hunk_partial`: inside a hunk a line that is not a hunk line takes the `_` arm of
`handle_hunk_line`: what is written is the raw line with tabs expanded — unchanged iff it has no
TAB or the tab width is 0 (known finding C04-text-after-hunk-tabs for the other case). -/
theorem after_hunk_partial (cfg : Cfg) (m m' : M) (l : L) (hn : newLineState m.st l = .ok none)
    (e : hunkLinePush cfg m l = .ok m') :
    ∃ r : Row, timeline m' = timeline m ++ [r] ∧ r.kind = .other ∧ r.text = Text.expand cfg.tab l.raw := by
  unfold hunkLinePush at e
  simp only [hn] at e
  cases e
  refine ⟨{ kind := .other, text := Text.expand cfg.tab l.raw, src := m.n }, ?_, rfl, rfl⟩
  rw [timeline_of_flushed m]; simp [timeline]

/-- … and the negation of byte-exactness for a line with a TAB, as a concrete witness -/
example : Text.expand 4 "a\tb".toList ≠ "a\tb".toList := by decide

/-! ### `ingest_line`: from the input line to `raw_line` (what pass-through rows print) and `line`

Model `DeltaModel/Ingest.lean` over the escape-sequence model `DeltaModel/Ansi.lean` (builder
b-ansi). Valid UTF-8 input; the test that removes a `\r` and the truncation guard are read from
the source on every run (`Generated.crRemovedWhen`, `Generated.truncGuard`). -/

section IngestLine
open Ansi

/-- `ingest_identity`: a line without `\r` that is not longer than `max-line-length` (or with the
limit switched off) is taken as it is; `line` is the stripped line. -/
theorem ingest_identity (U : Uni) (maxLen : Nat) (sym raw : Bytes) (hcr : (0x0d : UInt8) ∉ raw)
    (hlen : maxLen = 0 ∨ raw.length ≤ maxLen) :
    Ingest.ingest U maxLen sym raw = (strip raw).map fun l => (raw, l) := by
  have h1 : Ingest.removeCr U raw = .ok raw := by
    simp [Ingest.removeCr, Ingest.lastCr_none_of_not_mem raw hcr]
  have h2 := Ingest.not_truncates_of_small maxLen raw hlen
  cases hs : strip raw <;> simp [Ingest.ingest, h1, h2, hs, Except.map]

/-- `ingest_cr_only_zero_width_tail`: when the line is not truncated and `raw_line` differs from
the input, then exactly the last `\r` was removed, and what follows it has display width 0 (only
escape sequences: the CRLF remnant git leaves when it colours a line with CRLF ending). -/
theorem ingest_cr_only_zero_width_tail (U : Uni) (maxLen : Nat) (sym raw r l : Bytes)
    (h : Ingest.ingest U maxLen sym raw = .ok (r, l)) (hlen : maxLen = 0 ∨ raw.length ≤ maxLen)
    (hne : r ≠ raw) :
    ∃ a t, raw = a ++ [0x0d] ++ t ∧ (0x0d : UInt8) ∉ t ∧ measure U t = .ok 0 ∧ r = a ++ t := by
  unfold Ingest.ingest at h
  cases h1 : Ingest.removeCr U raw with
  | error m => simp [h1] at h
  | ok r1 =>
    have hle := Ingest.removeCr_length_le U raw r1 h1
    have h2 := Ingest.not_truncates_of_small maxLen r1 (by rcases hlen with e | e; exact Or.inl e; exact Or.inr (by omega))
    simp only [h1, h2] at h
    cases h3 : strip r1 with
    | error m => simp [h3] at h
    | ok l' =>
      simp only [h3, Bool.false_eq_true, if_false, Except.ok.injEq, Prod.mk.injEq] at h
      obtain ⟨rfl, _⟩ := h
      rcases Ingest.removeCr_cases U raw r1 h1 with e | ⟨a, t, w, e1, e2, e3, e4, e5⟩
      · exact absurd e hne
      · have := Ingest.crRemovedWhen_zero w _ _ e4
        subst this
        exact ⟨a, t, e1, e2, e3, e5⟩

/-- `ingest_text_preserved_partial`: when the line is not truncated, `line` is the stripped
`raw_line`, and `raw_line` is the input or the input without its last `\r` (zero-width tail) —
no visible text is lost or changed. (Partial: truncated lines are the business of C01/C09.) -/
theorem ingest_text_preserved_partial (U : Uni) (maxLen : Nat) (sym raw r l : Bytes)
    (h : Ingest.ingest U maxLen sym raw = .ok (r, l)) (hlen : maxLen = 0 ∨ raw.length ≤ maxLen) :
    strip r = .ok l ∧
      (r = raw ∨ ∃ a t, raw = a ++ [0x0d] ++ t ∧ measure U t = .ok 0 ∧ r = a ++ t) := by
  have hs : strip r = .ok l := by
    unfold Ingest.ingest at h
    cases h1 : Ingest.removeCr U raw with
    | error m => simp [h1] at h
    | ok r1 =>
      have hle := Ingest.removeCr_length_le U raw r1 h1
      have h2 := Ingest.not_truncates_of_small maxLen r1 (by rcases hlen with e | e; exact Or.inl e; exact Or.inr (by omega))
      simp only [h1, h2] at h
      cases h3 : strip r1 with
      | error m => simp [h3] at h
      | ok l' =>
        simp only [h3, Bool.false_eq_true, if_false, Except.ok.injEq, Prod.mk.injEq] at h
        obtain ⟨rfl, rfl⟩ := h
        exact h3
  refine ⟨hs, ?_⟩
  by_cases hr : r = raw
  · exact Or.inl hr
  · obtain ⟨a, t, e1, _, e3, e4⟩ := ingest_cr_only_zero_width_tail U maxLen sym raw r l h hlen hr
    exact Or.inr ⟨a, t, e1, e3, e4⟩

/-- The CRLF remnant on benign lines (characters, SGR/CSI/OSC sequences): for `a ++ \r ++ t` with `t`
free of `\r` and of width 0, `raw_line = a ++ t` and `line` is the text of `a` followed by the text
of `t` — the visible text of the input minus that one `\r`. -/
theorem ingest_crlf_remnant_benign (U : Uni) (hU : Additive U) (maxLen : Nat) (sym : Bytes)
    (ta tt : List Tok) (hwa : ∀ x ∈ ta, x.WF) (hwt : ∀ x ∈ tt, x.WF)
    (hcr : (0x0d : UInt8) ∉ tokBytes tt) (hw : U.width (plainOf tt) = 0)
    (hlen : maxLen = 0 ∨ (tokBytes ta ++ [0x0d] ++ tokBytes tt).length ≤ maxLen) :
    Ingest.ingest U maxLen sym (tokBytes ta ++ [0x0d] ++ tokBytes tt) =
      .ok (tokBytes ta ++ tokBytes tt, plainOf ta ++ plainOf tt) := by
  have hm : measure U (tokBytes tt) = .ok 0 := by rw [measure_tokens U hU tt hwt, hw]
  have h1 : Ingest.removeCr U (tokBytes ta ++ [0x0d] ++ tokBytes tt) = .ok (tokBytes ta ++ tokBytes tt) := by
    unfold Ingest.removeCr
    rw [Ingest.lastCr_split _ _ hcr]
    simp [hm, Ingest.crRemovedWhen_of_zero]
  have hle : (tokBytes ta ++ tokBytes tt).length ≤ (tokBytes ta ++ [0x0d] ++ tokBytes tt).length := by simp
  have h2 := Ingest.not_truncates_of_small maxLen (tokBytes ta ++ tokBytes tt)
    (by rcases hlen with e | e; exact Or.inl e; exact Or.inr (by omega))
  have hwf : ∀ x ∈ ta ++ tt, x.WF := by
    intro x hx; rcases List.mem_append.mp hx with h | h
    · exact hwa x h
    · exact hwt x h
  have e1 := Ingest.tokBytes_app ta tt
  have e2 := Ingest.plainOf_app ta tt
  have h3 : strip (tokBytes ta ++ tokBytes tt) = .ok (plainOf ta ++ plainOf tt) := by
    rw [← e1, ← e2]; exact strip_tokens _ hwf
  unfold Ingest.ingest
  rw [h1]
  simp [h2, h3]

/-- Non-vacuity, with the small concrete Unicode oracle `demoUni`:
`ab\r ESC[m` (CRLF remnant) loses its `\r`; `Fetching\r ESC[32m done ESC[m` (a progress line: text
after the escape sequence) keeps it; `abcdef` is cut at `max-line-length 3`; `@@abcdef` is not. -/
example :
    Ingest.ingest demoUni 0 [] [0x61, 0x62, 0x0d, 0x1b, 0x5b, 0x6d] = .ok ([0x61, 0x62, 0x1b, 0x5b, 0x6d], [0x61, 0x62]) ∧
    Ingest.ingest demoUni 0 [] [0x46, 0x0d, 0x1b, 0x5b, 0x33, 0x32, 0x6d, 0x64, 0x1b, 0x5b, 0x6d] =
      .ok ([0x46, 0x0d, 0x1b, 0x5b, 0x33, 0x32, 0x6d, 0x64, 0x1b, 0x5b, 0x6d], [0x46, 0x0d, 0x64]) ∧
    Ingest.ingest demoUni 3 [0x2e] [0x61, 0x62, 0x63, 0x64, 0x65, 0x66] = .ok ([0x61, 0x62, 0x2e], [0x61, 0x62, 0x2e]) ∧
    Ingest.ingest demoUni 3 [0x2e] [0x40, 0x40, 0x61, 0x62, 0x63, 0x64] =
      .ok ([0x40, 0x40, 0x61, 0x62, 0x63, 0x64], [0x40, 0x40, 0x61, 0x62, 0x63, 0x64]) := by
  decide

/-- `ingest_line` with invalid UTF-8 (model input: the lossy string): the line is ingested like any
other line. Fails on the older form of the `Err(_)` arm (read from the source). -/
theorem ingest_invalid_like_any_line (U : Uni) (maxLen : Nat) (sym lossy : Bytes) :
    Ingest.ingestInvalid U maxLen sym lossy = Ingest.ingest U maxLen sym lossy := by
  have h : Generated.invalidUtf8LikeAnyLine = true := by decide
  simp [Ingest.ingestInvalid, h]

/-- With `--max-line-length 0` (no limit) nothing is lost: `raw_line` is the lossy line itself and
`line` its stripped form (for a line without `\r`; with one, `ingest_cr_only_zero_width_tail` applies). -/
theorem ingest_invalid_no_limit (U : Uni) (sym lossy : Bytes) (hcr : (0x0d : UInt8) ∉ lossy) :
    Ingest.ingestInvalid U 0 sym lossy = (strip lossy).map fun l => (lossy, l) := by
  rw [ingest_invalid_like_any_line]
  exact ingest_identity U 0 sym lossy hcr (Or.inl rfl)

/-- With a limit, a line that is cut is cut by `truncate_str` (which keeps every escape sequence and
appends the truncation symbol), never by a byte count: `raw_line = truncate_str(line', limit, symbol)`
where `line'` is the line after the `\r` step, and `line` is its stripped form. -/
theorem ingest_truncated_by_truncate_str (U : Uni) (maxLen : Nat) (sym raw r1 : Bytes)
    (h1 : Ingest.removeCr U raw = .ok r1) (ht : Ingest.truncates maxLen r1 = true) :
    Ingest.ingest U maxLen sym raw =
      (truncate U r1 maxLen sym (some [0x20])).bind fun r2 => (strip r2).map fun l => (r2, l) := by
  simp only [Ingest.ingest, h1, ht, if_true]
  cases truncate U r1 maxLen sym (some [0x20]) with
  | error m => rfl
  | ok r2 => cases hs : strip r2 <;> simp [Except.bind, Except.map, hs]

/-- `a ÿ b` (lossy: `a U+FFFD b`) at limit 0 and at limit 2 (cut, with the symbol `.`). -/
example :
    Ingest.ingestInvalid demoUni 0 [0x2e] [0x61, 0xef, 0xbf, 0xbd, 0x62] = .ok ([0x61, 0xef, 0xbf, 0xbd, 0x62], [0x61, 0xef, 0xbf, 0xbd, 0x62]) ∧
    Ingest.ingestInvalid demoUni 2 [0x2e] [0x61, 0xef, 0xbf, 0xbd, 0x62] = .ok ([0x61, 0x2e], [0x61, 0x2e]) := by
  decide

end IngestLine

end C04
