import Proofs.Machine.Claims
/-!
C04 — text that is not diff/blame/grep output passes through byte for byte.

`raw` is the line as received (after `ingest_line`: the harness obtains it from the code); a
`.raw` row is written to the output exactly as it is.
-/
namespace C04
open Machine Headers Generated

/-- Tab width 0 (the `--color-only` preset) never changes a line. -/
theorem expand_zero_identity (l : List Char) : Text.expand 0 l = l := by
  simp [Text.expand]

/-- A line without a TAB is unchanged by tab expansion, whatever the width. -/
theorem expand_no_tab_identity (w : Nat) (l : List Char) (h : '\t' ∉ l) :
    Text.expand w l = l := by
  unfold Text.expand
  split
  · rfl
  · induction l with
    | nil => rfl
    | cons c cs ih =>
      have hc : c ≠ '\t' := fun e => h (e ▸ List.mem_cons_self)
      have hcs : '\t' ∉ cs := fun m => h (List.mem_cons_of_mem _ m)
      simp [List.flatMap_cons, hc, ih hcs]

example : '\t' ∉ ("abc def".toList) := by decide

/-- `passthrough_exact`. Outside any diff section (state Unknown or CommitMeta; not a plain
`diff -u` stream) a line that opens no construct is claimed by no handler and is written by
`emit_line_unchanged`: exactly one new row, at the end of the timeline, carrying the raw line
unchanged (including any colours it has), and the state stays what it was. -/
theorem passthrough_exact (cfg : Cfg) (m : M) (l : L)
    (hst : m.st = .unknown ∨ m.st = .commitMeta) (hsrc : m.source ≠ .diffUnified) (no : NotOpener l) :
    ∃ m', chain cfg l Generated.handlerOrder m = .ok m' ∧ m'.st = m.st ∧
      timeline m' = timeline m ++ [{ kind := .raw, text := l.raw, src := m.n }] :=
  Machine.passthrough_exact cfg m l hst hsrc no

/-- the hypotheses are satisfiable: a coloured commit-message line opens nothing -/
def exampleLine : L :=
  { raw := "    \x1b[31mFix\x1b[m the thing".toList, text := "    Fix the thing".toList, graphemes := [],
    commitRe := false, blame := false, grep := 0, submodule := none }

example : NotOpener exampleLine := by
  constructor <;> decide

/-- `interleaving`: pass-through rows keep their place relative to rendered rows — a step only
appends to the timeline, and at the end of the input the output is exactly the timeline. -/
theorem interleaving {cfg : Cfg} {m m' : M} {l : L} (g : Good m) (e : step cfg m l = .ok m') :
    ∃ new, timeline m' = timeline m ++ new := (step_spec e g).2.1

theorem output_is_timeline {cfg : Cfg} {ls : List L} {m : M} (e : run cfg ls = .ok m) :
    timeline m = m.out := (run_spec e).2

/-- `after_hunk_partial`: inside a hunk a line that is not a hunk line takes the `_` arm of
`handle_hunk_line`: what is written is the raw line with tabs expanded — unchanged iff it has no
TAB or the tab width is 0 (known finding C04-text-after-hunk-tabs for the other case). -/
theorem after_hunk_partial (cfg : Cfg) (m m' : M) (l : L) (hn : newLineState m.st l = .ok none)
    (e : hunkLinePush cfg m l = .ok m') :
    ∃ r : Row, timeline m' = timeline m ++ [r] ∧ r.kind = .other ∧ r.text = Text.expand cfg.tab l.raw := by
  unfold hunkLinePush at e
  simp only [hn] at e
  cases e
  refine ⟨{ kind := .other, text := Text.expand cfg.tab l.raw, src := m.n }, ?_, rfl, rfl⟩
  rw [timeline_of_flushed m]; simp [timeline]

/-- … and the negation of byte-exactness for a line with a TAB, as a concrete witness -/
example : Text.expand 4 "a\tb".toList ≠ "a\tb".toList := by decide

end C04
