import DeltaModel.Grep
import Proofs.GrepColoured
import Proofs.GrepSections
import Proofs.GrepPlainA
import Proofs.GrepPlainB
import Proofs.GrepPlainC
import Proofs.GrepPlainD
import Proofs.GrepEmit
import Proofs.RipGrepJson
import Proofs.GrepRowEmit
import Proofs.GrepText
import Proofs.GrepHelper
/-!
C16 — grep output keeps every hit's path, line number and code.

The theorems are about `DeltaModel/Grep.lean`, the functions `drv_grep` executes:
`parseColoured`, `parsePlain` (the four plain-text regex models in the order generated from
`parse_grep_line`), `makeStyleSections`, `expandTabs`, `emit`.  Hypotheses are stated with
the executable predicates of that file (`fragNumbered`, `spansOk`, `hitOk`, …) so that the
harness can ask the driver whether a generated case lies inside a theorem.

Defects of the unchanged code that make the full statements false are recorded as proved
negations with concrete witnesses (section "Witnesses"); each was confirmed on the binary.
The model follows six small repairs of the source when the translator finds them there
(`Generated.Grep.fix…`, `noSepLastExcluded`; patches notes/fix-grep-*.diff): a witness is
stated for the unrepaired source (`fix… = false → …`), and next to it stands what holds once
the repair is in.  All proofs are valid for either value of every flag.
-/
namespace C16
open Grep

/-- UTF-8 bytes of a string literal, by a definition `decide` can evaluate. -/
def utf8 (s : String) : Bytes := s.toList.flatMap String.utf8EncodeChar

/-! ## Tie to the source -/

/-- The five regex pattern texts assembled by `make_grep_line_regex` (regenerated from the
source on every run) are the ones the hand-written parsers were written against. -/
theorem patterns_pinned :
    Generated.Grep.patternHashes = pinnedPatternHashes ∨
    Generated.Grep.patternHashes = pinnedPatternHashesRepaired := by decide

/-- The last character class of the separator-free path is `[^:\ ]` or, repaired, `[^:\ =-]`
(the only part of the patterns the model reads from the source rather than pins). -/
theorem noext_last_class :
    Generated.Grep.noSepLastExcluded = ": " ∨ Generated.Grep.noSepLastExcluded = ": =-" := by decide

/-- `parse_grep_line` tries the plain-text regexes in this order (regenerated). -/
theorem plain_order : plainVariants = [.extNum, .extNoSpaces, .ext, .noSep] := by decide

/-- The file-path pattern and the separator part of every plain-text regex variant, in `(?x)`
normal form and **per variant** (each read from the match arm of `make_grep_line_regex` that
serves the variant), are the shapes the hand-written predicates implement; only the extension
length bounds `{lo,hi}` and the last class of the separator-free path are left open here —
these the model reads from the source. -/
theorem path_shapes_pinned :
    Generated.Grep.pathShapes = pinnedPathShapes ∧ Generated.Grep.sepShapes = pinnedSepShapes := by
  decide

/-- The extension length bounds of the three extension-based variants, regenerated from the
source per variant, are the lengths the round-trip theorems below promise: 1–10 on a line with
a line number (first regex), 1–6 for the blank-free second regex, 1–10 for the third regex (the
one that reads unnumbered lines whose path has blanks or a long extension). The fragments
`fragNumbered`, `fragUnnumbered`, `fragUnnumberedExt` are stated with the fixed numbers
`docExtMin = 1`, `docExtMax = 10`, `docExtMaxNoSpaces = 6`, and their proofs go through these
equations — narrowing one variant's `{lo,hi}` in the source does not narrow a theorem, it
breaks it. -/
theorem ext_bounds_documented :
    (Generated.Grep.extMinNum = docExtMin ∧ Generated.Grep.extMaxNum = docExtMax) ∧
    (Generated.Grep.extMinNoSpaces = docExtMin ∧ Generated.Grep.extMaxNoSpaces = docExtMaxNoSpaces) ∧
    (Generated.Grep.extMin = docExtMin ∧ Generated.Grep.extMax = docExtMax) ∧
    docExtMin = 1 ∧ docExtMax = 10 ∧ docExtMaxNoSpaces = 6 := by
  decide

/-! ## Coloured format -/

/-- A line written in the coloured format (`ESC[35m path ESC[m ESC[36m sep ESC[m`, optional
`ESC[32m number ESC[m ESC[36m sep ESC[m`, code) is read back exactly — whatever the path
(no ESC) and the code (no line feed) contain.  For an unnumbered line the code must not
itself begin with the coloured line-number group (`hamb`); this is the only reading the
format leaves open. (The code is returned before `strip_ansi_codes`.) -/
theorem coloured_round_trip (p : Parsed)
    (hk : textKinds.contains p.kind = true)
    (hpath : p.path.contains esc = false)
    (hd : ∀ ds, p.digits = some ds → digitsOk ds = true)
    (hcode : codeOk p.code = true)
    (hamb : p.digits = none → ∀ s, p.kind.sep = [s] → colouredNum s p.code = none) :
    parseColoured (fmtColoured p) = some p :=
  parseColoured_fmtColoured p hk hpath hd hcode hamb

example : parseColoured (fmtColoured
    { path := "src/co-7-fig.rs:12: x".toList, kind := .context, digits := some "214".toList,
      code := "  -a*=* | --archs=*) :7: a.rs-3-".toList }) =
    some { path := "src/co-7-fig.rs:12: x".toList, kind := .context, digits := some "214".toList,
           code := "  -a*=* | --archs=*) :7: a.rs-3-".toList } := by decide

/-! ## rg --json: sections -/

/-- For sorted, disjoint, in-range submatches on character boundaries, `make_style_sections`
does not panic, the sections concatenate to the code, and the match-styled sections occupy
exactly the submatch byte ranges. -/
theorem json_sections (line : Bytes) (subs : List (Nat × Nat)) (h : spansOk line 0 subs = true) :
    ∃ secs, makeStyleSections line subs = .ok secs ∧ secsText secs = line ∧
      matchSpans 0 secs = subs :=
  makeStyleSections_ok line subs h

example : spansOk (utf8 "  fn a(fn)") 0 [(2, 4), (7, 9)] = true := by decide

/-- With tabs only in the leading indentation (`ind`; `rest` has no TAB) and all submatches
behind it, `expand_tabs` + `make_style_sections` do not panic, the sections concatenate to
the expanded code, the match-styled sections are the shifted submatches, and these select
the same text as the submatches did in the unexpanded line. -/
theorem json_sections_tabs (w : Nat) (ind rest : Bytes) (subs : List (Nat × Nat))
    (hind : ind.all (fun b => b == tab || b == space) = true)
    (hrest : rest.contains tab = false)
    (hsub : subs.all (fun s => decide (ind.length ≤ s.1)) = true)
    (hok : spansOk (ind ++ rest) 0 subs = true) :
    ∃ secs, makeStyleSections (expandTabs w (ind ++ rest) subs).1 (expandTabs w (ind ++ rest) subs).2 = .ok secs ∧
      secsText secs = expandB w (ind ++ rest) ∧
      matchSpans 0 secs = (expandTabs w (ind ++ rest) subs).2 ∧
      (expandTabs w (ind ++ rest) subs).2.map (sub (expandB w (ind ++ rest))) =
        subs.map (sub (ind ++ rest)) := by
  have h := expandTabs_leading w ind rest subs hind hrest hsub hok
  obtain ⟨secs, h1, h2, h3⟩ := makeStyleSections_ok _ _ h.1
  exact ⟨secs, h1, h2, h3, h.2⟩

example : spansOk ([tab, tab] ++ utf8 "fn x") 0 [(2, 4)] = true := by decide

/-! ## Plain-text format

Full statement of the property: *for paths with an extension — or extension-less names free
of `:`, `-`, `=` — and code free of a `name.ext` + sep-number-sep look-alike, the first
matching parser returns (path, kind, number, code).*  As literally worded this is false of
the unchanged code (see `plain_extensionless_witness`, `plain_unnumbered_witness` below: an
unnumbered line is also ambiguous when a `.ext` + separator — without a number — occurs in
the code or a number look-alike inside the path).  What is proved is the statement on four
fragments, named precisely by `fragNumbered`, `fragUnnumbered`, `fragUnnumberedExt`,
`fragNoExt` (DeltaModel/Grep.lean) and stated with the fixed extension lengths
`docExtMin`/`docExtMax`/`docExtMaxNoSpaces` (tied to the source by `ext_bounds_documented`);
lines outside them (e.g. unnumbered lines whose path contains
blanks or whose extension has 7–10 characters and whose blank-free head contains a short
`.ext`-sep look-alike; paths containing `:`) are covered by the differential test only. -/

/-- Fragment A — numbered line; path of the shape `[^:| ][^:]*[^ ].ext` (ext 1–10 chars of
`[^. :=-]`) without `:`; on `-`/`=` lines the code has no `.ext`-sep-number-sep look-alike.
On `:` lines the code is arbitrary. -/
theorem plain_round_trip_partial_numbered (p : Parsed) (h : fragNumbered p = true) :
    parsePlain (fmtPlain p) = some p :=
  parsePlain_numbered p h

example : fragNumbered
    { path := "etc/META-INF/co-7-fig.rs".toList, kind := .match_, digits := some "12".toList,
      code := "see a.rs:3: and b.py-4-x".toList } = true := by decide
example : fragNumbered
    { path := "src/de lta.rs".toList, kind := .context, digits := some "58".toList,
      code := "  .x- foo.bar-baz: 7-".toList } = true := by decide

/-- Fragment B — unnumbered line; path `[^:| ]+[^ ].ext` (ext 1–6) without `:`; no
`.ext`-sep-number-sep look-alike anywhere in the line, no `.ext`-sep look-alike and no
leading number look-alike in the code. -/
theorem plain_round_trip_partial_unnumbered (p : Parsed) (h : fragUnnumbered p = true) :
    parsePlain (fmtPlain p) = some p :=
  parsePlain_unnumbered p h

example : fragUnnumbered
    { path := "src/co-7-fig.rs".toList, kind := .context, digits := none,
      code := "    if self.source == Source::Unknown { x.y(); }".toList } = true := by decide

/-- Fragment B2 — unnumbered line; path `[^:| ][^:]*[^ ].ext` with an extension of **1–10**
characters (`docExtMax`), blanks allowed, no `:` — in particular what fragment B leaves out:
`.markdown`, `.properties`, `.template`, and blanks in directory or file names. Side conditions
of B; in addition the blank-free head of the path (up to its first blank) has no `.ext`-sep
look-alike with an extension of at most 6 characters (`plain_unnumbered_blank_witness` shows
what happens otherwise). Such a line is rejected by the first regex (no number) and by the second
(blank / long extension) and read by the third, `WithFileExtension`, whose bounds
`ext_bounds_documented` ties to 1–10. -/
theorem plain_round_trip_partial_unnumbered_ext (p : Parsed) (h : fragUnnumberedExt p = true) :
    parsePlain (fmtPlain p) = some p :=
  parsePlain_unnumbered_ext p h

example : fragUnnumberedExt
    { path := "config/app-dev.properties".toList, kind := .match_, digits := none,
      code := "port 8080".toList } = true := by decide
example : fragUnnumberedExt
    { path := "deploy/k8s-v2/web service.template".toList, kind := .context, digits := none,
      code := "  containerPort: 8080 # a.b c-d".toList } = true := by decide
example : fragUnnumberedExt
    { path := "my docs/getting-started.markdown".toList, kind := .contextHeader, digits := none,
      code := "## Ports".toList } = true := by decide

/-- The same on concrete lines, for every extension length 7–10 in a path with a dash (the
lines only the third regex reads; with a narrower `{lo,hi}` there they fall to the last-resort
regex, which cuts the path at the first dash). -/
theorem plain_unnumbered_long_extension_read_back :
    (["docs/getting-started.graphql", "docs/getting-started.markdown", "a-b/x=y.gitignore",
      "config/app-dev.properties"].all fun path =>
      parsePlain (fmtPlain { path := path.toList, kind := .match_, digits := none, code := "port 8080".toList }) ==
        some { path := path.toList, kind := .match_, digits := none, code := "port 8080".toList }) = true := by
  decide

/-- Fragment C — extension-less name free of `:`, `-`, `=`, `.`; numbered or not; the code
has no `.ext`-sep look-alike; an unnumbered line's code starts neither with a number
look-alike nor, on `-`/`=` lines, with a separator character. -/
theorem plain_round_trip_partial_noext (p : Parsed) (h : fragNoExt p = true) :
    parsePlain (fmtPlain p) = some p :=
  parsePlain_noext p h

example : fragNoExt
    { path := "bin/run me".toList, kind := .match_, digits := some "10".toList,
      code := "test: unit-test end-to-end-test".toList } = true := by decide
example : fragNoExt
    { path := "Makefile".toList, kind := .context, digits := none,
      code := "\tcargo build --release".toList } = true := by decide

/-! ## Emission -/

/-- Every match/context/header line of a stream shown in one output style gives exactly one
code row, in order, under its own path (classic style: on the row; ripgrep style: the last
path header), with its number and its code (tabs expanded), and emission does not panic —
for hits satisfying `hitOk` (Proofs/GrepEmit.lean): line number not 0; text match lines
whose `path:number:` prefix has the recomputed length (or, ripgrep style, empty code); valid
(shifted) submatches; in ripgrep style not (no number and empty code); in classic style a
function-context header rendered as hunk header has a number. Each excluded case is a
witness below, and each demand is dropped by `hitOk` once the corresponding repair is in
the source — with all five in, `hitOk` only asks that the line is not an `rg --json`
begin/end/summary record. -/
theorem one_row_per_hit_partial (cfg : Cfg) (style : GrepType) (lines : List Line)
    (hstyle : ∀ h, Line.hit h ∈ lines → cfg.outputType.getD h.gtype = style)
    (hok : ∀ h, Line.hit h ∈ lines → hitOk cfg style h = true) :
    ∃ rows, emit cfg lines = .ok rows ∧
      attach rows = (hitsOf lines).map fun h => (some h.path, h.num, expandB cfg.tabWidth h.code) :=
  emit_one_row_per_hit cfg style lines hstyle hok

def exHit (path : String) (kind : Kind) (n : Option Nat) (code : String) : Hit :=
  { gtype := .classic, kind := kind, path := path.toList, num := n, prefixOk := true,
    code := utf8 code, subs := none }

/-- A stream satisfying the hypotheses: two paths, a `--` line, tabs, an empty numbered line. -/
def exStream : List Line :=
  [.hit (exHit "a.rs" .match_ (some 3) "\tx"), .hit (exHit "a.rs" .context (some 4) ""), .other (utf8 "--"),
   .hit (exHit "a.rs" .context (some 9) "y"), .hit (exHit "b c.rs" .match_ (some 1) "z")]

example : (hitsOf exStream).all (hitOk { outputType := some .ripgrep, tabWidth := 4, headerAsHunkHeader := true } .ripgrep) = true := by
  decide

/-! ## Witnesses: where the unchanged code breaks the full statements (confirmed on the binary) -/

/-- `e` is the panic `p`. -/
def panicsWith {α : Type} (e : Except Panic α) (p : Panic) : Bool :=
  match e with
  | .error q => decide (q = p)
  | .ok _ => false

/-- `e` is the value `v`. -/
def yields {α : Type} [DecidableEq α] (e : Except Panic α) (v : α) : Bool :=
  match e with
  | .ok x => decide (x = v)
  | .error _ => false

/-- DESIGN defect #7: a submatch reaching beyond the text panics in `make_style_sections`. -/
theorem json_span_out_of_range_panics : Generated.Grep.fixSectionsGuard = false →
    panicsWith (makeStyleSections (utf8 "abc") [(1, 9)]) .sliceOutOfRange = true := by decide

/-- With the guard of notes/fix-grep-submatch-range.diff no submatch list can make
`make_style_sections` panic, and the sections always concatenate to the code. -/
theorem json_sections_total (hfix : Generated.Grep.fixSectionsGuard = true)
    (line : Bytes) (subs : List (Nat × Nat)) :
    ∃ secs, makeStyleSections line subs = .ok secs ∧ secsText secs = line :=
  makeStyleSections_total hfix line subs

/-- Valid `rg --json` output: non-ASCII text before a TAB and a submatch before the TAB. The
uniform shift of `expand_tabs` moves the offset into a character: panic. -/
theorem json_tab_shift_leaves_char_boundary : Generated.Grep.fixSectionsGuard = false →
    panicsWith (codeSections { outputType := none, tabWidth := 8, headerAsHunkHeader := true } .ripgrep
      { gtype := .ripgrep, kind := .match_, path := "a.rs".toList, num := some 3, prefixOk := true,
        code := (utf8 "éééé\tfoo"), subs := some [(0, 2)] }) .sliceNotCharBoundary = true := by
  decide

/-- `a.rs:0:x`: `n - 1` underflows (builds with overflow checks). -/
theorem line_number_zero_panics : Generated.Grep.fixLineNumberZero = false →
    panicsWith (emit { outputType := none, tabWidth := 8, headerAsHunkHeader := true }
      [.hit (exHit "a.rs" .match_ (some 0) "x")]) .lineNumberZero = true := by decide

/-- `one_row_per_hit` at full strength is false: in ripgrep style an unnumbered line with
empty code (a blank context line of `grep -C` without `-n`) produces no row at all. -/
theorem one_row_per_hit_fails_empty_unnumbered : Generated.Grep.fixEmptyRow = false →
    yields (attach <$> emit { outputType := some .ripgrep, tabWidth := 8, headerAsHunkHeader := true }
      [.hit (exHit "a.rs" .match_ none "let x"), .hit (exHit "a.rs" .context none "")])
      [(some "a.rs".toList, none, utf8 "let x")] = true := by decide

/-- Classic style: the function-context header of `git grep -p` without `-n` is handed line
number 0 (`unwrap_or(0)`), which the hunk-header writer prints. -/
theorem classic_header_shows_zero : Generated.Grep.fixHeaderNumber = false →
    yields (attach <$> emit { outputType := none, tabWidth := 8, headerAsHunkHeader := true }
      [.hit (exHit "src/a.rs" .contextHeader none "fn main() {")])
      [(some "src/a.rs".toList, some 0, utf8 "fn main() {")] = true := by decide

/-- `Makefile--x` (context line of an extension-less, separator-free name; code `-x`): the
last path character class of the fourth regex (`[^:\ ]`) admits `-`, so the path is read as
`Makefile-`. -/
theorem plain_extensionless_witness : Generated.Grep.noSepLastExcluded = ": " →
    parsePlain (fmtPlain { path := "Makefile".toList, kind := .context, digits := none, code := "-x".toList }) =
      some { path := "Makefile-".toList, kind := .context, digits := none, code := "x".toList } := by
  decide

/-- With the repaired class (`[^:\ =-]`) the same line is read as written. -/
theorem plain_extensionless_repaired : Generated.Grep.noSepLastExcluded = ": =-" →
    parsePlain (fmtPlain { path := "Makefile".toList, kind := .context, digits := none, code := "-x".toList }) =
      some { path := "Makefile".toList, kind := .context, digits := none, code := "-x".toList } := by
  decide

/-- An unnumbered line is ambiguous beyond the sep-number-sep look-alike the property names:
`.ext` + separator in the code suffices (inherent in the format). -/
theorem plain_unnumbered_witness :
    parsePlain (fmtPlain { path := "src/a.rs".toList, kind := .context, digits := none, code := "foo.bar-baz".toList }) =
      some { path := "src/a.rs-foo.bar".toList, kind := .context, digits := none, code := "baz".toList } := by
  decide

/-- Outside fragment B2: an unnumbered line whose path has a blank *and*, before it, a short
`.ext` followed by a separator character. The blank keeps the line from the second regex as a
whole, but that regex matches the blank-free head: the path is cut at `v1.2` (inherent in the
format: `v1.2-rc/my file.rs:x` is also what `grep -C` prints for a context line `rc/my file.rs:x`
of a file `v1.2`). -/
theorem plain_unnumbered_blank_witness :
    parsePlain (fmtPlain { path := "v1.2-rc/my file.rs".toList, kind := .match_, digits := none, code := "x".toList }) =
      some { path := "v1.2".toList, kind := .context, digits := none, code := "rc/my file.rs:x".toList } := by
  decide

/-! ## rg --json: which JSON values are records (session 4, T10)

`RipGrepJson.parseLine` (DeltaModel/RipGrepJson.lean) is `ripgrep_json::parse_line` from the decoded JSON
value on; what it accepts is decided by the record structs regenerated from the source
(`Generated.RipGrepJsonShape.root`: field names, `rename`, `Option`, `Vec`, `default`,
`deny_unknown_fields`, the `LineType` variants, the metadata words, the members `parse_line` reads).
`rg --json` is an open format: a consumer must ignore members it does not know. -/

section RgJsonRecords
open RipGrepJson Generated.RipGrepJsonShape

/-- None of the record structs (`RipGrepLine`, `RipGrepLineData`, `RipGrepLineText`,
`RipGrepLineSubmatch`) denies members it does not list. -/
theorem record_structs_ignore_unknown_members : tyLenient root = true := by decide

/-- Two JSON values that differ only in members the record structs do not name — added, removed or
changed, at any of the four levels (record, data, path / lines / match text object, submatch), inside
every submatch — get the same answer from `parse_line`: the same `GrepLine` (type, path, line number,
line of code, submatches) when one of them is a record, swallowed alike when metadata, left alike to
the other handlers otherwise. No bound on the values. -/
theorem record_with_extra_members_accepted (v v' : JVal) (h : AgreeOnKnown root v v') :
    parseLine v' = parseLine v :=
  parseLine_agree record_structs_ignore_unknown_members h

/-- The literal form: a member whose name the struct does not have, with any value, put anywhere
among the members of an object read as that struct (at any lenient struct type, hence at each of the
four levels), does not change what the object is read as. -/
theorem new_member_ignored (n : String) (fs : Fields) (hl : fieldsLenient fs = true)
    (k : String) (x : JVal) (hk : hasJson fs k = false) (ms₁ ms₂ : List (String × JVal)) :
    decode (.struct n false fs) (.obj (ms₁ ++ (k, x) :: ms₂)) = decode (.struct n false fs) (.obj (ms₁ ++ ms₂)) :=
  decode_agree (.struct n false fs) _ _ (by simp [tyLenient, hl])
    (by simp only [AgreeOnKnown]; exact agreeMembers_insert fs k x ms₁ ms₂ hk)

/-- `lenient` is needed: a struct with `deny_unknown_fields` rejects the object with the additional
member (what ripgrep's `"replacement"` next to `"match"` would meet), which the same struct without
the attribute reads. -/
theorem strict_struct_rejects_new_member :
    decode (.struct "T" true (.cons "text" "text" false .string .nil))
        (.obj [("text", .str "let"), ("replacement", .obj [("text", .str "VAR")])]) = none ∧
    (decode (.struct "T" false (.cons "text" "text" false .string .nil))
        (.obj [("text", .str "let"), ("replacement", .obj [("text", .str "VAR")])])).isSome = true := by
  decide

/-- An `rg --json` match record; `e1 … e4`: further members of the record, of `data`, of the path text
object and of the submatch. -/
def exRecord (e1 e2 e3 e4 : List (String × JVal)) : JVal :=
  .obj (e1 ++ [("type", .str "match"),
    ("data", .obj ([("path", .obj ([("text", .str "src/a.rs")] ++ e3)), ("lines", .obj [("text", .str "let x = 1;\n")]),
      ("line_number", .nat 3), ("absolute_offset", .nat 0)] ++ e2 ++
      [("submatches", .arr [.obj ([("match", .obj [("text", .str "let")])] ++ e4 ++ [("start", .nat 0), ("end", .nat 3)])])]))])

example : parseLine (exRecord [] [] [] []) =
    some { gtype := .ripgrep, kind := .match_, path := "src/a.rs".toList, num := some 3,
           code := "let x = 1;".toList, subs := some [(0, 3)] } := by decide

/-- The hypothesis is met by a record with a new member at each of the four levels (the last one is
what `rg --json -r VAR` adds). -/
example : AgreeOnKnown root (exRecord [] [] [] [])
    (exRecord [("version", .nat 2)] [("binary_offset", .null)] [("lossy", .bool false)]
      [("replacement", .obj [("text", .str "VAR")])]) := by
  simp [AgreeOnKnown, AgreeMembers, AgreeSeq, Pointwise, valuesOf, others, root, exRecord]

example : parseLine (exRecord [("version", .nat 2)] [("binary_offset", .null)] [("lossy", .bool false)]
      [("replacement", .obj [("text", .str "VAR")])]) = parseLine (exRecord [] [] [] []) := by decide

/-- What a reader sees of a stream does not depend on such members: replace any record of the stream
(one that `parse_line` answers) by one that differs from it only in members the structs do not name —
the rendered rows (path headers, line numbers, code, highlighted sections, in either output style) are
the same. -/
theorem rendered_hit_independent_of_extra_members (cfg : Cfg) (pre post : List Line) (v v' : JVal)
    (raw raw' : Bytes) (h : AgreeOnKnown root v v') (hacc : parseLine v ≠ none) :
    emit cfg (pre ++ lineOf v' raw' :: post) = emit cfg (pre ++ lineOf v raw :: post) := by
  rw [lineOf_agree (record_with_extra_members_accepted v v' h) raw raw' hacc]

example : (emit { outputType := none, tabWidth := 4, headerAsHunkHeader := true }
      [lineOf (exRecord [] [] [] [("replacement", .obj [("text", .str "VAR")])]) []]).toOption.map attach =
    some [(some "src/a.rs".toList, some 3, utf8 "let x = 1;")] := by decide

/-- `begin`, `end`, `summary`: an object whose (last) `"type"` member is one of these words is swallowed
(`LineType::Ignore`, nothing written), whatever other members it has. -/
theorem metadata_records_swallowed (ms : List (String × JVal)) (w : String)
    (h : (valuesOf metaKey ms).getLast? = some (.str w)) (hw : metaWords.contains w = true) :
    parseLine (.obj ms) = some { gtype := .ripgrep, kind := .ignore, path := [], num := none, code := [], subs := none } := by
  rw [meta_swallowed ms w h hw]; decide

example : parseLine (.obj [("data", .obj [("path", .obj [("text", .str "src/a.rs")])]), ("type", .str "begin")]) =
    some { gtype := .ripgrep, kind := .ignore, path := [], num := none, code := [], subs := none } := by decide

/-- `lines.bytes` instead of `lines.text` (what ripgrep writes for a line that is not valid UTF-8): not a
record for delta — the line is left to the other handlers, i.e. it goes through as raw JSON text. -/
theorem bytes_record_not_recognised :
    parseLine (.obj [("type", .str "match"), ("data", .obj [("path", .obj [("text", .str "a.bin")]),
      ("lines", .obj [("bytes", .str "/w==")]), ("line_number", .nat 1), ("absolute_offset", .nat 0),
      ("submatches", .arr [])])]) = none := by decide

end RgJsonRecords

/-! ## The layout of a classic-style row (session 4, T10b)

`GrepRow.classicRow` (DeltaModel/GrepRow.lean) interprets what is regenerated from
`emit_classic_format_grep_line`, `_emit_classic_format_file_and_line_number`, `_emit_classic_format_code`,
`make_output_config` (grep.rs) and `paint_file_path_with_line_number` (paint.rs): what is written in which
order, which config style paints which part, markers, padding table (`Generated/GrepRowShape.lean`).
Rows of the ripgrep output style and the function-context header are written by the hunk-header helper and
are not in this model (`rowCells = none`). -/

section GrepRowLayout
open GrepRow Generated.GrepRowShape

/-- A classic-style row, for every line kind, path, number, separator symbol, navigate / padding setting:
navigate marker (if any), the path in the file style, then — when there is a line number — separator,
the number in the line-number style, then the separator, the padding, and the code sections in their
styles; nothing else. -/
theorem classic_row_layout (cfg : GrepRow.Cfg) (kind : Kind) (path : List Char) (num : Option Nat)
    (secs : List (Bool × Bytes)) :
    classicRow cfg kind path num secs =
      markerCells cfg kind ++ (Paint.file, RipGrepJson.bytesOfChars path) ::
      ((match num with
        | some n => [(Paint.plain, sepOf cfg kind), (Paint.number, digitsOf n), (Paint.plain, sepOf cfg kind)] ++
                    (if cfg.out.pad = true then [(Paint.plain, padOf n)] else [])
        | none => [(Paint.plain, sepOf cfg kind)]) ++ codeCells kind secs) :=
  classicRow_eq cfg kind path num secs

/-- What a reader gets from that row: in the file style exactly the path, once; in the line-number style
exactly the decimal number, once, when there is one (nothing otherwise); in the code styles exactly the
code. -/
theorem classic_row_shows_path_number_code (cfg : GrepRow.Cfg) (kind : Kind) (path : List Char)
    (num : Option Nat) (secs : List (Bool × Bytes)) :
    reading (classicRow cfg kind path num secs) =
      ([RipGrepJson.bytesOfChars path], num.toList.map digitsOf, secsText secs) :=
  reading_classicRow cfg kind path num secs

/-- `make_output_config` as regenerated: `git grep -W` shows the function header as an ordinary line and
marks matches under `--navigate`; everything else renders it as a hunk header, without markers; numbers
are padded in all cases. -/
theorem output_config_table :
    outputConfig "GitGrep" ["-n", "-W"] = { headerAsHunk := false, marker := true, pad := true } ∧
    outputConfig "GitGrep" ["--function-context"] = { headerAsHunk := false, marker := true, pad := true } ∧
    outputConfig "GitGrep" ["-n", "-p"] = { headerAsHunk := true, marker := false, pad := true } ∧
    outputConfig "GitGrep" ["-n"] = { headerAsHunk := true, marker := false, pad := true } ∧
    outputConfig "OtherGrep" ["-W"] = { headerAsHunk := true, marker := false, pad := true } := by decide

example : rowText (classicRow { navigate := true, sepSymbol := ":", out := outputConfig "GitGrep" ["-W"] }
      .context "src/a.rs".toList (some 700) [(false, utf8 "let x")]) = utf8 "  src/a.rs:700:let x" := by decide

example : rowText (classicRow { navigate := false, sepSymbol := "keep", out := outputConfig "OtherGrep" [] }
      .match_ "src/a.rs".toList (some 120) [(false, utf8 "let "), (true, utf8 "x")]) = utf8 "src/a.rs:120:let x" := by decide

/-- Whole streams in the classic output style, from the hits to what a reader gets from the rendered rows:
for every stream of admissible hits (`hitOk`, as in `one_row_per_hit_partial`) none of which is a
function-context header rendered as a hunk header, emission does not panic and the rows show, one row per
hit and in order, the hit's path (file style, once), its line number when it has one (line-number style,
once) and its code with tabs expanded (code styles) — under every separator symbol, navigate and padding
setting. Partial: the ripgrep output style and the function-context header go through the hunk-header
helper, whose layout is not modelled; the statement from the input *text* follows by the parse theorems
(`coloured_round_trip`, `plain_round_trip_partial_*`, `record_with_extra_members_accepted`). -/
theorem grep_line_rendered_faithfully_partial (cfg : Grep.Cfg) (rcfg : GrepRow.Cfg) (lines : List Line)
    (hstyle : ∀ h, Line.hit h ∈ lines → cfg.outputType.getD h.gtype = .classic)
    (hok : ∀ h, Line.hit h ∈ lines → hitOk cfg .classic h = true)
    (hhdr : ∀ h, Line.hit h ∈ lines → (h.kind = .contextHeader && cfg.headerAsHunkHeader) = false) :
    ∃ rows, emit cfg lines = .ok rows ∧
      rowsReading rcfg rows = (hitsOf lines).map fun h =>
        ([RipGrepJson.bytesOfChars h.path], h.num.toList.map digitsOf, expandB cfg.tabWidth h.code) := by
  obtain ⟨rows, he, ha⟩ := one_row_per_hit_partial cfg .classic lines hstyle hok
  refine ⟨rows, he, ?_⟩
  have hc := emitFrom_classicOnly cfg lines none rows hstyle hhdr he
  rw [rowsReading_attach rcfg rows none hc]
  show (attach rows).map encode = _
  rw [ha, List.map_map]
  rfl

/-- From the input text: a numbered `git grep` line of fragment A, alone, in the classic style. -/
example : ∃ rows, emit { outputType := none, tabWidth := 4, headerAsHunkHeader := true }
      [.hit (exHit "src/a.rs" .match_ (some 12) "\tfoo")] = .ok rows ∧
    rowsReading { navigate := false, sepSymbol := "keep", out := outputConfig "GitGrep" ["-n"] } rows =
      [([utf8 "src/a.rs"], [utf8 "12"], utf8 "    foo")] := by
  refine ⟨_, rfl, ?_⟩
  decide

end GrepRowLayout

/-! ## From the input line text to the visible text of the rendered row (classic style; session 4 / T23)

`GrepInput.lineOfInput` (DeltaModel/GrepInput.lean) is the parse dispatch of `handle_grep_line`: the coloured
regex on a raw line beginning with ESC (code then through `strip_ansi_codes`), otherwise the line without escape
sequences goes to the JSON reader when it begins with `{` and to the plain regexes in order when not — or, with
the repair notes/fix-grep-brace-path.diff in the source (regenerated flag `jsonFailureFallsBackToRegexes`), also when
the JSON reader answers `None`.
`strip` (= `ansi::strip_ansi_codes`) is a parameter: the theorem holds for every function that leaves ESC-free
text alone; the JSON text parser stays trusted (a JSON line comes as its value). -/

section FromInputText
open GrepRow GrepInput

/-- **`grep_line_rendered_faithfully`, classic output style.** For every stream of source lines, each of them
* a line in the coloured format `fmtColoured p` under the hypotheses of `coloured_round_trip`, or
* a plain line `fmtPlain p` of one of the four fragments of `plain_round_trip_partial_*`, without ESC and — only
  while `parse_grep_line` hands `{` lines to the JSON reader alone (regenerated flag
  `Generated.Grep.jsonFailureFallsBackToRegexes = false`; `brace_path_not_read` / `brace_path_read_after_fallback`
  below) — not beginning with `{`, or
* an `rg --json` line whose value `parse_line` answers with a match / context / header line (which values those
  are: `record_with_extra_members_accepted`, `metadata_records_swallowed`),

shown in the classic style (text lines by default or with `--grep-output-type classic`, JSON lines with it) and
none of them a function-context header that is rendered as a hunk header: delta reads every line as grep output,
emission does not panic, and the visible texts of the rendered rows are, one row per source line and in order,
`[marker] path sep [number sep padding] code` — the path the line names, the separator (the line's own under
`keep`), its line number in decimal when it has one, and its code with tabs expanded (for a coloured line: the
code without its escape sequences; for a JSON line: `lines.text` without its line terminator), each once —
for every tab width, separator symbol, navigate and padding setting. -/
theorem grep_line_rendered_faithfully (cfg : Grep.Cfg) (rcfg : GrepRow.Cfg) (strip : List Char → List Char)
    (hstrip : ∀ s : List Char, s.contains esc = false → strip s = s) (srcs : List Src)
    (hadm : ∀ s, s ∈ srcs → s.Admissible)
    (hstyle : ∀ s, s ∈ srcs → cfg.outputType.getD s.gtype = .classic)
    (hhdr : ∀ s, s ∈ srcs → ((s.meaning strip).1 = .contextHeader && cfg.headerAsHunkHeader) = false) :
    ∃ rows, emit cfg (srcs.map fun s => lineOfInput cfg.tabWidth strip s.input) = .ok rows ∧
      rowsText rcfg rows = srcs.map fun s =>
        classicText rcfg cfg.tabWidth (s.meaning strip).1 (s.meaning strip).2.1 (s.meaning strip).2.2.1
          (RipGrepJson.bytesOfChars (s.meaning strip).2.2.2) :=
  stream_classic_text cfg rcfg strip hstrip srcs hadm hstyle hhdr

/-- What `classicText` is, written out (no marker, `keep`): `path sep number sep padding code`. -/
example : classicText { navigate := false, sepSymbol := "keep", out := outputConfig "GitGrep" ["-n"] } 4
      .context "src/a.rs".toList (some 7) (utf8 "\tlet x") = utf8 "src/a.rs-7-      let x" := by decide

/-- The hypotheses are met by a stream with one line of each kind (a coloured context line, a plain numbered
match line of fragment A, an `rg --json` match record with members the format does not have). -/
def exSrcs : List Src :=
  [.coloured { path := "src/co-7-fig.rs:12: x".toList, kind := .context, digits := some "214".toList,
               code := "  -a*=* | --archs=*) :7: a.rs-3-".toList },
   .plain { path := "etc/META-INF/co-7-fig.rs".toList, kind := .match_, digits := some "12".toList,
            code := "see a.rs:3: and\tb.py-4-x".toList },
   .json (exRecord [("version", .nat 2)] [("binary_offset", .null)] [("lossy", .bool false)] [("replacement", .null)]) []]

example : ∀ s, s ∈ exSrcs → s.Admissible := by
  intro s hs
  simp only [exSrcs, List.mem_cons, List.not_mem_nil, or_false] at hs
  rcases hs with rfl | rfl | rfl
  · exact ⟨by decide, by decide, by intro ds h; cases h; decide, by decide, by intro h; cases h⟩
  · exact ⟨by decide, by decide, by decide⟩
  · exact ⟨{ gtype := .ripgrep, kind := .match_, path := "src/a.rs".toList, num := some 3,
             code := "let x = 1;".toList, subs := some [(0, 3)] }, by decide, by decide⟩

/-- Why "not beginning with `{`" is a hypothesis while `parse_grep_line` hands every line beginning with `{` to the
JSON reader ONLY (`Generated.Grep.jsonFailureFallsBackToRegexes = false`, regenerated from the source):
`{{cookiecutter.slug}}/a.py:1:x` is a line of fragment A (directories of project templates are named like that),
but it is not read as grep output and goes through unchanged. A defect of delta (known finding
`C16-plain-path-begins-with-brace`, repair: notes/fix-grep-brace-path.diff). -/
theorem brace_path_not_read (hsrc : Generated.Grep.jsonFailureFallsBackToRegexes = false) :
    fragNumbered { path := "{{cookiecutter.slug}}/a.py".toList, kind := .match_, digits := some "1".toList,
                   code := "x".toList } = true ∧
    (match lineOfInput 4 id (.text "{{cookiecutter.slug}}/a.py:1:x".toList) with
     | .other raw => raw == utf8 "{{cookiecutter.slug}}/a.py:1:x"
     | .hit _ => false) = true := by
  simp only [lineOfInput, hsrc]
  decide

/-- With the repair in the source (`jsonFailureFallsBackToRegexes = true`: the regexes are tried when the JSON reader
answers `None`) the same line is read as the hit it is: path `{{cookiecutter.slug}}/a.py`, line number 1, code `x` —
and `grep_line_rendered_faithfully` then covers plain lines whose path begins with `{` (`Src.Admissible` asks
"not beginning with `{`" only while the flag is `false`). -/
theorem brace_path_read_after_fallback (hsrc : Generated.Grep.jsonFailureFallsBackToRegexes = true) :
    (match lineOfInput 4 id (.text "{{cookiecutter.slug}}/a.py:1:x".toList) with
     | .hit h => h.kind == .match_ && h.path == "{{cookiecutter.slug}}/a.py".toList && h.num == some 1 &&
                 h.code == utf8 "x" && h.gtype == .classic
     | .other _ => false) = true := by
  simp only [lineOfInput, hsrc]
  decide

/-- Both shapes of the dispatch are the same function but for `{` lines the JSON reader rejects: an `{arch}/…` context
line under either. -/
example :
    (match lineOfInputWith false 4 id (.text "{arch}/lib/foo.c-12-ctx".toList) with | .other _ => true | .hit _ => false) = true ∧
    (match lineOfInputWith true 4 id (.text "{arch}/lib/foo.c-12-ctx".toList) with
     | .hit h => h.kind == .context && h.path == "{arch}/lib/foo.c".toList && h.num == some 12 && h.code == utf8 "ctx"
     | .other _ => false) = true ∧
    (∀ fb : Bool, (match lineOfInputWith fb 4 id (.text "src/a.rs:3:x".toList) with
       | .hit h => h.kind == .match_ && h.path == "src/a.rs".toList && h.num == some 3 && h.code == utf8 "x"
       | .other _ => false) = true) := by
  decide

end FromInputText

/-! ## The ripgrep output style (session 4 / T23)

`--grep-output-type ripgrep` (the default for `rg --json`): hits are grouped under a path header; each hit row is
`number separator code`. Both rows are written by `write_line_of_code_with_optional_path_and_line_number`
(hunk_header.rs); `GrepHelper.helperText` (DeltaModel/GrepHelper.lean) is that helper's text as a function of its
arguments, and the arguments grep.rs passes at its three call sites are regenerated
(`Generated/GrepHelperCalls.lean`). Not `--color-only` (known finding C16-color-only-ripgrep-style). -/

section RipgrepStyle
open GrepRow GrepHelper

/-- What grep.rs hands the helper for a hit row and for a path header (regenerated): the code and its sections,
no path, the line number when the line has one, the separator of the line's kind, no hunk label — and for the
header: no code, the path, no number, an empty separator, the hunk label. -/
theorem ripgrep_helper_arguments :
    (argOf rowCall "code_fragment", argOf rowCall "include_file_path", argOf rowCall "include_line_number",
      argOf rowCall "file_path_separator", argOf rowCall "include_hunk_label") =
      ("code", "no", "ifNumbered", "kindSeparator", "no") ∧
    (argOf headerCall "code_fragment", argOf headerCall "include_file_path", argOf headerCall "include_line_number",
      argOf headerCall "file_path_separator", argOf headerCall "include_hunk_label") =
      ("empty", "yes", "no", "empty", "yes") := by decide

/-- **A ripgrep-style hit row shows number and code.** For every kind, number, sections and hunk label / file style:
the row's text is the decimal line number followed by the separator of the line's kind (`:` match, `-` context,
`=` function header) when the line has a number — nothing otherwise —, then the text of the code sections (for a
hit of `Grep.emit`: the code with tabs expanded, `one_row_per_hit_partial`) followed by one blank when the sections
do not cover the blank the helper appends; an empty code with a number shows `number separator blank`. Neither the
path nor a hunk label is written on the row. -/
theorem ripgrep_row_shows_number_and_code (hc : HCfg) (kind : Kind) (num : Option Nat)
    (secs : List (Bool × Bytes)) (trail : Bool) :
    GrepHelper.rowText hc (.code none num kind secs trail) = some
      ((match num with
        | some n => digitsOf n ++ RipGrepJson.bytesOfChars kind.sep ++ (if (secsText secs).isEmpty then [space] else [])
        | none => []) ++
       (if (secsText secs).isEmpty then [] else secsText secs ++ (if trail then [space] else []))) :=
  rowText_code hc kind num secs trail

example : GrepHelper.rowText { hunkLabel := utf8 "§", filePlain := false, hhFile := true, hhLineNumber := true }
    (.code none (some 12) .context [(false, utf8 "    let x")] true) = some (utf8 "12-    let x ") := by decide

/-- The path header of a group: `[label blank] path blank`, for every path that is written at all (a non-empty
path, or a file style that is not plain). -/
theorem ripgrep_header_row_text (hc : HCfg) (path : List Char)
    (hp : (RipGrepJson.bytesOfChars path).isEmpty = false ∨ hc.filePlain = false) :
    GrepHelper.rowText hc (.header path) = some
      ((if hc.hunkLabel.isEmpty then [] else hc.hunkLabel ++ [space]) ++ RipGrepJson.bytesOfChars path ++ [space]) :=
  rowText_header hc path hp

/-- Why the hypothesis: an empty path under a plain file style writes no header row at all. -/
example : GrepHelper.rowText { hunkLabel := [], filePlain := true, hhFile := true, hhLineNumber := true }
    (.header []) = none := by decide

/-- **One file header per path group.** For every stream shown in the ripgrep style (hits admissible as in
`one_row_per_hit_partial`): emission does not panic; the header rows are, in order, exactly the first paths of the
groups of consecutive hits with one path (`groupHeads`: a hit whose path differs from the previous hit's — or the
first hit — gives one header, a hit with the same path gives none); and every hit row stands under the header of
its own path, with its number and code (`attach` reads the rows back with the last header seen). -/
theorem one_file_header_per_path_group (cfg : Grep.Cfg) (lines : List Line)
    (hstyle : ∀ h, Line.hit h ∈ lines → cfg.outputType.getD h.gtype = .ripgrep)
    (hok : ∀ h, Line.hit h ∈ lines → hitOk cfg .ripgrep h = true) :
    ∃ rows, emit cfg lines = .ok rows ∧
      headerPaths rows = groupHeads none ((hitsOf lines).map (·.path)) ∧
      attach rows = (hitsOf lines).map fun h => (some h.path, h.num, expandB cfg.tabWidth h.code) := by
  obtain ⟨rows, he, ha⟩ := one_row_per_hit_partial cfg .ripgrep lines hstyle hok
  exact ⟨rows, he, emitFrom_headers cfg lines none rows hstyle (fun h hm => GrepInput.hitOk_kind (hok h hm)) he, ha⟩

/-- `groupHeads` on a stream a.rs a.rs b.rs a.rs: headers a.rs, b.rs, a.rs (a path that comes back is a new group). -/
example : groupHeads none ["a.rs".toList, "a.rs".toList, "b.rs".toList, "a.rs".toList] =
    ["a.rs".toList, "b.rs".toList, "a.rs".toList] := by decide

/-- The rows of `exStream` in the ripgrep style, as text. -/
example : (emit { outputType := some .ripgrep, tabWidth := 4, headerAsHunkHeader := true } exStream).toOption.map
      (GrepHelper.rowsText { navigate := false, sepSymbol := ":", out := outputConfig "OtherGrep" [] }
        { hunkLabel := [], filePlain := false, hhFile := true, hhLineNumber := true }) =
    some [utf8 "a.rs ", utf8 "3:    x", utf8 "4- ", utf8 "--", utf8 "--", utf8 "9-y ", utf8 "", utf8 "b c.rs ", utf8 "1:z"] := by
  decide

/-- **Whole streams in the ripgrep style.** For every stream of admissible hits shown in the ripgrep style, emission
does not panic and the hit rows (`codeRows`: the rows that are neither header, blank line, `--` nor a line passed
through) are, one per hit and in order, rows with the hit's own number and kind whose sections spell its code with
tabs expanded (`RowsFor`). -/
theorem ripgrep_stream_rows (cfg : Grep.Cfg) (lines : List Line)
    (hstyle : ∀ h, Line.hit h ∈ lines → cfg.outputType.getD h.gtype = .ripgrep)
    (hok : ∀ h, Line.hit h ∈ lines → hitOk cfg .ripgrep h = true) :
    ∃ rows, emit cfg lines = .ok rows ∧ RowsFor cfg.tabWidth (codeRows rows) (hitsOf lines) := by
  obtain ⟨rows, he, _⟩ := one_row_per_hit_partial cfg .ripgrep lines hstyle hok
  exact ⟨rows, he, emitFrom_ripgrep_code cfg lines none rows hstyle hok he⟩

/-- … and the text of such a row (one link of `RowsFor`): the hit's decimal number and the separator of its kind
when it has a number, its code with tabs expanded, and at most one blank after it — nothing else. -/
theorem ripgrep_row_text_of_hit (hc : HCfg) (w : Nat) (h : Hit) (r : Row)
    (hr : ∃ secs trail, r = Row.code none h.num h.kind secs trail ∧ secsText secs = expandB w h.code) :
    ∃ tail, (tail = [] ∨ tail = [space]) ∧
      GrepHelper.rowText hc r = some
        ((match h.num with
          | some n => digitsOf n ++ RipGrepJson.bytesOfChars h.kind.sep
          | none => []) ++ expandB w h.code ++ tail) := by
  obtain ⟨secs, trail, rfl, hs⟩ := hr
  rw [rowText_code]
  unfold ripgrepText
  rw [hs]
  cases he : (expandB w h.code).isEmpty
  · cases trail
    · exact ⟨[], Or.inl rfl, by cases h.num <;> simp⟩
    · exact ⟨[space], Or.inr rfl, by cases h.num <;> simp⟩
  · have hnil : expandB w h.code = [] := List.isEmpty_iff.mp he
    cases hn : h.num
    · exact ⟨[], Or.inl rfl, by simp [hnil]⟩
    · exact ⟨[space], Or.inr rfl, by simp [hnil]⟩

end RipgrepStyle

end C16
