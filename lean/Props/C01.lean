import Proofs.Machine.BodyOrder
import Proofs.Machine.BodyText
import Proofs.Machine.BodyPlain
import Proofs.Machine.BodyCombinedText
import Proofs.Machine.BodyConflict
import Proofs.Machine.BodyConflictAll
import Proofs.Machine.IngestRun
import Proofs.Machine.CombinedSection
import DeltaModel.HeaderState
/-!
C01 — every hunk line is shown exactly once, in order, with its text intact (unified view).

Model: `DeltaModel/Machine.lean` (the line state machine and the painter buffers), tied to
/repo by the generated handler order / marker literals / tail order and by the `machine.run`
correspondence. Theorems here are about `Machine.run`/`Machine.step`, the functions the model
driver executes.

`timeline m` is everything rendered so far in the order in which it reaches the writer
(`out ++ buf ++ minus rows ++ plus rows`).
-/
namespace C01
open Machine Headers

/-- Every handler named in `StateMachine::consume` (generated list) has a model function. -/
theorem handlers_known :
    ∀ n ∈ Generated.handlerOrder, (Machine.handlerOf n).isSome = true := by decide

/-- `flush_before_direct_write`. For every configuration and every input: at every write that goes
straight to the writer, the output buffer and both line buffers are empty — nothing rendered
earlier can be overtaken. (`orderOk` is the ghost flag that `direct` clears otherwise.)
False on the pinned tree before the `fix:` commits 6ae80a7, 5983605, d81cfd9, 6f58d9a, 7146d00. -/
theorem flush_before_direct_write {cfg : Cfg} {ls : List L} {m : M} (e : run cfg ls = .ok m) :
    m.orderOk = true := (run_spec e).1

/-- the ghost flag does detect an out-of-order write (the theorem above is not vacuous) -/
example : (direct ({ buf := [⟨.zero, ['x'], 0⟩] } : M) [⟨.raw, ['y'], 1⟩]).orderOk = false := by decide
example : (direct ({ minus := [⟨.minus, [], ['x'], 0⟩] } : M) [⟨.raw, ['y'], 1⟩]).orderOk = false := by decide

/-- `nothing_dropped_or_reordered`. Once a row has been rendered it stays where it is: each input
line only appends to the timeline (never removes, duplicates or reorders what is there), in every
reachable state, for every configuration. -/
theorem nothing_dropped_or_reordered {cfg : Cfg} {m m' : M} {l : L} (g : Good m)
    (e : step cfg m l = .ok m') : Good m' ∧ ∃ new, timeline m' = timeline m ++ new :=
  ⟨(step_spec e g).1, (step_spec e g).2.1⟩

/-- … and at the end of the input the whole timeline, and nothing else, has been written. -/
theorem output_is_timeline {cfg : Cfg} {ls : List L} {m : M} (e : run cfg ls = .ok m) :
    timeline m = m.out := (run_spec e).2

/-- `hunk_line_exactly_once`. Whenever the machine is in a hunk (any reachable state), the next
input line is claimed by the hunk-line handler and contributes exactly one new row `r`, placed at
the very end of the timeline, attributed to that line (`r.src`); the only rows that can precede it
in this step are those of the pending hunk header (none of them a hunk-line row). Combined with
`nothing_dropped_or_reordered` and `output_is_timeline`: each hunk line is shown exactly once, in
input order, never merged with or moved past another row. -/
theorem hunk_line_exactly_once {cfg : Cfg} {m m' : M} {l : L} {b : Bool} (g : Good m)
    (hs : isHunkState m.st = true) (e : handleHunkLine cfg m l = .ok (b, m')) :
    b = true ∧ ∃ pre r, timeline m' = timeline m ++ pre ++ [r] ∧ r.src = m.n ∧
      ∀ x ∈ pre, x.kind ≠ .minus ∧ x.kind ≠ .plus ∧ x.kind ≠ .zero ∧ x.kind ≠ .other := by
  rcases handleHunkLine_spec e g with ⟨_, _, h⟩ | ⟨hb, _, s⟩
  · rw [hs] at h; cases h
  · exact ⟨hb, s.row⟩

/-- `hunk_body_line_claimed`. In a git diff, in any unified hunk state, a line whose first column
is `+`, `-` or blank — whatever follows it: `-- `, `++`, `@@`, `\\`, `diff --git …`, anything —
(not matching the commit regex, not a 40-hex `Subproject commit` line) is claimed by
`handle_hunk_line` and by no handler before it. With `hunk_line_exactly_once` this closes the gap
between "claimed by the hunk handler" and "is a line of the hunk" for git unified diffs. -/
theorem hunk_body_line_claimed (cfg : Cfg) (m : M) (l : L)
    (hsrc : m.source = .gitDiff) (hst : isHunkState m.st = true) (hun : hunkCombinedParents m.st = none)
    (hb : firstIs l isMarker) (hc : l.commitRe = false) (hsub : l.submodule = none) :
    chain cfg l Generated.handlerOrder m =
      (match handleHunkLine cfg m l with
       | .ok (_, m') => .ok m'
       | .error e => .error e) :=
  Machine.hunk_body_line_claimed cfg m l hsrc hst hun hb hc hsub

/-- marker-like bodies are ordinary hunk lines: the hypotheses are met by `--- a/old` (a removed
line `-- a/old`) and by `+++ b/new` -/
def markerLikeLine : L :=
  { raw := [], text := "--- a/old".toList, graphemes := [], commitRe := false, blame := false,
    grep := 0, submodule := none }

example : firstIs markerLikeLine isMarker := ⟨'-', "-- a/old".toList, rfl, rfl⟩

/-- the initial machine is `Good`, and `Good` is an invariant (so the hypotheses above are met by
every reachable state) -/
theorem reachable_good {cfg : Cfg} {ls : List L} {m : M} (e : runFrom cfg {} ls = .ok m) : Good m :=
  (runFrom_spec ls e good_init).1

/-- `prepare_text`: the text of a hunk row is the input line with the marker column(s) removed
and tabs expanded, nothing else (ASCII marker columns, the only case git produces). -/
theorem prepare_text (cfg : Cfg) (n : Nat) (l : L) (hne : l.text ≠ [])
    (hlen : n ≤ l.text.length) (hascii : (l.text.take n).all (fun c => c.toNat < 128) = true) :
    prepare cfg n l = Text.expand cfg.tab (l.text.drop n) := by
  unfold prepare
  simp [hne, hlen, hascii]

/-- with tab width 0 the text is exactly the line minus its marker column -/
theorem prepare_text_tab0 (cfg : Cfg) (l : L) (c : Char) (rest : Str) (ht : cfg.tab = 0)
    (hl : l.text = c :: rest) (hc : c.toNat < 128) : prepare cfg 1 l = rest := by
  unfold prepare
  simp [hl, hc, Text.expand, ht]

def exampleLine : L :=
  { raw := "+a\tb".toList, text := "+a\tb".toList, graphemes := [], commitRe := false,
    blame := false, grep := 0, submodule := none }

example : prepare {} 1 exampleLine = "a        b".toList := by decide

-- whole runs --------------------------------------------------------------------

/-- **`hunk_rows_in_input_order`** (whole runs, every configuration, every input that opens no
merge-conflict region — conflict regions show ancestor lines twice by design): in delta's output the
rows that show hunk lines (kinds minus / plus / zero / other) carry strictly increasing input
indices. So no hunk line is shown twice and no two are swapped, whatever headers, decorations or
pass-through lines are written between them. -/
theorem hunk_rows_in_input_order {cfg : Cfg} {ls : List L} {m : M}
    (hmc : ∀ l ∈ ls, startsWith l.text Generated.Markers.mcBegin = false) (e : run cfg ls = .ok m) :
    ((m.out.filter (fun r => isBody r.kind)).map (·.src)).Pairwise (· < ·) :=
  run_body_rows_increasing hmc e

/-- **`hunk_line_shown_exactly_once`** (whole runs): in a git diff, a line whose first column is
`+`, `-` or blank, met in a unified hunk state (not a commit line, not a 40-hex `Subproject commit`
line), has exactly one row of kind minus / plus / zero / other in the final output — whatever
precedes (`pre`) and follows (`post`) it. -/
theorem hunk_line_shown_exactly_once {cfg : Cfg} {pre post : List L} {l : L} {mi m : M}
    (hmc : ∀ x ∈ pre ++ l :: post, startsWith x.text Generated.Markers.mcBegin = false)
    (ei : runFrom cfg {} pre = .ok mi) (hsrc : mi.source = .gitDiff) (hst : isHunkState mi.st = true)
    (hun : hunkCombinedParents mi.st = none) (hb : firstIs l isMarker) (hc : l.commitRe = false)
    (hsub : l.submodule = none) (e : run cfg (pre ++ l :: post) = .ok m) :
    ((m.out.filter (fun r => isBody r.kind)).map (·.src)).count pre.length = 1 :=
  run_hunk_line_exactly_once hmc ei hsrc hst hun hb hc hsub e

/-- **`hunk_line_text_intact`** (whole runs): … and that one row is `expectedRow`: its kind is the
one the marker column says (`-` removed, `+` added, blank unchanged) and its text is the input line
with the marker column removed (kept in front when markers are requested) and tabs expanded to the
configured width (`prepare`, see `prepare_text`) — nothing dropped, merged or otherwise altered,
whatever precedes and follows the line, for every configuration of the model. -/
theorem hunk_line_text_intact {cfg : Cfg} {pre post : List L} {l : L} {mi m : M}
    (hmc : ∀ x ∈ pre ++ l :: post, startsWith x.text Generated.Markers.mcBegin = false)
    (ei : runFrom cfg {} pre = .ok mi) (hsrc : mi.source = .gitDiff) (hst : isHunkState mi.st = true)
    (hdt : hunkDiffType mi.st = some .unified) (hb : firstIs l isMarker) (hc : l.commitRe = false)
    (hsub : l.submodule = none) (e : run cfg (pre ++ l :: post) = .ok m) :
    (m.out.filter (fun r => isBody r.kind)).filter (fun r => r.src = pre.length) = [expectedRow cfg l pre.length] :=
  run_hunk_line_row hmc ei hsrc hst hdt hb hc hsub e

/-- a concrete run meeting the hypotheses: line 5 (`-old`) is met in a hunk state of a git diff -/
def mkL (s : String) : L :=
  { raw := s.toList, text := s.toList, graphemes := s.toList.map (fun c => [c]),
    commitRe := false, blame := false, grep := 0, submodule := none }

/-- what `expectedRow` says for a removed line with a tab, markers dropped / kept -/
example : expectedRow {} (mkL "-a\tb") 7 = { kind := .minus, text := "a        b".toList, src := 7 } := by decide
example : expectedRow { keepMarkers := true } (mkL "+x") 3 = { kind := .plus, text := "+x".toList, src := 3 } := by decide

def samplePre : List L :=
  ["diff --git a/x b/x", "--- a/x", "+++ b/x", "@@ -1,2 +1,2 @@ fn f()", " ctx"].map mkL

example : (match runFrom {} {} samplePre with
    | .ok mi => mi.source == .gitDiff && isHunkState mi.st && (hunkCombinedParents mi.st).isNone
    | .error _ => false) = true := by decide
example : firstIs (mkL "-old") isMarker := ⟨'-', "old".toList, rfl, rfl⟩
example : (match runFrom {} {} samplePre with
    | .ok mi => hunkDiffType mi.st == some .unified
    | .error _ => false) = true := by decide
example : (match run {} (samplePre ++ mkL "-old" :: [mkL "+new", mkL "diff --git a/y b/y"]) with
    | .ok m => (m.out.filter (fun r => isBody r.kind)).map (·.src) == [4, 5, 6]
    | .error _ => false) = true := by decide

/-- **`hunk_line_shown_exactly_once_any`** (whole runs): the same for every hunk state of a git diff —
unified, or combined with any number of parents (`git diff` during a merge, `git show` of a merge),
outside conflict regions — and every line that can belong to a hunk body (`HunkBody`: empty, or
starting with a blank, `+`, `-` or `\`; not a commit line): exactly one row of kind minus / plus /
zero / other in the final output. -/
theorem hunk_line_shown_exactly_once_any {cfg : Cfg} {pre post : List L} {l : L} {mi m : M}
    (hmc : ∀ x ∈ pre ++ l :: post, startsWith x.text Generated.Markers.mcBegin = false)
    (ei : runFrom cfg {} pre = .ok mi) (hsrc : mi.source = .gitDiff) (hst : isHunkState mi.st = true)
    (hb : HunkBody l) (hsub : l.submodule = none) (e : run cfg (pre ++ l :: post) = .ok m) :
    ((m.out.filter (fun r => isBody r.kind)).map (·.src)).count pre.length = 1 :=
  run_hunk_line_exactly_once_any hmc ei hsrc hst hb hsub e

/-- a combined diff meeting the hypotheses: line 5 (`- old`, removed from the first parent) is met in
a two-parent hunk state -/
def combinedPre : List L :=
  ["diff --cc x", "index 1,2..3", "--- a/x", "+++ b/x", "@@@ -1,2 -1,2 +1,2 @@@"].map mkL

example : (match runFrom {} {} combinedPre with
    | .ok mi => mi.source == .gitDiff && isHunkState mi.st && (hunkCombinedParents mi.st).isSome
    | .error _ => false) = true := by decide
example : HunkBody (mkL "- old") := ⟨rfl, by decide⟩
example : (match run {} (combinedPre ++ mkL "- old" :: [mkL " +new", mkL "  ctx"]) with
    | .ok m => (m.out.filter (fun r => isBody r.kind)).map (·.src) == [5, 6, 7]
    | .error _ => false) = true := by decide

/-- the hypothesis about conflict regions is needed: an ancestor line of a diff3 conflict region is
shown twice (once per comparison), by design -/
theorem conflict_region_shows_ancestor_twice :
    (match run {} (["diff --cc x", "--- a/x", "+++ b/x", "@@@ -1,3 -1,3 +1,7 @@@", "++<<<<<<< HEAD", "+ ours",
                    "++||||||| base", "++anc", "++=======", " +theirs", "++>>>>>>> other"].map mkL) with
     | .ok m => ((m.out.filter (fun r => isBody r.kind)).map (·.src)).count 7
     | .error _ => 0) = 2 := by decide

-- plain `diff -u` ---------------------------------------------------------------------

open Machine.Plain in
/-- **`plain_diff_hunk_rows`** (whole runs, plain `diff -u` input, every configuration). `PlainInput ls`:
the first line tells delta the input is plain diff output (`detect_source`) and a reference reading
of plain `diff -u` that is independent of the machine (`plainNext`: sections `--- ` / `+++ `, hunks
whose header announces the true number of old-file lines, `diff -u …` command lines, `Only in …`
lines) accepts the input. Then the hunk-line rows of delta's output are exactly the lines that
reading takes for hunk lines, in input order, each shown by its `plainRow` (kind by the first
column, that column removed, tabs expanded). In particular a removed line whose text starts with
`-- ` (input `--- …`) and an added line `++ …` (input `+++ …`) inside a hunk are shown as hunk
lines, and the `--- ` / `+++ ` lines of the next file section are not.
Behind it (`Machine.Plain.Sim`): inside a hunk `m.counter` is the number of old-file lines still
expected; between sections it is 0. -/
theorem plain_diff_hunk_rows {cfg : Cfg} {ls : List L} {m : M} (hin : PlainInput ls) (e : run cfg ls = .ok m) :
    m.out.filter (fun r => isBody r.kind) = plainRows cfg .top 0 ls :=
  run_plain_rows hin e

open Machine.Plain in
/-- **`plain_diff_hunk_line_shown_exactly_once`**: a line of a plain `diff -u` input, whatever
precedes (`pre`) and follows (`post`) it: if the reference reading (in state `s` after `pre`) takes
it for a hunk line (`b = true`) it has exactly one hunk-line row in the output, and that row is
`plainRow`; if it takes it for a `--- ` / `+++ ` / `@@` / `diff` / `Only in` line, it has none. -/
theorem plain_diff_hunk_line_shown_exactly_once {cfg : Cfg} {pre post : List L} {l : L} {s s' : PS} {b : Bool} {m : M}
    (hin : PlainInput (pre ++ l :: post)) (hpre : plainAfter .top pre = some s)
    (hn : plainNext s l = some (s', b)) (e : run cfg (pre ++ l :: post) = .ok m) :
    ((m.out.filter (fun r => isBody r.kind)).map (·.src)).count pre.length = (if b then 1 else 0) ∧
    (m.out.filter (fun r => isBody r.kind)).filter (fun r => r.src = pre.length) =
      (if b then [plainRow cfg l pre.length] else []) :=
  ⟨run_plain_line_count hin hpre hn e, run_plain_line hin hpre hn e⟩

open Machine.Plain in
/-- **`plain_diff_counter_invariant`** (one input line). `Sim s m`: the source is plain diff; between
sections (`s = top`, `afterMinus`) the minus-line counter is 0 — a `--- ` line is a file header —; inside
a hunk (`s = hunk rem`) `m.counter = rem`, the number of old-file lines still expected, and the state is
a unified hunk state. One line the reference reading accepts keeps this relation, advances the line
count, and adds exactly the row `plainRow` to the hunk-line rows when the reading says "hunk line"
(`b = true`), nothing otherwise. -/
theorem plain_diff_counter_invariant {cfg : Cfg} {s s' : PS} {b : Bool} {m m' : M} {l : L}
    (hs : Sim s (stepInit m l)) (g : Good m) (hn : plainNext s l = some (s', b)) (e : step cfg m l = .ok m') :
    Sim s' m' ∧ m'.n = m.n + 1 ∧ bodyTL m' = bodyTL m ++ (if b then [plainRow cfg l m.n] else []) :=
  step_sim hs g hn e

open Machine.Plain in
/-- **`plain_hunk_body_line_claimed`**: in a plain diff, in a unified hunk state, a possible hunk-body
line (not a commit line, not a 40-hex submodule line) — a `--- …` line as long as the counter is
positive — is claimed by `handle_hunk_line` and by no handler before it. -/
theorem plain_hunk_body_line_claimed (cfg : Cfg) (m : M) (l : L) (hsrc : m.source = .diffUnified)
    (hst : uniHunk m.st = true) (hb : l.text.head?.all bodyChar = true) (hc : l.commitRe = false)
    (hsub : l.submodule = none) (hcnt : isDashes l = true → 0 < m.counter) :
    chain cfg l Generated.handlerOrder m =
      (match handleHunkLine cfg m l with
       | .ok (_, m') => .ok m'
       | .error e => .error e) :=
  chain_body cfg m l hsrc hst hb hc hsub hcnt

/-- two concatenated plain diffs; the first hunk contains the removed line `-- a comment` (input
`--- a comment`) and the added line `++ an added line`; the second section starts at line 8 -/
def plainSample : List L :=
  ["--- a.lua", "+++ b.lua", "@@ -1,3 +1,3 @@", " ctx", "--- a comment", "+++ an added line", "-x", "+y",
   "--- c.lua", "+++ d.lua", "@@ -1 +1,2 @@", "-p", "+q", "+++ r"].map mkL

example : Machine.Plain.plainAccepts .top plainSample = true := by decide
example : detectSource (mkL "--- a.lua").text = .diffUnified := by decide
/-- line 4 (`--- a comment`) is read as a hunk line, in a hunk with 2 old-file lines outstanding … -/
example : Machine.Plain.plainAfter .top (plainSample.take 4) = some (.hunk 2) := by decide
example : Machine.Plain.plainNext (.hunk 2) (mkL "--- a comment") = some (.hunk 1, true) := by decide
example : Machine.Plain.plainRow {} (mkL "--- a comment") 4 = { kind := .minus, text := "-- a comment".toList, src := 4 } := by
  decide
/-- … line 8 (`--- c.lua`), met when the 3 announced old-file lines have been seen, as a file header -/
example : Machine.Plain.plainAfter .top (plainSample.take 8) = some (.hunk 0) := by decide
example : Machine.Plain.plainNext (.hunk 0) (mkL "--- c.lua") = some (.afterMinus, false) := by decide
/-- the invariant on this input: after line 4 one old-file line is outstanding and the counter is 1 -/
example : (match runFrom {} {} (plainSample.take 5) with
    | .ok mi => mi.counter == 1 && Machine.Plain.uniHunk mi.st && mi.source == .diffUnified
    | .error _ => false) = true := by decide
/-- what the theorem says for this input -/
example : (match run {} plainSample with
    | .ok m => (m.out.filter (fun r => isBody r.kind)).map (fun r => (r.src, r.kind)) ==
        [(3, .zero), (4, .minus), (5, .plus), (6, .minus), (7, .plus), (11, .minus), (12, .plus), (13, .plus)]
    | .error _ => false) = true := by decide

/-- "announces the true number of old-file lines" is part of what the reference reading — and delta —
must assume: the format has no other section mark. With a header that under-announces (`-1,1` for two
removed lines) the second removed line `--- y` is read, by both, as a file header, not as a hunk line. -/
theorem plain_diff_lying_header_loses_line :
    (match run {} (["--- a", "+++ b", "@@ -1,1 +1,0 @@", "-x", "--- y"].map mkL) with
     | .ok m => (m.out.filter (fun r => isBody r.kind)).map (·.src)
     | .error _ => []) = [3] := by decide

/-- FINDING (confirmed on the binary, see notes/S3-c01-plain-conflict.md): an EMPTY line standing for
a blank unchanged line (`diff -u --suppress-blank-empty`) is not counted as an old-file line, so the
counter stays above 0 and the `--- c` / `+++ d` lines of the next section are shown as hunk lines
(rows 7 and 8); the reference reading rejects such input. -/
theorem plain_diff_empty_context_line_not_counted :
    Machine.Plain.plainAccepts .top
      (["--- a", "+++ b", "@@ -1,3 +1,3 @@", " x", "", "-old", "+new", "--- c", "+++ d", "@@ -1 +1 @@", "-p", "+q"].map mkL)
      = false ∧
    (match run {} (["--- a", "+++ b", "@@ -1,3 +1,3 @@", " x", "", "-old", "+new", "--- c", "+++ d", "@@ -1 +1 @@", "-p", "+q"].map mkL) with
     | .ok m => (m.out.filter (fun r => isBody r.kind)).map (·.src)
     | .error _ => []) = [3, 4, 5, 6, 7, 8, 10, 11] := by decide

/-- the bound `< 2 ^ 63` in `announcedOld` is needed: a larger announced length does not fit the
counter's `isize`, `count_from` then switches the counter off, and a removed line `--- x` of that hunk
is taken for a file header (no hunk-line row) -/
example : Machine.Plain.announcedOld (mkL "@@ -1,9223372036854775808 +1 @@") = none := by decide
example : (match run {} (["--- a", "+++ b", "@@ -1,9223372036854775808 +1 @@", "--- x"].map mkL) with
     | .ok m => (m.out.filter (fun r => isBody r.kind)).map (·.src)
     | .error _ => [0]) = [] := by decide

-- text of a combined-diff hunk line --------------------------------------------------------

/-- **`hunk_line_text_intact_combined`** (whole runs): in a hunk of a combined diff with `n` parents
(git source, outside conflict regions) a possible hunk-body line has exactly one hunk-line row, and
it is `expectedRowCombined`: kind by the `n` prefix columns (`combinedLineKind`: the first `-` / `+`
among them decides, all blank = unchanged, otherwise — e.g. `\ No newline at end of file` — the raw
line is shown), text = the prefix columns (always kept in a combined diff, whatever
`keep-plus-minus-markers` says) followed by the rest of the line with tabs expanded
(`expectedRowCombined_text`) — for every configuration, whatever precedes and follows the line. -/
theorem hunk_line_text_intact_combined {cfg : Cfg} {pre post : List L} {l : L} {mi m : M} {n : Nat}
    (hmc : ∀ x ∈ pre ++ l :: post, startsWith x.text Generated.Markers.mcBegin = false)
    (ei : runFrom cfg {} pre = .ok mi) (hsrc : mi.source = .gitDiff)
    (hdt : hunkDiffType mi.st = some (.combined (.number n) false)) (hb : HunkBody l)
    (hsub : l.submodule = none) (e : run cfg (pre ++ l :: post) = .ok m) :
    (m.out.filter (fun r => isBody r.kind)).filter (fun r => r.src = pre.length) =
      [expectedRowCombined cfg n l pre.length] :=
  run_combined_line_row hmc ei hsrc hdt hb hsub e

/-- … and for ASCII prefix columns that text is: prefix columns ++ expand (rest of the line) -/
theorem combined_row_text {cfg : Cfg} {n : Nat} {l : L} {idx : Nat} {k : LineKind} (hne : l.text ≠ [])
    (hascii : (l.text.take n).all (fun c => c.toNat < 128) = true)
    (hk : combinedLineKind (l.text.take n) = some k) :
    expectedRowCombined cfg n l idx =
      { kind := k.rowKind, text := l.text.take n ++ Text.expand cfg.tab (l.text.drop n), src := idx } :=
  expectedRowCombined_text hne hascii hk

example : (match runFrom {} {} combinedPre with
    | .ok mi => mi.source == .gitDiff && hunkDiffType mi.st == some (.combined (.number 2) false)
    | .error _ => false) = true := by decide
example : expectedRowCombined {} 2 (mkL " +a\tb") 7 = { kind := .plus, text := " +a        b".toList, src := 7 } := by decide
example : expectedRowCombined { keepMarkers := true } 2 (mkL "- old") 3 = { kind := .minus, text := "- old".toList, src := 3 } := by
  decide
example : expectedRowCombined {} 2 (mkL "\\ No newline at end of file") 3 =
    { kind := .other, text := "\\ No newline at end of file".toList, src := 3 } := by decide

-- merge-conflict regions ----------------------------------------------------------------------

open Machine.Conflict in
/-- **`conflict_region_two_comparisons`** (whole runs; every configuration that handles conflict
regions: not `--color-only`, `merge-conflicts` on). Input `pre ++ region ++ post` where `pre` leaves
delta in a hunk of a combined diff (git source; `n` prefix columns) with empty conflict buffers and
`region` is a well-formed conflict region (`Region.wf`: `++<<<<<<< name`, our lines, optionally
`++||||||| name` and the ancestor lines, `++=======`, their lines, `++>>>>>>> name`; no line inside a
section is taken for a marker ending it). Then the hunk-line rows of the output are: the rows shown
for `pre`, unchanged and first; then `regionRows` = the ancestor lines and our lines (first
comparison) followed by the ancestor lines and their lines (second comparison), each line's text
intact (`mcLine`: prefix columns removed, tabs expanded, `-` / `+` in front when markers are
requested), in input order within each comparison; then whatever `post` adds. For a two-way region
(no `|||||||`) there are no ancestor rows. -/
theorem conflict_region_two_comparisons {cfg : Cfg} {pre post : List L} {r : Region} {mi m : M} {mp : MergeParents}
    {n : Nat} (hcfg : McOn cfg) (ei : runFrom cfg {} pre = .ok mi) (hsrc : mi.source = .gitDiff)
    (hst : hunkCombinedParents mi.st = some mp) (hn : nParents (.combined mp true) = .ok n)
    (hempty : mi.mcOurs = [] ∧ mi.mcAnc = [] ∧ mi.mcTheirs = []) (hwf : r.wf = true)
    (e : run cfg (pre ++ (r.lines ++ post)) = .ok m) :
    ∃ after, m.out.filter (fun x => isBody x.kind) = bodyTL mi ++ regionRows cfg n pre.length r ++ after :=
  run_conflict_region hcfg ei hsrc hst hn hempty hwf e

open Machine.Conflict in
/-- **`conflict_region_line_counts`** (same hypotheses; `pre` and `post` arbitrary, they may contain any
number of other regions, terminated or not): an input index inside the region is the `src` of exactly
two hunk-line rows of the output if it is an ancestor line, of exactly one if it is one of our / their
lines, of none if it is one of the four marker lines. (Rows before the region are rows of earlier lines,
rows after it rows of later lines: `Machine.Conflict.run_conflict_region_all`; behind it `step_srcs`: for
every input, the hunk-line rows one input line adds carry its own index or that of a buffered
conflict line.) -/
theorem conflict_region_line_counts {cfg : Cfg} {pre post : List L} {r : Region} {mi m : M} {mp : MergeParents} {n : Nat}
    (hcfg : McOn cfg) (ei : runFrom cfg {} pre = .ok mi) (hsrc : mi.source = .gitDiff)
    (hst : hunkCombinedParents mi.st = some mp) (hn : nParents (.combined mp true) = .ok n)
    (hempty : mi.mcOurs = [] ∧ mi.mcAnc = [] ∧ mi.mcTheirs = []) (hwf : r.wf = true)
    (e : run cfg (pre ++ (r.lines ++ post)) = .ok m) (j : Nat) (hj1 : pre.length ≤ j)
    (hj2 : j < pre.length + r.lines.length) :
    ((m.out.filter (fun x => isBody x.kind)).map (·.src)).count j =
      (if pre.length + 1 + r.ours.length + 1 ≤ j ∧ j < pre.length + 1 + r.ours.length + 1 + r.ancLines.length then 2
       else if pre.length + 1 ≤ j ∧ j < pre.length + 1 + r.ours.length then 1
       else if pre.length + 1 + r.ours.length + r.ancPart.length + 1 ≤ j ∧
          j < pre.length + 1 + r.ours.length + r.ancPart.length + 1 + r.theirs.length then 1
       else 0) :=
  run_conflict_region_counts_all hcfg ei hsrc hst hn hempty hwf e j hj1 hj2

/-- **`hunk_row_shows_an_input_line`** (every input — conflict regions included —, every configuration):
each hunk-line row of the output is attributed to a line of the input. -/
theorem hunk_row_shows_an_input_line {cfg : Cfg} {ls : List L} {m : M} (e : run cfg ls = .ok m) :
    ∀ r ∈ m.out.filter (fun x => isBody x.kind), r.src < ls.length :=
  Machine.Conflict.run_rows_below e

/-- a diff3-style region (lines 6–13 after `conflictPre`) and a two-way one -/
def region3 : Machine.Conflict.Region :=
  { start := mkL "++<<<<<<< HEAD", ours := [mkL "+ ours1", mkL "+ ours\t2"],
    anc := some (mkL "++||||||| base", [mkL "++anc"]), sep := mkL "++=======", theirs := [mkL " +theirs"],
    fin := mkL "++>>>>>>> other" }
def region2 : Machine.Conflict.Region :=
  { start := mkL "++<<<<<<< HEAD", ours := [mkL "+ ours1"], anc := none, sep := mkL "++=======",
    theirs := [mkL " +theirs"], fin := mkL "++>>>>>>> other" }
def conflictPre : List L := combinedPre ++ [mkL "  ctx"]

example : region3.wf = true := by decide
example : region2.wf = true := by decide
example : (match runFrom {} {} conflictPre with
    | .ok mi => mi.source == .gitDiff && hunkCombinedParents mi.st == some (.pre [' ', ' ']) &&
        mi.mcOurs.isEmpty && mi.mcAnc.isEmpty && mi.mcTheirs.isEmpty
    | .error _ => false) = true := by decide
example : nParents (.combined (.pre [' ', ' ']) true) = .ok 2 := rfl
/-- what `regionRows` is here: ancestor line 10, our lines 7 and 8, ancestor line 10 again, their line 12 -/
example : (Machine.Conflict.regionRows {} 2 6 region3).map (fun r => (r.src, r.kind, String.ofList r.text)) =
    [(10, .minus, "anc"), (7, .plus, "ours1"), (8, .plus, "ours        2"), (10, .minus, "anc"), (12, .plus, "theirs")] := by
  decide
example : (Machine.Conflict.regionRows {} 2 6 region2).map (fun r => (r.src, r.kind, String.ofList r.text)) =
    [(7, .plus, "ours1"), (9, .plus, "theirs")] := by decide
example : (match run {} (conflictPre ++ (region3.lines ++ [mkL "  after"])) with
    | .ok m => (m.out.filter (fun r => isBody r.kind)).map (·.src) == [5, 10, 7, 8, 10, 12, 14]
    | .error _ => false) = true := by decide

/-- two regions in one input: the counts hold for the first (lines 6–13) although another follows -/
example : (match run {} (conflictPre ++ (region3.lines ++ (mkL "  between" :: region2.lines))) with
    | .ok m => (m.out.filter (fun r => isBody r.kind)).map (·.src) == [5, 10, 7, 8, 10, 12, 14, 16, 18]
    | .error _ => false) = true := by decide

/-- `McOn` is needed: under `--color-only` the lines of a region are ordinary hunk lines, one row each -/
example : (match run { colorOnly := true } (conflictPre ++ region2.lines) with
     | .ok m => (m.out.filter (fun r => isBody r.kind)).map (·.src)
     | .error _ => []) = [5, 6, 7, 8, 9, 10] := by decide
/-- `Region.wf` is needed: an end marker without a name is not an end marker (`parse_merge_marker`),
the region then never ends and nothing of it — nor of what follows — is shown; a line of "ours" that
looks like the end marker ends the region early -/
example : ({ region2 with fin := mkL "++>>>>>>>" } : Machine.Conflict.Region).wf = false := by decide
example : (match run {} (conflictPre ++ ({ region2 with fin := mkL "++>>>>>>>" } : Machine.Conflict.Region).lines ++
        [mkL "  after"]) with
     | .ok m => (m.out.filter (fun r => isBody r.kind)).map (·.src)
     | .error _ => []) = [5] := by decide
example : ({ region2 with ours := [mkL "++>>>>>>> x"] } : Machine.Conflict.Region).wf = false := by decide

/-- FINDING (confirmed on the binary): a conflict region that is not terminated — end of input, or a
`diff ` line inside it — is never painted: its lines (here 6 and 7) have no row at all … -/
theorem unterminated_conflict_region_is_dropped :
    (match run {} (conflictPre ++ [mkL "++<<<<<<< HEAD", mkL "+ dropped"]) with
     | .ok m => (m.out.filter (fun r => isBody r.kind)).map (·.src)
     | .error _ => []) = [5] := by decide

/-- … and they are still in the conflict buffers when the next region — of another file — begins, and
are shown there (line 7 of file x among "our" lines of file y): the hypothesis `hempty` of
`conflict_region_two_comparisons` is needed. `enter_merge_conflict` does not clear
`merge_conflict_lines`. -/
theorem stale_conflict_lines_shown_in_next_region :
    (match run {} (conflictPre ++ [mkL "++<<<<<<< HEAD", mkL "+ dropped"] ++
        ["diff --cc y", "index 1,2..3", "--- a/y", "+++ b/y", "@@@ -1,2 -1,2 +1,2 @@@"].map mkL ++ region2.lines) with
     | .ok m => (m.out.filter (fun r => isBody r.kind)).map (·.src)
     | .error _ => []) = [5, 7, 14, 16] := by decide

-- ingest_line + the state machine (session 4, T4) ------------------------------------------------

namespace Ingested
open IngestMachine Line

/-- **`sources_as_modelled`**. What ties the composition `IngestMachine.runRaw` to `/repo/src`, regenerated on
every run (`Generated.IngestMachine`): in the input loop of `consume` the call of `ingest_line` comes first and
only the source detection stands between it and the handler chain; outside `ingest_line_utf8` nothing assigns to
`self.line` / `self.raw_line` (but the grep handler, for its own lines); `handle_hunk_line` classifies `self.line`
and makes the row of a removed / added / unchanged line by `prepare(&self.line, …)`, the row of any other line by
`tabs::expand(&self.raw_line, …)`; `store_line` (conflict regions) uses `prepare(&self.line, …)`; and in the unified
view `Config::max_line_length` is the option `--max-line-length`. -/
theorem sources_as_modelled : sourcesAsModelled = true := by decide +kernel

/-- **`truncation_mark_visible`**. `Config::truncation_symbol` (regenerated from `src/config.rs` / `src/ansi/mod.rs`)
is reverse video, `→`, reset: whatever the width `w` of the arrow, its visible text is `→` and it takes `w` columns. -/
theorem truncation_mark_visible (w : Nat) :
    textOf (symItems w) = ['→'] ∧ width (symItems w) = w ∧
    flatten (symItems w) = "\x1b[7m→\x1b[0m".toList := by
  refine ⟨by rfl, ?_, by rfl⟩
  simp [symItems, Generated.IngestMachine.truncationSymbol, width, Item.width]

/-- **`ingested_line_cut_only_when_too_long`** (one line, every limit, every truncation symbol, every partition of the
line into clusters of any widths and escape sequences). `ingest_line_utf8` leaves the line as it is (`o = r.items`:
`raw_line` is the CR-processed input line, `line` its text) — or, and only when the limit is positive and smaller than
both the line's length in bytes and its width in columns, the result is `kept ++ rt` where `rt` is the truncation
symbol (cut to the limit itself if it does not fit) and the text of `kept` is the longest prefix of the line's
clusters that fits in `limit − width rt` columns (`fitCount`; `fitCount_fits`, `fitCount_maximal`), followed by
blanks if a cluster wider than one column had to be split (`Filler`: one for a two-column cluster; for a cluster wider
than two columns — the fallback of `truncate_str_impl`, reached since fix d6cf9d0 — as many as columns are left:
`IngestMachine.truncText_filler`, `fillerFor_fits`); something is cut off (`fitCount … < length`). -/
theorem ingested_line_cut_only_when_too_long {ic : ICfg} {r : RawLine} {o : List Item} (h : ingestItems ic r = some o) :
    o = r.items ∨
    (0 < ic.maxLen ∧ ic.maxLen < utf8Len r.r1 ∧ ic.maxLen < gWidth (gsOf r.items) ∧
      ∃ rt kept f, truncNoTail ic.maxLen (some ' ') ic.sym = some rt ∧ o = kept ++ rt ∧ Filler (some ' ') f ∧
        fitCount ic.maxLen (width rt) (gsOf r.items) < (gsOf r.items).length ∧
        gsOf kept = (gsOf r.items).take (fitCount ic.maxLen (width rt) (gsOf r.items)) ++ f) :=
  ingestItems_spec (by decide) h

/-- `fitCount` is what it is called: the counted clusters fit, one more does not. -/
theorem kept_prefix_is_longest_that_fits (dw used : Nat) (gs : List G) :
    (0 < fitCount dw used gs → used + gWidth (gs.take (fitCount dw used gs)) ≤ dw) ∧
    (fitCount dw used gs < gs.length → dw < used + gWidth (gs.take (fitCount dw used gs + 1))) :=
  ⟨fitCount_fits dw gs used, fitCount_maximal dw gs used⟩

/-- **`cut_filler_exact`** (the grapheme loop of `truncate_str_impl`, one text run; every limit, fill character, cluster
list of any widths). What stands in place of the first cluster `g` that does not fit, exactly (`fillerFor`): nothing
without a fill character or for a cluster of at most one column; one fill character for a two-column cluster when a
column is left; for a cluster wider than two columns — the fallback reached since fix d6cf9d0 — as many fill characters
as columns are left. In every case the result stays within the limit, and with a fill character a cluster of two or
more columns is filled up to the limit exactly. -/
theorem cut_filler_exact (dw : Nat) (fill : Option Char) (gs : List G) (used : Nat) (kept : List G) (used' : Nat)
    (h : truncText dw fill used gs = some (kept, used', true)) :
    ∃ g, gs[fitCount dw used gs]? = some g ∧ dw < used' + g.w ∧
      kept = gs.take (fitCount dw used gs) ++ fillerFor dw fill used' g ∧
      (used' ≤ dw → used' + gWidth (fillerFor dw fill used' g) ≤ dw) ∧
      (∀ ch, fill = some ch → used' ≤ dw → 2 ≤ g.w → used' + gWidth (fillerFor dw fill used' g) = dw) := by
  obtain ⟨g, h1, h2, h3⟩ := truncText_filler dw fill gs used kept used' h
  refine ⟨g, h1, h2, h3, fillerFor_fits dw fill used' g, ?_⟩
  intro ch hch hu hw
  subst hch
  exact fillerFor_exact dw ch used' g hu hw h2

example : fillerFor 4 (some ' ') 2 ⟨['a', 'b'], 3⟩ = [⟨[' '], 1⟩, ⟨[' '], 1⟩] ∧
    fillerFor 4 (some ' ') 3 ⟨['日'], 2⟩ = [⟨[' '], 1⟩] ∧ fillerFor 4 (some ' ') 4 ⟨['a', 'b'], 3⟩ = [] ∧
    fillerFor 4 none 2 ⟨['a', 'b'], 3⟩ = [] := by decide

/-- **`ingested_line_whole_within_limit`**: no limit (`--max-line-length 0`), or a line not longer than the limit in
bytes, or one that fits in the limit's columns: nothing is cut. -/
theorem ingested_line_whole_within_limit {ic : ICfg} {r : RawLine}
    (h : ic.maxLen = 0 ∨ utf8Len r.r1 ≤ ic.maxLen ∨ width r.items ≤ ic.maxLen) : ingestItems ic r = some r.items :=
  ingestItems_whole h

/-- **`raw_run_never_panics`**: delta on raw lines ends normally unless the `debug_assert!` of `truncate_str_impl`
(a cluster wider than two columns at the cut; dev profile only; removed by fix d6cf9d0) fires in the ingest step. -/
theorem raw_run_never_panics {ic : ICfg} {cfg : Cfg} {rs : List RawLine} {ls : List L} (h : ingestAll ic rs = some ls) :
    ∃ m, runRaw ic cfg rs = .ok m := runRaw_total h

/-- **`raw_run_never_panics_any_width`**: since fix d6cf9d0 — the `debug_assert!` no longer stands in front of the
fallback of `truncate_str_impl`: `truncateAssertsWideCluster = false`, read from `src/ansi/mod.rs` on every run — delta
on raw lines ends normally for every input, every limit, every truncation symbol and every partition of the lines
into clusters of any widths (3 and more included). -/
theorem raw_run_never_panics_any_width (hno : Generated.StyleTables.truncateAssertsWideCluster = false) (ic : ICfg)
    (cfg : Cfg) (rs : List RawLine) : ∃ m, runRaw ic cfg rs = .ok m := runRaw_total_any hno ic cfg rs

/-- **`hunk_line_row_of_ingested_line`** (whole runs on RAW input lines, git diff, unified hunk; every configuration,
every limit). The input lines are `pre ++ r :: post`; every line is ingested (`IngestMachine.toL`: CR step, truncation
under the regenerated guard, stripping) and the state machine runs on the results. If the ingested form `l` of `r` is
met in a unified hunk state and starts with a marker column, the output has exactly one hunk-line row for `r`, and it
is `expectedRow cfg l`: kind by the marker, text = `l.text` without the marker column, tabs expanded. What `l.text` is
in terms of the input line: `ingested_line_cut_only_when_too_long`. -/
theorem hunk_line_row_of_ingested_line {ic : ICfg} {cfg : Cfg} {pre post : List RawLine} {r : RawLine} {lsPre : List L}
    {l : L} {mi m : M} (hpre : ingestAll ic pre = some lsPre) (hl : toL ic r = some l)
    (hmc : ∀ ls, ingestAll ic (pre ++ r :: post) = some ls → ∀ x ∈ ls, startsWith x.text Generated.Markers.mcBegin = false)
    (ei : runFrom cfg {} lsPre = .ok mi) (hsrc : mi.source = .gitDiff) (hst : isHunkState mi.st = true)
    (hdt : hunkDiffType mi.st = some .unified) (hb : firstIs l isMarker) (hc : l.commitRe = false)
    (hsub : l.submodule = none) (e : runRaw ic cfg (pre ++ r :: post) = .ok m) :
    (m.out.filter (fun x => isBody x.kind)).filter (fun x => x.src = pre.length) = [expectedRow cfg l pre.length] :=
  raw_run_hunk_line_row hpre hl hmc ei hsrc hst hdt hb hc hsub e

/-- … the same in a hunk of a combined diff with `n` parents (row: `expectedRowCombined`) … -/
theorem hunk_line_row_of_ingested_line_combined {ic : ICfg} {cfg : Cfg} {pre post : List RawLine} {r : RawLine}
    {lsPre : List L} {l : L} {mi m : M} {n : Nat} (hpre : ingestAll ic pre = some lsPre) (hl : toL ic r = some l)
    (hmc : ∀ ls, ingestAll ic (pre ++ r :: post) = some ls → ∀ x ∈ ls, startsWith x.text Generated.Markers.mcBegin = false)
    (ei : runFrom cfg {} lsPre = .ok mi) (hsrc : mi.source = .gitDiff)
    (hdt : hunkDiffType mi.st = some (.combined (.number n) false)) (hb : HunkBody l)
    (hsub : l.submodule = none) (e : runRaw ic cfg (pre ++ r :: post) = .ok m) :
    (m.out.filter (fun x => isBody x.kind)).filter (fun x => x.src = pre.length) =
      [expectedRowCombined cfg n l pre.length] :=
  raw_run_combined_line_row hpre hl hmc ei hsrc hdt hb hsub e

open Machine.Plain in
/-- … and in plain `diff -u` input (the reference reading `plainNext` reads the ingested lines; row: `plainRow`). -/
theorem hunk_line_row_of_ingested_line_plain {ic : ICfg} {cfg : Cfg} {pre post : List RawLine} {r : RawLine}
    {lsPre : List L} {l : L} {s s' : PS} {b : Bool} {m : M} (hpre : ingestAll ic pre = some lsPre)
    (hl : toL ic r = some l) (hin : ∀ ls, ingestAll ic (pre ++ r :: post) = some ls → PlainInput ls)
    (hs : plainAfter .top lsPre = some s) (hn : plainNext s l = some (s', b))
    (e : runRaw ic cfg (pre ++ r :: post) = .ok m) :
    (m.out.filter (fun x => isBody x.kind)).filter (fun x => x.src = pre.length) =
      if b then [plainRow cfg l pre.length] else [] :=
  raw_run_plain_line hpre hl hin hs hn e

/-- **`hunk_line_shown_whole_within_limit`** (whole runs, stated over the characters of the input line). A line
`c :: rest` of the raw input without `\r` and without escape sequences, `c` one of `+`, `-`, blank, met in a unified
hunk of a git diff: if there is no limit (`--max-line-length 0`), or the line is not longer than the limit (bytes),
or it fits in the limit's columns, its one row is: kind by `c`, text = `rest` with tabs expanded (`c` in front when
markers are kept) — nothing else is removed or added. -/
theorem hunk_line_shown_whole_within_limit {ic : ICfg} {cfg : Cfg} {pre post : List RawLine} {r : RawLine}
    {lsPre : List L} {mi m : M} {c : Char} {rest : Str} (hpre : ingestAll ic pre = some lsPre)
    (hwf : r.wf = true) (hcr : '\r' ∉ r.chars) (hesc : noEsc r.items = true) (hch : r.chars = c :: rest)
    (hm : isMarker c = true)
    (hlim : ic.maxLen = 0 ∨ utf8Len r.chars ≤ ic.maxLen ∨ width r.items ≤ ic.maxLen)
    (hmc : ∀ ls, ingestAll ic (pre ++ r :: post) = some ls → ∀ x ∈ ls, startsWith x.text Generated.Markers.mcBegin = false)
    (ei : runFrom cfg {} lsPre = .ok mi) (hsrc : mi.source = .gitDiff) (hst : isHunkState mi.st = true)
    (hdt : hunkDiffType mi.st = some .unified) (hc : r.facts.commitRe = false) (hsub : r.facts.submodule = none)
    (e : runRaw ic cfg (pre ++ r :: post) = .ok m) :
    ∃ row, (m.out.filter (fun x => isBody x.kind)).filter (fun x => x.src = pre.length) = [row] ∧
      row.text = keptMarker cfg c ++ Text.expand cfg.tab rest ∧
      row.kind = (if c = '-' then .minus else if c = '+' then .plus else .zero) := by
  have hl := toL_plain_whole (ic := ic) hwf hcr hesc hlim
  have hb : firstIs ({ r.facts with raw := r.chars, text := r.chars } : L) isMarker := ⟨c, rest, hch, hm⟩
  refine ⟨_, raw_run_hunk_line_row hpre hl hmc ei hsrc hst hdt hb hc hsub e, ?_⟩
  exact expectedRow_text (l := { r.facts with raw := r.chars, text := r.chars }) hch hm

/-- **`hunk_line_cut_is_marked`** (whole runs). A line of a unified hunk of a git diff that IS cut (`o ≠ r.items`; by
`ingested_line_cut_only_when_too_long` the limit is positive and the line exceeds it in bytes and columns), whose
first cluster `g` starts with the marker `c` and fits next to the truncation symbol (`width sym + g.w ≤ limit`; for
the one-column `→` and a one-column marker: limit ≥ 2): its one row has kind by `c` and shows, after the marker column,
the longest prefix of the line's clusters that fits in `limit − width sym` columns (one blank for a split wide
cluster), then the visible text of the truncation symbol — all with tabs expanded. -/
theorem hunk_line_cut_is_marked {ic : ICfg} {cfg : Cfg} {pre post : List RawLine} {r : RawLine} {lsPre : List L}
    {o : List Item} {mi m : M} {g : G} {gs : List G} {c : Char} {cs : Str} (hpre : ingestAll ic pre = some lsPre)
    (ho : ingestItems ic r = some o) (hcut : o ≠ r.items) (hgs : gsOf r.items = g :: gs) (hg : g.s = c :: cs)
    (hm : isMarker c = true) (hfit : width ic.sym + g.w ≤ ic.maxLen)
    (hmc : ∀ ls, ingestAll ic (pre ++ r :: post) = some ls → ∀ x ∈ ls, startsWith x.text Generated.Markers.mcBegin = false)
    (ei : runFrom cfg {} lsPre = .ok mi) (hsrc : mi.source = .gitDiff) (hst : isHunkState mi.st = true)
    (hdt : hunkDiffType mi.st = some .unified) (hc : r.facts.commitRe = false) (hsub : r.facts.submodule = none)
    (e : runRaw ic cfg (pre ++ r :: post) = .ok m) :
    ∃ row f, (m.out.filter (fun x => isBody x.kind)).filter (fun x => x.src = pre.length) = [row] ∧
      Filler (some ' ') f ∧ fitCount ic.maxLen (width ic.sym) (gsOf r.items) < (gsOf r.items).length ∧
      row.text = keptMarker cfg c ++ Text.expand cfg.tab
        ((gChars ((gsOf r.items).take (fitCount ic.maxLen (width ic.sym) (gsOf r.items)) ++ f) ++ textOf ic.sym).drop 1) ∧
      row.kind = (if c = '-' then .minus else if c = '+' then .plus else .zero) := by
  rcases ingestItems_spec (by decide) ho with h | ⟨_, _, _, rt, kept, f, hrt, rfl, hf, hlt, hk⟩
  · exact absurd h hcut
  · rw [truncNoTail_fits _ _ _ (by omega)] at hrt
    cases hrt
    have htext : textOf (kept ++ ic.sym) =
        gChars ((gsOf r.items).take (fitCount ic.maxLen (width ic.sym) (gsOf r.items)) ++ f) ++ textOf ic.sym := by
      rw [textOf_append]; simp [textOf, hk]
    obtain ⟨tl', htl⟩ := kept_head (dw := ic.maxLen) (used := width ic.sym) (f := f) (tl := textOf ic.sym) hgs hg (by omega)
    have hl : toL ic r = some { r.facts with raw := flatten (kept ++ ic.sym), text := textOf (kept ++ ic.sym) } := by
      simp [toL, ho]
    have ht : ({ r.facts with raw := flatten (kept ++ ic.sym), text := textOf (kept ++ ic.sym) } : L).text = c :: tl' := by
      simp only; rw [htext, htl]
    have hb : firstIs ({ r.facts with raw := flatten (kept ++ ic.sym), text := textOf (kept ++ ic.sym) } : L) isMarker :=
      ⟨c, tl', ht, hm⟩
    refine ⟨_, f, raw_run_hunk_line_row hpre hl hmc ei hsrc hst hdt hb hc hsub e, hf, hlt, ?_⟩
    have hd : (gChars ((gsOf r.items).take (fitCount ic.maxLen (width ic.sym) (gsOf r.items)) ++ f) ++ textOf ic.sym).drop 1 = tl' := by
      rw [htl]; rfl
    rw [hd]
    exact expectedRow_text (cfg := cfg) (idx := pre.length) ht hm

/-- a raw line of one-column characters (TAB: no column of its own), no `\r`, no escape sequences -/
def mkRaw (s : String) : RawLine :=
  { chars := s.toList, tailZeroWidth := true,
    items := if s.toList = [] then [] else [.text (s.toList.map fun c => ⟨[c], if c = '\t' then 0 else 1⟩)],
    facts := mkL s }

def ic20 : ICfg := { maxLen := 20, sym := symItems 1 }
def rawPre : List RawLine :=
  ["diff --git a/x b/x", "--- a/x", "+++ b/x", "@@ -1,2 +1,2 @@ fn f()", " ctx"].map mkRaw
def longLine : RawLine := mkRaw "-0123456789\tabcdefghijklmnop"

example : longLine.wf = true ∧ noEsc longLine.items = true ∧ '\r' ∉ longLine.chars := by decide
/-- 28 bytes and 27 columns against a limit of 20: cut; 19 columns are kept next to the one-column mark -/
example : utf8Len longLine.r1 = 28 ∧ width longLine.items = 27 ∧ ingestItems ic20 longLine ≠ some longLine.items := by
  decide
example : fitCount 20 1 (gsOf longLine.items) = 20 ∧ gWidth ((gsOf longLine.items).take 20) = 19 := by decide
example : (match ingestAll ic20 rawPre with
    | some lsPre => (match runFrom {} {} lsPre with
      | .ok mi => mi.source == .gitDiff && isHunkState mi.st && hunkDiffType mi.st == some .unified
      | .error _ => false)
    | none => false) = true := by decide
/-- what the theorems say for this input: line 5 is cut after `abcdefgh` and marked, lines 4 and 6 are whole; the
hunk header (22 bytes, exempt from the limit by the regenerated guard) still opens the hunk -/
example : (match runRaw ic20 {} (rawPre ++ longLine :: [mkRaw "+new"]) with
    | .ok m => (m.out.filter (fun r => isBody r.kind)).map (fun r => (r.src, r.kind, String.ofList r.text)) ==
        [(4, .zero, "ctx"), (5, .minus, "0123456789        abcdefgh→"), (6, .plus, "new")]
    | .error _ => false) = true := by decide
/-- the same input without a limit -/
example : (match runRaw { ic20 with maxLen := 0 } {} (rawPre ++ longLine :: [mkRaw "+new"]) with
    | .ok m => (m.out.filter (fun r => isBody r.kind)).map (fun r => (r.src, String.ofList r.text)) ==
        [(4, "ctx"), (5, "0123456789        abcdefghijklmnop"), (6, "new")]
    | .error _ => false) = true := by decide

/-- a three-column cluster (`a` + two combining marks, say) right after the marker, limit 2: the line the binary
aborted on before the fix (`@@ -1 +1 @@`, then ` <skin tone modifier> …` under `--max-line-length 2`) -/
def wideClusterLine : RawLine :=
  { mkRaw "+abcd" with items := [.text [⟨['+'], 1⟩, ⟨['a', 'b'], 3⟩, ⟨['c'], 1⟩, ⟨['d'], 1⟩]] }

example : wideClusterLine.wf = true := by decide
/-- on the tree with the assertion the ingest step fails on it; on the repaired tree the run ends and the line is
the marker column, no blank (the mark takes the last column: nothing is left to fill) and the mark -/
example : (if Generated.StyleTables.truncateAssertsWideCluster then
      ingestItems { maxLen := 2, sym := symItems 1 } wideClusterLine = none
    else (match runRaw { maxLen := 2, sym := symItems 1 } {} [mkRaw "@@ -1 +1 @@", wideClusterLine] with
      | .ok m => (m.out.filter (fun r => isBody r.kind)).map (fun r => (r.src, r.kind, String.ofList r.text)) ==
          [(1, .plus, "→")]
      | .error _ => false) = true) := by decide
/-- with a limit of 4 two columns are left next to the marker and the mark: two blanks -/
example : (if Generated.StyleTables.truncateAssertsWideCluster then True
    else ingestItems { maxLen := 4, sym := symItems 1 } wideClusterLine =
      some ([.text [⟨['+'], 1⟩, ⟨[' '], 1⟩, ⟨[' '], 1⟩]] ++ symItems 1)) := by decide

/-- `hfit` of `hunk_line_cut_is_marked` is needed: with `--max-line-length 1` nothing fits next to the mark, the
line is the mark alone, has no marker column any more and is shown by the `_` arm of `handle_hunk_line` as it is
(kind `other`, the raw line). Confirmed on the binary (notes/S4-C01-T4.md). -/
theorem tiny_limit_loses_marker_column :
    (match runRaw { maxLen := 1, sym := symItems 1 } {} [mkRaw "@@ -1 +1 @@", mkRaw "+abc"] with
     | .ok m => (m.out.filter (fun r => isBody r.kind)).map (fun r => (r.src, r.kind, String.ofList r.text))
     | .error _ => []) = [(1, .other, "\x1b[7m→\x1b[0m")] := by decide

end Ingested

-- file sections of a combined diff (session 4, strengthening) --------------------------------------

/-- **`combined_section_stays_combined`** (one input line; every configuration, every machine). In a header state of
a git diff — in particular `DiffHeader(Combined(..))`, where `diff --cc` / `diff --combined` puts the machine — a line
that is not a commit line and starts with none of `diff `, `@@`, `old mode `, `new mode `, `Submodule ` (`HeaderLine`)
leaves the state exactly as it is, and the source too: **no handler of the chain changes the diff type of the file
section on a header line**. (The `@@@` hunk header that follows takes the number of marker columns of every hunk line
of the section from this state.) -/
theorem combined_section_stays_combined {cfg : Cfg} {m m' : M} {l : L} {dt : DiffType} (hst : m.st = .diffHeader dt)
    (hsrc : m.source = .gitDiff) (hl : HeaderLine l) (e : step cfg m l = .ok m') :
    m'.st = .diffHeader dt ∧ m'.source = .gitDiff := by
  obtain ⟨h1, h2⟩ := step_header_line ⟨by rw [hst]; rfl, hsrc⟩ hl e
  exact ⟨h1.trans hst, h2⟩

/-- … and every line git writes between `diff --cc <path>` and the hunks of a combined-diff section (combine-diff.c:
`index a,b..c`, `mode a,b..c`, `new file mode m`, `deleted file mode a,b`, `--- …`, `+++ …`, `Binary files differ`) is
such a line. -/
theorem combined_section_lines_are_header_lines {l : L} (hc : l.commitRe = false)
    (hp : startsWithAny l.text combinedHeaderPrefixes = true) : HeaderLine l :=
  headerLine_of_prefix hc hp

example : HeaderLine (mkL "mode 100644,100644..100755") := headerLine_of_prefix rfl (by decide)
example : HeaderLine (mkL "deleted file mode 100644,100644") := headerLine_of_prefix rfl (by decide)
example : HeaderLine (mkL "index 5922773,94235ab..ffad8be") := headerLine_of_prefix rfl (by decide)

/-- **`combined_section_stays_combined_src`** (over the table regenerated from /repo/src,
`Generated.HeaderState.assignSites`: every `self.state = …` / `handle_additional_cases(…)` of the state machine with
the marker literals and conditions that guard it). For every prefix a header line of a combined-diff section starts
with: every assignment such a line can reach — its function is not one guarded by a test of the current state / the
commit regex, one of its marker literals is compatible with the prefix, no condition excludes git input — leaves a
header state as it is. A handler branch that matches such a line and assigns `State::DiffHeader(DiffType::Unified)`
(or anything else) makes this false. -/
theorem combined_section_stays_combined_src :
    HeaderState.keepsCombined Generated.HeaderState.assignSites = true := by decide

/-- **`header_state_sites_as_modelled`**: the assignment sites of the source are the ones `DeltaModel/Machine.lean`
implements (function, guarding literals, conditions, right-hand side; `HeaderState.modelledSites`, each entry names
the model function) — so `combined_section_stays_combined`, a theorem about the model, is about these sites. -/
theorem header_state_sites_as_modelled :
    HeaderState.sitesAsModelled Generated.HeaderState.assignSites = true := by decide +kernel

/-- **`handler_literals_as_modelled`**: the marker literals every handler of the `consume` chain tests a line against
are the ones the model tests (`Generated.Markers`), handler by handler, in order: no handler has a branch on a literal
the model does not know. -/
theorem handler_literals_as_modelled :
    Generated.HeaderState.handlerLiterals = HeaderState.modelledLiterals := by decide

/-- the decision procedure does detect the seeded shape: one more site in the mode-line handler, guarded by `mode `,
assigning the unified header state -/
example : HeaderState.keepsCombined
    (Generated.HeaderState.assignSites ++
      [("handle_diff_header_mode_line", [['m', 'o', 'd', 'e', ' ']], ["ifletSome((parent_modes,mode))=line_suf.split_once(\"..\")"],
        "State::DiffHeader(DiffType::Unified)")]) = false := by decide
/-- … and the same overwrite in the `Binary files` handler -/
example : HeaderState.keepsCombined
    [("handle_diff_header_misc_line", [Generated.Markers.onlyIn, Generated.Markers.binaryFiles], [],
      "State::DiffHeader(DiffType::Unified)")] = false := by decide

/-- **`combined_section_hunk_diff_type`** (whole runs). Input `pre0 ++ d :: hdr ++ [h]`: after anything (`pre0`; the
input not taken for plain `diff -u` output) a `diff --cc` / `diff --combined` line `d`, any number of header lines
`hdr`, and a hunk-header line `h` (starts with `@@`, parses): the machine is in the pending-hunk-header state of a
combined diff with as many parents as `h` has leading `@`, less one — which is the hypothesis `hdt` of
`hunk_line_text_intact_combined` for the first line of the hunk. -/
theorem combined_section_hunk_diff_type {cfg : Cfg} {pre0 hdr : List L} {d h : L} {hh : HunkHeader} {m0 mi : M}
    (e0 : runFrom cfg {} pre0 = .ok m0) (hsrc0 : m0.source ≠ .diffUnified) (hd : CombinedDiffLine d)
    (hhdr : ∀ x ∈ hdr, HeaderLine x) (hh' : HunkHeaderLine h hh)
    (e : runFrom cfg {} (pre0 ++ d :: (hdr ++ [h])) = .ok mi) :
    mi.source = .gitDiff ∧ hunkDiffType mi.st = some (.combined (.number (atParents h)) false) :=
  run_combined_section_header e0 hsrc0 hd hhdr hh' e

/-- **`combined_hunk_line_keeps_columns`** (one input line): in a hunk of a combined diff read with `n` marker columns,
a hunk line that has its `n` columns (ASCII) leaves the machine reading the next line with `n` columns again. -/
theorem combined_hunk_line_keeps_columns {cfg : Cfg} {m m' : M} {l : L} {n : Nat} (g : Good m) (hsrc : m.source = .gitDiff)
    (hdt : hunkDiffType m.st = some (.combined (.number n) false)) (hl : CombinedBodyLine n l)
    (e : step cfg m l = .ok m') :
    m'.source = .gitDiff ∧ hunkDiffType m'.st = some (.combined (.number n) false) ∧ isHunkHeader m'.st = false :=
  step_combined_body_line g hsrc hdt hl e

/-- **`combined_section_hunk_line_text_intact`** (whole runs, every configuration). Input
`pre0 ++ d :: (hdr ++ [h]) ++ tail ++ l :: post`: after anything, a file section of a combined diff — the
`diff --cc` / `diff --combined` line, header lines (whatever git writes there: index, mode, new / deleted file mode,
`--- `, `+++ ` …), the hunk-header line `h` with `n + 1` `@`, then `tail`: hunk lines with `n` marker columns and
further hunk headers of the section. The next possible hunk-body line `l` has exactly one hunk-line row in delta's
output and it is `expectedRowCombined cfg n l`: kind by its `n` marker columns, the columns kept, the rest of the
line with tabs expanded (`combined_row_text`). So every hunk line of the section is shown with all its columns
removed from the text — not only the first. -/
theorem combined_section_hunk_line_text_intact {cfg : Cfg} {pre0 hdr tail post : List L} {d h l : L} {hh : HunkHeader}
    {m0 m : M}
    (hmc : ∀ x ∈ pre0 ++ d :: (hdr ++ [h]) ++ tail ++ l :: post, startsWith x.text Generated.Markers.mcBegin = false)
    (e0 : runFrom cfg {} pre0 = .ok m0) (hsrc0 : m0.source ≠ .diffUnified) (hd : CombinedDiffLine d)
    (hhdr : ∀ x ∈ hdr, HeaderLine x) (hh' : HunkHeaderLine h hh) (ht : SectionTail (atParents h) false tail)
    (hb : HunkBody l) (hsub : l.submodule = none)
    (e : run cfg (pre0 ++ d :: (hdr ++ [h]) ++ tail ++ l :: post) = .ok m) :
    (m.out.filter (fun r => isBody r.kind)).filter
        (fun r => r.src = (pre0 ++ d :: (hdr ++ [h]) ++ tail).length) =
      [expectedRowCombined cfg (atParents h) l (pre0 ++ d :: (hdr ++ [h]) ++ tail).length] :=
  run_combined_section_line_row hmc e0 hsrc0 hd hhdr hh' ht hb hsub e

/-- the section of `git show --cc` of a real merge in which the mode of `tool.sh` changed (lines 0–5), its hunk lines -/
def modeSectionHead : List L :=
  ["diff --cc tool.sh", "index 5922773,94235ab..ffad8be", "mode 100644,100644..100755", "--- a/tool.sh", "+++ b/tool.sh",
   "@@@ -1,5 -1,5 +1,6 @@@"].map mkL
def modeSectionBody : List L := ["  a", "- b", " -B1", "++B1x", "  c"].map mkL

example : CombinedDiffLine (mkL "diff --cc tool.sh") := ⟨rfl, by decide⟩
example : (parseHunkHeader (mkL "@@@ -1,5 -1,5 +1,6 @@@").text).isSome = true ∧ atParents (mkL "@@@ -1,5 -1,5 +1,6 @@@") = 2 ∧
    startsWith (mkL "@@@ -1,5 -1,5 +1,6 @@@").text Generated.Markers.hunkHeader = true := by decide
example : CombinedBodyLine 2 (mkL " -B1") := ⟨⟨rfl, by decide⟩, rfl, by decide, by decide, by decide⟩
/-- what the theorems say for this input: after the header (mode line included) two columns; every hunk line shown once
with both columns kept in front and counted for the kind -/
example : (match runFrom {} {} modeSectionHead with
    | .ok mi => mi.source == .gitDiff && hunkDiffType mi.st == some (.combined (.number 2) false)
    | .error _ => false) = true := by decide
example : (match run {} (modeSectionHead ++ modeSectionBody) with
    | .ok m => (m.out.filter (fun r => isBody r.kind)).map (fun r => (r.src, r.kind, String.ofList r.text)) ==
        [(6, .zero, "  a"), (7, .minus, "- b"), (8, .minus, " -B1"), (9, .plus, "++B1x"), (10, .zero, "  c")]
    | .error _ => false) = true := by decide

/-- the hypothesis `HeaderLine` is needed, and it is exactly the class of defect this guards against: `old mode` /
`new mode` lines (which git never writes in a combined section) DO overwrite the state with `DiffHeader(Unified)`;
after them the `@@@` hunk of the section is read as a two-way diff — one column removed, the second kept as text,
` -B1` (removed from the second parent) shown as an unchanged line. -/
theorem old_mode_line_in_combined_section_resets_diff_type :
    (match run {} (["diff --cc tool.sh", "index 5922773,94235ab..ffad8be", "old mode 100644", "new mode 100755",
                    "--- a/tool.sh", "+++ b/tool.sh", "@@@ -1,5 -1,5 +1,6 @@@"].map mkL ++ modeSectionBody) with
     | .ok m => (m.out.filter (fun r => isBody r.kind)).map (fun r => (r.src, r.kind, String.ofList r.text))
     | .error _ => []) =
      [(7, .zero, " a"), (8, .minus, " b"), (9, .zero, "-B1"), (10, .plus, "+B1x"), (11, .zero, " c")] := by decide

/-- the hypothesis `cols` of `CombinedBodyLine` is needed (confirmed on the binary, notes/S4-strengthen-C01.md): an EMPTY
line inside a combined hunk — git always writes the marker columns, an editor or mail program may strip them from a
blank context line — has no columns; delta reads every following line of the hunk with as many columns as that line
had, i.e. none: `++x`, `- y` are shown whole (text intact) but as unchanged lines. -/
theorem empty_line_in_combined_hunk_loses_the_columns :
    (match run {} (combinedPre ++ ["  a", "", "++x", "- y"].map mkL) with
     | .ok m => (m.out.filter (fun r => isBody r.kind)).map (fun r => (r.src, r.kind, String.ofList r.text))
     | .error _ => []) = [(5, .zero, "  a"), (6, .zero, ""), (7, .zero, "++x"), (8, .zero, "- y")] := by decide

end C01
