import DeltaModel.Machine
namespace C01
theorem placeholder_handlers_known :
    ∀ n ∈ Generated.handlerOrder, (Machine.handlerOf n).isSome = true := by decide
end C01
