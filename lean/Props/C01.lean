import Proofs.Machine.BodyOrder
import Proofs.Machine.BodyText
/-!
C01 — every hunk line is shown exactly once, in order, with its text intact (unified view).

Model: `DeltaModel/Machine.lean` (the line state machine and the painter buffers), tied to
/repo by the generated handler order / marker literals / tail order and by the `machine.run`
correspondence. Theorems here are about `Machine.run`/`Machine.step`, the functions the model
driver executes.

`timeline m` is everything rendered so far in the order in which it reaches the writer
(`out ++ buf ++ minus rows ++ plus rows`).
-/
namespace C01
open Machine Headers

/-- Every handler named in `StateMachine::consume` (generated list) has a model function. -/
theorem handlers_known :
    ∀ n ∈ Generated.handlerOrder, (Machine.handlerOf n).isSome = true := by decide

/-- `flush_before_direct_write`. For every configuration and every input: at every write that goes
straight to the writer, the output buffer and both line buffers are empty — nothing rendered
earlier can be overtaken. (`orderOk` is the ghost flag that `direct` clears otherwise.)
False on the pinned tree before the `fix:` commits 6ae80a7, 5983605, d81cfd9, 6f58d9a, 7146d00. -/
theorem flush_before_direct_write {cfg : Cfg} {ls : List L} {m : M} (e : run cfg ls = .ok m) :
    m.orderOk = true := (run_spec e).1

/-- the ghost flag does detect an out-of-order write (the theorem above is not vacuous) -/
example : (direct ({ buf := [⟨.zero, ['x'], 0⟩] } : M) [⟨.raw, ['y'], 1⟩]).orderOk = false := by decide
example : (direct ({ minus := [⟨.minus, [], ['x'], 0⟩] } : M) [⟨.raw, ['y'], 1⟩]).orderOk = false := by decide

/-- `nothing_dropped_or_reordered`. Once a row has been rendered it stays where it is: each input
line only appends to the timeline (never removes, duplicates or reorders what is there), in every
reachable state, for every configuration. -/
theorem nothing_dropped_or_reordered {cfg : Cfg} {m m' : M} {l : L} (g : Good m)
    (e : step cfg m l = .ok m') : Good m' ∧ ∃ new, timeline m' = timeline m ++ new :=
  ⟨(step_spec e g).1, (step_spec e g).2.1⟩

/-- … and at the end of the input the whole timeline, and nothing else, has been written. -/
theorem output_is_timeline {cfg : Cfg} {ls : List L} {m : M} (e : run cfg ls = .ok m) :
    timeline m = m.out := (run_spec e).2

/-- `hunk_line_exactly_once`. Whenever the machine is in a hunk (any reachable state), the next
input line is claimed by the hunk-line handler and contributes exactly one new row `r`, placed at
the very end of the timeline, attributed to that line (`r.src`); the only rows that can precede it
in this step are those of the pending hunk header (none of them a hunk-line row). Combined with
`nothing_dropped_or_reordered` and `output_is_timeline`: each hunk line is shown exactly once, in
input order, never merged with or moved past another row. -/
theorem hunk_line_exactly_once {cfg : Cfg} {m m' : M} {l : L} {b : Bool} (g : Good m)
    (hs : isHunkState m.st = true) (e : handleHunkLine cfg m l = .ok (b, m')) :
    b = true ∧ ∃ pre r, timeline m' = timeline m ++ pre ++ [r] ∧ r.src = m.n ∧
      ∀ x ∈ pre, x.kind ≠ .minus ∧ x.kind ≠ .plus ∧ x.kind ≠ .zero ∧ x.kind ≠ .other := by
  rcases handleHunkLine_spec e g with ⟨_, _, h⟩ | ⟨hb, _, s⟩
  · rw [hs] at h; cases h
  · exact ⟨hb, s.row⟩

/-- `hunk_body_line_claimed`. In a git diff, in any unified hunk state, a line whose first column
is `+`, `-` or blank — whatever follows it: `-- `, `++`, `@@`, `\\`, `diff --git …`, anything —
(not matching the commit regex, not a 40-hex `Subproject commit` line) is claimed by
`handle_hunk_line` and by no handler before it. With `hunk_line_exactly_once` this closes the gap
between "claimed by the hunk handler" and "is a line of the hunk" for git unified diffs. -/
theorem hunk_body_line_claimed (cfg : Cfg) (m : M) (l : L)
    (hsrc : m.source = .gitDiff) (hst : isHunkState m.st = true) (hun : hunkCombinedParents m.st = none)
    (hb : firstIs l isMarker) (hc : l.commitRe = false) (hsub : l.submodule = none) :
    chain cfg l Generated.handlerOrder m =
      (match handleHunkLine cfg m l with
       | .ok (_, m') => .ok m'
       | .error e => .error e) :=
  Machine.hunk_body_line_claimed cfg m l hsrc hst hun hb hc hsub

/-- marker-like bodies are ordinary hunk lines: the hypotheses are met by `--- a/old` (a removed
line `-- a/old`) and by `+++ b/new` -/
def markerLikeLine : L :=
  { raw := [], text := "--- a/old".toList, graphemes := [], commitRe := false, blame := false,
    grep := 0, submodule := none }

example : firstIs markerLikeLine isMarker := ⟨'-', "-- a/old".toList, rfl, rfl⟩

/-- the initial machine is `Good`, and `Good` is an invariant (so the hypotheses above are met by
every reachable state) -/
theorem reachable_good {cfg : Cfg} {ls : List L} {m : M} (e : runFrom cfg {} ls = .ok m) : Good m :=
  (runFrom_spec ls e good_init).1

/-- `prepare_text`: the text of a hunk row is the input line with the marker column(s) removed
and tabs expanded, nothing else (ASCII marker columns, the only case git produces). -/
theorem prepare_text (cfg : Cfg) (n : Nat) (l : L) (hne : l.text ≠ [])
    (hlen : n ≤ l.text.length) (hascii : (l.text.take n).all (fun c => c.toNat < 128) = true) :
    prepare cfg n l = Text.expand cfg.tab (l.text.drop n) := by
  unfold prepare
  simp [hne, hlen, hascii]

/-- with tab width 0 the text is exactly the line minus its marker column -/
theorem prepare_text_tab0 (cfg : Cfg) (l : L) (c : Char) (rest : Str) (ht : cfg.tab = 0)
    (hl : l.text = c :: rest) (hc : c.toNat < 128) : prepare cfg 1 l = rest := by
  unfold prepare
  simp [hl, hc, Text.expand, ht]

def exampleLine : L :=
  { raw := "+a\tb".toList, text := "+a\tb".toList, graphemes := [], commitRe := false,
    blame := false, grep := 0, submodule := none }

example : prepare {} 1 exampleLine = "a        b".toList := by decide

-- whole runs --------------------------------------------------------------------

/-- **`hunk_rows_in_input_order`** (whole runs, every configuration, every input that opens no
merge-conflict region — conflict regions show ancestor lines twice by design): in delta's output the
rows that show hunk lines (kinds minus / plus / zero / other) carry strictly increasing input
indices. So no hunk line is shown twice and no two are swapped, whatever headers, decorations or
pass-through lines are written between them. -/
theorem hunk_rows_in_input_order {cfg : Cfg} {ls : List L} {m : M}
    (hmc : ∀ l ∈ ls, startsWith l.text Generated.Markers.mcBegin = false) (e : run cfg ls = .ok m) :
    ((m.out.filter (fun r => isBody r.kind)).map (·.src)).Pairwise (· < ·) :=
  run_body_rows_increasing hmc e

/-- **`hunk_line_shown_exactly_once`** (whole runs): in a git diff, a line whose first column is
`+`, `-` or blank, met in a unified hunk state (not a commit line, not a 40-hex `Subproject commit`
line), has exactly one row of kind minus / plus / zero / other in the final output — whatever
precedes (`pre`) and follows (`post`) it. -/
theorem hunk_line_shown_exactly_once {cfg : Cfg} {pre post : List L} {l : L} {mi m : M}
    (hmc : ∀ x ∈ pre ++ l :: post, startsWith x.text Generated.Markers.mcBegin = false)
    (ei : runFrom cfg {} pre = .ok mi) (hsrc : mi.source = .gitDiff) (hst : isHunkState mi.st = true)
    (hun : hunkCombinedParents mi.st = none) (hb : firstIs l isMarker) (hc : l.commitRe = false)
    (hsub : l.submodule = none) (e : run cfg (pre ++ l :: post) = .ok m) :
    ((m.out.filter (fun r => isBody r.kind)).map (·.src)).count pre.length = 1 :=
  run_hunk_line_exactly_once hmc ei hsrc hst hun hb hc hsub e

/-- **`hunk_line_text_intact`** (whole runs): … and that one row is `expectedRow`: its kind is the
one the marker column says (`-` removed, `+` added, blank unchanged) and its text is the input line
with the marker column removed (kept in front when markers are requested) and tabs expanded to the
configured width (`prepare`, see `prepare_text`) — nothing dropped, merged or otherwise altered,
whatever precedes and follows the line, for every configuration of the model. -/
theorem hunk_line_text_intact {cfg : Cfg} {pre post : List L} {l : L} {mi m : M}
    (hmc : ∀ x ∈ pre ++ l :: post, startsWith x.text Generated.Markers.mcBegin = false)
    (ei : runFrom cfg {} pre = .ok mi) (hsrc : mi.source = .gitDiff) (hst : isHunkState mi.st = true)
    (hdt : hunkDiffType mi.st = some .unified) (hb : firstIs l isMarker) (hc : l.commitRe = false)
    (hsub : l.submodule = none) (e : run cfg (pre ++ l :: post) = .ok m) :
    (m.out.filter (fun r => isBody r.kind)).filter (fun r => r.src = pre.length) = [expectedRow cfg l pre.length] :=
  run_hunk_line_row hmc ei hsrc hst hdt hb hc hsub e

/-- a concrete run meeting the hypotheses: line 5 (`-old`) is met in a hunk state of a git diff -/
def mkL (s : String) : L :=
  { raw := s.toList, text := s.toList, graphemes := s.toList.map (fun c => [c]),
    commitRe := false, blame := false, grep := 0, submodule := none }

/-- what `expectedRow` says for a removed line with a tab, markers dropped / kept -/
example : expectedRow {} (mkL "-a\tb") 7 = { kind := .minus, text := "a        b".toList, src := 7 } := by decide
example : expectedRow { keepMarkers := true } (mkL "+x") 3 = { kind := .plus, text := "+x".toList, src := 3 } := by decide

def samplePre : List L :=
  ["diff --git a/x b/x", "--- a/x", "+++ b/x", "@@ -1,2 +1,2 @@ fn f()", " ctx"].map mkL

example : (match runFrom {} {} samplePre with
    | .ok mi => mi.source == .gitDiff && isHunkState mi.st && (hunkCombinedParents mi.st).isNone
    | .error _ => false) = true := by decide
example : firstIs (mkL "-old") isMarker := ⟨'-', "old".toList, rfl, rfl⟩
example : (match runFrom {} {} samplePre with
    | .ok mi => hunkDiffType mi.st == some .unified
    | .error _ => false) = true := by decide
example : (match run {} (samplePre ++ mkL "-old" :: [mkL "+new", mkL "diff --git a/y b/y"]) with
    | .ok m => (m.out.filter (fun r => isBody r.kind)).map (·.src) == [4, 5, 6]
    | .error _ => false) = true := by decide

/-- **`hunk_line_shown_exactly_once_any`** (whole runs): the same for every hunk state of a git diff —
unified, or combined with any number of parents (`git diff` during a merge, `git show` of a merge),
outside conflict regions — and every line that can belong to a hunk body (`HunkBody`: empty, or
starting with a blank, `+`, `-` or `\`; not a commit line): exactly one row of kind minus / plus /
zero / other in the final output. -/
theorem hunk_line_shown_exactly_once_any {cfg : Cfg} {pre post : List L} {l : L} {mi m : M}
    (hmc : ∀ x ∈ pre ++ l :: post, startsWith x.text Generated.Markers.mcBegin = false)
    (ei : runFrom cfg {} pre = .ok mi) (hsrc : mi.source = .gitDiff) (hst : isHunkState mi.st = true)
    (hb : HunkBody l) (hsub : l.submodule = none) (e : run cfg (pre ++ l :: post) = .ok m) :
    ((m.out.filter (fun r => isBody r.kind)).map (·.src)).count pre.length = 1 :=
  run_hunk_line_exactly_once_any hmc ei hsrc hst hb hsub e

/-- a combined diff meeting the hypotheses: line 5 (`- old`, removed from the first parent) is met in
a two-parent hunk state -/
def combinedPre : List L :=
  ["diff --cc x", "index 1,2..3", "--- a/x", "+++ b/x", "@@@ -1,2 -1,2 +1,2 @@@"].map mkL

example : (match runFrom {} {} combinedPre with
    | .ok mi => mi.source == .gitDiff && isHunkState mi.st && (hunkCombinedParents mi.st).isSome
    | .error _ => false) = true := by decide
example : HunkBody (mkL "- old") := ⟨rfl, by decide⟩
example : (match run {} (combinedPre ++ mkL "- old" :: [mkL " +new", mkL "  ctx"]) with
    | .ok m => (m.out.filter (fun r => isBody r.kind)).map (·.src) == [5, 6, 7]
    | .error _ => false) = true := by decide

/-- the hypothesis about conflict regions is needed: an ancestor line of a diff3 conflict region is
shown twice (once per comparison), by design -/
theorem conflict_region_shows_ancestor_twice :
    (match run {} (["diff --cc x", "--- a/x", "+++ b/x", "@@@ -1,3 -1,3 +1,7 @@@", "++<<<<<<< HEAD", "+ ours",
                    "++||||||| base", "++anc", "++=======", " +theirs", "++>>>>>>> other"].map mkL) with
     | .ok m => ((m.out.filter (fun r => isBody r.kind)).map (·.src)).count 7
     | .error _ => 0) = 2 := by decide

end C01
