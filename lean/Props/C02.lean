import Proofs.Machine.Run
/-!
C02 — `--color-only` is a line-for-line, text-preserving filter.

Model: the line state machine with `cfg.colorOnly = true`. `NormalForm`: what `set_options` forces
under `--color-only` (no decorations; side-by-side off is outside this model). The theorems below
establish, for every handler that can claim a line in color-only mode, that it puts exactly one
row on the timeline and which text that row carries; together with the C01 frame theorems (rows
are never dropped, duplicated or reordered; the output is the timeline) this is the
one-output-line-per-input-line contract. The composition over the whole handler chain
(`color_only_one_row_per_line`) is stated at the end and checked end-to-end by the oracle of the
check; it is not yet a single theorem (partial).
-/
set_option linter.unusedSimpArgs false
namespace C02
open Machine Headers

/-- what `set_options` forces under `--color-only`: the three decoration styles are `none` -/
def NormalForm (cfg : Cfg) : Prop :=
  cfg.colorOnly = true ∧ cfg.commitStyle.deco = .none ∧ cfg.fileStyle.deco = .none ∧
  cfg.hunkHeaderStyle.deco = .none

theorem drawRows_none_one (st : ElemStyle) (k : RowKind) (t r a : Str) (src : Nat) (h : st.deco = .none) :
    (drawRows st k t r a src).length = 1 := by
  unfold drawRows; simp [h]

/-- an unclaimed line (`emit_line_unchanged`): exactly one new row, carrying the raw line
unchanged, placed after everything rendered before -/
theorem co_unclaimed_line (m : M) (l : L) :
    timeline (emitLineUnchanged m l) = timeline m ++ [{ kind := .raw, text := l.raw, src := m.n }] := by
  unfold emitLineUnchanged
  rw [timeline_direct_flushed]

/-- a file header line (`--- `, `+++ `, `rename …`, `new file mode …`) in color-only mode: exactly
one new row (no blank line is added, no decoration) … -/
theorem co_header_line_one_row (cfg : Cfg) (m : M) (l : L) (nf : NormalForm cfg) :
    ∃ r, timeline (shouldWriteGeneric cfg m l).2 = timeline m ++ [r] ∧ r.src = m.n := by
  obtain ⟨hco, _, hfd, _⟩ := nf
  unfold shouldWriteGeneric writeGeneric
  simp only [hco, if_true, not_true_eq_false, and_false, if_false, List.nil_append]
  have h1 := drawRows_none_one cfg.fileStyle RowKind.file l.text l.raw (emit (flushMP m)).modeInfo (emit (flushMP m)).n hfd
  match hd : drawRows cfg.fileStyle RowKind.file l.text l.raw (emit (flushMP m)).modeInfo (emit (flushMP m)).n, h1 with
  | [r], _ =>
    refine ⟨r, ?_, ?_⟩
    · have := timeline_direct_flushed m [r]
      simpa [timeline] using this
    · unfold drawRows at hd
      simp only [hfd] at hd
      split at hd <;> (cases hd; simp)

/-- … whose text is the input line: the raw line under a raw file-style (the preset), the
stripped line otherwise (mode information is never collected in color-only mode, see below) -/
theorem co_header_line_text (cfg : Cfg) (m : M) (l : L) (nf : NormalForm cfg) (hmi : m.modeInfo = []) :
    drawRows cfg.fileStyle RowKind.file l.text l.raw (emit (flushMP m)).modeInfo (emit (flushMP m)).n =
      [if cfg.fileStyle.isRaw then { kind := .raw, text := l.raw, src := m.n }
       else { kind := .file, text := l.text, src := m.n }] := by
  obtain ⟨_, _, hfd, _⟩ := nf
  have : (emit (flushMP m)).modeInfo = [] := by unfold flushMP; split <;> simp [emit, hmi]
  unfold drawRows
  simp [hfd, this]

/-- mode lines are not collected in color-only mode (they fall through to `emit_line_unchanged`) -/
theorem co_mode_line_not_collected (cfg : Cfg) (m m' : M) (l : L) (b : Bool) (hco : cfg.colorOnly = true)
    (e : handleModeLine cfg m l = .ok (b, m')) : b = false ∧ m'.modeInfo = m.modeInfo := by
  unfold handleModeLine at e
  simp only [hco, not_true_eq_false, and_false, false_and, if_false] at e
  split at e
  · cases e; exact ⟨rfl, rfl⟩
  · split at e <;> (cases e; exact ⟨rfl, rfl⟩)

/-- the hunk header of color-only mode is one row (raw, omitted or painted), never more -/
theorem co_hunk_header_one_row (cfg : Cfg) (m1 : M) (hh : HunkHeader) (line raw : Str) (src : Nat) (rows : List Row)
    (nf : NormalForm cfg) (hline : line ≠ [])
    (e : hunkHeaderRows cfg m1 hh line raw src = .ok rows) : rows.length = 1 := by
  obtain ⟨hco, _, _, hhd⟩ := nf
  unfold hunkHeaderRows at e
  simp only [hhd, ne_eq, not_true_eq_false, if_false, List.nil_append, hco, if_true] at e
  split at e
  · cases e; exact drawRows_none_one _ _ _ _ _ _ hhd
  · split at e
    · cases e; rfl
    · split at e
      · cases e
      · rename_i hnone
        -- in color-only mode the body is the whole header line, which is not empty
        exfalso
        unfold hunkHeaderText at hnone
        split at hnone
        · cases hnone
        · simp only [Except.ok.injEq] at hnone
          unfold hunkHeaderTextOf at hnone
          simp [hco, hline] at hnone
      · cases e; exact drawRows_none_one _ _ _ _ _ _ (by simp [hhd])

/-- a hunk line in color-only mode (markers kept, tab width 0: the presets): the row text is the
input line unchanged -/
theorem co_hunk_line_text (cfg : Cfg) (l : L) (c : Char) (rest : Str) (k : LineKind)
    (hk : cfg.keepMarkers = true) (ht : cfg.tab = 0) (hl : l.text = c :: rest) (hc : c.toNat < 128)
    (hm : c = (match k with | .minus => '-' | .zero => ' ' | .plus => '+')) :
    paintedPrefix cfg k .unified ++ prepare cfg 1 l = l.text := by
  have hp : prepare cfg 1 l = rest := by
    unfold prepare; simp [hl, hc, Text.expand, ht]
  rw [hp, hl, hm]
  cases k <;> simp [paintedPrefix, hk]

/-- every line claimed inside a hunk yields exactly one row for itself (after the single pending
header row, if any): instance of `C01.hunk_line_exactly_once` -/
theorem co_hunk_line_one_row {cfg : Cfg} {m m' : M} {l : L} {b : Bool} (g : Good m)
    (hs : isHunkState m.st = true) (e : handleHunkLine cfg m l = .ok (b, m')) :
    b = true ∧ ∃ pre r, timeline m' = timeline m ++ pre ++ [r] ∧ r.src = m.n := by
  rcases handleHunkLine_spec e g with ⟨_, _, h⟩ | ⟨hb, _, s⟩
  · rw [hs] at h; cases h
  · obtain ⟨pre, r, h1, h2, _⟩ := s.row
    exact ⟨hb, pre, r, h1, h2⟩

/-- the pending file header is never written in color-only mode (it would be an extra line) -/
theorem co_no_pending_header (cfg : Cfg) (m : M) (hco : cfg.colorOnly = true) (hmi : m.modeInfo = []) :
    pendingDiffName cfg m = m := by
  unfold pendingDiffName
  simp [hco, hmi]

/-- merge-conflict regions and the short submodule form are not touched in color-only mode -/
theorem co_special_constructs_off (cfg : Cfg) (m : M) (l : L) (hco : cfg.colorOnly = true) :
    handleMergeConflict cfg m l = .ok (false, m) ∧ handleSubmoduleShort cfg m l = .ok (false, m) := by
  constructor
  · unfold handleMergeConflict; simp [hco]
  · unfold handleSubmoduleShort; simp [hco]

end C02
