import Proofs.Machine.ColorOnlyText
import Proofs.Machine.ColorOnlyCombined
import Proofs.Machine.ColorOnlyPlain
import Proofs.Machine.ColorOnlyTextAny
import Proofs.ColorOnlyCfg
import Proofs.ColorOnlyPaint
/-!
C02 — `--color-only` is a line-for-line, text-preserving filter.

Model: the line state machine with `cfg.colorOnly = true`. `NormalForm`: what `set_options` forces
under `--color-only` (no decorations; side-by-side off is outside this model). The theorems below
establish, for every handler that can claim a line in color-only mode, that it puts exactly one
row on the timeline and which text that row carries; together with the C01 frame theorems (rows
are never dropped, duplicated or reordered; the output is the timeline) this is the
one-output-line-per-input-line contract. The composition over the whole handler chain is the
theorem `color_only_line_for_line` at the end (proved in `Proofs/Machine/ColorOnly.lean`): for
every configuration in that normal form and every git input in which each `@@` line is followed
by a line of its hunk, the rows written carry the input indices `0, 1, …, n-1` — one row per
line, in order. The hypothesis is necessary (`dangling_hunk_header_dropped`): delta writes a hunk
header when the next line of the hunk arrives, so a hunk header that is the last line of the input
(or is followed by another header) is never written; git does not produce such input.

Second part of the file (session 3): the text theorem for *combined* diffs (`diff --cc`, `@@@ … @@@`
hunks, any number of parents, conflict-marker lines included: `Proofs/Machine/ColorOnlyCombined.lean`)
and both theorems for *plain* `diff -u` input, where the minus-line counter decides whether a `--- `
line is a file header or a removed line (`Proofs/Machine/ColorOnlyPlain.lean`).
-/
set_option linter.unusedSimpArgs false
namespace C02
open Machine Headers

/-- what `set_options` forces under `--color-only`: the three decoration styles are `none` -/
abbrev NormalForm (cfg : Cfg) : Prop := CONormal cfg

theorem drawRows_none_one (st : ElemStyle) (k : RowKind) (t r a : Str) (src : Nat) (h : st.deco = .none) :
    (drawRows st k t r a src).length = 1 := by
  unfold drawRows; simp [h]

/-- an unclaimed line (`emit_line_unchanged`): exactly one new row, carrying the raw line
unchanged, placed after everything rendered before -/
theorem co_unclaimed_line (m : M) (l : L) :
    timeline (emitLineUnchanged m l) = timeline m ++ [{ kind := .raw, text := l.raw, src := m.n }] := by
  unfold emitLineUnchanged
  rw [timeline_direct_flushed]

/-- a file header line (`--- `, `+++ `, `rename …`, `new file mode …`) in color-only mode: exactly
one new row (no blank line is added, no decoration) … -/
theorem co_header_line_one_row (cfg : Cfg) (m : M) (l : L) (nf : NormalForm cfg) :
    ∃ r, timeline (shouldWriteGeneric cfg m l).2 = timeline m ++ [r] ∧ r.src = m.n := by
  obtain ⟨hco, _, hfd, _⟩ := nf
  unfold shouldWriteGeneric writeGeneric
  simp only [hco, if_true, not_true_eq_false, and_false, if_false, List.nil_append]
  have h1 := drawRows_none_one cfg.fileStyle RowKind.file l.text l.raw (emit (flushMP m)).modeInfo (emit (flushMP m)).n hfd
  match hd : drawRows cfg.fileStyle RowKind.file l.text l.raw (emit (flushMP m)).modeInfo (emit (flushMP m)).n, h1 with
  | [r], _ =>
    refine ⟨r, ?_, ?_⟩
    · have := timeline_direct_flushed m [r]
      simpa [timeline] using this
    · unfold drawRows at hd
      simp only [hfd] at hd
      split at hd <;> (cases hd; simp)

/-- … whose text is the input line: the raw line under a raw file-style (the preset), the
stripped line otherwise (mode information is never collected in color-only mode, see below) -/
theorem co_header_line_text (cfg : Cfg) (m : M) (l : L) (nf : NormalForm cfg) (hmi : m.modeInfo = []) :
    drawRows cfg.fileStyle RowKind.file l.text l.raw (emit (flushMP m)).modeInfo (emit (flushMP m)).n =
      [if cfg.fileStyle.isRaw then { kind := .raw, text := l.raw, src := m.n }
       else { kind := .file, text := l.text, src := m.n }] := by
  obtain ⟨_, _, hfd, _⟩ := nf
  have : (emit (flushMP m)).modeInfo = [] := by unfold flushMP; split <;> simp [emit, hmi]
  unfold drawRows
  simp [hfd, this, hmi]

/-- mode lines are not collected in color-only mode (they fall through to `emit_line_unchanged`) -/
theorem co_mode_line_not_collected (cfg : Cfg) (m m' : M) (l : L) (b : Bool) (hco : cfg.colorOnly = true)
    (e : handleModeLine cfg m l = .ok (b, m')) : b = false ∧ m'.modeInfo = m.modeInfo := by
  unfold handleModeLine at e
  simp only [hco, not_true_eq_false, and_false, false_and, if_false] at e
  split at e
  · cases e; exact ⟨rfl, rfl⟩
  · split at e <;> (cases e; exact ⟨rfl, rfl⟩)

/-- the hunk header of color-only mode is one row (raw, omitted or painted), never more -/
theorem co_hunk_header_one_row (cfg : Cfg) (m1 : M) (hh : HunkHeader) (line raw : Str) (src : Nat) (rows : List Row)
    (nf : NormalForm cfg) (hline : line ≠ [])
    (e : hunkHeaderRows cfg m1 hh line raw src = .ok rows) : rows.length = 1 := by
  obtain ⟨hco, _, _, hhd⟩ := nf
  unfold hunkHeaderRows at e
  simp only [hhd, ne_eq, not_true_eq_false, if_false, List.nil_append, hco, if_true] at e
  split at e
  · cases e; exact drawRows_none_one _ _ _ _ _ _ hhd
  · split at e
    · cases e; rfl
    · split at e
      · cases e
      · rename_i hnone
        -- in color-only mode the body is the whole header line, which is not empty
        exfalso
        unfold hunkHeaderText at hnone
        split at hnone
        · cases hnone
        · simp only [Except.ok.injEq] at hnone
          unfold hunkHeaderTextOf at hnone
          simp [hco, hline] at hnone
      · cases e; exact drawRows_none_one _ _ _ _ _ _ (by simp [hhd])

/-- a hunk line in color-only mode (markers kept, tab width 0: the presets): the row text is the
input line unchanged -/
theorem co_hunk_line_text (cfg : Cfg) (l : L) (c : Char) (rest : Str) (k : LineKind)
    (hk : cfg.keepMarkers = true) (ht : cfg.tab = 0) (hl : l.text = c :: rest) (hc : c.toNat < 128)
    (hm : c = (match k with | .minus => '-' | .zero => ' ' | .plus => '+')) :
    paintedPrefix cfg k .unified ++ prepare cfg 1 l = l.text := by
  have hp : prepare cfg 1 l = rest := by
    unfold prepare; simp [hl, hc, Text.expand, ht]
  rw [hp, hl, hm]
  cases k <;> simp [paintedPrefix, hk]

/-- every line claimed inside a hunk yields exactly one row for itself (after the single pending
header row, if any): instance of `C01.hunk_line_exactly_once` -/
theorem co_hunk_line_one_row {cfg : Cfg} {m m' : M} {l : L} {b : Bool} (g : Good m)
    (hs : isHunkState m.st = true) (e : handleHunkLine cfg m l = .ok (b, m')) :
    b = true ∧ ∃ pre r, timeline m' = timeline m ++ pre ++ [r] ∧ r.src = m.n := by
  rcases handleHunkLine_spec e g with ⟨_, _, h⟩ | ⟨hb, _, s⟩
  · rw [hs] at h; cases h
  · obtain ⟨pre, r, h1, h2, _⟩ := s.row
    exact ⟨hb, pre, r, h1, h2⟩

/-- the pending file header is never written in color-only mode (it would be an extra line) -/
theorem co_no_pending_header (cfg : Cfg) (m : M) (hco : cfg.colorOnly = true) (hmi : m.modeInfo = []) :
    pendingDiffName cfg m = m := by
  unfold pendingDiffName
  simp [hco, hmi]

/-- merge-conflict regions and the short submodule form are not touched in color-only mode -/
theorem co_special_constructs_off (cfg : Cfg) (m : M) (l : L) (hco : cfg.colorOnly = true) :
    handleMergeConflict cfg m l = .ok (false, m) ∧ handleSubmoduleShort cfg m l = .ok (false, m) := by
  constructor
  · unfold handleMergeConflict; simp [hco]
  · unfold handleSubmoduleShort; simp [hco]

-- the composition ---------------------------------------------------------------

/-- **`--color-only` is line for line** (all handlers, all states, whole runs): one row per input
line, in input order. `Followed false ls`: every `@@…` line is followed by a line that is empty or
starts with ` `, `+`, `-` or `\` and is not a commit line, and the input does not end in one. -/
theorem color_only_line_for_line {cfg : Cfg} (nf : NormalForm cfg) {d : L} {ls : List L} {m : M}
    (hd : detectSource d.text = .gitDiff) (hg : ∀ l ∈ d :: ls, l.grep ≠ 2) (hf : Followed false (d :: ls))
    (e : run cfg (d :: ls) = .ok m) :
    m.out.map (·.src) = List.range (ls.length + 1) :=
  run_color_only nf hd hg hf e

/-- a plain input line for the examples (no escape sequences, ASCII) -/
def mkL (s : String) : L :=
  { raw := s.toList, text := s.toList, graphemes := s.toList.map (fun c => [c]),
    commitRe := false, blame := false, grep := 0, submodule := none }

def presetCfg : Cfg :=
  { colorOnly := true, commitStyle := { isRaw := true }, fileStyle := { isRaw := true },
    hunkHeaderStyle := { isRaw := true }, keepMarkers := true, tab := 0 }

def sampleDiff : List L :=
  ["diff --git a/x b/x", "index 1..2 100644", "--- a/x", "+++ b/x", "@@ -1,2 +1,2 @@ fn f()", " ctx", "-old", "+new",
   "diff --git a/y b/y", "old mode 100644", "new mode 100755"].map mkL

/-- the hypotheses are satisfiable, and the conclusion is what the model computes -/
example : NormalForm presetCfg := ⟨rfl, rfl, rfl, rfl⟩
example : detectSource (mkL "diff --git a/x b/x").text = .gitDiff := by decide
example : Followed false sampleDiff := by
  simp only [sampleDiff, List.map, Followed, isHH, mkL, HunkBody]
  decide
example : (match run presetCfg sampleDiff with
    | .ok m => m.out.map (·.src) == List.range 11 && m.out.map (·.text) == sampleDiff.map (·.raw)
    | .error _ => false) = true := by decide

/-- the hypothesis `Followed` is needed: a hunk header that is the last line is never written -/
theorem dangling_hunk_header_dropped :
    (match run presetCfg (["diff --git a/x b/x", "--- a/x", "+++ b/x", "@@ -1 +1 @@"].map mkL) with
     | .ok m => m.out.map (·.src)
     | .error _ => []) = [0, 1, 2] := by decide

/-- **`color_only_text_preserved`** (whole runs; the presets `--color-only` implies are in force: raw
commit / file / hunk-header styles, markers kept, tab width 0; unified git diff): every row of the
output carries the raw line or the visible text of the input line it is stamped with. With
`color_only_line_for_line` (row `i` is stamped `i`): output line `i` shows input line `i` unchanged. -/
theorem color_only_text_preserved {cfg : Cfg} (ps : Preset cfg) {d : L} {ls : List L} {m : M}
    (hd : detectSource d.text = .gitDiff) (hl : ∀ l ∈ d :: ls, l.grep ≠ 2 ∧ NotCombined l)
    (hf : Followed false (d :: ls)) (e : run cfg (d :: ls) = .ok m) :
    ∀ r ∈ m.out, ∃ l, (d :: ls)[r.src]? = some l ∧ (r.text = l.raw ∨ r.text = l.text) :=
  run_color_only_text ps hd hl hf e

example : Preset presetCfg := ⟨⟨rfl, rfl, rfl, rfl⟩, rfl, rfl, rfl, rfl, rfl⟩

/-- the preset hypothesis matters: with a tab width the text of a hunk line with a TAB changes -/
theorem tab_width_changes_text :
    (match run { presetCfg with tab := 4 } (["diff --git a/x b/x", "--- a/x", "+++ b/x", "@@ -1 +1 @@", "+a\tb"].map mkL) with
     | .ok m => m.out.map (·.text) == (["diff --git a/x b/x", "--- a/x", "+++ b/x", "@@ -1 +1 @@", "+a\tb"].map String.toList)
     | .error _ => true) = false := by decide

-- combined diffs -----------------------------------------------------------------------------

/-- **`color_only_text_preserved_combined`** (whole runs; presets in force; git input, unified *and*
combined diffs with any number of parents). In color-only mode `handle_merge_conflict_line` is off, so
conflict-marker lines (`++<<<<<<<` …) are ordinary hunk lines. A hunk line of a combined diff is
painted as *prefix columns ++ rest*; the two halves are cut at the same place exactly when the prefix
columns are ASCII. Hypotheses, for a bound `N` on the number of parents: `AtB N` — no line starts
with more than `N + 1` characters `@`; `ColsOK N` — if the first `N` bytes of a line contain a `+` or
a `-`, they are ASCII (git writes only `+`, `-` and blanks there). Conclusion: every row of the output
carries the raw line or the visible text of the input line it is stamped with; with
`color_only_line_for_line` (which already covers combined diffs): output line `i` shows input line `i`. -/
theorem color_only_text_preserved_combined {cfg : Cfg} (ps : Preset cfg) (N : Nat) {d : L} {ls : List L} {m : M}
    (hd : detectSource d.text = .gitDiff)
    (hl : ∀ l ∈ d :: ls, l.grep ≠ 2 ∧ AtB N l = true ∧ ColsOK N l = true)
    (hf : Followed false (d :: ls)) (e : run cfg (d :: ls) = .ok m) :
    ∀ r ∈ m.out, ∃ l, (d :: ls)[r.src]? = some l ∧ (r.text = l.raw ∨ r.text = l.text) :=
  run_color_only_text_combined ps N hd hl hf e

/-- **two parents** (ordinary merges: no hunk header has more than three `@`): nothing is assumed
about the prefix columns — a non-ASCII character takes at least two bytes, so a two-byte prefix that
contains one contains neither `+` nor `-` and the line is passed through raw. -/
theorem color_only_text_preserved_two_parents {cfg : Cfg} (ps : Preset cfg) {d : L} {ls : List L} {m : M}
    (hd : detectSource d.text = .gitDiff) (hl : ∀ l ∈ d :: ls, l.grep ≠ 2 ∧ AtB 2 l = true)
    (hf : Followed false (d :: ls)) (e : run cfg (d :: ls) = .ok m) :
    ∀ r ∈ m.out, ∃ l, (d :: ls)[r.src]? = some l ∧ (r.text = l.raw ∨ r.text = l.text) :=
  run_color_only_text_two_parents ps hd hl hf e

/-- a two-parent merge with a conflict region, non-ASCII text, an empty line, followed by a unified section -/
def mergeDiff : List L :=
  ["diff --cc x", "index 1,2..3", "--- a/x", "+++ b/x", "@@@ -1,3 -1,3 +1,9 @@@ fn f()", "  ctx", "- old", " -older",
   "++<<<<<<< HEAD", " +ours é", "++||||||| base", "++anc", "++=======", "+ théirs", "++>>>>>>> topic", "",
   "diff --git a/y b/y", "--- a/y", "+++ b/y", "@@ -1 +1 @@", "-p", "+q"].map mkL

example : detectSource (mkL "diff --cc x").text = .gitDiff := by decide
example : ∀ l ∈ mergeDiff, l.grep ≠ 2 ∧ AtB 2 l = true := by decide
example : Followed false mergeDiff := Followed_of_B _ _ (by decide)
/-- what the two theorems say there: 22 rows stamped 0 … 21, each with the text of its line -/
example : (match run presetCfg mergeDiff with
    | .ok m => m.out.map (·.src) == List.range 22 && m.out.map (·.text) == mergeDiff.map (·.raw)
    | .error _ => false) = true := by decide

/-- three parents, second prefix column not ASCII (not something git writes) -/
def octopus : List L := ["diff --cc x", "@@@@ -1 -1 -1 +1,2 @@@@", "   ctx", "+éab"].map mkL

example : ∀ l ∈ octopus, AtB 3 l = true := by decide
example : ¬ ∀ l ∈ octopus, ColsOK 3 l = true := by decide
example : ∀ l ∈ octopus, ColsOK 2 l = true := by decide
example : ¬ ∀ l ∈ octopus, AtB 2 l = true := by decide

/-- both hypotheses are needed (with `N = 3` only `ColsOK` fails, with `N = 2` only `AtB`): the line
`+éab` comes out as `+éb`. Prefix = the whole characters within 3 bytes = `+é`; then 3 *columns* are
removed from the line (`+`, `é`, `a`) instead of 2. Same on the binary. -/
theorem prefix_columns_needed :
    (match run presetCfg octopus with
     | .ok m => m.out.map (·.text)
     | .error _ => []) = ["diff --cc x", "@@@@ -1 -1 -1 +1,2 @@@@", "   ctx", "+éb"].map String.toList := by decide

-- plain `diff -u` ------------------------------------------------------------------------------

/-- **`color_only_line_for_line_plain`** (whole runs; normal form + presets; first line identifies a
plain `diff -u`: `--- a`, `diff -u a b`, `diff -ru …`, `Only in …`). Hypothesis `trueLengths`: the
input is made of header lines and of hunks `@@ -x,a +y,b @@` whose bodies have exactly `a` old-file
lines (`-`, blank) and `b` new-file lines (`+`, blank), `\ No newline` lines being free; outside
hunks a line that starts with `-` is a `--- ` header and no line starts with a blank. Then the
minus-line counter is, at every line, the number of old-file lines still to come in the hunk, a line
`--- x` inside a hunk is read as the removed line `-- x` (also as the first line of the hunk), after
the hunk as a file header; and delta writes exactly one row per input line, in input order. -/
theorem color_only_line_for_line_plain {cfg : Cfg} (ps : Preset cfg) {d : L} {ls : List L} {m : M}
    (hd : detectSource d.text = .diffUnified) (hl : ∀ l ∈ d :: ls, l.grep ≠ 2 ∧ NotCombined l)
    (ht : trueLengths none (d :: ls) = true) (e : run cfg (d :: ls) = .ok m) :
    m.out.map (·.src) = List.range (ls.length + 1) :=
  (run_color_only_plain_true_lengths ps hd hl ht e).1

/-- **`color_only_text_preserved_plain`**: … and every row carries the raw line or the visible text of
the input line it is stamped with. -/
theorem color_only_text_preserved_plain {cfg : Cfg} (ps : Preset cfg) {d : L} {ls : List L} {m : M}
    (hd : detectSource d.text = .diffUnified) (hl : ∀ l ∈ d :: ls, l.grep ≠ 2 ∧ NotCombined l)
    (ht : trueLengths none (d :: ls) = true) (e : run cfg (d :: ls) = .ok m) :
    ∀ r ∈ m.out, ∃ l, (d :: ls)[r.src]? = some l ∧ (r.text = l.raw ∨ r.text = l.text) :=
  (run_color_only_plain_true_lengths ps hd hl ht e).2

/-- **no assumption on the hunk lengths**: both conclusions hold for every plain diff in which each
`@@` line is followed by a hunk-body line that does not start with `--- ` (`FollowedD`). Whether a
later `--- ` line is read as a header or as a removed line, it yields one row with its text; the only
place where the reading matters is directly after a hunk header, whose row is written lazily. -/
theorem color_only_plain_any_lengths {cfg : Cfg} (ps : Preset cfg) {d : L} {ls : List L} {m : M}
    (hd : detectSource d.text = .diffUnified) (hl : ∀ l ∈ d :: ls, l.grep ≠ 2 ∧ NotCombined l)
    (hf : FollowedD false (d :: ls)) (e : run cfg (d :: ls) = .ok m) :
    m.out.map (·.src) = List.range (ls.length + 1) ∧
      ∀ r ∈ m.out, ∃ l, (d :: ls)[r.src]? = some l ∧ (r.text = l.raw ∨ r.text = l.text) :=
  run_color_only_plain ps hd hl hf e

/-- `diff -u` of two pairs of files, concatenated; the first hunk *starts* with the removed line `-- x`
(input line `--- x`) and contains the added line `++ y` (input line `+++ y`) -/
def plainDiff : List L :=
  ["--- a/q.lua", "+++ b/q.lua", "@@ -1,3 +1,3 @@", "--- x", " ctx", "-old", "+new", "+++ y",
   "--- c.txt", "+++ d.txt", "@@ -5 +5,2 @@", " k", "+added", "\\ No newline at end of file"].map mkL

example : detectSource (mkL "--- a/q.lua").text = .diffUnified := by decide
example : ∀ l ∈ plainDiff, l.grep ≠ 2 ∧ NotCombined l := by decide
example : trueLengths none plainDiff = true := by decide
/-- (the hypothesis of `color_only_plain_any_lengths` is not met here: a hunk starts with `--- x`) -/
example : followedDB false plainDiff = false := by decide
/-- what the theorems say there: 14 rows stamped 0 … 13 with the text of their lines; `--- x` is shown
as a removed line, `--- c.txt` as a header -/
example : (match run presetCfg plainDiff with
    | .ok m => m.out.map (·.src) == List.range 14 && m.out.map (·.text) == plainDiff.map (·.raw)
        && m.out.map (·.kind) == [.raw, .raw, .raw, .minus, .zero, .minus, .plus, .plus, .raw, .raw, .raw, .zero, .plus, .other]
    | .error _ => false) = true := by decide

/-- a hunk header that announces no old-file line, followed by a `--- ` line -/
def lyingHeader : List L := ["--- a", "+++ b", "@@ -0,0 +1 @@", "--- x"].map mkL

example : trueLengths none lyingHeader = false := by decide
example : followedDB false lyingHeader = false := by decide

/-- the hypothesis is needed: when the announced old-file length is wrong (0 here), the `--- x` line
is taken for a file header and the pending hunk-header line is never written. Same on the binary;
`diff` does not produce such input. -/
theorem hunk_header_lost_when_lengths_lie :
    (match run presetCfg lyingHeader with
     | .ok m => m.out.map (·.src)
     | .error _ => []) = [0, 1, 3] := by decide

-- the text statement for every input ---------------------------------------------------------------

/-- **`color_only_text_preserved_any`** (whole runs; presets in force; *every* input — git or plain
diff, unified or combined, something else, malformed; no hypothesis on its shape, none on the first
line): if no line starts with more than `N + 1` characters `@` and the first `N` bytes of every line,
when they contain a `+` or a `-`, are ASCII, every row of delta's output carries the raw line or the
visible text of the input line it is stamped with. The shape hypotheses of the line-for-line theorems
(`Followed`, `trueLengths`, no rg-json bookkeeping record) decide *whether* a line gets its row; what a
row carries does not depend on them (`Proofs/Machine/ColorOnlyTextAny.lean`). -/
theorem color_only_text_preserved_any {cfg : Cfg} (ps : Preset cfg) (N : Nat) {ls : List L} {m : M}
    (hl : ∀ l ∈ ls, AtB N l = true ∧ ColsOK N l = true) (e : run cfg ls = .ok m) :
    ∀ r ∈ m.out, ∃ l, ls[r.src]? = some l ∧ (r.text = l.raw ∨ r.text = l.text) :=
  run_color_only_text_any ps N hl e

/-- … and with at most three `@` at the start of any line (unified diffs, two-parent merges) nothing
at all is assumed about the lines. -/
theorem color_only_text_preserved_any_two {cfg : Cfg} (ps : Preset cfg) {ls : List L} {m : M}
    (hl : ∀ l ∈ ls, AtB 2 l = true) (e : run cfg ls = .ok m) :
    ∀ r ∈ m.out, ∃ l, ls[r.src]? = some l ∧ (r.text = l.raw ∨ r.text = l.text) :=
  run_color_only_text_any_two ps hl e

/-- text before any diff, a plain-diff section whose hunk header is followed by a `diff` line, a
combined section, a hunk header at the very end -/
def oddInput : List L :=
  ["see below", "--- a", "+++ b", "@@ -1 +1 @@", "diff --cc x", "@@@ -1 -1 +1,2 @@@", "++é\tz", " -w", "@@ -1 +1 @@"].map mkL

example : ∀ l ∈ oddInput, AtB 2 l = true := by decide
/-- the two dangling hunk headers (lines 3 and 8) have no row; every row that is there shows its line -/
example : (match run presetCfg oddInput with
    | .ok m => m.out.map (·.src) == [0, 1, 2, 4, 5, 6, 7] &&
        m.out.all (fun r => oddInput[r.src]?.map (·.raw) == some r.text)
    | .error _ => false) = true := by decide

-- from the options to the configuration ---------------------------------------------------------------

/-!
Third part (session 3, seeded change `C02-w5-02`): the step from the option values to the `Config` the handlers read
(`set_options` tail + `Config::from`, model `DeltaModel/ColorOnlyCfg.lean`, tables regenerated from `src/options/set.rs`,
`src/config.rs`, `src/parse_styles.rs`, `src/cli.rs` into `Generated/ColorOnlyCfg.lean`). The hypotheses `NormalForm cfg` /
`Preset cfg` of the theorems above are *derived* here from "the user asked for `--color-only`".
-/
open ColorOnlyCfg in
/-- **`color_only_config_normal_form`**: for every valuation `o` of the option fields after the `set_options!` macro in
which `color_only` is on — whatever `raw`, `side_by_side`, `line_numbers`, `navigate`, the style and decoration strings …
are — every style parser, every answer of `is_word_diff()`: the configuration `Config::from` builds after the tail of
`set_options` has `color_only` on and no decoration on the commit, file and hunk-header styles (the normal form), and
`config.side_by_side` is off. -/
theorem color_only_config_normal_form (parse : String → String → ElemStyle) (o : OptV) (wd : Bool) (base : Cfg)
    (h : o.bool "color_only" = true) :
    NormalForm (finalCfg parse o wd base) ∧ sideBySide (setOptionsTail o) wd = false :=
  finalCfg_normal parse o wd base h

open ColorOnlyCfg in
/-- **`color_only_config_presets`**: … and when the presets the mode implies are what the macro resolved (raw commit /
file / hunk-header style strings, markers kept, tab width 0: the `color-only` and `raw` builtin features both give
these) the configuration satisfies `Preset`, for every style parser that reads `raw` as a raw style. -/
theorem color_only_config_presets (parse : String → String → ElemStyle) (hraw : ∀ d, (parse "raw" d).isRaw = true)
    (o : OptV) (wd : Bool) (base : Cfg) (h : o.bool "color_only" = true)
    (hc : o.str "commit_style" = "raw") (hf : o.str "file_style" = "raw") (hh : o.str "hunk_header_style" = "raw")
    (hk : o.bool "keep_plus_minus_markers" = true) (ht : o.nat "tab_width" = 0) :
    Preset (finalCfg parse o wd base) :=
  finalCfg_preset parse hraw o wd base h hc hf hh hk ht

open ColorOnlyCfg in
/-- **`color_only_any_source_normal_form`**: whenever the value delta resolves for `color-only` is true — given on the
command line, in `[delta]`, through `git -c`, in a custom feature, by a builtin feature or `DELTA_FEATURES` (C13's
resolution model, every enumeration order `π` of the builtin features) — the configuration the machine runs under is
in the normal form and side-by-side is off, whatever every other option is and wherever it comes from. -/
theorem color_only_any_source_normal_form (parse : String → String → ElemStyle) (π : List Options.Name)
    (inp : Options.Inputs) (wd : Bool) (base : Cfg)
    (h : Options.valIsTrue (Options.effective π inp "color-only") = true) :
    NormalForm (cfgOfInputs parse π inp wd base) ∧ sideBySide (setOptionsTail (optAfterMacro π inp)) wd = false :=
  cfgOfInputs_normal parse π inp wd base h

open ColorOnlyCfg in
/-- **`color_only_requested_line_for_line`** (the composition): `--color-only` requested by any source, any other
options, a git input in which every `@@` line is followed by a line of its hunk ⇒ one row per input line, in order. -/
theorem color_only_requested_line_for_line (parse : String → String → ElemStyle) (π : List Options.Name)
    (inp : Options.Inputs) (wd : Bool) (base : Cfg)
    (h : Options.valIsTrue (Options.effective π inp "color-only") = true) {d : L} {ls : List L} {m : M}
    (hd : detectSource d.text = .gitDiff) (hg : ∀ l ∈ d :: ls, l.grep ≠ 2) (hf : Followed false (d :: ls))
    (e : run (cfgOfInputs parse π inp wd base) (d :: ls) = .ok m) :
    m.out.map (·.src) = List.range (ls.length + 1) :=
  color_only_line_for_line (color_only_any_source_normal_form parse π inp wd base h).1 hd hg hf e

/-- the two readings of the `--color-only` block of `set_options` (this property's extractor and C13's) agree -/
theorem color_only_block_same_as_c13 :
    (∀ o ∈ Options.colorOnlyResetOptions,
      o ∈ (Generated.ColorOnlyCfg.tailBoolAssigns.map (·.1) ++ Generated.ColorOnlyCfg.tailStrAssigns.map (·.1)).map ColorOnlyCfg.longOf) ∧
    (∀ o ∈ (Generated.ColorOnlyCfg.tailBoolAssigns.map (·.1) ++ Generated.ColorOnlyCfg.tailStrAssigns.map (·.1)).map ColorOnlyCfg.longOf,
      o ∈ Options.colorOnlyResetOptions) :=
  ColorOnlyCfg.tail_agrees_with_c13

/-- a style parser for the examples: `raw` / `omit`, a `box` in the style string or in the decoration string -/
def sampleParse (s d : String) : ElemStyle :=
  { isRaw := decide (s = "raw"), isOmitted := decide (s = "omit"),
    deco := if s = "yellow box" ∨ d = "box" then .box else .none }

/-- `--color-only --raw --side-by-side --line-numbers --file-style 'yellow box' --commit-decoration-style box` -/
def everythingOn : ColorOnlyCfg.OptV :=
  { bool := fun f => f = "color_only" || f = "raw" || f = "side_by_side" || f = "line_numbers" || f = "keep_plus_minus_markers"
    str := fun f => if f = "file_style" then "yellow box" else if f = "commit_decoration_style" then "box" else "raw"
    nat := fun _ => 0 }

example : sampleParse "yellow box" "none" = { deco := .box } ∧ everythingOn.bool "raw" = true := by decide
/-- what the theorems say there: color-only stays on, no decoration, side-by-side off (the line-number gutter, an
explicit override, stays) -/
example : (ColorOnlyCfg.finalCfg sampleParse everythingOn false {}).colorOnly = true ∧
    (ColorOnlyCfg.finalCfg sampleParse everythingOn false {}).fileStyle = {} ∧
    (ColorOnlyCfg.finalCfg sampleParse everythingOn false {}).commitStyle = { isRaw := true } ∧
    ColorOnlyCfg.sideBySide (ColorOnlyCfg.setOptionsTail everythingOn) false = false ∧
    ColorOnlyCfg.lineNumbers (ColorOnlyCfg.setOptionsTail everythingOn) false = true := by decide

/-- `delta --color-only` with `[delta] raw = true, side-by-side = true, file-decoration-style = box` -/
def rawInGitconfig : Options.Inputs :=
  { cli := [("color-only", "true")], cliFeatures := none, envFeatures := none, envNavigate := false, noGitconfig := false,
    defaultFile := some { main := [("raw", "true"), ("side-by-side", "true"), ("file-decoration-style", "box")],
                          sections := [], other := [] },
    configFile := none, params := [] }

/-- `delta --raw` with `[delta] features = co, file-style = yellow box`, `[delta "co"] color-only = true` -/
def colorOnlyInFeature : Options.Inputs :=
  { rawInGitconfig with
    cli := [("raw", "true")]
    defaultFile := some { main := [("features", "co"), ("file-style", "yellow box")],
                          sections := [("co", [("color-only", "true")])], other := [] } }

def sortedNames : List Options.Name :=
  ["color-only", "diff-highlight", "diff-so-fancy", "hyperlinks", "line-numbers", "navigate", "raw", "side-by-side"]

/-- the hypothesis of `color_only_any_source_normal_form` holds for both, `raw` is on in both, and the conclusion is what
the model computes -/
example : Options.valIsTrue (Options.effective sortedNames rawInGitconfig "color-only") = true ∧
    Options.valIsTrue (Options.effective sortedNames colorOnlyInFeature "color-only") = true := by decide
example : (ColorOnlyCfg.optAfterMacro sortedNames rawInGitconfig).bool "raw" = true ∧
    (ColorOnlyCfg.optAfterMacro sortedNames colorOnlyInFeature).bool "raw" = true ∧
    (ColorOnlyCfg.optAfterMacro sortedNames rawInGitconfig).bool "side_by_side" = true ∧
    (ColorOnlyCfg.optAfterMacro sortedNames rawInGitconfig).str "file_decoration_style" = "box" ∧
    (ColorOnlyCfg.optAfterMacro sortedNames colorOnlyInFeature).str "file_style" = "yellow box" := by decide
example : (ColorOnlyCfg.cfgOfInputs sampleParse sortedNames rawInGitconfig false {}).colorOnly = true ∧
    (ColorOnlyCfg.cfgOfInputs sampleParse sortedNames rawInGitconfig false {}).fileStyle = { isRaw := true } ∧
    (ColorOnlyCfg.cfgOfInputs sampleParse sortedNames colorOnlyInFeature false {}).colorOnly = true ∧
    (ColorOnlyCfg.cfgOfInputs sampleParse sortedNames colorOnlyInFeature false {}).fileStyle = {} := by decide

/-- a `git show` with a binary file and a submodule bump -/
def binarySubmodule : List L :=
  (["diff --git a/logo.png b/logo.png", "index 3b18e51..9fd5a3c 100644", "Binary files a/logo.png and b/logo.png differ",
    "diff --git a/vendor/lib b/vendor/lib", "index 1111111..2222222 160000", "--- a/vendor/lib", "+++ b/vendor/lib",
    "@@ -1 +1 @@"].map mkL) ++
  [{ mkL "-Subproject commit 1111111111111111111111111111111111111111" with submodule := some "1111111111111111111111111111111111111111".toList },
   { mkL "+Subproject commit 2222222222222222222222222222222222222222" with submodule := some "2222222222222222222222222222222222222222".toList }]

/-- the normal form is needed, and `raw` alone is not enough: the same styles with `config.color_only` off (what a
`color_only: opt.color_only && !opt.raw` would give for `--color-only --raw`) lose the `Binary files … differ` line and
merge the two `Subproject commit` lines into one row — 10 input lines, fewer rows; with `color_only` on: 10 rows,
stamped 0 … 9, each with the text of its line. -/
theorem raw_without_color_only_not_line_for_line :
    (match run { presetCfg with colorOnly := false, mergeConflicts := false } binarySubmodule with
     | .ok m => decide (m.out.length < 10)
     | .error _ => false) = true ∧
    (match run { presetCfg with mergeConflicts := false } binarySubmodule with
     | .ok m => m.out.map (·.src) == List.range 10 && m.out.map (·.text) == binarySubmodule.map (·.raw)
     | .error _ => false) = true := by decide

-- session 4 / T16: from the machine's row to the bytes of the output line ----------------------------

section Painted
open ColorOnlyPaint

/-- **Where `paint_lines` takes the prefix of a line from** (tables regenerated from `src/paint.rs` by
`tools/extractors/paintprefix.py` and `paintline.py`): inside its loop over `lines`, as `painted_prefix(<state of the
line being painted>, config)`, with nothing computed in front of the loop — per line, not per block — and the statements
of `paint_line` / the loop body are the modelled ones. (A prefix painted once per block, as in the seeded change C02-w6-02,
makes `prefixSource` read `other: …` and this theorem false.) -/
theorem prefix_taken_from_each_lines_own_state :
    prefixPerLine = true ∧ PaintLine.shapeAsModelled = true :=
  ⟨ColorOnlyPaintProofs.prefix_per_line, PaintLineProofs.shape_as_modelled⟩

/-- **What the bytes of a painted line show** (`visible` = the characters an ECMA-48 terminal displays: escape sequences
stripped), for every Config, state, section list, styles, fill request, width: the prefix `painted_prefix` gives for the
line's **own** state (in front of the first section), the texts of the sections, and what the fill step puts behind them
(`lineTrail`: the blanks of the space fill, the blank marker of an empty line under `--line-numbers`). Hypotheses:
styles are Rust values, texts are ESC-free (`Input.ok`, as in C09), and no line-number gutter (`--color-only` does not
switch `--line-numbers` off; the gutter's text would come first). -/
theorem painted_line_shows_prefix_text_trail (pc : PaintLine.Cfg) (hpc : PaintLineProofs.Cfg.wf pc) (inp : PaintLine.Input)
    (hin : PaintLineProofs.Input.ok inp) (hg : inp.gutter = []) (out : List Char)
    (h : PaintLine.paintedLine pc inp = .ok out) :
    visible out = (if inp.sections.isEmpty then [] else shownPrefix pc inp.st) ++ sectionsText inp.sections ++
      lineTrail pc inp :=
  ColorOnlyPaintProofs.paintedLine_shows pc hpc inp hin hg out h

/-- **`color_only_painted_bytes_show_input_line`** — the row of the machine model and the bytes written for it agree: for a
hunk line of kind `k` and diff type `dt` (unified, or combined with any number of parents: the state then carries the
line's own prefix columns), painted by `paint_lines` from the state `stOf k dt raw` under any styles, the bytes with the
escape sequences stripped are `Machine.paintedPrefix mc k dt ++ Machine.prepare mc n l` — exactly the text of the machine's
row for that line. Inputs of `paintedLine` and where they come from: the state (hence the prefix) from the machine's
classification of the line — per line, `prefix_taken_from_each_lines_own_state`; `keepMarkers` the same Config field
(`hk`); the section texts spell the prepared line (`htext`: `superimpose_style_sections` keeps the text, compared in the
correspondence `copaint.line`, not proved); no gutter (`hg`, `hln`: `--line-numbers` not asked for); the fill decision is
not the space fill (`hns`, decidable; needed: `zero_style_background_pads_context_lines`); at least one section (`hsec`;
needed: `prefix_needs_a_section`). -/
theorem color_only_painted_bytes_show_input_line (mc : Machine.Cfg) (pc : PaintLine.Cfg) (hpc : PaintLineProofs.Cfg.wf pc)
    (hk : pc.keepMarkers = mc.keepMarkers) (hln : pc.lineNumbers = false)
    (k : LineKind) (dt : DiffType) (raw : Bool) (n : Nat) (l : L)
    (inp : PaintLine.Input) (hin : PaintLineProofs.Input.ok inp) (hst : inp.st = stOf k dt raw) (hg : inp.gutter = [])
    (hsec : inp.sections ≠ []) (htext : sectionsText inp.sections = prepare mc n l)
    (hns : noSpaceFill pc inp = true) (out : List Char) (h : PaintLine.paintedLine pc inp = .ok out) :
    visible out = Machine.paintedPrefix mc k dt ++ prepare mc n l := by
  rw [ColorOnlyPaintProofs.paintedLine_visible_exact pc hpc inp hin hg hln hns hsec out h, hst, htext,
    (ColorOnlyPaintProofs.shownPrefix_machine pc mc hk k dt raw).2]

/-- … composed with the text theorem of a unified hunk line (`co_hunk_line_text`): under the presets `--color-only`
implies (markers kept, tab width 0) the painted bytes, stripped, are **the input line's visible text**. -/
theorem color_only_painted_bytes_show_input_line_unified (mc : Machine.Cfg) (ps : Preset mc) (pc : PaintLine.Cfg)
    (hpc : PaintLineProofs.Cfg.wf pc) (hk : pc.keepMarkers = mc.keepMarkers) (hln : pc.lineNumbers = false)
    (k : LineKind) (raw : Bool) (l : L) (c : Char) (rest : Str) (hl : l.text = c :: rest) (hc : c.toNat < 128)
    (hm : c = (match k with | .minus => '-' | .zero => ' ' | .plus => '+'))
    (inp : PaintLine.Input) (hin : PaintLineProofs.Input.ok inp) (hst : inp.st = stOf k .unified raw) (hg : inp.gutter = [])
    (hsec : inp.sections ≠ []) (htext : sectionsText inp.sections = prepare mc 1 l)
    (hns : noSpaceFill pc inp = true) (out : List Char) (h : PaintLine.paintedLine pc inp = .ok out) :
    visible out = l.text := by
  rw [color_only_painted_bytes_show_input_line mc pc hpc hk hln k .unified raw 1 l inp hin hst hg hsec htext hns out h]
  exact co_hunk_line_text mc l c rest k ps.keep ps.tab0 hl hc hm

/-- … and of a combined-diff hunk line with any number `n` of parents (`classifyCombined_text`; `ColsOK`: prefix columns
that contain a `+` or `-` are ASCII): each line shows **its own** prefix columns followed by the rest of the line. -/
theorem color_only_painted_bytes_show_input_line_combined (mc : Machine.Cfg) (ps : Preset mc) (pc : PaintLine.Cfg)
    (hpc : PaintLineProofs.Cfg.wf pc) (hk : pc.keepMarkers = mc.keepMarkers) (hln : pc.lineNumbers = false)
    (n : Nat) (l : L) (k : LineKind) (dt : DiffType) (raw : Bool) (hcols : ColsOK n l = true)
    (hcl : classifyCombined n false l = some (k, dt))
    (inp : PaintLine.Input) (hin : PaintLineProofs.Input.ok inp) (hst : inp.st = stOf k dt raw) (hg : inp.gutter = [])
    (hsec : inp.sections ≠ [])
    (htext : ∀ pre, dt = .combined (.pre pre) false → sectionsText inp.sections = prepare mc (prefixBytes pre) l)
    (hns : noSpaceFill pc inp = true) (out : List Char) (h : PaintLine.paintedLine pc inp = .ok out) :
    visible out = l.text := by
  obtain ⟨pre, hdt, _, htxt⟩ := classifyCombined_text ps hcols hcl
  rw [color_only_painted_bytes_show_input_line mc pc hpc hk hln k dt raw (prefixBytes pre) l inp hin hst hg hsec
    (htext pre hdt) hns out h]
  exact htxt

/-- `hns` holds whenever the caller does not ask for the space fill — the removed / added lines (`paint_minus_and_plus_lines`:
`BgShouldFill::default()`, the ANSI fill) — whatever the styles and the arms of the fill decision: only context lines
(`paint_zero_line`) can be padded. -/
theorem no_space_fill_unless_requested (pc : PaintLine.Cfg) (inp : PaintLine.Input) (h : inp.bg ≠ .with_ .spaces) :
    noSpaceFill pc inp = true :=
  ColorOnlyPaintProofs.noSpaceFill_of_request pc inp h

/-- **A block of lines** (what one call of `paint_lines` writes: the removed lines or the added lines of a subhunk, or one
context line): every output line shows the prefix of its own state and its own text. -/
theorem color_only_painted_block_shows_each_line (pc : PaintLine.Cfg) (hpc : PaintLineProofs.Cfg.wf pc)
    (hln : pc.lineNumbers = false) (lines : List PaintLine.Input)
    (hl : ∀ inp ∈ lines, PaintLineProofs.Input.ok inp ∧ inp.gutter = [] ∧ noSpaceFill pc inp = true ∧ inp.sections ≠ [])
    (outs : List (List Char)) (h : paintedBlock pc lines = .ok outs) :
    outs.map visible = lines.map fun inp => shownPrefix pc inp.st ++ sectionsText inp.sections :=
  ColorOnlyPaintProofs.paintedBlock_shows pc hpc hln lines hl outs h

/-- A header row drawn raw (the raw styles of the presets) is the input line itself: without escape sequences it shows
itself. -/
theorem raw_row_shows_itself (l : List Char) (h : Term.ESC ∉ l) : visible l = l :=
  ColorOnlyPaintProofs.visible_raw l h

/-- the clusters of an ASCII text -/
def cl (s : String) : List Line.G := PaintLine.asciiClusters s.toList

def red : Sgr.Style := { fg := some (.basic 1) }
def onGreen : Sgr.Style := { bg := some (.fixed 22), bold := true }
def paintCfg : PaintLine.Cfg := { minusStyle := red, plusStyle := onGreen, keepMarkers := true }

/-- a removed block of a two-parent combined diff whose lines have *different* prefix columns, the second one in two
sections of different styles -/
def mixedBlock : List PaintLine.Input :=
  [{ st := stOf .minus (.combined (.pre "- ".toList) false) false, sections := [(red, cl "\tlet a = 1;")], bg := .with_ .ansi },
   { st := stOf .minus (.combined (.pre " -".toList) false) false,
     sections := [(red, cl "\tlet b = "), (onGreen, cl "2;")], bg := .with_ .ansi }]

/-- the hypotheses are met and the conclusion is what the model computes: each line keeps its own columns (with the first
line's prefix for the whole block the second line would read `- \tlet b = 2;`) -/
example : (match paintedBlock paintCfg mixedBlock with
    | .ok outs => outs.map visible == ["- \tlet a = 1;".toList, " -\tlet b = 2;".toList] &&
        outs.all (fun o => o.contains Term.ESC)
    | .error _ => false) = true := by decide
example : ∀ inp ∈ mixedBlock, inp.gutter = [] ∧ noSpaceFill paintCfg inp = true ∧ inp.sections ≠ [] := by decide

/-- `hns` is needed — and delta does this under `--color-only`: a context line is painted with the space fill requested
(`paint_zero_line`), so a `zero-style` with a background colour pads the line with blanks up to the terminal width: the
visible text of the output line is the input line **plus trailing blanks** (same on the binary:
`--color-only --zero-style 'normal red'`). -/
theorem zero_style_background_pads_context_lines :
    (match PaintLine.paintedLine { paintCfg with zeroStyle := { bg := some (.basic 1) }, availWidth := 8 }
        { st := stOf .zero .unified false, sections := [({ bg := some (.basic 1) }, cl "ctx")], bg := .with_ .spaces } with
     | .ok out => visible out
     | .error _ => []) = " ctx    ".toList := by decide

/-- `hsec` is needed: the prefix is pushed in front of the first section, so a line without any section shows nothing. -/
theorem prefix_needs_a_section :
    (match PaintLine.paintedLine paintCfg { st := stOf .plus .unified false, sections := [] } with
     | .ok out => visible out
     | .error _ => ['?']) = [] ∧ shownPrefix paintCfg (stOf .plus .unified false) = ['+'] := by decide

/-- `hln` is needed: with `--line-numbers` the marker of an empty line is a blank (and the gutter comes first). -/
theorem line_numbers_mark_empty_lines_with_a_blank :
    (match PaintLine.paintedLine { paintCfg with lineNumbers := true }
        { st := stOf .plus .unified false, sections := [(onGreen, [])], syntaxEmpty := true, emptyStyle := some onGreen,
          bg := .no } with
     | .ok out => visible out
     | .error _ => []) = "+ ".toList := by decide

end Painted

end C02
